(* Basic facts about paths, children lists and the content function of Trie/Model.v. *)
From NG Require Import Common.Tactics Trie.Model.

(* ---------- paths ---------- *)

Lemma strip_app k r : strip k (k ++ r) = Some r.
Proof. induction k; simpl; auto. now rewrite Nat.eqb_refl. Qed.

Lemma strip_some k p r : strip k p = Some r -> p = k ++ r.
Proof.
  revert p; induction k as [|x k IH]; intros p; simpl.
  - now intros [= ->].
  - destruct p as [|y p]; try discriminate. destruct (Nat.eqb_spec x y); try discriminate.
    intros H. apply IH in H. subst. reflexivity.
Qed.

Lemma strip_nil p : strip [] p = Some p.
Proof. reflexivity. Qed.

Lemma strip_app_l k k' q : strip (k ++ k') q = match strip k q with Some s => strip k' s | None => None end.
Proof.
  revert q; induction k as [|x k IH]; intros q; simpl; auto.
  destruct q as [|y q]; auto. destruct (Nat.eqb x y); auto.
Qed.

Lemma strip_none_app k p r : strip k p = None -> p <> k ++ r.
Proof. intros H E. subst. rewrite strip_app in H. discriminate. Qed.

Lemma is_prefix_true k p : is_prefix k p = true <-> exists r, p = k ++ r.
Proof.
  unfold is_prefix. destruct (strip k p) eqn:E.
  - split; auto. intros _. eexists. eapply strip_some; eauto.
  - split; [discriminate|]. intros [r ->]. rewrite strip_app in E. discriminate.
Qed.

Lemma path_eqb_refl a : path_eqb a a = true.
Proof. induction a; simpl; auto. now rewrite Nat.eqb_refl. Qed.

Lemma path_eqb_eq a b : path_eqb a b = true <-> a = b.
Proof.
  revert b; induction a as [|x a IH]; intros [|y b]; simpl; try (split; congruence).
  rewrite andb_true_iff, Nat.eqb_eq, IH. split; [intros [-> ->]; auto|intros [= -> ->]; auto].
Qed.

Lemma path_eqb_false a b : path_eqb a b = false <-> a <> b.
Proof. rewrite <- path_eqb_eq. destruct (path_eqb a b); split; congruence. Qed.

Lemma path_eqb_sym a b : path_eqb a b = path_eqb b a.
Proof.
  destruct (path_eqb a b) eqn:E; symmetry.
  - apply path_eqb_eq in E. subst. apply path_eqb_refl.
  - apply path_eqb_false. apply path_eqb_false in E. congruence.
Qed.

Lemma path_eqb_app k a b : path_eqb (k ++ a) (k ++ b) = path_eqb a b.
Proof. induction k; simpl; auto. now rewrite Nat.eqb_refl. Qed.

Lemma path_eqb_strip k q p : path_eqb q (k ++ p) = match strip k q with Some s => path_eqb s p | None => false end.
Proof.
  revert q; induction k as [|x k IH]; intros q; simpl; auto.
  destruct q as [|y q]; simpl; auto. rewrite (Nat.eqb_sym x y). destruct (Nat.eqb y x); simpl; auto.
Qed.

(* common k p = (c, kt, pt): k = c ++ kt, p = c ++ pt and the tails start differently *)
Lemma common_spec k p :
  let '(c, kt, pt) := common k p in
  k = c ++ kt /\ p = c ++ pt /\ match kt, pt with x :: _, y :: _ => x <> y | _, _ => True end.
Proof.
  revert p; induction k as [|x k IH]; intros p; simpl.
  - repeat split; auto.
  - destruct p as [|y p]; simpl.
    + repeat split; auto.
    + destruct (Nat.eqb_spec x y).
      * subst. specialize (IH p). destruct (common k p) as [[c kt] pt]. destruct IH as (-> & -> & H).
        repeat split; auto.
      * repeat split; auto.
Qed.

Lemma common_strip k p c pt : common k p = (c, [], pt) -> strip k p = Some pt /\ c = k.
Proof.
  intros E. pose proof (common_spec k p) as H. rewrite E in H. destruct H as (Hk & Hp & _).
  rewrite app_nil_r in Hk. subst c. subst p. split; auto. apply strip_app.
Qed.

Lemma common_nostrip k p c a kt pt : common k p = (c, a :: kt, pt) -> strip k p = None.
Proof.
  intros E. pose proof (common_spec k p) as H. rewrite E in H. destruct H as (Hk & Hp & Hd).
  subst k p. rewrite strip_app_l, strip_app. destruct pt as [|y pt]; simpl; auto.
  destruct (Nat.eqb_spec a y); congruence.
Qed.

(* ---------- children lists ---------- *)

Lemma length_upd i x l : length (upd i x l) = length l.
Proof. revert i; induction l; intros [|i]; simpl; auto. Qed.

Lemma nth_upd_same i x l : i < length l -> nth i (upd i x l) Empty = x.
Proof. revert i; induction l; intros [|i]; simpl; intros; try lia; auto. apply IHl. lia. Qed.

Lemma nth_upd_other i j x l : i <> j -> nth j (upd i x l) Empty = nth j l Empty.
Proof. revert i j; induction l; intros [|i] [|j]; simpl; intros; try congruence; auto. Qed.

Lemma upd_out i x l : length l <= i -> upd i x l = l.
Proof. revert i; induction l; intros [|i]; simpl; intros; try lia; auto. f_equal. apply IHl. lia. Qed.

Lemma Forall_upd (P : node -> Prop) i x l : Forall P l -> P x -> Forall P (upd i x l).
Proof.
  intros H Hx. revert i; induction H; intros [|i]; simpl; auto.
Qed.

Lemma nth_empties i : nth i empties Empty = Empty.
Proof. unfold empties. do 17 (destruct i as [|i]; [reflexivity|]). simpl. destruct i; reflexivity. Qed.

Lemma length_empties : length empties = 16.
Proof. reflexivity. Qed.

Lemma Forall_nth (P : node -> Prop) l i : Forall P l -> P Empty -> P (nth i l Empty).
Proof. intros H H0. revert i; induction H; intros [|i]; simpl; auto. Qed.

(* non-empty children *)
Lemma ne_from_length j k l : length (ne_from j l) = length (ne_from k l).
Proof. revert j k; induction l as [|c l IH]; intros j k; simpl; auto. destruct (is_empty c); simpl; auto. Qed.

Lemma ne_count_cons c l : ne_count (c :: l) = (if is_empty c then 0 else 1) + ne_count l.
Proof. unfold ne_count. simpl. destruct (is_empty c); simpl; rewrite (ne_from_length 1 0); reflexivity. Qed.

Lemma ne_count_app l l' : ne_count (l ++ l') = ne_count l + ne_count l'.
Proof. induction l; simpl; auto. rewrite !ne_count_cons. lia. Qed.

Lemma ne_count_single c : ne_count [c] = if is_empty c then 0 else 1.
Proof. rewrite ne_count_cons. unfold ne_count. simpl. lia. Qed.

Lemma ne_count_empties : ne_count empties = 0.
Proof. reflexivity. Qed.

Lemma ne_count_upd i x l : i < length l ->
  ne_count (upd i x l) + (if is_empty (nth i l Empty) then 0 else 1) = ne_count l + (if is_empty x then 0 else 1).
Proof.
  revert i; induction l as [|c l IH]; intros [|i] Hi; simpl in *; try lia.
  - rewrite !ne_count_cons. lia.
  - rewrite !ne_count_cons. specialize (IH i). lia.
Qed.

(* what a single entry of ne_from says *)
Lemma ne_from_In j c k l : In (j, c) (ne_from k l) <-> k <= j /\ j - k < length l /\ nth (j - k) l Empty = c /\ is_empty c = false.
Proof.
  revert k; induction l as [|d l IH]; intros k; simpl.
  - split; [tauto|]. intros (_ & H & _). lia.
  - destruct (is_empty d) eqn:E.
    + rewrite IH. split.
      * intros (H1 & H2 & H3 & H4). replace (j - k) with (S (j - S k)) by lia. repeat split; auto; lia.
      * intros (H1 & H2 & H3 & H4). destruct (j - k) as [|m] eqn:Em.
        -- subst c. congruence.
        -- replace (j - S k) with m by lia. repeat split; auto; lia.
    + simpl. rewrite IH. split.
      * intros [[= <- <-]|(H1 & H2 & H3 & H4)].
        -- rewrite Nat.sub_diag. repeat split; auto; lia.
        -- replace (j - k) with (S (j - S k)) by lia. repeat split; auto; lia.
      * intros (H1 & H2 & H3 & H4). destruct (j - k) as [|m] eqn:Em.
        -- left. subst c. f_equal. lia.
        -- right. replace (j - S k) with m by lia. repeat split; auto; lia.
Qed.

Lemma ne_from_single l j c : ne_from 0 l = [(j, c)] ->
  j < length l /\ nth j l Empty = c /\ is_empty c = false /\ forall i, i <> j -> nth i l Empty = Empty.
Proof.
  intros H.
  assert (Hin : In (j, c) (ne_from 0 l)) by (rewrite H; left; reflexivity).
  apply ne_from_In in Hin. rewrite Nat.sub_0_r in Hin. destruct Hin as (_ & H2 & H3 & H4).
  repeat split; auto. intros i Hi.
  destruct (is_empty (nth i l Empty)) eqn:E.
  - destruct (nth i l Empty); simpl in E; congruence.
  - assert (Hl : i < length l).
    { destruct (Nat.lt_ge_cases i (length l)); auto. rewrite nth_overflow in E by lia. discriminate. }
    assert (Hin : In (i, nth i l Empty) (ne_from 0 l)) by (apply ne_from_In; rewrite Nat.sub_0_r; repeat split; auto; lia).
    rewrite H in Hin. destruct Hin as [[= -> _]|[]]. congruence.
Qed.

Lemma ne_count_pos l : 1 <= ne_count l -> exists i, i < length l /\ is_empty (nth i l Empty) = false.
Proof.
  induction l as [|c l IH]; [unfold ne_count; simpl; lia|].
  rewrite ne_count_cons. destruct (is_empty c) eqn:E; simpl.
  - intros H. destruct (IH H) as [i [Hi He]]. exists (S i); split; [simpl; lia|exact He].
  - intros _. exists 0; split; [simpl; lia|exact E].
Qed.

(* ---------- content ---------- *)

Lemma content_branch_cons cs vc i r : content (Branch cs vc) (i :: r) = content (nth i cs Empty) r.
Proof. simpl. revert i; induction cs as [|c cs IH]; intros [|i]; simpl; auto. Qed.
Lemma content_branch_nil cs vc : content (Branch cs vc) [] = content vc [].
Proof. reflexivity. Qed.
Lemma content_ext k n p : content (Ext k n) p = match strip k p with Some r => content n r | None => None end.
Proof. reflexivity. Qed.
Lemma content_leaf v p : content (Leaf v) p = match p with [] => Some v | _ => None end.
Proof. reflexivity. Qed.
Lemma content_empty p : content Empty p = None.
Proof. reflexivity. Qed.
Lemma content_hash h p : content (HashRef h) p = None.
Proof. reflexivity. Qed.

Lemma content_new_sub k n q : content (new_sub k n) q = match strip k q with Some r => content n r | None => None end.
Proof. destruct k; reflexivity. Qed.

Lemma content_new_sub_leaf p v q : content (new_sub p (Leaf v)) q = if path_eqb q p then Some v else None.
Proof.
  rewrite content_new_sub. rewrite <- (app_nil_r p) at 2. rewrite path_eqb_strip.
  destruct (strip p q) as [[|x s]|]; reflexivity.
Qed.

Ltac ctn := rewrite ?content_branch_cons, ?content_branch_nil, ?content_ext, ?content_leaf, ?content_empty, ?content_hash.
Ltac ctn_in H := rewrite ?content_branch_cons, ?content_branch_nil, ?content_ext, ?content_leaf, ?content_empty, ?content_hash in H.

(* the local fixpoints of put/delete are [upd] *)
Lemma put_branch_cons cs vc i r v :
  put (Branch cs vc) (i :: r) v = Branch (upd i (put (nth i cs Empty) r v) cs) vc.
Proof.
  simpl. f_equal. revert i; induction cs as [|c cs IH]; intros [|i]; simpl; auto. now rewrite IH.
Qed.
Lemma put_branch_nil cs vc v : put (Branch cs vc) [] v = Branch cs (put vc [] v).
Proof. reflexivity. Qed.

Lemma delete_branch_cons cs vc i r :
  delete (Branch cs vc) (i :: r) = after_delete (upd i (delete (nth i cs Empty) r) cs) vc.
Proof.
  simpl. f_equal. revert i; induction cs as [|c cs IH]; intros [|i]; simpl; auto. now rewrite IH.
Qed.
Lemma delete_branch_nil cs vc : delete (Branch cs vc) [] = after_delete cs (delete vc []).
Proof. reflexivity. Qed.

(* ---------- normal form ---------- *)

Lemma NFne_not_empty t : NFne t -> is_empty t = false.
Proof. destruct 1; reflexivity. Qed.

Lemma NF_nth cs i : Forall (fun c => c = Empty \/ NFne c) cs -> NF (nth i cs Empty).
Proof. intros H. apply (Forall_nth (fun c => c = Empty \/ NFne c)); auto. Qed.

Lemma NFne_new_sub p n : path_ok p -> NFne n -> leaf_or_branch n -> NFne (new_sub p n).
Proof. intros. destruct p; simpl; auto. constructor; auto. discriminate. Qed.

Lemma path_ok_app a b : path_ok (a ++ b) <-> path_ok a /\ path_ok b.
Proof. apply Forall_app. Qed.
Lemma path_ok_cons x a : path_ok (x :: a) <-> x < 16 /\ path_ok a.
Proof. split; [intros H; inv H; auto|intros [? ?]; constructor; auto]. Qed.

Lemma vc_ok_NF vc : vc_ok vc -> NF vc.
Proof. destruct vc; simpl; try tauto; intros _; [left; auto|right; constructor]. Qed.

(* ---------- byte keys and nibble paths ---------- *)

Lemma to_nibbles_path_ok bs : Forall (fun b => (b < 256)%N) bs -> path_ok (to_nibbles bs).
Proof.
  induction 1 as [|b bs Hb Hbs IH]; simpl; [constructor|].
  apply path_ok_cons. split; [lia|]. apply path_ok_cons. split; [lia|]. exact IH.
Qed.

Lemma from_to_nibbles bs : Forall (fun b => (b < 256)%N) bs -> from_nibbles (to_nibbles bs) = bs.
Proof.
  induction 1 as [|b bs Hb Hbs IH]; simpl; [reflexivity|]. rewrite IH. f_equal.
  rewrite !N2Nat.id. lia.
Qed.

Lemma to_nibbles_spec bs : Forall (fun b => (b < 256)%N) bs ->
  path_ok (to_nibbles bs) /\ from_nibbles (to_nibbles bs) = bs.
Proof. intros H. split; [apply to_nibbles_path_ok|apply from_to_nibbles]; exact H. Qed.
