(* Reference counting of stored nodes (ModeLatest / ModeGC): the trie's cached view of the stored counters.
   Trie.refcount maps a node hash to (initial, refcount): [initial] is the stored counter as last seen (0 = not
   seen), [refcount] the pending change of the current block.  addRef/removeRef bump the pending change,
   getFromStore refreshes [initial] when it reloads a node that has an entry, RFlush applies the pending change
   (updateRefCount: the stored counter is read only when [initial] is 0), WRITES THE NEW COUNTER BACK into
   [initial], drops entries without pending change, RCollapse clears the map.
   Counters only (which hashes are bumped by Put/Delete is C11's model, coq/TrieRC); additive to Trie/Store.v.
   Theorem: after any sequence of bumps, reloads, flushes and (flushed) collapses the stored counter of every
   hash is the sum of its bumps — with the bumps of a block summing to the change of the occurrence counts, the
   occurrence count in the current trie.  Refuted for a RFlush that does not write the rc_cache back. *)
From NG Require Import Common.Tactics Trie.Model Trie.Store.
Local Open Scope Z_scope.

Record rcst := { rc_table : bytes -> Z;                    (* stored counter; 0 = no (active) record *)
                 rc_cache : bytes -> option (Z * Z) }.     (* Trie.refcount: (initial, pending change) *)

Inductive rc_ev :=
| RBump (h : bytes) (d : Z)      (* addRef / removeRef *)
| RReload (h : bytes)            (* getFromStore h succeeded *)
| RFlush
| RCollapse.

Definition rc_init : rcst := {| rc_table := fun _ => 0; rc_cache := fun _ => None |}.

Definition rc_pend (s : rcst) (x : bytes) : Z := match rc_cache s x with Some (_, p) => p | None => 0 end.

(* [wb]: RFlush writes the new counter back into the rc_cache (the code does; [false] is the refuted variant) *)
Definition rc_step (wb : bool) (s : rcst) (e : rc_ev) : rcst :=
  match e with
  | RBump h d =>
      {| rc_table := rc_table s;
         rc_cache := fun x => if bytes_eqb x h
                           then Some (match rc_cache s x with Some (i, p) => (i, p + d) | None => (0, d) end)
                           else rc_cache s x |}
  | RReload h =>
      {| rc_table := rc_table s;
         rc_cache := fun x => if bytes_eqb x h
                           then match rc_cache s x with
                                | Some (i, p) => if rc_table s x =? 0 then Some (i, p) else Some (rc_table s x, p)
                                | None => None
                                end
                           else rc_cache s x |}
  | RFlush =>
      let newc x i p := (if i =? 0 then rc_table s x else i) + p in
      {| rc_table := fun x => match rc_cache s x with
                           | Some (i, p) => if p =? 0 then rc_table s x else newc x i p
                           | None => rc_table s x
                           end;
         rc_cache := fun x => match rc_cache s x with
                           | Some (i, p) =>
                               if p =? 0 then None
                               else if newc x i p =? 0 then None
                                    else Some ((if wb then newc x i p else i), 0)
                           | None => None
                           end |}
  | RCollapse => {| rc_table := rc_table s; rc_cache := fun _ => None |}
  end.

Definition rc_run (wb : bool) (s : rcst) (evs : list rc_ev) : rcst := fold_left (rc_step wb) evs s.

(* RCollapse is only legal with nothing pending (Trie.Collapse: "RFlush should be called explicitly before") *)
Fixpoint rc_ok (wb : bool) (s : rcst) (evs : list rc_ev) : Prop :=
  match evs with
  | [] => True
  | RCollapse :: r => (forall x, rc_pend s x = 0) /\ rc_ok wb (rc_step wb s RCollapse) r
  | e :: r => rc_ok wb (rc_step wb s e) r
  end.

(* what the counters should be: the sum of the bumps *)
Fixpoint rc_want (evs : list rc_ev) (x : bytes) : Z :=
  match evs with
  | [] => 0
  | RBump h d :: r => (if bytes_eqb x h then d else 0) + rc_want r x
  | _ :: r => rc_want r x
  end.

(* the rc_cache is either ignorant or right *)
Definition rc_inv (s : rcst) : Prop := forall x i p, rc_cache s x = Some (i, p) -> i = 0 \/ i = rc_table s x.

Lemma step_inv s e : rc_inv s -> rc_inv (rc_step true s e).
Proof.
  intros Hi. destruct e as [h d|h| |]; intros x i p; simpl.
  - destruct (bytes_eqb x h); [|apply Hi]. destruct (rc_cache s x) as [[i0 p0]|] eqn:E; intros [= <- <-]; eauto.
  - destruct (bytes_eqb x h); [|apply Hi]. destruct (rc_cache s x) as [[i0 p0]|] eqn:E; [|discriminate].
    destruct (rc_table s x =? 0); intros [= <- <-]; eauto.
  - destruct (rc_cache s x) as [[i0 p0]|] eqn:E; [|discriminate].
    destruct (p0 =? 0); [discriminate|]. destruct (_ =? 0); [discriminate|]. intros [= <- <-]. auto.
  - discriminate.
Qed.

Lemma step_total s e x : rc_inv s -> match e with RCollapse => rc_pend s x = 0 | _ => True end ->
  rc_table (rc_step true s e) x + rc_pend (rc_step true s e) x =
  rc_table s x + rc_pend s x + match e with RBump h d => if bytes_eqb x h then d else 0 | _ => 0 end.
Proof.
  intros Hi Hc. destruct e as [h d|h| |]; unfold rc_pend; simpl.
  - destruct (bytes_eqb x h); [|lia]. destruct (rc_cache s x) as [[i0 p0]|]; lia.
  - destruct (bytes_eqb x h); [|lia]. destruct (rc_cache s x) as [[i0 p0]|]; [|lia]. destruct (rc_table s x =? 0); lia.
  - destruct (rc_cache s x) as [[i0 p0]|] eqn:E; [|lia].
    destruct (Hi x i0 p0 E) as [-> | ->].
    + simpl. destruct (Z.eqb_spec p0 0); [lia|]. destruct (_ =? 0); lia.
    + destruct (Z.eqb_spec p0 0); [lia|]. destruct (Z.eqb_spec (rc_table s x) 0) as [E0|E0]; [rewrite E0|]; destruct (_ =? 0); lia.
  - unfold rc_pend in Hc. lia.
Qed.

Theorem rc_exact_gen evs : forall s, rc_inv s -> rc_ok true s evs ->
  rc_inv (rc_run true s evs) /\
  forall x, rc_table (rc_run true s evs) x + rc_pend (rc_run true s evs) x = rc_table s x + rc_pend s x + rc_want evs x.
Proof.
  induction evs as [|e evs IH]; intros s Hi Hok; simpl; [split; auto; intros; lia|].
  assert (Hi' : rc_inv (rc_step true s e)) by (apply step_inv; auto).
  assert (Hok' : rc_ok true (rc_step true s e) evs) by (destruct e; simpl in Hok; tauto).
  destruct (IH _ Hi' Hok') as [HI HT]. split; auto. intros x. rewrite HT.
  rewrite step_total; auto; [destruct e; lia|]. destruct e; auto. simpl in Hok. apply Hok.
Qed.

Lemma pend_after_flush wb s x : rc_pend (rc_step wb s RFlush) x = 0.
Proof. unfold rc_pend. simpl. destruct (rc_cache s x) as [[i p]|]; auto. destruct (p =? 0); auto. destruct (_ =? 0); auto. Qed.

(* from an empty store: whenever the history ends with a RFlush every stored counter is the sum of the bumps *)
Theorem rc_exact evs x : rc_ok true rc_init (evs ++ [RFlush]) ->
  rc_table (rc_run true rc_init (evs ++ [RFlush])) x = rc_want evs x.
Proof.
  intros Hok. destruct (rc_exact_gen (evs ++ [RFlush]) rc_init) as [_ HT]; [intros y i p; discriminate|auto|].
  specialize (HT x).
  assert (Er : rc_run true rc_init (evs ++ [RFlush]) = rc_step true (rc_run true rc_init evs) RFlush) by (unfold rc_run; now rewrite fold_left_app).
  rewrite Er in *. rewrite pend_after_flush in HT.
  assert (E : rc_want (evs ++ [RFlush]) x = rc_want evs x).
  { clear. induction evs as [|[h d|h| |] evs IH]; simpl; auto. now rewrite IH. }
  rewrite E in HT. change (rc_table rc_init x) with 0 in HT. change (rc_pend rc_init x) with 0 in HT. lia.
Qed.

(* ---------- tied to tries: occurrence counts ---------- *)

Section Occ.
  Variable H : bytes -> bytes.

  Definition rc_occ (t : node) (h : bytes) : Z :=
    Z.of_nat (length (filter (fun n => bytes_eqb (hash H n) h) (nodes t))).

  (* a history of blocks: each replaces the trie and bumps counters by any list of bumps whose sum per hash is the
     change of the occurrence counts (what the addRef/removeRef calls of Put/Delete/PutBatch amount to),
     with reloads, flushes and flushed collapses anywhere *)
  Inductive rc_hist : list rc_ev -> node -> Prop :=
  | h_nil : rc_hist [] Empty
  | h_block evs t t' bumps :
      rc_hist evs t -> Forall (fun e => match e with RBump _ _ => True | _ => False end) bumps ->
      (forall h, rc_want bumps h = rc_occ t' h - rc_occ t h) -> rc_hist (evs ++ bumps) t'
  | h_reload evs t h : rc_hist evs t -> rc_hist (evs ++ [RReload h]) t
  | h_flush evs t : rc_hist evs t -> rc_hist (evs ++ [RFlush]) t
  | h_collapse evs t : rc_hist evs t -> rc_hist (evs ++ [RCollapse]) t.

  Lemma want_app a b x : rc_want (a ++ b) x = rc_want a x + rc_want b x.
  Proof. induction a as [|[h d|h| |] a IH]; simpl; auto. rewrite IH. lia. Qed.

  Lemma hist_want evs t : rc_hist evs t -> forall h, rc_want evs h = rc_occ t h.
  Proof.
    induction 1 as [|evs t t' bumps Hh IH Hb Hs|evs t h Hh IH|evs t Hh IH|evs t Hh IH]; intros x; rewrite ?want_app; simpl;
      try reflexivity; try (rewrite IH; lia); try (rewrite IH, Hs; lia).
  Qed.

  (* after every RFlush the stored counter of every hash is its number of occurrences in the current trie *)
  Theorem rc_counts_occurrences evs t h : rc_hist evs t -> rc_ok true rc_init (evs ++ [RFlush]) ->
    rc_table (rc_run true rc_init (evs ++ [RFlush])) h = rc_occ t h.
  Proof. intros Hh Hok. rewrite rc_exact by auto. now apply hist_want. Qed.
End Occ.

(* ---------- a RFlush that does not write the rc_cache back: refuted ---------- *)

(* one leaf hash L shared by two keys: put k1 (L+1), flush, collapse; put k2 (L+1), Get k1 reloads L while the change
   is pending, flush; delete k2 (L-1), flush (no collapse in between): L is still referenced once *)
Definition rc_witness : list rc_ev :=
  [RBump [1%N] 1; RFlush; RCollapse; RBump [1%N] 1; RReload [1%N]; RFlush; RBump [1%N] (-1); RFlush].

Theorem rc_flush_without_writeback_refuted :
  rc_ok false rc_init rc_witness /\
  rc_table (rc_run false rc_init rc_witness) [1%N] = 0 /\ rc_want rc_witness [1%N] = 1 /\
  rc_table (rc_run true rc_init rc_witness) [1%N] = 1.
Proof.
  split; [|vm_compute; auto].
  unfold rc_witness. Local Opaque rc_step. simpl. Local Transparent rc_step.
  split; auto. intros x. apply pend_after_flush.
Qed.
