(* Resolution is by VALUE: an update below one path leaves the sub-trie of every other path unchanged, also when the
   trie is collapsed and several hash nodes carry the same hash (byte-identical sub-tries): after Put/Delete through
   one of them, reads through the others still give the old content. *)
From NG Require Import Common.Tactics Trie.Model Trie.Lemmas Trie.PutDelete Trie.Merkle Trie.Store Trie.StoreProofs.

(* the sub-trie at path q, as a map *)
Definition below (t : node) (q : path) : fmap := fun r => content t (q ++ r).

Theorem put_frames_other_paths t p v q : NF t -> path_ok p -> is_prefix q p = false ->
  forall r, below (put t p v) q r = below t q r.
Proof.
  intros Ht Hp Hq r. unfold below. rewrite put_content by auto.
  destruct (path_eqb (q ++ r) p) eqn:E; auto. apply path_eqb_eq in E.
  assert (is_prefix q p = true) by (apply is_prefix_true; eauto). congruence.
Qed.

Theorem delete_frames_other_paths t p q : NF t -> is_prefix q p = false ->
  forall r, below (delete t p) q r = below t q r.
Proof.
  intros Ht Hq r. unfold below. rewrite delete_content by auto.
  destruct (path_eqb (q ++ r) p) eqn:E; auto. apply path_eqb_eq in E.
  assert (is_prefix q p = true) by (apply is_prefix_true; eauto). congruence.
Qed.

Section LazyFrame.
  Variable H : bytes -> bytes.
  Hypothesis H_len : forall x, length (H x) = 32.
  Variables (st : store) (t : node).
  Hypothesis Ht : NF t.
  Hypothesis Hb : bounded t.
  Hypothesis Hwf : store_wf H st.
  Hypothesis Hst : stored H st t.

  (* on any partial collapse c of t (equal sub-tries are hash nodes with EQUAL hashes): Put through the store, then Get
     of any key through the store, answers as the map update does — in particular every key outside the updated path
     keeps its value, whichever of the equal hash nodes it is read through *)
  Theorem lazy_put_then_get c fuel p v : pcol H c t -> path_ok p -> height t + 1 <= fuel ->
    collision H \/
    exists c', sput fuel st c p v = Some c' /\
               forall q fuel', height (put t p v) + 1 <= fuel' ->
                 sget fuel' st c' q = if path_eqb q p then Some v else content t q.
  Proof.
    intros Hc Hp Hf. destruct (stored_good H st t Hwf Hst) as [Hg|Hcol]; [right|left; auto].
    assert (Hcc : col H st c t) by (apply pcol_col; auto).
    destruct (sput_col H H_len st t c fuel p v Hcc Hf) as (c' & Hs & Hc').
    exists c'. split; auto. intros q fuel' Hf'. rewrite (sget_col H H_len st _ c' fuel' q Hc' Hf').
    now apply put_content.
  Qed.

  Theorem lazy_delete_then_get c fuel p : pcol H c t -> height t + 1 <= fuel ->
    collision H \/
    exists c', sdelete fuel st c p = Some c' /\
               forall q fuel', height (delete t p) + 1 <= fuel' ->
                 sget fuel' st c' q = if path_eqb q p then None else content t q.
  Proof.
    intros Hc Hf. destruct (stored_good H st t Hwf Hst) as [Hg|Hcol]; [right|left; auto].
    assert (Hcc : col H st c t) by (apply pcol_col; auto).
    destruct (sdelete_col H H_len st t Ht c fuel p Hcc Hf) as (c' & Hs & Hc' & _).
    exists c'. split; auto. intros q fuel' Hf'. rewrite (sget_col H H_len st _ c' fuel' q Hc' Hf').
    now apply delete_content.
  Qed.
End LazyFrame.
