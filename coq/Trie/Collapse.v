(* Trie.Collapse replaces sub-tries by their hashes: the encoding and the hash of every remaining node,
   hence the root, are unchanged (for any hash function). *)
From NG Require Import Common.Tactics Trie.Model Trie.Lemmas.

Section Collapse.
  Variable H : bytes -> bytes.

  Lemma enc_ext' k n : enc H (Ext k n) = 1%N :: var_bytes (map N.of_nat k) ++ child_ref H n.
  Proof. destruct n; reflexivity. Qed.

  Lemma enc_branch' cs vc : enc H (Branch cs vc) = 0%N :: flat_map (child_ref H) cs ++ child_ref H vc.
  Proof.
    simpl. f_equal. f_equal.
    - apply flat_map_ext. intros c. destruct c; reflexivity.
    - destruct vc; reflexivity.
  Qed.

  Lemma collapse_empty d t : is_empty (collapse H d t) = is_empty t.
  Proof. destruct t; destruct d; reflexivity. Qed.

  Lemma child_ref_hash c c' : is_empty c' = is_empty c -> hash H c' = hash H c -> child_ref H c' = child_ref H c.
  Proof.
    intros He Hh. unfold child_ref. destruct c; destruct c'; simpl in He; try discriminate; try reflexivity; now rewrite Hh.
  Qed.

  Theorem collapse_hash t : forall d, hash H (collapse H d t) = hash H t.
  Proof.
    induction t as [|w|k n IH|cs vc IHcs IHvc|h] using node_ind2; intros d; try (destruct d; reflexivity).
    - destruct d as [|d]; [reflexivity|]. cbn [collapse].
      change (hash H (Ext k (collapse H d n))) with (H (H (enc H (Ext k (collapse H d n))))).
      change (hash H (Ext k n)) with (H (H (enc H (Ext k n)))).
      rewrite !enc_ext'. rewrite (child_ref_hash n (collapse H d n)); auto. apply collapse_empty.
    - destruct d as [|d]; [reflexivity|]. cbn [collapse].
      change (hash H (Branch (map (collapse H d) cs) (collapse H d vc))) with (H (H (enc H (Branch (map (collapse H d) cs) (collapse H d vc))))).
      change (hash H (Branch cs vc)) with (H (H (enc H (Branch cs vc)))).
      rewrite !enc_branch'. rewrite (child_ref_hash vc (collapse H d vc)); auto using collapse_empty.
      do 4 f_equal. rewrite flat_map_concat_map, map_map, <- flat_map_concat_map.
      induction IHcs as [|c cs Hc Hcs IH]; simpl; auto. rewrite IH.
      rewrite (child_ref_hash c (collapse H d c)); auto. apply collapse_empty.
  Qed.

  Corollary collapse_root t d : root H (collapse H d t) = root H t.
  Proof.
    unfold root. pose proof (collapse_empty d t) as He. pose proof (collapse_hash t d) as Hh.
    destruct t; destruct (collapse H d _) eqn:E; simpl in He; try discriminate; auto.
  Qed.
End Collapse.
