(* Flush / Collapse / reload from the store are transparent: the operations of Trie/Store.v on a collapsed
   trie agree with the operations of Trie/Model.v on the expanded trie, up to an exhibited collision of H o H. *)
From NG Require Import Common.Tactics Trie.Model Trie.Lemmas Trie.PutDelete Trie.Unique Trie.Batch Trie.Range
  Trie.Collapse Trie.Merkle Trie.Store.

(* ---------- lists related pointwise ---------- *)

Lemma Forall2_nth_def {A} (R : A -> A -> Prop) d l l' i : R d d -> Forall2 R l l' -> R (nth i l d) (nth i l' d).
Proof. intros Hd H. revert i; induction H; intros [|i]; simpl; auto. Qed.

Lemma Forall2_upd (R : node -> node -> Prop) i x y l l' : R x y -> Forall2 R l l' -> Forall2 R (upd i x l) (upd i y l').
Proof. intros Hx H. revert i; induction H; intros [|i]; simpl; auto. Qed.

Lemma Forall2_len {A B} (R : A -> B -> Prop) l l' : Forall2 R l l' -> length l = length l'.
Proof. induction 1; simpl; auto. Qed.

Lemma Forall2_refl {A} (R : A -> A -> Prop) l : Forall (fun x => R x x) l -> Forall2 R l l.
Proof. induction 1; auto. Qed.

Section StoreProofs.
  Variable H : bytes -> bytes.
  Hypothesis H_len : forall x, length (H x) = 32.

  (* the store holds, for every node of t, that node's own encoding *)
  Definition good (st : store) (t : node) : Prop :=
    forall n, In n (nodes t) -> store_lookup st (hash H n) = Some (enc H n).

  (* c is a partial collapse of the expanded trie t, and everything collapsed is in the store *)
  Inductive col (st : store) : node -> node -> Prop :=
  | col_hash t : NFne t -> bounded t -> good st t -> col st (HashRef (hash H t)) t
  | col_empty : col st Empty Empty
  | col_leaf v : col st (Leaf v) (Leaf v)
  | col_ext k c n : col st c n -> col st (Ext k c) (Ext k n)
  | col_branch cs cs' vc vc' : Forall2 (col st) cs cs' -> col st vc vc' -> col st (Branch cs vc) (Branch cs' vc').

  Definition not_hash (t : node) : Prop := match t with HashRef _ => False | _ => True end.
  Definition is_leaf (t : node) : Prop := match t with Leaf _ => True | _ => False end.

  Lemma col_is_empty st c t : col st c t -> is_empty c = is_empty t.
  Proof. destruct 1; auto. symmetry. now apply NFne_not_empty. Qed.

  (* ---------- the nodes of a trie ---------- *)

  Lemma nodes_self t : NFne t -> In t (nodes t).
  Proof. destruct 1; simpl; auto. Qed.

  Lemma nodes_ext k n x : In x (nodes n) -> In x (nodes (Ext k n)).
  Proof. simpl; auto. Qed.

  Lemma nodes_branch_kid cs vc c x : In c cs -> In x (nodes c) -> In x (nodes (Branch cs vc)).
  Proof. intros Hc Hx. simpl. right. apply in_or_app. left. apply in_flat_map. eauto. Qed.

  Lemma nodes_branch_vc cs vc x : In x (nodes vc) -> In x (nodes (Branch cs vc)).
  Proof. intros Hx. simpl. right. apply in_or_app. auto. Qed.

  Lemma good_ext st k n : good st (Ext k n) -> good st n.
  Proof. intros Hg x Hx. apply Hg. now apply nodes_ext. Qed.
  Lemma good_kid st cs vc c : good st (Branch cs vc) -> In c cs -> good st c.
  Proof. intros Hg Hc x Hx. apply Hg. eapply nodes_branch_kid; eauto. Qed.
  Lemma good_vc st cs vc : good st (Branch cs vc) -> good st vc.
  Proof. intros Hg x Hx. apply Hg. now apply nodes_branch_vc. Qed.

  Lemma nodes_hash t n : In n (nodes t) -> hash H n = H (H (enc H n)) /\ not_hash n /\ is_empty n = false.
  Proof.
    induction t as [|w|k m IH|cs vc IHcs IHvc|h] using node_ind2; simpl; try tauto.
    - intros [<-|[]]. repeat split.
    - intros [<-|Hin]; [repeat split|auto].
    - intros [<-|Hin]; [repeat split|]. apply in_app_or in Hin. destruct Hin as [Hin|Hin]; auto.
      apply in_flat_map in Hin. destruct Hin as (c & Hc & Hn). rewrite Forall_forall in IHcs. eauto.
  Qed.

  (* ---------- a collapsed node resolves to the node with its children as references ---------- *)

  Lemma col_ref st c : bounded c -> good st c -> c = Empty \/ NFne c -> col st (ref H c) c.
  Proof.
    intros Hb Hg [->|Hc]; [constructor|]. rewrite (ref_nonempty H c Hc). now constructor.
  Qed.

  Lemma col_refs st cs : (forall c, In c cs -> bounded c /\ good st c /\ (c = Empty \/ NFne c)) ->
    Forall2 (col st) (map (ref H) cs) cs.
  Proof.
    induction cs as [|c cs IH]; intros Hall; simpl; constructor.
    - destruct (Hall c) as (Hb & Hg & Hn); [left; auto|]. apply col_ref; auto.
    - apply IH. intros x Hx. apply Hall. right; auto.
  Qed.

  Lemma col_shallow st t : NFne t -> bounded t -> good st t -> col st (shallow H t) t.
  Proof.
    intros Ht Hb Hg. destruct t as [|w|k n|cs vc|h]; try (inv Ht; fail); simpl.
    - constructor.
    - inv Ht. inv Hb. constructor. apply col_ref; auto. eapply good_ext; eauto.
    - inversion Ht as [| |cs0 vc0 Hlen Hall Hvc Hcnt]; subst. inversion Hb as [| | | |cs0 vc0 Hbcs Hbvc]; subst.
      constructor.
      + apply col_refs. intros c Hc. rewrite Forall_forall in Hall, Hbcs. repeat split; auto. eapply good_kid; eauto.
      + apply col_ref; auto; [eapply good_vc; eauto|apply vc_ok_NF; auto].
  Qed.

  Lemma store_get_good st t : NFne t -> bounded t -> good st t -> store_get st (hash H t) = Some (shallow H t).
  Proof.
    intros Ht Hb Hg. unfold store_get. rewrite (Hg t (nodes_self t Ht)).
    destruct (enc_length_pos H t Ht) as [m Hm]. rewrite Hm.
    rewrite <- (app_nil_r (enc H t)). rewrite (decode_shallow H H_len) by (auto; lia).
    destruct t; try (inv Ht; fail); reflexivity.
  Qed.

  Lemma col_resolve1 st c t : col st c t ->
    exists c1, resolve1 st c = Some c1 /\ col st c1 t /\ not_hash c1.
  Proof.
    intros Hc. destruct Hc as [t Ht Hb Hg| |v|k c n Hn|cs cs' vc vc' Hcs Hvc].
    - exists (shallow H t). simpl. rewrite store_get_good by auto. repeat split; [apply col_shallow; auto|].
      destruct t; try (inv Ht; fail); exact I.
    - exists Empty. repeat split. constructor.
    - exists (Leaf v). repeat split. constructor.
    - exists (Ext k c). repeat split. now constructor.
    - exists (Branch cs vc). repeat split. now constructor.
  Qed.

  (* ---------- a collapse has the same encoding, hash and root ---------- *)

  Lemma flat_child_ref st cs0 cs : Forall2 (col st) cs0 cs ->
    Forall (fun t => forall c, col st c t -> hash H c = hash H t /\ (not_hash c -> enc H c = enc H t)) cs ->
    flat_map (child_ref H) cs0 = flat_map (child_ref H) cs.
  Proof.
    induction 1 as [|c0 c l0 l Hc0 Hl IHl]; intros Hall; simpl; auto. inv Hall. rewrite IHl by auto.
    destruct (H2 _ Hc0) as [Hh0 _]. rewrite (child_ref_hash H c c0); auto. now apply col_is_empty in Hc0.
  Qed.

  Lemma col_enc_hash st t : forall c, col st c t ->
    hash H c = hash H t /\ (not_hash c -> enc H c = enc H t).
  Proof.
    induction t as [|w|k n IH|cs vc IHcs IHvc|h] using node_ind2; intros c Hc; inversion Hc; subst;
      try (split; [reflexivity|intros []]); try (split; reflexivity).
    - (* Ext *)
      match goal with Hn : col st _ n |- _ => destruct (IH _ Hn) as [Hh _]; pose proof (col_is_empty _ _ _ Hn) as He end.
      assert (E : enc H (Ext k c0) = enc H (Ext k n)).
      { rewrite !(enc_ext' H). now rewrite (child_ref_hash H n c0) by auto. }
      split; [|auto]. change (H (H (enc H (Ext k c0))) = H (H (enc H (Ext k n)))). now rewrite E.
    - (* Branch *)
      assert (E : enc H (Branch cs0 vc0) = enc H (Branch cs vc)).
      { rewrite !(enc_branch' H).
        match goal with Hv : col st vc0 vc |- _ => destruct (IHvc _ Hv) as [Hh _]; pose proof (col_is_empty _ _ _ Hv) as He end.
        rewrite (child_ref_hash H vc vc0) by auto. do 2 f_equal. eapply flat_child_ref; eauto. }
      split; [|auto]. change (H (H (enc H (Branch cs0 vc0))) = H (H (enc H (Branch cs vc)))). now rewrite E.
  Qed.

  Lemma col_root st c t : col st c t -> root H c = root H t.
  Proof.
    intros Hc. destruct (col_enc_hash st t c Hc) as [Hh _]. pose proof (col_is_empty _ _ _ Hc) as He.
    unfold root. destruct c; destruct t; simpl in He; try discriminate; auto.
  Qed.

  (* ---------- expansion gives the trie back ---------- *)

  Lemma mapo_Forall2 {A B} (R : A -> B -> Prop) (f : A -> option B) l0 l :
    Forall2 R l0 l -> (forall x0 x, In x l -> R x0 x -> f x0 = Some x) -> mapo f l0 = Some l.
  Proof.
    induction 1 as [|x0 x l0 l Hx Hl IH]; intros Hf; simpl; auto.
    rewrite (Hf x0 x) by (simpl; auto). rewrite IH; auto. intros. apply Hf; simpl; auto.
  Qed.

  Lemma height_kid cs vc c : In c cs -> height c < height (Branch cs vc).
  Proof.
    intros Hc. simpl. apply Nat.lt_succ_r. etransitivity; [|apply Nat.le_max_l].
    induction cs as [|d cs IH]; simpl in *; [tauto|]. destruct Hc as [->|Hc]; [apply Nat.le_max_l|].
    etransitivity; [apply IH; auto|apply Nat.le_max_r].
  Qed.
  Lemma height_vc cs vc : height vc < height (Branch cs vc).
  Proof. simpl. apply Nat.lt_succ_r. apply Nat.le_max_r. Qed.

  Theorem expand_col st t : forall c fuel, col st c t -> height t + 1 <= fuel -> expand fuel st c = Some t.
  Proof.
    induction t as [|w|k n IH|cs vc IHcs IHvc|h] using node_ind2; intros c fuel Hc Hf;
      (destruct fuel as [|f]; [lia|]); destruct (col_resolve1 st c _ Hc) as (c1 & Hr & Hc1 & Hnh);
      cbn [expand]; rewrite Hr; inversion Hc1; subst; try (simpl in Hnh; tauto); try reflexivity.
    - match goal with Hn : col st _ n |- _ => rewrite (IH _ f Hn) by (simpl in Hf; lia) end. reflexivity.
    - match goal with Hv : col st _ vc |- _ => rewrite (IHvc _ f Hv) by (pose proof (height_vc cs vc); lia) end.
      match goal with Hl : Forall2 (col st) _ cs |- _ => rewrite (mapo_Forall2 (col st) (expand f st) _ cs Hl) end; [reflexivity|].
      intros x0 x Hx Hx0. rewrite Forall_forall in IHcs. apply IHcs; auto.
      pose proof (height_kid cs vc x Hx). lia.
  Qed.

  (* ---------- Get ---------- *)

  Ltac step_resolve st c Hc :=
    let c1 := fresh "c1" in let Hr := fresh "Hr" in let Hc1 := fresh "Hc1" in let Hnh := fresh "Hnh" in
    destruct (col_resolve1 st c _ Hc) as (c1 & Hr & Hc1 & Hnh).

  Lemma col_nth st cs0 cs i : Forall2 (col st) cs0 cs -> col st (nth i cs0 Empty) (nth i cs Empty).
  Proof. apply Forall2_nth_def. constructor. Qed.

  Lemma height_nth cs vc i : i < length cs -> height (nth i cs Empty) < height (Branch cs vc).
  Proof. intros Hi. apply height_kid. now apply nth_In. Qed.

  Theorem sget_col st t : forall c fuel p, col st c t -> height t + 1 <= fuel -> sget fuel st c p = content t p.
  Proof.
    induction t as [|w|k n IH|cs vc IHcs IHvc|h] using node_ind2; intros c fuel p Hc Hf;
      (destruct fuel as [|f]; [lia|]); step_resolve st c Hc;
      cbn [sget]; rewrite Hr; inversion Hc1; subst; try (simpl in Hnh; tauto); try reflexivity.
    - ctn. destruct (strip k p) as [r|]; auto.
      match goal with Hn : col st _ n |- _ => apply (IH _ f r Hn) end. simpl in Hf. lia.
    - destruct p as [|i r]; ctn.
      + match goal with Hv : col st _ vc |- _ => apply (IHvc _ f [] Hv) end. pose proof (height_vc cs vc); lia.
      + assert (Hl : Forall2 (col st) cs0 cs) by assumption.
        pose proof (col_nth st _ cs i Hl) as Hi. pose proof (Forall2_len _ _ _ Hl) as Hlen.
        destruct (Nat.lt_ge_cases i (length cs)) as [Hlt|Hge].
        * rewrite Forall_forall in IHcs. apply IHcs; auto; [apply nth_In; auto|]. pose proof (height_nth cs vc i Hlt); lia.
        * rewrite (nth_overflow cs) by lia. rewrite nth_overflow by lia. destruct f; reflexivity.
  Qed.

  (* ---------- Put ---------- *)

  Lemma col_empties st : Forall2 (col st) empties empties.
  Proof. unfold empties. simpl. repeat constructor. Qed.

  Lemma col_new_sub st k c n : col st c n -> col st (new_sub k c) (new_sub k n).
  Proof. intros Hc. destruct k; simpl; auto. now constructor. Qed.

  Lemma col_put_empty st p v : col st (put Empty p v) (put Empty p v).
  Proof. simpl. apply col_new_sub. constructor. Qed.

  Lemma col_put_leaf st w p v : col st (put (Leaf w) p v) (put (Leaf w) p v).
  Proof.
    destruct p as [|i r]; simpl; [constructor|]. constructor; [|constructor].
    apply Forall2_upd; [apply col_new_sub; constructor|apply col_empties].
  Qed.

  Lemma col_split_branch st a kt c n pt v : col st c n ->
    col st (split_branch a kt c pt v) (split_branch a kt n pt v).
  Proof.
    intros Hc. unfold split_branch. destruct pt as [|i r]; constructor; try constructor.
    - apply Forall2_upd; [now apply col_new_sub|apply col_empties].
    - apply Forall2_upd; [apply col_new_sub; constructor|].
      apply Forall2_upd; [now apply col_new_sub|apply col_empties].
  Qed.

  Theorem sput_col st t : forall c fuel p v, col st c t -> height t + 1 <= fuel ->
    exists c', sput fuel st c p v = Some c' /\ col st c' (put t p v).
  Proof.
    induction t as [|w|k n IH|cs vc IHcs IHvc|h] using node_ind2; intros c fuel p v Hc Hf;
      (destruct fuel as [|f]; [lia|]); step_resolve st c Hc;
      cbn [sput]; rewrite Hr; inversion Hc1; subst; try (simpl in Hnh; tauto).
    - eexists; split; [reflexivity|apply col_put_empty].
    - eexists; split; [reflexivity|apply col_put_leaf].
    - assert (Hn : col st c0 n) by assumption.
      destruct (common k p) as [[pre kt] pt] eqn:E. destruct kt as [|a kt].
      + rewrite (put_ext_pref _ _ _ _ _ _ E).
        destruct (IH c0 f pt v Hn) as (c' & Hs & Hc'); [simpl in Hf; lia|]. rewrite Hs. simpl.
        eexists; split; [reflexivity|now constructor].
      + eexists; split; [reflexivity|]. rewrite !(put_ext_split _ _ _ _ _ _ _ _ E).
        destruct pre; [|constructor]; now apply col_split_branch.
    - assert (Hl : Forall2 (col st) cs0 cs) by assumption. assert (Hv : col st vc0 vc) by assumption.
      destruct p as [|i r].
      + rewrite put_branch_nil. destruct (IHvc vc0 f [] v Hv) as (c' & Hs & Hc'); [pose proof (height_vc cs vc); lia|].
        rewrite Hs. simpl. eexists; split; [reflexivity|now constructor].
      + rewrite put_branch_cons. pose proof (col_nth st _ cs i Hl) as Hi. pose proof (Forall2_len _ _ _ Hl) as Hlen.
        destruct (Nat.lt_ge_cases i (length cs)) as [Hlt|Hge].
        * rewrite Forall_forall in IHcs.
          destruct (IHcs _ (nth_In cs Empty Hlt) _ f r v Hi) as (c' & Hs & Hc'); [pose proof (height_nth cs vc i Hlt); lia|].
          rewrite Hs. simpl. eexists; split; [reflexivity|]. constructor; auto. now apply Forall2_upd.
        * rewrite (nth_overflow cs0), (nth_overflow cs) by lia.
          destruct f as [|f]; [simpl in Hf; lia|]. simpl sput. simpl omap.
          rewrite !upd_out by lia. eexists; split; [reflexivity|now constructor].
  Qed.

  (* ---------- Delete ---------- *)

  (* a hash node handed back by Delete stands for a leaf (deleteFromExtension keeps it without looking) *)
  Definition hash_leaf (c d : node) : Prop := match c with HashRef _ => is_leaf d | _ => True end.

  Lemma ne_from_col st l0 l : Forall2 (col st) l0 l -> forall j,
    Forall2 (fun a b => fst a = fst b /\ col st (snd a) (snd b)) (ne_from j l0) (ne_from j l).
  Proof.
    induction 1 as [|c0 c l0 l Hc Hl IH]; intros j; simpl; [constructor|].
    rewrite (col_is_empty _ _ _ Hc). destruct (is_empty c); auto.
  Qed.

  Lemma safter_delete_col st cs0 cs vc0 vc : Forall2 (col st) cs0 cs -> col st vc0 vc ->
    length cs = 16 -> vc_ok vc ->
    exists c', safter_delete st cs0 vc0 = Some c' /\ col st c' (after_delete cs vc) /\ hash_leaf c' (after_delete cs vc).
  Proof.
    intros Hl Hv Hlen Hvc. unfold safter_delete, after_delete.
    assert (Hall : Forall2 (col st) (cs0 ++ [vc0]) (cs ++ [vc])) by (apply Forall2_app; auto).
    pose proof (ne_from_col st _ _ Hall 0) as Hne.
    destruct (ne_from 0 (cs ++ [vc])) as [|[j c] [|e2 rest]] eqn:E; inversion Hne as [|[j0 c0] b l0' l' [Hj Hc0] Htl]; subst.
    - eexists; repeat split. repeat constructor.
    - inversion Htl; subst. simpl in Hj. subst j0. simpl in Hc0.
      destruct (Nat.eqb_spec j 16) as [->|Hj16].
      + exists c0. repeat split; auto.
        apply ne_from_single in E. destruct E as (_ & Hnth & Hne' & _).
        rewrite app_nth2 in Hnth by lia. rewrite Hlen, Nat.sub_diag in Hnth. simpl in Hnth. subst c.
        destruct vc; simpl in Hvc, Hne'; try tauto; try discriminate. destruct c0; exact I.
      + step_resolve st c0 Hc0. rewrite Hr.
        inversion Hc1; subst; try (simpl in Hnh; tauto); eexists; (split; [reflexivity|]); split; try exact I; repeat constructor; auto.
    - inversion Htl; subst. eexists; repeat split. now constructor.
  Qed.

  Theorem sdelete_col st t : NF t -> forall c fuel p, col st c t -> height t + 1 <= fuel ->
    exists c', sdelete fuel st c p = Some c' /\ col st c' (delete t p) /\ hash_leaf c' (delete t p).
  Proof.
    induction t as [|w|k n IH|cs vc IHcs IHvc|h] using node_ind2; intros Ht c fuel p Hc Hf;
      (destruct fuel as [|f]; [lia|]); step_resolve st c Hc;
      cbn [sdelete]; rewrite Hr; inversion Hc1; subst; try (simpl in Hnh; tauto).
    - eexists; repeat split. constructor.
    - destruct p; eexists; repeat split; constructor.
    - assert (Hn : col st c0 n) by assumption.
      destruct Ht as [Ht|Ht]; [discriminate|]. inversion Ht as [|k1 n1 Hk Hpk Hnn Hlb|]; subst.
      simpl delete. destruct (strip k p) as [r|].
      + destruct (IH (or_intror Hnn) c0 f r Hn) as (cd & Hs & Hcd & Hhl); [simpl in Hf; lia|]. rewrite Hs.
        inversion Hcd as [t0 Ht0 Hb0 Hg0| |w0|k0 c2 n2 Hc2|cs2 cs2' vc2 vc2' Hl2 Hv2]; subst;
          try (match goal with Hx : _ = delete n r |- _ => rewrite <- Hx end).
        * (* a hash node: a leaf behind it *)
          simpl in Hhl. destruct (delete n r); simpl in Hhl; try tauto.
          eexists; repeat split. now constructor.
        * eexists; repeat split. constructor.
        * eexists; repeat split. constructor. constructor.
        * eexists; repeat split. now constructor.
        * eexists; repeat split. constructor. now constructor.
      + eexists; repeat split. now constructor.
    - assert (Hl : Forall2 (col st) cs0 cs) by assumption. assert (Hv : col st vc0 vc) by assumption.
      destruct Ht as [Ht|Ht]; [discriminate|]. inversion Ht as [| |cs1 vc1 Hlen Hall Hvc Hcnt]; subst.
      destruct p as [|i r].
      + rewrite delete_branch_nil.
        destruct (IHvc (vc_ok_NF vc Hvc) vc0 f [] Hv) as (c' & Hs & Hc' & _); [pose proof (height_vc cs vc); lia|].
        rewrite Hs. apply safter_delete_col; auto. destruct vc; simpl in *; tauto.
      + rewrite delete_branch_cons. pose proof (col_nth st _ cs i Hl) as Hi. pose proof (Forall2_len _ _ _ Hl) as Hlen'.
        destruct (Nat.lt_ge_cases i (length cs)) as [Hlt|Hge].
        * rewrite Forall_forall in IHcs.
          destruct (IHcs _ (nth_In cs Empty Hlt) (NF_nth cs i Hall) _ f r Hi) as (c' & Hs & Hc' & _); [pose proof (height_nth cs vc i Hlt); lia|].
          rewrite Hs. apply safter_delete_col; auto; [now apply Forall2_upd|now rewrite length_upd].
        * rewrite (nth_overflow cs0), (nth_overflow cs) by lia.
          destruct f as [|f]; [simpl in Hf; lia|]. simpl sdelete. rewrite !upd_out by lia.
          apply safter_delete_col; auto.
  Qed.

  (* ---------- GetProof ---------- *)

  Theorem sget_proof_col st t : forall c fuel p, col st c t -> height t + 1 <= fuel ->
    sget_proof H fuel st c p = get_proof H t p.
  Proof.
    induction t as [|w|k n IH|cs vc IHcs IHvc|h] using node_ind2; intros c fuel p Hc Hf;
      (destruct fuel as [|f]; [lia|]); step_resolve st c Hc;
      cbn [sget_proof]; rewrite Hr; pose proof (col_enc_hash st _ _ Hc1) as [_ He]; specialize (He Hnh);
      inversion Hc1; subst; try (simpl in Hnh; tauto); try reflexivity.
    - assert (Hn : col st c0 n) by assumption. rewrite He. cbn [get_proof]. destruct (strip k p) as [r|]; auto.
      rewrite (IH c0 f r Hn) by (simpl in Hf; lia). reflexivity.
    - assert (Hl : Forall2 (col st) cs0 cs) by assumption. assert (Hv : col st vc0 vc) by assumption.
      rewrite He. destruct p as [|i r].
      + rewrite (IHvc vc0 f [] Hv) by (pose proof (height_vc cs vc); lia). reflexivity.
      + rewrite (get_proof_branch_cons H). pose proof (col_nth st _ cs i Hl) as Hi. pose proof (Forall2_len _ _ _ Hl) as Hlen.
        destruct (Nat.lt_ge_cases i (length cs)) as [Hlt|Hge].
        * rewrite Forall_forall in IHcs. rewrite (IHcs _ (nth_In cs Empty Hlt) _ f r Hi) by (pose proof (height_nth cs vc i Hlt); lia).
          reflexivity.
        * rewrite (nth_overflow cs0), (nth_overflow cs) by lia. destruct f; reflexivity.
  Qed.

  (* ---------- ordered traversal, non-strict lookup, Seek ---------- *)

  Lemma kids_loop_rel {A} (R : node -> node -> Prop) (f0 f : node -> nat -> list A) bw l0 l :
    Forall2 R l0 l -> (forall x0 x j, In x l -> R x0 x -> f0 x0 j = f x j) ->
    forall j, kids_loop f0 bw l0 j = kids_loop f bw l j.
  Proof.
    induction 1 as [|x0 x l0 l Hx Hl IH]; intros Hf j; simpl; auto.
    rewrite (Hf x0 x j) by (simpl; auto). rewrite IH; auto. intros. apply Hf; simpl; auto.
  Qed.

  Theorem straverse_col st t : forall c fuel pth from bw, col st c t -> height t + 1 <= fuel ->
    straverse fuel st c pth from bw = traverse t pth from bw.
  Proof.
    induction t as [|w|k n IH|cs vc IHcs IHvc|h] using node_ind2; intros c fuel pth from bw Hc Hf;
      (destruct fuel as [|f]; [lia|]); step_resolve st c Hc;
      cbn [straverse]; rewrite Hr; inversion Hc1; subst; try (simpl in Hnh; tauto); try reflexivity.
    - assert (Hn : col st c0 n) by assumption. assert (Hfn : height n + 1 <= f) by (simpl in Hf; lia).
      simpl traverse. destruct from as [|x fr]; [apply IH; auto|].
      destruct (strip k (x :: fr)); [apply IH; auto|].
      destruct (negb _ || _); [apply IH; auto|reflexivity].
    - assert (Hl : Forall2 (col st) cs0 cs) by assumption. assert (Hv : col st vc0 vc) by assumption.
      rewrite traverse_branch. cbv zeta.
      rewrite (IHvc vc0 f pth [] bw Hv) by (pose proof (height_vc cs vc); lia).
      match goal with |- context [kids_loop ?f0 bw cs0 0] =>
        rewrite (kids_loop_rel (col st) f0 (kid_step pth (match from with [] => if bw then 15 else 0 | x :: _ => x end)
                                                     (match from with [] => [] | _ :: r => r end) bw) bw cs0 cs Hl) end; [reflexivity|].
      intros x0 x j Hx Hx0. unfold kid_step. destruct (if bw then _ else _); auto.
      rewrite Forall_forall in IHcs. apply IHcs; auto. pose proof (height_kid cs vc x Hx). lia.
  Qed.

  Lemma find_start_height t : forall P s full, find_start t P = Some (s, full) -> height s <= height t.
  Proof.
    induction t as [|w|k n IH|cs vc IHcs IHvc|h] using node_ind2; intros P s full Hf; try discriminate.
    - destruct P; inv Hf. auto.
    - simpl in Hf. destruct P as [|x P]; [inv Hf; simpl; lia|].
      destruct (strip k (x :: P)) as [r|].
      + destruct (find_start n r) as [[s' pre]|] eqn:E; inv Hf. apply IH in E. simpl. lia.
      + destruct (is_prefix (x :: P) k); inv Hf. simpl. lia.
    - destruct P as [|i r]; [inv Hf; auto|]. rewrite find_start_branch_cons in Hf.
      destruct (find_start (nth i cs Empty) r) as [[s' pre]|] eqn:E; inv Hf.
      destruct (Nat.lt_ge_cases i (length cs)) as [Hlt|Hge].
      + rewrite Forall_forall in IHcs. apply (IHcs _ (nth_In cs Empty Hlt)) in E. pose proof (height_nth cs vc i Hlt). lia.
      + rewrite nth_overflow in E by lia. discriminate.
  Qed.

  Theorem sfind_start_col st t : forall c fuel P, col st c t -> height t + 1 <= fuel ->
    match find_start t P with
    | None => sfind_start fuel st c P = None
    | Some (s, full) => exists s0, sfind_start fuel st c P = Some (s0, full) /\ col st s0 s
    end.
  Proof.
    induction t as [|w|k n IH|cs vc IHcs IHvc|h] using node_ind2; intros c fuel P Hc Hf;
      (destruct fuel as [|f]; [lia|]); step_resolve st c Hc;
      cbn [sfind_start]; rewrite Hr; inversion Hc1; subst; try (simpl in Hnh; tauto); try reflexivity.
    - destruct P; simpl; [eexists; split; [reflexivity|constructor]|reflexivity].
    - assert (Hn : col st c0 n) by assumption. assert (Hfn : height n + 1 <= f) by (simpl in Hf; lia).
      simpl find_start. destruct P as [|x P]; [eexists; split; [reflexivity|auto]|].
      destruct (strip k (x :: P)) as [r|].
      + specialize (IH c0 f r Hn Hfn). destruct (find_start n r) as [[s pre]|].
        * destruct IH as (s0 & Hs & Hc0). rewrite Hs. eexists; split; [reflexivity|auto].
        * now rewrite IH.
      + destruct (is_prefix (x :: P) k); [eexists; split; [reflexivity|auto]|reflexivity].
    - assert (Hl : Forall2 (col st) cs0 cs) by assumption.
      destruct P as [|i r]; [simpl; eexists; split; [reflexivity|now constructor]|].
      rewrite find_start_branch_cons. pose proof (col_nth st _ cs i Hl) as Hi. pose proof (Forall2_len _ _ _ Hl) as Hlen.
      destruct (Nat.lt_ge_cases i (length cs)) as [Hlt|Hge].
      + rewrite Forall_forall in IHcs.
        specialize (IHcs _ (nth_In cs Empty Hlt) _ f r Hi). destruct (find_start (nth i cs Empty) r) as [[s pre]|].
        * destruct IHcs as (s0 & Hs & Hc0); [pose proof (height_nth cs vc i Hlt); lia|]. rewrite Hs.
          eexists; split; [reflexivity|auto].
        * rewrite IHcs; [reflexivity|]. pose proof (height_nth cs vc i Hlt); lia.
      + rewrite (nth_overflow cs0), (nth_overflow cs) by lia. simpl. destruct f; reflexivity.
  Qed.

  Theorem sseek_col st t c fuel P S bw : col st c t -> height t + 1 <= fuel ->
    sseek fuel st c P S bw = seek t P S bw.
  Proof.
    intros Hc Hf. unfold sseek, seek, seek_start.
    pose proof (sfind_start_col st t c fuel P Hc Hf) as Hs.
    destruct (find_start t P) as [[s full]|] eqn:E.
    - destruct Hs as (s0 & Hs & Hc0). rewrite Hs.
      assert (Hh : height s + 1 <= fuel) by (apply find_start_height in E; lia).
      destruct S as [|x S']; [now rewrite (straverse_col st s s0 fuel _ _ _ Hc0 Hh)|].
      destruct (strip (skipn (length P) full) (x :: S')); [now rewrite (straverse_col st s s0 fuel _ _ _ Hc0 Hh)|].
      destruct (is_prefix (x :: S') (skipn (length P) full)); [now rewrite (straverse_col st s s0 fuel _ _ _ Hc0 Hh)|].
      destruct (Bool.eqb _ bw); [now rewrite (straverse_col st s s0 fuel _ _ _ Hc0 Hh)|reflexivity].
    - now rewrite Hs.
  Qed.

  (* ---------- PutBatch ---------- *)

  Lemma smerge_ext_sim st prefix c t : col st c t ->
    exists c', smerge_ext st prefix c = Some c' /\ col st c' (merge_ext prefix t).
  Proof.
    intros Hc. unfold smerge_ext. step_resolve st c Hc. rewrite Hr. eexists; split; [reflexivity|].
    inversion Hc1; subst; try (simpl in Hnh; tauto); simpl; destruct prefix; repeat constructor; auto.
  Qed.

  Lemma sstrip_branch_sim st cs0 cs vc0 vc : Forall2 (col st) cs0 cs -> col st vc0 vc ->
    exists c', sstrip_branch st cs0 vc0 = Some c' /\ col st c' (strip_branch cs vc).
  Proof.
    intros Hl Hv. unfold sstrip_branch, strip_branch.
    assert (Hall : Forall2 (col st) (cs0 ++ [vc0]) (cs ++ [vc])) by (apply Forall2_app; auto).
    pose proof (ne_from_col st _ _ Hall 0) as Hne.
    destruct (ne_from 0 (cs ++ [vc])) as [|[j c] [|e2 rest]] eqn:E; inversion Hne as [|[j0 c0] b l0' l' [Hj Hc0] Htl]; subst.
    - eexists; split; [reflexivity|constructor].
    - inversion Htl; subst. simpl in Hj. subst j0. simpl in Hc0.
      destruct (Nat.eqb j 16); [eexists; split; [reflexivity|auto]|]. now apply smerge_ext_sim.
    - inversion Htl; subst. eexists; split; [reflexivity|now constructor].
  Qed.

  Lemma mapio_sim (R R' : node -> node -> Prop) f0 f l0 l : Forall2 R l0 l ->
    forall j, (forall i x0 x, In x l -> R x0 x -> exists y0, f0 i x0 = Some y0 /\ R' y0 (f i x)) ->
    exists l0', mapio j f0 l0 = Some l0' /\ Forall2 R' l0' (mapi j f l).
  Proof.
    induction 1 as [|x0 x l0 l Hx Hl IH]; intros j Hf; simpl; [eexists; split; [reflexivity|constructor]|].
    destruct (Hf j x0 x) as (y0 & Hy & Hr); [left; auto|auto|]. rewrite Hy.
    destruct (IH (S j)) as (l0' & Hm & Hr'); [intros; apply Hf; simpl; auto|]. rewrite Hm.
    eexists; split; [reflexivity|constructor; auto].
  Qed.

  (* the lazy batch function one level down simulates the pure one *)
  Definition srec_ok (st : store) (srec : node -> kvs -> option node) (rec : node -> kvs -> node) (f : nat) : Prop :=
    forall c t kv, NF t -> col st c t -> kv_ok kv -> kv <> [] -> maxlen kv + 2 <= f ->
    exists c', srec c kv = Some c' /\ col st c' (rec t kv).
  Definition sroot (st : store) (srec : node -> kvs -> option node) (rec : node -> kvs -> node) : Prop :=
    forall c vc ov, col st c vc -> vc_ok vc -> srec c [([], ov)] = Some (of_ov ov) /\ rec vc [([], ov)] = of_ov ov.

  Lemma col_of_ov st ov : col st (of_ov ov) (of_ov ov).
  Proof. destruct ov; constructor. Qed.

  Lemma sadd_to_branch_sim st srec rec f cs0 cs vc0 vc kv : srec_ok st srec rec f -> sroot st srec rec ->
    Forall2 (col st) cs0 cs -> col st vc0 vc -> Forall (fun c => c = Empty \/ NFne c) cs -> vc_ok vc ->
    kv_ok kv -> maxlen kv + 1 <= f ->
    exists c', sadd_to_branch st srec cs0 vc0 kv = Some c' /\ col st c' (add_to_branch rec cs vc kv).
  Proof.
    intros Hrec Hroot Hl Hv Hall Hvc Hkv Hf. unfold sadd_to_branch, add_to_branch.
    destruct (mapio_sim (col st) (col st) (fun c child => son_kv srec (sub_kv c kv) child)
                (fun c child => on_kv rec (sub_kv c kv) child) cs0 cs Hl 0) as (cs0' & Hm & Hcs').
    { intros i x0 x Hx Hx0. unfold son_kv, on_kv. destruct (sub_kv i kv) as [|e g] eqn:E; [eexists; split; [reflexivity|auto]|].
      rewrite <- E. apply Hrec; auto.
      - rewrite Forall_forall in Hall. apply Hall; auto.
      - apply kv_ok_sub; auto.
      - rewrite E. discriminate.
      - pose proof (maxlen_sub i kv) as Hm. rewrite E in *. assert (Hne : e :: g <> []) by discriminate. specialize (Hm Hne). lia. }
    rewrite Hm.
    assert (Hv' : exists vc0', son_kv srec (emp_kv kv) vc0 = Some vc0' /\ col st vc0' (on_kv rec (emp_kv kv) vc)).
    { unfold son_kv, on_kv. destruct Hkv as [Hs _]. destruct (emp_kv_shape kv Hs) as [E|[ov E]]; rewrite E.
      - eexists; split; [reflexivity|auto].
      - destruct (Hroot vc0 vc ov Hv Hvc) as [E1 E2]. rewrite E1, E2. eexists; split; [reflexivity|apply col_of_ov]. }
    destruct Hv' as (vc0' & Hsv & Hcv). rewrite Hsv. now apply sstrip_branch_sim.
  Qed.

  Lemma snew_sub_many_sim st srec rec f prefix kv value : srec_ok st srec rec f -> sroot st srec rec ->
    kv_ok kv -> kv <> [] -> maxlen kv + 1 <= f ->
    exists c', snew_sub_many st srec prefix kv value = Some c' /\ col st c' (new_sub_many rec prefix kv value).
  Proof.
    intros Hrec Hroot Hkv Hne Hf.
    assert (Hgo : forall kv' value', kv_ok kv' -> maxlen kv' + 1 <= f ->
              exists c', match sadd_to_branch st srec empties (of_ov value') kv' with Some b => smerge_ext st prefix b | None => None end = Some c' /\
                         col st c' (merge_ext prefix (add_to_branch rec empties (of_ov value') kv'))).
    { intros kv' value' Hkv' Hf'.
      destruct (sadd_to_branch_sim st srec rec f empties empties (of_ov value') (of_ov value') kv') as (b & Hb & Hcb); auto.
      - apply col_empties.
      - apply col_of_ov.
      - repeat constructor.
      - destruct value'; exact I.
      - rewrite Hb. now apply smerge_ext_sim. }
    unfold snew_sub_many, new_sub_many.
    destruct kv as [|[[|x k'] ov] kv']; [congruence| |].
    - destruct ov as [w|]; destruct kv' as [|e kv''].
      + eexists; split; [reflexivity|]. apply col_new_sub. constructor.
      + apply (Hgo (([], Some w) :: e :: kv'') (Some w)); auto.
      + eexists; split; [reflexivity|constructor].
      + apply (Hgo (e :: kv'') None); [eapply kv_ok_tail; eauto|]. simpl in Hf. simpl. lia.
    - destruct value as [w|]; [apply (Hgo ((x :: k', ov) :: kv') (Some w))|apply (Hgo ((x :: k', ov) :: kv') None)]; auto.
  Qed.

  Lemma snoprefix_sim st srec rec f a kt c n kv : srec_ok st srec rec f -> sroot st srec rec ->
    col st c n -> path_ok kt -> NFne n -> leaf_or_branch n -> kv_ok kv -> maxlen kv + 1 <= f ->
    exists c', sput_batch_ext_noprefix st srec (a :: kt) c kv = Some c' /\
               col st c' (put_batch_ext_noprefix rec (a :: kt) n kv).
  Proof.
    intros Hrec Hroot Hc Hkt Hn Hl Hkv Hf. unfold sput_batch_ext_noprefix, put_batch_ext_noprefix.
    apply (sadd_to_branch_sim st srec rec f); auto.
    - apply Forall2_upd; [now apply col_new_sub|apply col_empties].
    - constructor.
    - apply Forall_upd; [repeat constructor|]. right. apply NFne_new_sub; auto.
    - exact I.
  Qed.

  Lemma sput_batch_node_root st f : sroot st (sput_batch_node (S f) st) (put_batch_node (S f)).
  Proof.
    intros c vc ov Hc Hvc. split; [|apply put_batch_node_root; auto].
    step_resolve st c Hc. cbn [sput_batch_node]. rewrite Hr.
    inversion Hc1; subst; try (simpl in Hnh; tauto); simpl in Hvc; try tauto; destruct ov; reflexivity.
  Qed.

  Theorem sput_batch_node_sim st : forall f, srec_ok st (sput_batch_node f st) (put_batch_node f) f.
  Proof.
    induction f as [|f IH]; intros c t kv Ht Hc Hkv Hne Hf; [lia|].
    assert (Hf1 : maxlen kv + 1 <= f) by lia.
    assert (Hroot : sroot st (sput_batch_node f st) (put_batch_node f)) by (destruct f; [lia|apply sput_batch_node_root]).
    step_resolve st c Hc. cbn [sput_batch_node put_batch_node]. rewrite Hr.
    inversion Hc1; subst; try (simpl in Hnh; tauto).
    - (* Empty *)
      pose proof (lcp_many_prefix kv) as Hp.
      apply (snew_sub_many_sim st _ _ f); auto.
      + apply kv_ok_strip; auto.
      + apply strip_prefix_nonempty; auto.
      + pose proof (maxlen_strip (lcp_many kv) kv Hp Hne). lia.
    - (* Leaf *)
      apply (snew_sub_many_sim st _ _ f); auto.
    - (* Ext *)
      assert (Hn : col st c0 n) by assumption.
      destruct Ht as [Ht|Ht]; [discriminate|]. inversion Ht as [|k1 n1 Hk Hpk Hnn Hlb|]; subst.
      pose proof (lcp_many_prefix kv) as Hp. set (cc := lcp_many kv) in *.
      destruct (lcp_prefix_l cc k) as [d Hd]. destruct (lcp_prefix_r cc k) as [kt Hkt].
      set (pref := lcp cc k) in *.
      assert (Hpref : has_prefix pref kv) by (rewrite Hd in Hp; eapply has_prefix_shorter; eauto).
      destruct (Nat.eqb_spec (length pref) (length k)) as [El|El].
      + assert (kt = []) by (rewrite Hkt, app_length in El; destruct kt; simpl in *; [auto|lia]). subst kt.
        rewrite app_nil_r in Hkt. rewrite <- Hkt in *.
        destruct (IH c0 n (strip_prefix (length k) kv)) as (sub & Hs & Hcs); auto.
        * right; auto.
        * apply kv_ok_strip; auto.
        * apply strip_prefix_nonempty; auto.
        * pose proof (maxlen_strip k kv Hpref Hne). destruct k; [congruence|]. simpl in *. lia.
        * rewrite Hs. now apply smerge_ext_sim.
      + destruct kt as [|a kt]; [rewrite app_nil_r in Hkt; rewrite <- Hkt in El; congruence|].
        assert (Hakt : path_ok kt).
        { rewrite Hkt in Hpk. apply path_ok_app in Hpk. destruct Hpk as [_ Hx]. apply path_ok_cons in Hx. tauto. }
        destruct pref as [|x p] eqn:Ep.
        * simpl in Hkt. subst k. apply (snoprefix_sim st _ _ f); auto.
        * clear Ep. clearbody pref cc. subst k. rewrite skipn_app_len.
          destruct (snoprefix_sim st (sput_batch_node f st) (put_batch_node f) f a kt c0 n (strip_prefix (length (x :: p)) kv)) as (sub & Hs & Hcs); auto.
          -- apply kv_ok_strip; auto.
          -- pose proof (maxlen_strip (x :: p) kv Hpref Hne). lia.
          -- rewrite Hs. now apply smerge_ext_sim.
    - (* Branch *)
      destruct Ht as [Ht|Ht]; [discriminate|]. inversion Ht as [| |cs1 vc1 Hlen Hall Hvc Hcnt]; subst.
      apply (sadd_to_branch_sim st _ _ f); auto.
  Qed.

  Theorem sput_batch_col st c t kv : NF t -> col st c t -> kv_ok kv ->
    exists c', sput_batch st c kv = Some c' /\ col st c' (put_batch t kv).
  Proof.
    intros Ht Hc Hkv. destruct kv as [|e kv'] eqn:E; [eexists; split; [reflexivity|auto]|]. rewrite <- E in *.
    assert (Hne : kv <> []) by (rewrite E; discriminate).
    assert (E1 : sput_batch st c kv = sput_batch_node (maxlen kv + 2) st c kv) by (rewrite E; reflexivity).
    assert (E2 : put_batch t kv = put_batch_node (maxlen kv + 2) t kv) by (rewrite E; reflexivity).
    rewrite E1, E2. apply sput_batch_node_sim; auto.
  Qed.

  (* ---------- Flush fills the store; a filled store holds the trie's own encodings or exhibits a collision ---------- *)

  Lemma store_lookup_app a b h :
    store_lookup (a ++ b) h = match store_lookup a h with Some x => Some x | None => store_lookup b h end.
  Proof.
    unfold store_lookup. induction a as [|e a IH]; simpl; auto.
    destruct (bytes_eqb (fst e) h); auto.
  Qed.

  Lemma lookup_entries l h bs :
    store_lookup (map (fun n => (hash H n, enc H n)) l) h = Some bs -> exists n, In n l /\ hash H n = h /\ bs = enc H n.
  Proof.
    unfold store_lookup. induction l as [|n l IH]; simpl; [discriminate|].
    destruct (bytes_eqb (hash H n) h) eqn:E.
    - intros [= <-]. apply bytes_eqb_eq in E. eauto.
    - intros Hl. destruct (IH Hl) as (n' & Hin & Hh & Hb). eauto.
  Qed.

  Lemma lookup_entries_some l n : In n l -> store_lookup (map (fun n => (hash H n, enc H n)) l) (hash H n) <> None.
  Proof.
    unfold store_lookup. induction l as [|m l IH]; simpl; [tauto|]. intros [->|Hin].
    - assert (E : bytes_eqb (hash H n) (hash H n) = true) by (apply bytes_eqb_eq; auto). rewrite E. discriminate.
    - destruct (bytes_eqb (hash H m) (hash H n)); [discriminate|auto].
  Qed.

  Theorem flush_store st t : store_wf H st ->
    store_wf H (flush H t st) /\ stored H (flush H t st) t /\ (forall t', stored H st t' -> stored H (flush H t st) t').
  Proof.
    intros Hwf. unfold flush. repeat split.
    - intros h bs. rewrite store_lookup_app.
      destruct (store_lookup (map _ (nodes t)) h) as [x|] eqn:E; [|apply Hwf].
      intros [= <-]. apply lookup_entries in E. destruct E as (n & Hin & Hh & ->).
      destruct (nodes_hash t n Hin) as [Hn _]. congruence.
    - intros n Hin. rewrite store_lookup_app.
      pose proof (lookup_entries_some (nodes t) n Hin) as Hs. destruct (store_lookup _ (hash H n)); [discriminate|congruence].
    - intros t' Hst n Hin. rewrite store_lookup_app. destruct (store_lookup (map _ (nodes t)) (hash H n)); [discriminate|auto].
  Qed.

  Lemma good_or_collision_list st l : store_wf H st ->
    (forall n, In n l -> hash H n = H (H (enc H n)) /\ store_lookup st (hash H n) <> None) ->
    (forall n, In n l -> store_lookup st (hash H n) = Some (enc H n)) \/ collision H.
  Proof.
    intros Hwf. induction l as [|n l IH]; intros Hall; [left; intros n []|].
    destruct IH as [IH|IH]; [intros; apply Hall; right; auto| |right; auto].
    destruct (Hall n) as [Hh Hs]; [left; auto|].
    destruct (store_lookup st (hash H n)) as [bs|] eqn:E; [|congruence].
    destruct (bytes_eq_dec bs (enc H n)) as [->|Hne].
    - left. intros m [<-|Hm]; auto.
    - right. exists bs, (enc H n). split; auto. apply Hwf in E. congruence.
  Qed.

  Theorem stored_good st t : store_wf H st -> stored H st t -> good st t \/ collision H.
  Proof.
    intros Hwf Hst. apply good_or_collision_list; auto. intros n Hin. split; [apply (nodes_hash t n Hin)|auto].
  Qed.

  (* ---------- partial collapses ---------- *)

  Lemma Forall2_impl_in {A B} (R R' : A -> B -> Prop) l0 l :
    Forall2 R l0 l -> (forall x0 x, In x l -> R x0 x -> R' x0 x) -> Forall2 R' l0 l.
  Proof. induction 1; intros Hf; constructor; [apply Hf; simpl; auto|apply IHForall2; intros; apply Hf; simpl; auto]. Qed.

  Lemma pcol_col st t : NF t -> bounded t -> good st t -> forall c, pcol H c t -> col st c t.
  Proof.
    induction t as [|w|k n IH|cs vc IHcs IHvc|h] using node_ind2; intros Ht Hb Hg c Hc; inversion Hc; subst;
      try (constructor; fail);
      try (destruct Ht as [Ht|Ht]; [discriminate|]; constructor; auto; fail).
    - destruct Ht as [Ht|Ht]; [discriminate|]. inv Ht. inv Hb. constructor. apply IH; auto; [right; auto|eapply good_ext; eauto].
    - destruct Ht as [Ht|Ht]; [discriminate|]. inversion Ht as [| |cs1 vc1 Hlen Hall Hvc Hcnt]; subst.
      inversion Hb as [| | | |cs1 vc1 Hbcs Hbvc]; subst. constructor.
      + match goal with Hf : Forall2 (pcol H) _ cs |- _ => apply (Forall2_impl_in _ _ _ _ Hf) end.
        intros x0 x Hx Hx0. rewrite Forall_forall in IHcs, Hall, Hbcs. apply IHcs; auto; [apply Hall; auto|eapply good_kid; eauto].
      + apply IHvc; auto; [apply vc_ok_NF; auto|eapply good_vc; eauto].
  Qed.

  Lemma col_pcol st c t : col st c t -> pcol H c t.
  Proof.
    revert c. induction t as [|w|k n IH|cs vc IHcs IHvc|h] using node_ind2; intros c Hc; inversion Hc; subst;
      try (constructor; auto; fail); try (constructor; apply NFne_not_empty; auto; fail).
    constructor; auto.
    match goal with Hf : Forall2 (col st) _ cs |- _ => apply (Forall2_impl_in _ _ _ _ Hf) end.
    intros x0 x Hx Hx0. rewrite Forall_forall in IHcs. auto.
  Qed.

  Lemma pcol_collapse t : forall d, pcol H (collapse H d t) t.
  Proof.
    induction t as [|w|k n IH|cs vc IHcs IHvc|h] using node_ind2; intros d.
    - destruct d; constructor.
    - destruct d; simpl; [apply (pcol_hash H (Leaf w)); reflexivity|constructor].
    - destruct d; simpl; [apply (pcol_hash H (Ext k n)); reflexivity|constructor; auto].
    - destruct d; simpl; [apply (pcol_hash H (Branch cs vc)); reflexivity|]. constructor; auto.
      clear IHvc. induction IHcs; simpl; constructor; auto.
    - destruct d; simpl; apply (pcol_hash H (HashRef h)); reflexivity.
  Qed.

  (* ---------- the theorems, for a store that contains Flush of the trie ---------- *)

  Section Final.
    Variables (st : store) (t : node).
    Hypothesis Ht : NF t.
    Hypothesis Hb : bounded t.
    Hypothesis Hwf : store_wf H st.
    Hypothesis Hst : stored H st t.

    (* expanding any partial collapse gives the trie back *)
    Theorem flush_then_resolve c fuel : pcol H c t -> height t + 1 <= fuel ->
      expand fuel st c = Some t \/ collision H.
    Proof.
      intros Hc Hf. destruct (stored_good st t Hwf Hst) as [Hg|Hcol]; [left|right; auto].
      apply expand_col; auto. apply pcol_col; auto.
    Qed.

    (* every operation on a partial collapse does what it does on the trie, modulo collapse; same root *)
    Theorem collapsed_ops_agree c fuel : pcol H c t -> height t + 1 <= fuel ->
      collision H \/
      ((forall p, sget fuel st c p = content t p) /\
       (forall p v, exists c', sput fuel st c p v = Some c' /\ pcol H c' (put t p v) /\ root H c' = root H (put t p v)) /\
       (forall p, exists c', sdelete fuel st c p = Some c' /\ pcol H c' (delete t p) /\ root H c' = root H (delete t p)) /\
       (forall kv, kv_ok kv -> exists c', sput_batch st c kv = Some c' /\ pcol H c' (put_batch t kv) /\ root H c' = root H (put_batch t kv)) /\
       (forall p, sget_proof H fuel st c p = get_proof H t p) /\
       (forall P S bw, sseek fuel st c P S bw = seek t P S bw) /\
       root H c = root H t).
    Proof.
      intros Hc Hf. destruct (stored_good st t Hwf Hst) as [Hg|Hcol]; [right|left; auto].
      assert (Hcc : col st c t) by (apply pcol_col; auto).
      repeat split.
      - intros p. apply sget_col; auto.
      - intros p v. destruct (sput_col st t c fuel p v Hcc Hf) as (c' & Hs & Hc').
        exists c'. repeat split; auto; [eapply col_pcol; eauto|eapply col_root; eauto].
      - intros p. destruct (sdelete_col st t Ht c fuel p Hcc Hf) as (c' & Hs & Hc' & _).
        exists c'. repeat split; auto; [eapply col_pcol; eauto|eapply col_root; eauto].
      - intros kv Hkv. destruct (sput_batch_col st c t kv Ht Hcc Hkv) as (c' & Hs & Hc').
        exists c'. repeat split; auto; [eapply col_pcol; eauto|eapply col_root; eauto].
      - intros p. apply sget_proof_col; auto.
      - intros P S bw. apply sseek_col; auto.
      - eapply col_root; eauto.
    Qed.

    (* reopening: the trie that is just HashNode(root) over the store answers everything as t does *)
    Theorem reload_from_root fuel : NFne t -> height t + 1 <= fuel ->
      collision H \/
      (expand fuel st (HashRef (root H t)) = Some t /\
       (forall p, sget fuel st (HashRef (root H t)) p = content t p) /\
       (forall p, sget_proof H fuel st (HashRef (root H t)) p = get_proof H t p) /\
       (forall P S bw, sseek fuel st (HashRef (root H t)) P S bw = seek t P S bw) /\
       (forall p v, exists c', sput fuel st (HashRef (root H t)) p v = Some c' /\ root H c' = root H (put t p v)) /\
       (forall p, exists c', sdelete fuel st (HashRef (root H t)) p = Some c' /\ root H c' = root H (delete t p)) /\
       (forall kv, kv_ok kv -> exists c', sput_batch st (HashRef (root H t)) kv = Some c' /\ root H c' = root H (put_batch t kv))).
    Proof.
      intros Hn Hf.
      assert (Er : root H t = hash H t) by (destruct t; try (inv Hn; fail); reflexivity).
      assert (Hc : pcol H (HashRef (root H t)) t) by (rewrite Er; constructor; now apply NFne_not_empty).
      destruct (flush_then_resolve _ fuel Hc Hf) as [He|Hcol]; [|left; auto].
      destruct (collapsed_ops_agree _ fuel Hc Hf) as [Hcol|(Hg & Hp & Hd & Hbt & Hpr & Hsk & _)]; [left; auto|right].
      repeat split; auto.
      - intros p v. destruct (Hp p v) as (c' & ? & _ & ?). eauto.
      - intros p. destruct (Hd p) as (c' & ? & _ & ?). eauto.
      - intros kv Hkv. destruct (Hbt kv Hkv) as (c' & ? & _ & ?). eauto.
    Qed.
  End Final.
End StoreProofs.
