(* Uniqueness of the normal form: two tries in normal form with the same content are the same tree.
   Hence the root hash is a function of the content (history independence), for ANY hash function. *)
From NG Require Import Common.Tactics Trie.Model Trie.Lemmas Trie.PutDelete.

Definition same (t t' : node) : Prop := forall p, content t p = content t' p.

(* a non-empty normal form stores at least one key *)
Lemma NFne_has_key t : NFne t -> exists p v, content t p = Some v.
Proof.
  induction t as [|v|k n IH|cs vc IHcs IHvc|h] using node_ind2; intros Ht; inv Ht.
  - now exists [], v.
  - destruct (IH H3) as [p [v Hp]]. exists (k ++ p), v. ctn. now rewrite strip_app.
  - destruct vc as [|v| | |]; simpl in H3; try tauto.
    + rewrite ne_count_app, ne_count_single in H4. simpl in H4.
      destruct (ne_count_pos cs) as [i [Hi He]]; [lia|].
      destruct (NF_nth cs i H2) as [E|Hc]; [rewrite E in He; discriminate|].
      rewrite Forall_forall in IHcs.
      destruct (IHcs (nth i cs Empty) (nth_In _ _ Hi) Hc) as [p [v Hp]].
      exists (i :: p), v. now ctn.
    + now exists [], v.
Qed.

Lemma ext_keys k n p v : content (Ext k n) p = Some v -> exists r, p = k ++ r.
Proof. ctn. destruct (strip k p) eqn:E; try discriminate. intros _. exists p0. now apply strip_some. Qed.

Lemma two_nonempty cs : 2 <= ne_count cs ->
  exists i j, i < length cs /\ j < length cs /\ i <> j /\
              is_empty (nth i cs Empty) = false /\ is_empty (nth j cs Empty) = false.
Proof.
  induction cs as [|c cs IH]; [unfold ne_count; simpl; lia|].
  rewrite ne_count_cons. destruct (is_empty c) eqn:E; simpl.
  - intros H. destruct (IH H) as (i & j & ? & ? & ? & ? & ?). exists (S i), (S j). repeat split; simpl; auto; lia.
  - intros H. destruct (ne_count_pos cs) as [j [Hj Ej]]; [lia|].
    exists 0, (S j). repeat split; simpl; auto; lia.
Qed.

(* a normal-form branch has two keys that share no first step *)
Lemma branch_two_keys cs vc : NFne (Branch cs vc) ->
  (exists v i r w, content (Branch cs vc) [] = Some v /\ content (Branch cs vc) (i :: r) = Some w) \/
  (exists i j r s v w, i <> j /\ content (Branch cs vc) (i :: r) = Some v /\ content (Branch cs vc) (j :: s) = Some w).
Proof.
  intros H. inv H. rename H2 into Hlen, H3 into Hall, H4 into Hvc, H5 into Hcnt.
  assert (Hkey : forall i, i < length cs -> is_empty (nth i cs Empty) = false ->
                 exists r v, content (Branch cs vc) (i :: r) = Some v).
  { intros i Hi He. destruct (NF_nth cs i Hall) as [E|Hc]; [rewrite E in He; discriminate|].
    destruct (NFne_has_key _ Hc) as [r [v Hr]]. exists r, v. now ctn. }
  rewrite ne_count_app, ne_count_single in Hcnt.
  destruct vc as [|v| | |]; simpl in Hvc; try tauto; simpl in Hcnt.
  - right. destruct (two_nonempty cs) as (i & j & Hi & Hj & Hij & Ei & Ej); [lia|].
    destruct (Hkey i Hi Ei) as (r & v & Hr). destruct (Hkey j Hj Ej) as (s & w & Hs).
    exists i, j, r, s, v, w. auto.
  - left. destruct (ne_count_pos cs) as [i [Hi Ei]]; [lia|].
    destruct (Hkey i Hi Ei) as (r & w & Hr). exists v, i, r, w. split; [reflexivity|exact Hr].
Qed.

(* below an extension key there is a leaf or a branch: its keys have no common first step *)
Lemma under_ext_no_common n r : NFne n -> leaf_or_branch n ->
  r <> [] -> (forall p v, content n p = Some v -> exists q, p = r ++ q) -> False.
Proof.
  intros Hn Hshape Hr Hall. destruct n as [|v|k n|cs vc|h]; simpl in Hshape; try contradiction.
  - destruct (Hall [] v eq_refl) as [q Hq]. destruct r; [congruence|discriminate].
  - destruct (branch_two_keys cs vc Hn) as [(v & i & s & w & H0 & _)|(i & j & s & s' & v & w & Hij & Hi & Hj)].
    + destruct (Hall [] v H0) as [q Hq]. destruct r; [congruence|discriminate].
    + destruct (Hall _ _ Hi) as [q Hq]. destruct (Hall _ _ Hj) as [q' Hq'].
      destruct r as [|x r]; [congruence|]. simpl in *. congruence.
Qed.

Lemma app_prefix_cases {A} (k k' : list A) r r' : k ++ r = k' ++ r' ->
  (exists d, k' = k ++ d) \/ (exists d, k = k' ++ d).
Proof.
  revert k'; induction k as [|x k IH]; intros k' H.
  - left. now exists k'.
  - destruct k' as [|y k']; [right; now exists (x :: k)|].
    simpl in H. injection H as -> H. destruct (IH _ H) as [[d ->]|[d ->]]; [left|right]; now exists d.
Qed.

Theorem NFne_unique : forall t t', NFne t -> NFne t' -> same t t' -> t = t'.
Proof.
  induction t as [|v|k n IH|cs vc IHcs IHvc|h] using node_ind2; intros t' Ht Ht' Hs.
  - inv Ht.
  - (* Leaf *)
    destruct t' as [|v'|k' n'|cs' vc'|h'].
    + inv Ht'.
    + specialize (Hs []). ctn_in Hs. congruence.
    + specialize (Hs []). ctn_in Hs. inv Ht'. destruct k'; [congruence|]. simpl in Hs. discriminate.
    + destruct (branch_two_keys _ _ Ht') as [(w & i & r & w' & _ & Hi)|(i & j & r & s & w & w' & _ & Hi & _)];
        rewrite <- Hs in Hi; ctn_in Hi; discriminate.
    + inv Ht'.
  - (* Ext *)
    inv Ht. rename H1 into Hk, H2 into Hpk, H3 into Hn, H4 into Hshape.
    destruct t' as [|v'|k' n'|cs' vc'|h'].
    + inv Ht'.
    + specialize (Hs []). ctn_in Hs. destruct k; [congruence|]. simpl in Hs. discriminate.
    + inv Ht'. rename H1 into Hk', H2 into Hpk', H3 into Hn', H4 into Hshape'.
      destruct (NFne_has_key n Hn) as [p [v Hp]].
      assert (H1 : content (Ext k n) (k ++ p) = Some v) by (ctn; now rewrite strip_app).
      pose proof H1 as H2. rewrite Hs in H2. destruct (ext_keys _ _ _ _ H2) as [r' Hr'].
      destruct (app_prefix_cases _ _ _ _ Hr') as [[d Hd]|[d Hd]].
      * destruct d as [|x d].
        -- rewrite app_nil_r in Hd. subst k'. f_equal. apply IH; auto.
           intros q. specialize (Hs (k ++ q)). rewrite !content_ext, !strip_app in Hs. exact Hs.
        -- exfalso. apply (under_ext_no_common n (x :: d) Hn Hshape); [discriminate|].
           intros q w Hq. assert (Hq' : content (Ext k n) (k ++ q) = Some w) by (ctn; now rewrite strip_app).
           rewrite Hs in Hq'. destruct (ext_keys _ _ _ _ Hq') as [z Hz]. subst k'.
           rewrite <- app_assoc in Hz. apply app_inv_head in Hz. now exists z.
      * destruct d as [|x d].
        -- rewrite app_nil_r in Hd. subst k'. f_equal. apply IH; auto.
           intros q. specialize (Hs (k ++ q)). rewrite !content_ext, !strip_app in Hs. exact Hs.
        -- exfalso. apply (under_ext_no_common n' (x :: d) Hn' Hshape'); [discriminate|].
           intros q w Hq. assert (Hq' : content (Ext k' n') (k' ++ q) = Some w) by (ctn; now rewrite strip_app).
           rewrite <- Hs in Hq'. destruct (ext_keys _ _ _ _ Hq') as [z Hz]. subst k.
           rewrite <- app_assoc in Hz. apply app_inv_head in Hz. now exists z.
    + exfalso.
      destruct (branch_two_keys _ _ Ht') as [(w & i & r & w' & H0 & _)|(i & j & r & s & w & w' & Hij & Hi & Hj)].
      * rewrite <- Hs in H0. destruct (ext_keys _ _ _ _ H0) as [z Hz]. destruct k; [congruence|discriminate].
      * rewrite <- Hs in Hi, Hj. destruct (ext_keys _ _ _ _ Hi) as [z Hz]. destruct (ext_keys _ _ _ _ Hj) as [z' Hz'].
        destruct k as [|x k]; [congruence|]. simpl in *. congruence.
    + inv Ht'.
  - (* Branch *)
    destruct t' as [|v'|k' n'|cs' vc'|h'].
    + inv Ht'.
    + exfalso. destruct (branch_two_keys _ _ Ht) as [(w & i & r & w' & _ & Hi)|(i & j & r & s & w & w' & _ & Hi & _)];
        rewrite Hs in Hi; ctn_in Hi; discriminate.
    + exfalso. inv Ht'.
      destruct (branch_two_keys _ _ Ht) as [(w & i & r & w' & H0 & _)|(i & j & r & s & w & w' & Hij & Hi & Hj)].
      * rewrite Hs in H0. destruct (ext_keys _ _ _ _ H0) as [z Hz]. destruct k'; [congruence|discriminate].
      * rewrite Hs in Hi, Hj. destruct (ext_keys _ _ _ _ Hi) as [z Hz]. destruct (ext_keys _ _ _ _ Hj) as [z' Hz'].
        destruct k' as [|x k']; [congruence|]. simpl in *. congruence.
    + inversion Ht as [| |cs0 vc0 Hlen Hall Hvc Hcnt]; subst. inversion Ht' as [| |cs0' vc0' Hlen' Hall' Hvc' Hcnt']; subst.
      f_equal.
      * apply (nth_ext _ _ Empty Empty); [congruence|]. intros i Hi.
        assert (Hsi : same (nth i cs Empty) (nth i cs' Empty)) by (intros q; specialize (Hs (i :: q)); now rewrite !content_branch_cons in Hs).
        destruct (NF_nth cs i Hall) as [E|Hc]; destruct (NF_nth cs' i Hall') as [E'|Hc'].
        -- congruence.
        -- exfalso. destruct (NFne_has_key _ Hc') as [q [w Hq]]. rewrite <- Hsi, E in Hq. discriminate.
        -- exfalso. destruct (NFne_has_key _ Hc) as [q [w Hq]]. rewrite Hsi, E' in Hq. discriminate.
        -- rewrite Forall_forall in IHcs. apply IHcs; auto. apply nth_In; exact Hi.
      * specialize (Hs []). rewrite !content_branch_nil in Hs.
        destruct vc; simpl in Hvc; try tauto; destruct vc'; simpl in Hvc'; try tauto; ctn_in Hs; congruence.
    + inv Ht'.
  - inv Ht.
Qed.

Theorem NF_unique t t' : NF t -> NF t' -> same t t' -> t = t'.
Proof.
  intros [->|Ht] [->|Ht'] Hs; auto.
  - exfalso. destruct (NFne_has_key _ Ht') as [p [v Hp]]. rewrite <- Hs in Hp. discriminate.
  - exfalso. destruct (NFne_has_key _ Ht) as [p [v Hp]]. rewrite Hs in Hp. discriminate.
  - now apply NFne_unique.
Qed.
