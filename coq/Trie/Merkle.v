(* Merkle proofs (proof.go): GetProof / VerifyProof.
   Completeness: the proof of a present key verifies to its value.
   Soundness: if verification against the root of a trie returns a value, that value is stored under the
   key in that trie.  Both hold for EVERY function H up to an exhibited collision of H o H: two different
   byte strings with the same double hash (no injectivity is assumed).  The only assumption on H is the
   digest length (32 bytes: a child reference is decoded by taking 32 bytes). *)
From NG Require Import Common.Tactics Trie.Model Trie.Lemmas Trie.Unique.

(* ---------- sizes the decoder accepts ---------- *)

Inductive bounded : node -> Prop :=
| B_empty : bounded Empty
| B_hash h : bounded (HashRef h)
| B_leaf v : (N.of_nat (length v) <= max_value_len)%N -> bounded (Leaf v)
| B_ext k n : (N.of_nat (length k) <= max_path_len)%N -> bounded n -> bounded (Ext k n)
| B_branch cs vc : Forall bounded cs -> bounded vc -> bounded (Branch cs vc).

(* keys of at most 136 nibbles and values of at most MaxValueLength bytes (what Trie.Put accepts) *)
Definition content_bounded (t : node) : Prop :=
  forall p v, content t p = Some v -> (N.of_nat (length p) <= max_path_len)%N /\ (N.of_nat (length v) <= max_value_len)%N.

Lemma content_bounded_bounded t : NF t -> content_bounded t -> bounded t.
Proof.
  induction t as [|w|k n IH|cs vc IHcs IHvc|h] using node_ind2; intros Ht Hb; try constructor.
  - destruct (Hb [] w eq_refl) as [_ H]. exact H.
  - destruct Ht as [Ht|Ht]; [discriminate|]. inv Ht.
    destruct (NFne_has_key n H3) as (p & v & Hp).
    destruct (Hb (k ++ p) v) as [H _]; [ctn; now rewrite strip_app|]. rewrite app_length in H. lia.
  - destruct Ht as [Ht|Ht]; [discriminate|]. inv Ht. apply IH; [right; auto|].
    intros p v Hp. destruct (Hb (k ++ p) v) as [Hl1 Hl2]; [ctn; now rewrite strip_app|].
    split; auto. rewrite app_length in Hl1. lia.
  - destruct Ht as [Ht|Ht]; [discriminate|]. inv Ht.
    rewrite Forall_forall in *. intros c Hc. apply IHcs; auto; [apply H2; auto|].
    destruct (In_nth _ _ Empty Hc) as (i & Hi & <-).
    intros p v Hp. destruct (Hb (i :: p) v) as [H H']; [now ctn|]. split; auto. simpl length in H. lia.
  - destruct Ht as [Ht|Ht]; [discriminate|]. inv Ht. apply IHvc; [apply vc_ok_NF; auto|].
    intros p v Hp. destruct vc; simpl in H3; try tauto; ctn_in Hp; try discriminate.
    destruct p; [|discriminate]. apply (Hb [] v). now ctn.
Qed.

(* ---------- the codec of lengths ---------- *)

Lemma take_app a r : take (length a) (a ++ r) = Some (a, r).
Proof.
  unfold take. rewrite app_length. destruct (Nat.ltb_spec (length a + length r) (length a)); [lia|].
  rewrite firstn_app, Nat.sub_diag, firstn_all. simpl. rewrite app_nil_r.
  rewrite skipn_app, Nat.sub_diag, skipn_all. reflexivity.
Qed.

Lemma read_var_uint_enc n r : (n <= 65539)%N -> read_var_uint (var_uint n ++ r) = Some (n, r).
Proof.
  intros Hn. unfold var_uint.
  destruct (N.ltb_spec n 253).
  - simpl. destruct (N.eqb_spec n 253); [lia|]. destruct (N.eqb_spec n 254); [lia|]. destruct (N.eqb_spec n 255); [lia|].
    reflexivity.
  - destruct (N.ltb_spec n 65535).
    + cbn [app read_var_uint N.eqb Pos.eqb le_bytes].
      change (take 2 ((n mod 256)%N :: ((n / 256) mod 256)%N :: r)) with (Some ([(n mod 256)%N; ((n / 256) mod 256)%N], r)).
      cbn [from_le]. f_equal. f_equal. lia.
    + destruct (N.ltb_spec n 4294967295); [|lia].
      cbn [app read_var_uint N.eqb Pos.eqb le_bytes].
      change (take 4 ((n mod 256)%N :: ((n / 256) mod 256)%N :: ((n / 256 / 256) mod 256)%N :: ((n / 256 / 256 / 256) mod 256)%N :: r))
        with (Some ([(n mod 256)%N; ((n / 256) mod 256)%N; ((n / 256 / 256) mod 256)%N; ((n / 256 / 256 / 256) mod 256)%N], r)).
      cbn [from_le]. f_equal. f_equal. lia.
Qed.

Lemma map_to_of_nat k : map N.to_nat (map N.of_nat k) = k.
Proof. rewrite map_map. rewrite <- (map_id k) at 2. apply map_ext. intros. apply Nat2N.id. Qed.

Lemma bytes_eqb_eq a b : bytes_eqb a b = true <-> a = b.
Proof.
  revert b; induction a as [|x a IH]; intros [|y b]; simpl; try (split; congruence).
  rewrite andb_true_iff, N.eqb_eq, IH. split; [intros [-> ->]; auto|intros [= -> ->]; auto].
Qed.

Section Merkle.
  Variable H : bytes -> bytes.
  Hypothesis H_len : forall x, length (H x) = 32.

  (* what breaks everything: two different byte strings with the same double hash *)
  Definition collision : Prop := exists a b : bytes, a <> b /\ H (H a) = H (H b).

  (* a node as the decoder sees it: children replaced by references *)
  Definition ref (c : node) : node := match c with Empty => Empty | _ => HashRef (hash H c) end.
  Definition shallow (t : node) : node :=
    match t with
    | Ext k n => Ext k (ref n)
    | Branch cs vc => Branch (map ref cs) (ref vc)
    | _ => t
    end.

  Lemma enc_ext k n : enc H (Ext k n) = 1%N :: var_bytes (map N.of_nat k) ++ child_ref H n.
  Proof. destruct n; reflexivity. Qed.

  Lemma enc_branch cs vc : enc H (Branch cs vc) = 0%N :: flat_map (child_ref H) (cs ++ [vc]).
  Proof.
    rewrite flat_map_app. simpl. rewrite app_nil_r. f_equal. f_equal.
    - apply flat_map_ext. intros c. destruct c; reflexivity.
    - destruct vc; reflexivity.
  Qed.

  Lemma hash_length c : NFne c -> length (hash H c) = 32.
  Proof. intros Hc. destruct c; try (inv Hc; fail); apply H_len. Qed.

  Lemma decode_child f d c r : (d <= max_path_len)%N -> c = Empty \/ NFne c ->
    decode (S f) d (child_ref H c ++ r) = Some (ref c, r).
  Proof.
    intros Hd [->|Hc].
    - simpl. destruct (N.ltb_spec max_path_len d); [lia|]. reflexivity.
    - assert (E : child_ref H c = 3%N :: hash H c) by (destruct c; try (inv Hc; fail); reflexivity).
      assert (E' : ref c = HashRef (hash H c)) by (destruct c; try (inv Hc; fail); reflexivity).
      rewrite E, E'. cbn [decode app]. destruct (N.ltb_spec max_path_len d); [lia|].
      cbn [N.eqb Pos.eqb]. rewrite <- (hash_length c Hc) at 1. rewrite take_app. reflexivity.
  Qed.

  Lemma decode_kids_enc f d cs r : (d <= max_path_len)%N -> Forall (fun c => c = Empty \/ NFne c) cs ->
    decode_kids (decode (S f) d) (length cs) (flat_map (child_ref H) cs ++ r) = Some (map ref cs, r).
  Proof.
    intros Hd Hall. induction Hall as [|c cs Hc Hcs IH]; [reflexivity|].
    cbn [length flat_map decode_kids map]. rewrite <- app_assoc, decode_child by auto. now rewrite IH.
  Qed.

  Lemma decode_shallow f t r : 1 <= f -> NFne t -> bounded t ->
    decode (S f) 0 (enc H t ++ r) = Some (shallow t, r).
  Proof.
    intros Hf Ht Hb. destruct t as [|v|k n|cs vc|h]; try (inv Ht; fail).
    - inv Hb. unfold max_value_len in *.
      change (enc H (Leaf v)) with (2%N :: var_uint (N.of_nat (length v)) ++ v).
      cbn [decode app N.ltb N.compare N.eqb Pos.eqb]. rewrite <- !app_assoc, read_var_uint_enc by lia.
      destruct (N.ltb_spec max_value_len (N.of_nat (length v))); [unfold max_value_len in *; lia|].
      rewrite Nat2N.id, take_app. reflexivity.
    - inv Hb. inv Ht. unfold max_path_len in *. rewrite enc_ext. unfold var_bytes. rewrite map_length.
      cbn [decode app N.ltb N.compare N.eqb Pos.eqb]. rewrite <- !app_assoc, read_var_uint_enc by lia.
      destruct (N.ltb_spec max_path_len (N.of_nat (length k))); [unfold max_path_len in *; lia|].
      rewrite <- (map_length N.of_nat k) at 1. rewrite Nat2N.id, take_app.
      destruct f as [|f']; [lia|].
      rewrite decode_child by (unfold max_path_len; auto; lia). now rewrite map_to_of_nat.
    - inv Ht. rewrite enc_branch.
      cbn [decode app N.ltb N.compare N.eqb Pos.eqb].
      assert (L : length (cs ++ [vc]) = 17) by (rewrite app_length; simpl; lia).
      rewrite <- L. destruct f as [|f']; [lia|]. rewrite decode_kids_enc.
      + rewrite map_app. simpl map.
        assert (Lm : length (map ref cs) = 16) by (rewrite map_length; auto).
        assert (E1 : firstn 16 (map ref cs ++ [ref vc]) = map ref cs).
        { rewrite firstn_app, Lm. simpl firstn at 2. rewrite app_nil_r. apply firstn_all2. lia. }
        assert (E2 : nth 16 (map ref cs ++ [ref vc]) Empty = ref vc).
        { rewrite app_nth2 by lia. rewrite Lm. reflexivity. }
        rewrite E1, E2. reflexivity.
      + unfold max_path_len. lia.
      + apply Forall_app. split; auto. constructor; auto.
        apply vc_ok_NF; auto.
  Qed.

  (* ---------- the store built from a proof ---------- *)

  Lemma lookup_sound pr h bs : store_lookup (store_of H pr) h = Some bs -> In bs pr /\ H (H bs) = h.
  Proof.
    unfold store_lookup, store_of. destruct (find _ _) as [e|] eqn:E; [|discriminate].
    intros [= <-]. apply find_some in E. destruct E as [Hin Heq]. apply bytes_eqb_eq in Heq.
    apply in_rev in Hin. apply in_map_iff in Hin. destruct Hin as (bs & <- & Hin). simpl in *. auto.
  Qed.

  Lemma lookup_complete pr bs : In bs pr ->
    exists bs', store_lookup (store_of H pr) (H (H bs)) = Some bs' /\ In bs' pr /\ H (H bs') = H (H bs).
  Proof.
    intros Hin. unfold store_lookup. destruct (find _ _) as [e|] eqn:E.
    - exists (snd e). split; auto. apply (lookup_sound pr). unfold store_lookup. now rewrite E.
    - exfalso. assert (Hf : bytes_eqb (fst (H (H bs), bs)) (H (H bs)) = false).
      { apply (find_none _ _ E (H (H bs), bs)).
        unfold store_of. apply in_rev. rewrite rev_involutive. apply in_map_iff. exists bs. auto. }
      simpl in Hf. assert (Ht : bytes_eqb (H (H bs)) (H (H bs)) = true) by (apply bytes_eqb_eq; reflexivity).
      congruence.
  Qed.

  Definition bytes_eq_dec : forall a b : bytes, {a = b} + {a <> b} := list_eq_dec N.eq_dec.

  Lemma enc_length_pos t : NFne t -> exists m, length (enc H t) = S m.
  Proof.
    intros Ht. destruct t; try (inv Ht; fail).
    - simpl. eauto.
    - rewrite enc_ext. simpl. eauto.
    - rewrite enc_branch. simpl. eauto.
  Qed.

  (* fetching the reference of a node of the trie from a store made of byte strings: the node itself,
     unless the store holds a different string with the same hash *)
  Lemma store_get_node pr t n' : NFne t -> bounded t ->
    store_get (store_of H pr) (hash H t) = Some n' -> n' = shallow t \/ collision.
  Proof.
    intros Ht Hb. unfold store_get. destruct (store_lookup _ _) as [bs|] eqn:E; [|discriminate].
    apply lookup_sound in E. destruct E as [Hin Hh].
    assert (Eh : hash H t = H (H (enc H t))) by (destruct t; try (inv Ht; fail); reflexivity).
    rewrite Eh in Hh. destruct (bytes_eq_dec bs (enc H t)) as [->|Hne].
    - destruct (enc_length_pos t Ht) as [m Hm]. rewrite Hm.
      rewrite <- (app_nil_r (enc H t)). rewrite decode_shallow by (auto; lia).
      destruct t; try (inv Ht; fail); simpl; intros [= <-]; auto.
    - intros _. right. exists bs, (enc H t). auto.
  Qed.

  (* ---------- GetProof ---------- *)

  Lemma get_proof_branch_cons cs vc i r :
    get_proof H (Branch cs vc) (i :: r) =
    match get_proof H (nth i cs Empty) r with Some pr => Some (enc H (Branch cs vc) :: pr) | None => None end.
  Proof.
    cbn [get_proof].
    assert (E : forall l j, (fix at_ (l : list node) (i : nat) {struct l} : option (list bytes) :=
                               match l, i with
                               | [], _ => None
                               | c :: _, O => get_proof H c r
                               | _ :: l', S i' => at_ l' i'
                               end) l j = get_proof H (nth j l Empty) r).
    { induction l as [|c l IH]; intros [|j]; simpl; auto. }
    rewrite E. reflexivity.
  Qed.

  (* a proof exists exactly for the keys of the trie *)
  Lemma get_proof_some t : forall p v, NF t -> content t p = Some v -> exists pr, get_proof H t p = Some pr.
  Proof.
    induction t as [|w|k n IH|cs vc IHcs IHvc|h] using node_ind2; intros p v Ht Hc; ctn_in Hc; try discriminate.
    - destruct p; [|discriminate]. simpl. eauto.
    - destruct Ht as [Ht|Ht]; [discriminate|]. inv Ht. cbn [get_proof].
      destruct (strip k p) as [r|]; [|discriminate].
      destruct (IH r v) as [pr Hpr]; [right; auto|auto|]. rewrite Hpr. eauto.
    - destruct Ht as [Ht|Ht]; [discriminate|]. inv Ht. destruct p as [|i r].
      + ctn_in Hc. destruct (IHvc [] v) as [pr Hpr]; [apply vc_ok_NF; auto|auto|].
        cbn [get_proof]. rewrite Hpr. eauto.
      + ctn_in Hc. rewrite get_proof_branch_cons.
        destruct (Nat.lt_ge_cases i (length cs)) as [Hi|Hi].
        * rewrite Forall_forall in IHcs.
          destruct (IHcs _ (nth_In cs Empty Hi) r v) as [pr Hpr]; [apply NF_nth; auto|auto|]. rewrite Hpr. eauto.
        * rewrite nth_overflow in Hc by lia. discriminate.
  Qed.

  (* ---------- completeness ---------- *)

  Lemma ref_nonempty c : NFne c -> ref c = HashRef (hash H c).
  Proof. intros Hc. destruct c; try (inv Hc; fail); reflexivity. Qed.

  Lemma nth_map_ref cs i : nth i (map ref cs) Empty = ref (nth i cs Empty).
  Proof. change Empty with (ref Empty) at 1. apply map_nth. Qed.

  (* resolving the reference of a node whose bytes are in the store *)
  Lemma walk_resolve t f all p : NFne t -> bounded t -> In (enc H t) all ->
    walk (S f) (store_of H all) (HashRef (hash H t)) p = walk f (store_of H all) (shallow t) p \/ collision.
  Proof.
    intros Ht Hb Hin. cbn [walk].
    destruct (lookup_complete all (enc H t) Hin) as (bs' & Hl & _ & Hh).
    destruct (bytes_eq_dec bs' (enc H t)) as [->|Hne]; [|right; exists bs', (enc H t); auto].
    left. unfold store_get.
    assert (Eh : hash H t = H (H (enc H t))) by (destruct t; try (inv Ht; fail); reflexivity).
    rewrite Eh, Hl. destruct (enc_length_pos t Ht) as [m Hm]. rewrite Hm.
    rewrite <- (app_nil_r (enc H t)). rewrite decode_shallow by (auto; lia).
    destruct t; try (inv Ht; fail); reflexivity.
  Qed.

  Lemma walk_complete t : forall p v pr all fuel, NFne t -> bounded t ->
    get_proof H t p = Some pr -> content t p = Some v -> incl pr all -> 2 * length pr <= fuel ->
    walk fuel (store_of H all) (HashRef (hash H t)) p = Some v \/ collision.
  Proof.
    induction t as [|w|k n IH|cs vc IHcs IHvc|h] using node_ind2; intros p v pr all fuel Ht Hb Hpr Hc Hincl Hfuel;
      try (inv Ht; fail).
    - (* Leaf *)
      destruct p; [|discriminate]. simpl in Hpr, Hc. inv Hpr. inv Hc. simpl in Hfuel.
      destruct fuel as [|[|f]]; try lia.
      assert (Hin0 : In (enc H (Leaf v)) all) by (apply Hincl; left; auto).
      destruct (walk_resolve (Leaf v) (S f) all [] Ht Hb Hin0) as [E|E]; [|right; exact E].
      rewrite E. left. reflexivity.
    - (* Ext *)
      pose proof Ht as Ht0. pose proof Hb as Hb0. inv Ht. inv Hb. cbn [get_proof] in Hpr. ctn_in Hc.
      destruct (strip k p) as [r|] eqn:Es; [|discriminate].
      destruct (get_proof H n r) as [pr'|] eqn:Epr; [|discriminate]. inv Hpr. simpl in Hfuel.
      destruct fuel as [|[|f]]; try lia.
      assert (Hin0 : In (enc H (Ext k n)) all) by (apply Hincl; left; auto).
      destruct (walk_resolve (Ext k n) (S f) all p Ht0 Hb0 Hin0) as [E|E]; [|right; exact E].
      rewrite E. cbn [shallow walk]. rewrite Es, ref_nonempty by auto.
      apply (IH r v pr'); auto; [intros x Hx; apply Hincl; right; auto|lia].
    - (* Branch *)
      pose proof Ht as Ht0. pose proof Hb as Hb0. inv Ht. inv Hb.
      destruct p as [|i r].
      + cbn [get_proof] in Hpr. ctn_in Hc. destruct (get_proof H vc []) as [pr'|] eqn:Epr; [|discriminate].
        inv Hpr. simpl in Hfuel. destruct fuel as [|[|f]]; try lia.
        assert (Hin0 : In (enc H (Branch cs vc)) all) by (apply Hincl; left; auto).
      destruct (walk_resolve (Branch cs vc) (S f) all [] Ht0 Hb0 Hin0) as [E|E]; [|right; exact E].
        rewrite E. cbn [shallow walk].
        destruct vc as [|w| | |]; try (simpl in *; tauto); ctn_in Hc; [discriminate|].
        apply (IHvc [] v pr'); auto; [constructor|intros x Hx; apply Hincl; right; auto|lia].
      + rewrite get_proof_branch_cons in Hpr. ctn_in Hc.
        destruct (get_proof H (nth i cs Empty) r) as [pr'|] eqn:Epr; [|discriminate].
        inv Hpr. simpl in Hfuel. destruct fuel as [|[|f]]; try lia.
        assert (Hin0 : In (enc H (Branch cs vc)) all) by (apply Hincl; left; auto).
      destruct (walk_resolve (Branch cs vc) (S f) all (i :: r) Ht0 Hb0 Hin0) as [E|E]; [|right; exact E].
        rewrite E. cbn [shallow walk]. rewrite nth_map_ref.
        destruct (Nat.lt_ge_cases i (length cs)) as [Hi|Hi]; [|rewrite nth_overflow in Hc by lia; discriminate].
        assert (Hcn : NFne (nth i cs Empty)).
        { match goal with Hall : Forall (fun c => c = Empty \/ NFne c) cs |- _ => destruct (NF_nth cs i Hall) as [E0|E0]; auto end.
          rewrite E0 in Hc. discriminate. }
        rewrite ref_nonempty by auto.
        rewrite Forall_forall in IHcs.
        apply (IHcs _ (nth_In cs Empty Hi) r v pr'); auto; [|intros x Hx; apply Hincl; right; auto|lia].
        match goal with Hbd : Forall bounded cs |- _ => rewrite Forall_forall in Hbd; apply Hbd; apply nth_In; auto end.
  Qed.

  Theorem proof_complete t p v : NFne t -> bounded t -> content t p = Some v ->
    exists pr, get_proof H t p = Some pr /\ (verify_proof H (root H t) p pr = Some v \/ collision).
  Proof.
    intros Ht Hb Hc. destruct (get_proof_some t p v) as [pr Hpr]; [right; auto|auto|].
    exists pr. split; auto. unfold verify_proof.
    assert (Er : root H t = hash H t) by (destruct t; try (inv Ht; fail); reflexivity).
    rewrite Er. apply (walk_complete t p v pr pr); auto; [apply incl_refl|lia].
  Qed.

  (* ---------- soundness ---------- *)

  Lemma walk_sound t : forall fuel pr p v, NFne t -> bounded t ->
    walk fuel (store_of H pr) (HashRef (hash H t)) p = Some v -> content t p = Some v \/ collision.
  Proof.
    induction t as [|w|k n IH|cs vc IHcs IHvc|h] using node_ind2; intros fuel pr p v Ht Hb Hw; try (inv Ht; fail).
    - destruct fuel as [|f]; [discriminate|]. cbn [walk] in Hw.
      destruct (store_get _ _) as [n'|] eqn:Eg; [|discriminate].
      destruct (store_get_node pr (Leaf w) n' Ht Hb Eg) as [->|Hcol]; auto.
      left. destruct f; [discriminate|]. simpl in Hw. destruct p; [|discriminate]. exact Hw.
    - destruct fuel as [|f]; [discriminate|]. cbn [walk] in Hw.
      destruct (store_get _ _) as [n'|] eqn:Eg; [|discriminate].
      destruct (store_get_node pr (Ext k n) n' Ht Hb Eg) as [->|Hcol]; auto.
      inv Ht. inv Hb. destruct f; [discriminate|]. cbn [shallow walk] in Hw. ctn.
      destruct (strip k p) as [r|]; [|discriminate]. rewrite ref_nonempty in Hw by auto.
      apply (IH f pr r v); auto.
    - destruct fuel as [|f]; [discriminate|]. cbn [walk] in Hw.
      destruct (store_get _ _) as [n'|] eqn:Eg; [|discriminate].
      destruct (store_get_node pr (Branch cs vc) n' Ht Hb Eg) as [->|Hcol]; auto.
      inv Ht. inv Hb. destruct f; [discriminate|]. cbn [shallow walk] in Hw.
      destruct p as [|i r]; ctn.
      + destruct vc; simpl in H4; try tauto.
        * simpl in Hw. destruct f; discriminate.
        * apply (IHvc f pr [] v); auto. constructor.
      + rewrite nth_map_ref in Hw.
        destruct (Nat.lt_ge_cases i (length cs)) as [Hi|Hi].
        * destruct (NF_nth cs i H3) as [E|Hcn].
          -- rewrite E in Hw. simpl in Hw. destruct f; discriminate.
          -- rewrite ref_nonempty in Hw by auto. rewrite Forall_forall in IHcs.
             apply (IHcs _ (nth_In cs Empty Hi) f pr r v); auto.
             rewrite Forall_forall in H6. apply H6. apply nth_In; auto.
        * rewrite nth_overflow in Hw by lia. simpl in Hw. destruct f; discriminate.
  Qed.

  (* whatever byte strings are supplied: a value returned under the root of t is the value t stores *)
  Theorem proof_sound t p proofs v : NFne t -> bounded t ->
    verify_proof H (root H t) p proofs = Some v -> content t p = Some v \/ collision.
  Proof.
    intros Ht Hb Hv. unfold verify_proof in Hv.
    assert (Er : root H t = hash H t) by (destruct t; try (inv Ht; fail); reflexivity).
    rewrite Er in Hv. eapply walk_sound; eauto.
  Qed.

  Corollary proof_sound_absent t p proofs v : NFne t -> bounded t -> content t p = None ->
    verify_proof H (root H t) p proofs = Some v -> collision.
  Proof. intros Ht Hb Hc Hv. destruct (proof_sound t p proofs v Ht Hb Hv) as [E|E]; auto. congruence. Qed.

  (* the empty trie's root is 32 zero bytes: verification succeeds only with a preimage of it *)
  Theorem proof_sound_empty p proofs v :
    verify_proof H (root H Empty) p proofs = Some v -> exists a, H (H a) = repeat 0%N 32.
  Proof.
    unfold verify_proof. cbn [root]. generalize (2 * (length p + length proofs + length (concat proofs)) + 4). intros fuel.
    destruct fuel as [|f]; [discriminate|]. cbn [walk]. unfold store_get.
    destruct (store_lookup _ _) as [bs|] eqn:E; [|discriminate]. intros _.
    apply lookup_sound in E. destruct E as [_ E]. eauto.
  Qed.
End Merkle.
