(* Put and Delete of Trie/Model.v: the content changes like a finite-map update / removal and the
   normal form of doc.go is preserved. *)
From NG Require Import Common.Tactics Trie.Model Trie.Lemmas.

(* ---------- Put ---------- *)

Lemma put_lob n r v : leaf_or_branch n -> leaf_or_branch (put n r v).
Proof.
  destruct n; simpl; try tauto; intros _.
  - destruct r; exact I.
  - destruct r; exact I.
Qed.

Lemma content_maybe_ext pref b q :
  content (match pref with [] => b | _ => Ext pref b end) q =
  match strip pref q with Some s => content b s | None => None end.
Proof. destruct pref; reflexivity. Qed.

(* the branch built when an extension is split *)
Definition split_branch (a : nat) (kt : path) (n : node) (pt : path) (v : bytes) : node :=
  match pt with
  | [] => Branch (upd a (new_sub kt n) empties) (Leaf v)
  | i :: r => Branch (upd i (new_sub r (Leaf v)) (upd a (new_sub kt n) empties)) Empty
  end.

Lemma split_content a kt n pt v s : match pt with y :: _ => a <> y | [] => True end -> a < 16 ->
  path_ok pt ->
  content (split_branch a kt n pt v) s = if path_eqb s pt then Some v else content (Ext (a :: kt) n) s.
Proof.
  intros Hd Ha Hi. unfold split_branch. destruct pt as [|i r].
  - destruct s as [|j s]; ctn; simpl; auto.
    destruct (Nat.eqb_spec a j).
    + subst. rewrite nth_upd_same by (rewrite length_empties; lia). apply content_new_sub.
    + rewrite nth_upd_other by auto. now rewrite nth_empties.
  - apply path_ok_cons in Hi. destruct Hi as [Hi _].
    destruct s as [|j s]; ctn; simpl; auto.
    destruct (Nat.eqb_spec j i).
    + subst j. simpl. rewrite nth_upd_same by (rewrite length_upd, length_empties; lia).
      rewrite content_new_sub_leaf. destruct (path_eqb s r); auto.
      destruct (Nat.eqb_spec a i); [congruence|reflexivity].
    + simpl. rewrite nth_upd_other by auto.
      destruct (Nat.eqb_spec a j).
      * subst. rewrite nth_upd_same by (rewrite length_empties; lia). apply content_new_sub.
      * rewrite nth_upd_other by auto. now rewrite nth_empties.
Qed.

Lemma put_ext_split k n p v c a kt pt : common k p = (c, a :: kt, pt) ->
  put (Ext k n) p v = match c with [] => split_branch a kt n pt v | _ => Ext c (split_branch a kt n pt v) end.
Proof. intros E. simpl. rewrite E. unfold split_branch. destruct pt; reflexivity. Qed.

Lemma put_ext_pref k n p v c pt : common k p = (c, [], pt) -> put (Ext k n) p v = Ext k (put n pt v).
Proof. intros E. simpl. rewrite E. reflexivity. Qed.

Theorem put_content t : forall p v, NF t -> path_ok p ->
  forall q, content (put t p v) q = if path_eqb q p then Some v else content t q.
Proof.
  induction t as [|w|k n IH|cs vc IHcs IHvc|h] using node_ind2; intros p v Ht Hp q.
  - simpl put. apply content_new_sub_leaf.
  - destruct p as [|i r]; simpl put.
    + destruct q; reflexivity.
    + apply path_ok_cons in Hp. destruct Hp as [Hi Hr]. destruct q as [|j s]; ctn; simpl; auto.
      destruct (Nat.eqb_spec j i).
      * subst. simpl. rewrite nth_upd_same by (rewrite length_empties; lia).
        rewrite content_new_sub_leaf. destruct (path_eqb s r); reflexivity.
      * simpl. rewrite nth_upd_other by auto. now rewrite nth_empties.
  - destruct Ht as [Ht|Ht]; [discriminate|]. inv Ht.
    pose proof (common_spec k p) as Hc. destruct (common k p) as [[c kt] pt] eqn:Ec.
    destruct Hc as (Hk & Hpp & Hd). destruct kt as [|a kt].
    + rewrite (put_ext_pref _ _ _ _ _ _ Ec).
      rewrite app_nil_r in Hk. subst c. subst p. apply path_ok_app in Hp. destruct Hp as [_ Hp].
      ctn. rewrite path_eqb_strip. destruct (strip k q) as [s|]; auto.
      apply IH; auto; right; auto.
    + rewrite (put_ext_split _ _ _ _ _ _ _ _ Ec).
      subst k p. apply path_ok_app in Hp. destruct Hp as [_ Hp].
      match goal with H : path_ok (c ++ a :: kt) |- _ => apply path_ok_app in H; destruct H as [_ Hk]; apply path_ok_cons in Hk; destruct Hk as [Ha _] end.
      rewrite content_maybe_ext. rewrite content_ext, strip_app_l, path_eqb_strip.
      destruct (strip c q) as [s|]; auto.
      rewrite <- content_ext. apply split_content; auto; destruct pt; auto.
  - destruct Ht as [Ht|Ht]; [discriminate|]. inv Ht.
    destruct p as [|i r].
    + rewrite put_branch_nil. destruct q as [|j s]; ctn; simpl; auto.
      apply (IHvc [] v); [apply vc_ok_NF; auto|constructor].
    + rewrite put_branch_cons. apply path_ok_cons in Hp. destruct Hp as [Hi Hr].
      destruct q as [|j s]; ctn; simpl; auto.
      destruct (Nat.eqb_spec j i).
      * subst. simpl. rewrite nth_upd_same by lia.
        rewrite Forall_forall in IHcs. apply IHcs; auto.
        -- apply nth_In. lia.
        -- apply NF_nth; auto.
      * simpl. now rewrite nth_upd_other by auto.
  - destruct Ht as [Ht|Ht]; [discriminate|inv Ht].
Qed.

Lemma ne_count_upd1 i x : i < 16 -> is_empty x = false -> ne_count (upd i x empties) = 1.
Proof.
  intros Hi Hx. pose proof (ne_count_upd i x empties) as H. rewrite length_empties, nth_empties, Hx in H.
  change (ne_count empties) with 0 in H. simpl in H. lia.
Qed.

Lemma ne_count_upd2 i y a x : i < 16 -> a < 16 -> a <> i -> is_empty x = false -> is_empty y = false ->
  ne_count (upd i y (upd a x empties)) = 2.
Proof.
  intros Hi Ha Hd Hx Hy. pose proof (ne_count_upd i y (upd a x empties)) as H.
  rewrite length_upd, length_empties in H. rewrite nth_upd_other, nth_empties, Hy in H by auto.
  rewrite ne_count_upd1 in H by auto. simpl in H. lia.
Qed.

Lemma NFne_split_branch a kt n pt v : a < 16 -> path_ok kt -> path_ok pt ->
  match pt with y :: _ => a <> y | [] => True end ->
  NFne n -> leaf_or_branch n -> NFne (split_branch a kt n pt v).
Proof.
  intros Ha Hkt Hpt Hd Hn Hl. unfold split_branch.
  assert (HX : NFne (new_sub kt n)) by (apply NFne_new_sub; auto).
  assert (HE : Forall (fun c => c = Empty \/ NFne c) empties) by (repeat constructor).
  destruct pt as [|i r].
  - constructor.
    + now rewrite length_upd.
    + apply Forall_upd; auto.
    + exact I.
    + rewrite ne_count_app, ne_count_single. simpl.
      rewrite ne_count_upd1; auto. apply NFne_not_empty; auto.
  - apply path_ok_cons in Hpt. destruct Hpt as [Hi Hr].
    assert (HY : NFne (new_sub r (Leaf v))) by (apply NFne_new_sub; auto; [constructor|exact I]).
    constructor.
    + now rewrite !length_upd.
    + apply Forall_upd; auto. apply Forall_upd; auto.
    + exact I.
    + rewrite ne_count_app, ne_count_single. simpl.
      rewrite ne_count_upd2; auto; apply NFne_not_empty; auto.
Qed.

Theorem put_NFne t : forall p v, NF t -> path_ok p -> NFne (put t p v).
Proof.
  induction t as [|w|k n IH|cs vc IHcs IHvc|h] using node_ind2; intros p v Ht Hp.
  - simpl put. apply NFne_new_sub; auto; [constructor|exact I].
  - destruct p as [|i r]; simpl put; [constructor|].
    apply path_ok_cons in Hp. destruct Hp as [Hi Hr].
    assert (HY : NFne (new_sub r (Leaf v))) by (apply NFne_new_sub; auto; [constructor|exact I]).
    constructor.
    + now rewrite length_upd.
    + apply Forall_upd; auto. repeat constructor.
    + exact I.
    + rewrite ne_count_app, ne_count_single. simpl.
      rewrite ne_count_upd1; auto. apply NFne_not_empty; auto.
  - destruct Ht as [Ht|Ht]; [discriminate|]. inv Ht.
    pose proof (common_spec k p) as Hc. destruct (common k p) as [[c kt] pt] eqn:Ec.
    destruct Hc as (Hk & Hpp & Hd). destruct kt as [|a kt].
    + rewrite (put_ext_pref _ _ _ _ _ _ Ec).
      rewrite app_nil_r in Hk. subst c. subst p. apply path_ok_app in Hp. destruct Hp as [_ Hp].
      constructor; auto.
      * apply IH; auto; right; auto.
      * apply put_lob; auto.
    + rewrite (put_ext_split _ _ _ _ _ _ _ _ Ec).
      subst k p. apply path_ok_app in Hp. destruct Hp as [Hc Hp].
      match goal with H : path_ok (c ++ a :: kt) |- _ => apply path_ok_app in H; destruct H as [_ Hk]; apply path_ok_cons in Hk; destruct Hk as [Ha Hkt] end.
      assert (HB : NFne (split_branch a kt n pt v)).
      { apply NFne_split_branch; auto; destruct pt; auto. }
      destruct c; auto. constructor; auto; [discriminate|].
      unfold split_branch. destruct pt; exact I.
  - destruct Ht as [Ht|Ht]; [discriminate|]. inv Ht.
    destruct p as [|i r].
    + rewrite put_branch_nil.
      assert (Hv : put vc [] v = Leaf v) by (destruct vc; simpl in *; try tauto).
      rewrite Hv. constructor; auto; [exact I|].
      rewrite ne_count_app, ne_count_single in *. simpl. destruct (is_empty vc); lia.
    + rewrite put_branch_cons. apply path_ok_cons in Hp. destruct Hp as [Hi Hr].
      assert (HX : NFne (put (nth i cs Empty) r v)).
      { rewrite Forall_forall in IHcs. apply IHcs; auto; [apply nth_In; lia|apply NF_nth; auto]. }
      constructor; auto.
      * now rewrite length_upd.
      * apply Forall_upd; auto.
      * rewrite ne_count_app in *. pose proof (ne_count_upd i (put (nth i cs Empty) r v) cs) as H.
        rewrite (NFne_not_empty _ HX) in H. destruct (is_empty (nth i cs Empty)); lia.
  - destruct Ht as [Ht|Ht]; [discriminate|inv Ht].
Qed.

Corollary put_NF t p v : NF t -> path_ok p -> NF (put t p v).
Proof. intros. right. now apply put_NFne. Qed.

(* ---------- Delete ---------- *)

(* what after_delete does to a branch whose children are in normal form *)
Lemma after_delete_spec cs vc :
  length cs = 16 -> Forall (fun c => c = Empty \/ NFne c) cs -> vc_ok vc -> 1 <= ne_count (cs ++ [vc]) ->
  NFne (after_delete cs vc) /\ forall q, content (after_delete cs vc) q = content (Branch cs vc) q.
Proof.
  intros Hlen Hall Hvc Hcnt. unfold after_delete.
  assert (Hl17 : length (cs ++ [vc]) = 17) by (rewrite app_length; simpl; lia).
  destruct (ne_from 0 (cs ++ [vc])) as [|[j c] [|e2 rest]] eqn:E.
  - unfold ne_count in Hcnt. rewrite E in Hcnt. simpl in Hcnt. lia.
  - apply ne_from_single in E. destruct E as (Hj & Hnth & Hne & Hoth).
    assert (Hcs : forall i, i <> j -> nth i cs Empty = Empty).
    { intros i Hi. destruct (Nat.lt_ge_cases i 16).
      - specialize (Hoth i Hi). rewrite app_nth1 in Hoth by lia. exact Hoth.
      - apply nth_overflow. lia. }
    destruct (Nat.eqb_spec j 16) as [->|Hj16].
    + rewrite app_nth2 in Hnth by lia. rewrite Hlen, Nat.sub_diag in Hnth. simpl in Hnth. subst c.
      destruct vc; simpl in Hvc, Hne; try tauto; try discriminate.
      split; [constructor|]. intros q. destruct q as [|i s]; ctn; auto.
      assert (Hall0 : nth i cs Empty = Empty).
      { destruct (Nat.eq_dec i 16) as [->|Hn]; [apply nth_overflow; lia|apply Hcs; auto]. }
      rewrite Hall0. reflexivity.
    + assert (Hj' : j < 16) by lia.
      rewrite app_nth1 in Hnth by lia.
      assert (Hvc' : vc = Empty).
      { specialize (Hoth 16). rewrite app_nth2 in Hoth by lia. rewrite Hlen, Nat.sub_diag in Hoth. apply Hoth. lia. }
      assert (Hc : NFne c).
      { pose proof (NF_nth cs j Hall) as [H|H]; rewrite Hnth in H; auto. rewrite H in Hne. simpl in Hne. discriminate. }
      assert (Hq : forall k n, (forall s, content (Ext k n) s = content c s) ->
                   forall q, content (Ext (j :: k) n) q = content (Branch cs vc) q).
      { intros k n Hs q. subst vc. destruct q as [|i s]; ctn; auto.
        simpl strip. destruct (Nat.eqb_spec j i).
        - subst i. rewrite Hnth. rewrite <- Hs. reflexivity.
        - rewrite Hcs by auto. reflexivity. }
      assert (Hpj : path_ok [j]) by (apply path_ok_cons; split; [auto|constructor]).
      destruct c as [|w|k n|cs' vc'|h]; try (inv Hc; fail).
      * split; [apply NF_ext; [discriminate|exact Hpj|exact Hc|exact I]|].
        apply Hq. intros s. reflexivity.
      * inv Hc. split; [apply NF_ext; [discriminate|apply path_ok_cons; auto|auto|auto]|].
        apply Hq. intros s. reflexivity.
      * split; [apply NF_ext; [discriminate|exact Hpj|exact Hc|exact I]|].
        apply Hq. intros s. reflexivity.
  - split; [|reflexivity]. constructor; auto.
    unfold ne_count. rewrite E. simpl. lia.
Qed.

Theorem delete_spec t : forall p, NF t ->
  NF (delete t p) /\ forall q, content (delete t p) q = if path_eqb q p then None else content t q.
Proof.
  induction t as [|w|k n IH|cs vc IHcs IHvc|h] using node_ind2; intros p Ht.
  - simpl. split; [left; auto|]. intros q. destruct (path_eqb q p); reflexivity.
  - destruct p as [|i r]; simpl delete.
    + split; [left; auto|]. intros [|j s]; reflexivity.
    + split; auto. intros [|j s]; try reflexivity. ctn. destruct (path_eqb (j :: s) (i :: r)); reflexivity.
  - destruct Ht as [Ht|Ht]; [discriminate|]. inv Ht.
    simpl delete. destruct (strip k p) as [r|] eqn:Es.
    + apply strip_some in Es. subst p.
      destruct (IH r) as [Hd Hc]; [right; auto|].
      assert (Hrhs : forall q, (if path_eqb q (k ++ r) then None else content (Ext k n) q) =
                               match strip k q with Some s => content (delete n r) s | None => None end).
      { intros q. rewrite path_eqb_strip. ctn. destruct (strip k q) as [s|]; auto; try (now rewrite Hc). }
      destruct (delete n r) as [|w|k' n'|cs' vc'|h'] eqn:Ed.
      * split; [left; auto|]. intros q. rewrite Hrhs. ctn. destruct (strip k q); reflexivity.
      * split; [right; constructor; auto; [constructor|exact I]|]. intros q. now rewrite Hrhs.
      * destruct Hd as [Hd|Hd]; [discriminate|]. inv Hd.
        split; [right; constructor; auto|].
        -- destruct k; [congruence|discriminate].
        -- apply path_ok_app. auto.
        -- intros q. rewrite Hrhs. ctn. rewrite strip_app_l. destruct (strip k q); reflexivity.
      * destruct Hd as [Hd|Hd]; [discriminate|].
        split; [right; constructor; auto; exact I|]. intros q. now rewrite Hrhs.
      * destruct Hd as [Hd|Hd]; [discriminate|inv Hd].
    + split; [right; constructor; auto|]. intros q.
      destruct (path_eqb q p) eqn:E; auto. apply path_eqb_eq in E. subst q. ctn. now rewrite Es.
  - destruct Ht as [Ht|Ht]; [discriminate|]. inv Ht.
    match goal with H : 2 <= ne_count _ |- _ => rename H into Hcnt end.
    rewrite ne_count_app, ne_count_single in Hcnt.
    destruct p as [|i r].
    + rewrite delete_branch_nil.
      destruct (IHvc []) as [Hd Hc]; [apply vc_ok_NF; auto|].
      assert (Hvc' : delete vc [] = Empty) by (destruct vc; simpl in *; tauto).
      rewrite Hvc' in *.
      destruct (after_delete_spec cs Empty) as [Hn Hq]; auto; [exact I| |].
      * rewrite ne_count_app, ne_count_single. simpl. destruct (is_empty vc); simpl in Hcnt; lia.
      * split; [right; auto|]. intros q. rewrite Hq. destruct q as [|j s]; ctn; auto;
        try (specialize (Hc []); simpl in Hc; exact Hc).
    + rewrite delete_branch_cons.
      destruct (Nat.lt_ge_cases i 16) as [Hi|Hi].
      * assert (Hin : In (nth i cs Empty) cs) by (apply nth_In; lia).
        rewrite Forall_forall in IHcs.
        destruct (IHcs _ Hin r) as [Hd Hc]; [apply NF_nth; auto|].
        destruct (after_delete_spec (upd i (delete (nth i cs Empty) r) cs) vc) as [Hn Hq]; auto.
        -- now rewrite length_upd.
        -- apply Forall_upd; auto.
        -- rewrite ne_count_app, ne_count_single.
           pose proof (ne_count_upd i (delete (nth i cs Empty) r) cs) as H.
           destruct (is_empty (nth i cs Empty)); destruct (is_empty (delete (nth i cs Empty) r)); lia.
        -- split; [right; auto|]. intros q. rewrite Hq. destruct q as [|j s]; ctn; auto.
           simpl path_eqb. destruct (Nat.eqb_spec j i).
           ++ subst j. simpl. rewrite nth_upd_same by lia. apply Hc.
           ++ simpl. now rewrite nth_upd_other by auto.
      * rewrite upd_out by lia.
        destruct (after_delete_spec cs vc) as [Hn Hq]; auto.
        -- rewrite ne_count_app, ne_count_single. lia.
        -- split; [right; auto|]. intros q. rewrite Hq.
           destruct (path_eqb q (i :: r)) eqn:E; auto. apply path_eqb_eq in E. subst q. ctn.
           rewrite nth_overflow by lia. reflexivity.
  - destruct Ht as [Ht|Ht]; [discriminate|inv Ht].
Qed.

Corollary delete_NF t p : NF t -> NF (delete t p).
Proof. intros H. apply (delete_spec t p H). Qed.

Corollary delete_content t p : NF t ->
  forall q, content (delete t p) q = if path_eqb q p then None else content t q.
Proof. intros H. apply (delete_spec t p H). Qed.
