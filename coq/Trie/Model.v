(* Model of pkg/core/mpt (Merkle-Patricia trie of neo-go).  Definitions only; everything computes
   under vm_compute.  Proofs are in the other files of this directory.

   Conventions
   - a nibble is a [nat] (0..15), a path is a list of nibbles; bytes are [N] (0..255);
   - [Branch cs vc]: [cs] are the 16 nibble children (Go: Children[0..15]), [vc] is the value child
     (Go: Children[16] = lastChild);
   - [HashRef h] is Go's HashNode (a collapsed sub-trie known only by its hash).  The pure operations
     [put]/[delete]/[content]/[traverse] work on EXPANDED tries: where the Go code would fetch a
     HashNode from the store they leave it alone / find nothing.  Flush, Collapse and reloading from
     the store are the identity on the expanded trie (the harness checks that on the real code);
     [HashRef] matters for [enc]/[hash] (children are always encoded as references), for [collapse],
     and for [decode]/[verify_proof], which walk over a store of serialised nodes.
   - the hash function is a parameter [H] (one SHA-256); a node's hash is [H (H (enc n))].
     Instantiate with [Common.Sha256.sha256] to obtain concrete roots.

   Exposed for the properties built on top (C11, C03, C20): node, enc, hash, root, put, delete,
   content, entries, NF (+ boolean NFb), put_batch, collapse, decode, get_proof, verify_proof. *)
From NG Require Import Common.Tactics.

Definition path := list nat.
Definition bytes := list N.

Inductive node :=
| Empty
| Leaf (v : bytes)
| Ext (k : path) (n : node)
| Branch (cs : list node) (vc : node)
| HashRef (h : bytes).

(* induction principle that goes through the children list *)
Section node_ind2.
  Variable P : node -> Prop.
  Hypothesis HE : P Empty.
  Hypothesis HL : forall v, P (Leaf v).
  Hypothesis HX : forall k n, P n -> P (Ext k n).
  Hypothesis HB : forall cs vc, Forall P cs -> P vc -> P (Branch cs vc).
  Hypothesis HH : forall h, P (HashRef h).
  Fixpoint node_ind2 (t : node) : P t :=
    match t with
    | Empty => HE
    | Leaf v => HL v
    | Ext k n => HX k n (node_ind2 n)
    | Branch cs vc =>
        HB cs vc ((fix go (l : list node) : Forall P l :=
                     match l with [] => Forall_nil _ | c :: l' => Forall_cons _ (node_ind2 c) (go l') end) cs)
           (node_ind2 vc)
    | HashRef h => HH h
    end.
End node_ind2.

(* ---------- paths ---------- *)

(* bytes.HasPrefix(p, k) and p[len(k):] *)
Fixpoint strip (k p : path) : option path :=
  match k, p with
  | [], _ => Some p
  | _ :: _, [] => None
  | x :: k', y :: p' => if Nat.eqb x y then strip k' p' else None
  end.
Definition is_prefix (k p : path) : bool := match strip k p with Some _ => true | None => false end.

(* lcp(k, p) together with the two tails: k = c ++ kt, p = c ++ pt *)
Fixpoint common (k p : path) : path * path * path :=
  match k, p with
  | x :: k', y :: p' =>
      if Nat.eqb x y then let '(c, kt, pt) := common k' p' in (x :: c, kt, pt) else ([], k, p)
  | _, _ => ([], k, p)
  end.

(* bytes.Compare *)
Fixpoint lex_cmp (a b : path) : comparison :=
  match a, b with
  | [], [] => Eq
  | [], _ :: _ => Lt
  | _ :: _, [] => Gt
  | x :: a', y :: b' => match Nat.compare x y with Eq => lex_cmp a' b' | c => c end
  end.
Definition lex_le (a b : path) : bool := match lex_cmp a b with Gt => false | _ => true end.

Fixpoint path_eqb (a b : path) : bool :=
  match a, b with
  | [], [] => true
  | x :: a', y :: b' => Nat.eqb x y && path_eqb a' b'
  | _, _ => false
  end.

Definition path_ok (p : path) : Prop := Forall (fun x => x < 16) p.
Definition path_okb (p : path) : bool := forallb (fun x => x <? 16) p.

(* toNibbles / fromNibbles *)
Definition to_nibbles (bs : bytes) : path :=
  flat_map (fun b => [N.to_nat (b / 16); N.to_nat (b mod 16)]%N) bs.
Fixpoint from_nibbles (p : path) : bytes :=
  match p with
  | hi :: lo :: r => (N.of_nat hi * 16 + N.of_nat lo)%N :: from_nibbles r
  | _ => []
  end.

(* ---------- children ---------- *)

Definition is_empty (t : node) : bool := match t with Empty => true | _ => false end.
Definition empties : list node := repeat Empty 16.

Fixpoint upd (i : nat) (x : node) (l : list node) : list node :=
  match l with
  | [] => []
  | c :: l' => match i with O => x :: l' | S i' => c :: upd i' x l' end
  end.

(* newSubTrie *)
Definition new_sub (p : path) (n : node) : node := match p with [] => n | _ => Ext p n end.

(* non-empty children with their Go index, [j] is the index of the head *)
Fixpoint ne_from (j : nat) (l : list node) : list (nat * node) :=
  match l with
  | [] => []
  | c :: l' => if is_empty c then ne_from (S j) l' else (j, c) :: ne_from (S j) l'
  end.
Definition ne_count (l : list node) : nat := length (ne_from 0 l).

(* ---------- content: the finite map a trie denotes ---------- *)

Fixpoint content (t : node) (p : path) : option bytes :=
  match t with
  | Empty => None
  | HashRef _ => None
  | Leaf v => match p with [] => Some v | _ => None end
  | Ext k n => match strip k p with Some r => content n r | None => None end
  | Branch cs vc =>
      match p with
      | [] => content vc []
      | i :: r =>
          (fix at_ (l : list node) (i : nat) {struct l} : option bytes :=
             match l, i with
             | [], _ => None
             | c :: _, O => content c r
             | _ :: l', S i' => at_ l' i'
             end) cs i
      end
  end.

(* all (key, value) pairs in ascending key order (value child first: it adds no nibble) *)
Fixpoint entries (t : node) : list (path * bytes) :=
  match t with
  | Empty => []
  | HashRef _ => []
  | Leaf v => [([], v)]
  | Ext k n => map (fun e => (k ++ fst e, snd e)) (entries n)
  | Branch cs vc =>
      entries vc ++
      (fix go (l : list node) (j : nat) {struct l} : list (path * bytes) :=
         match l with
         | [] => []
         | c :: l' => map (fun e => (j :: fst e, snd e)) (entries c) ++ go l' (S j)
         end) cs 0
  end.

(* ---------- Put (trie.go: putIntoNode and its cases) ---------- *)

Fixpoint put (t : node) (p : path) (v : bytes) {struct t} : node :=
  match t with
  | Empty => new_sub p (Leaf v)                                            (* putIntoEmpty *)
  | Leaf w =>                                                              (* putIntoLeaf *)
      match p with
      | [] => Leaf v
      | i :: r => Branch (upd i (new_sub r (Leaf v)) empties) (Leaf w)
      end
  | Ext k n =>                                                             (* putIntoExtension *)
      match common k p with
      | (_, [], r) => Ext k (put n r v)                                    (* HasPrefix(path, key) *)
      | (pref, a :: kt, pt) =>
          let b0 := upd a (new_sub kt n) empties in
          let b := match pt with                                           (* splitPath(pathTail) *)
                   | [] => Branch b0 (Leaf v)
                   | i :: r => Branch (upd i (new_sub r (Leaf v)) b0) Empty
                   end in
          match pref with [] => b | _ => Ext pref b end
      end
  | Branch cs vc =>                                                        (* putIntoBranch *)
      match p with
      | [] => Branch cs (put vc [] v)
      | i :: r =>
          Branch ((fix go (l : list node) (j : nat) {struct l} : list node :=
                     match l with
                     | [] => []
                     | c :: l' => match j with O => put c r v :: l' | S j' => c :: go l' j' end
                     end) cs i) vc
      end
  | HashRef _ => t                                                         (* needs the store: out of the model's domain *)
  end.

(* ---------- Delete (trie.go: deleteFromNode and its cases) ---------- *)

(* the tail of deleteFromBranch: what a branch becomes after one child was replaced *)
Definition after_delete (cs : list node) (vc : node) : node :=
  match ne_from 0 (cs ++ [vc]) with
  | [] => Ext [0] Empty                                  (* count = 0: unreachable from a normal form *)
  | [(j, c)] =>
      if Nat.eqb j 16 then c                             (* only the value child is left *)
      else match c with
           | Ext k n => Ext (j :: k) n
           | _ => Ext [j] c
           end
  | _ => Branch cs vc
  end.

Fixpoint delete (t : node) (p : path) {struct t} : node :=
  match t with
  | Empty => Empty
  | HashRef _ => t
  | Leaf _ => match p with [] => Empty | _ => t end
  | Ext k n =>                                                             (* deleteFromExtension *)
      match strip k p with
      | None => t
      | Some r =>
          match delete n r with
          | Ext k' n' => Ext (k ++ k') n'
          | Empty => Empty
          | n' => Ext k n'
          end
      end
  | Branch cs vc =>                                                        (* deleteFromBranch *)
      match p with
      | [] => after_delete cs (delete vc [])
      | i :: r =>
          after_delete ((fix go (l : list node) (j : nat) {struct l} : list node :=
                           match l with
                           | [] => []
                           | c :: l' => match j with O => delete c r :: l' | S j' => c :: go l' j' end
                           end) cs i) vc
      end
  end.

(* ---------- Get (getWithPath, strict) ---------- *)

Fixpoint get (t : node) (p : path) : option bytes :=
  match t with
  | Leaf v => match p with [] => Some v | _ => None end
  | Branch cs vc =>
      match p with
      | [] => get vc []
      | i :: r =>
          (fix at_ (l : list node) (i : nat) {struct l} : option bytes :=
             match l, i with
             | [], _ => None
             | c :: _, O => get c r
             | _ :: l', S i' => at_ l' i'
             end) cs i
      end
  | Ext k n => match strip k p with Some r => get n r | None => None end
  | Empty => None
  | HashRef _ => None
  end.

(* getWithPath, non-strict: the node the (possibly incomplete) path leads to, and the full path to it *)
Fixpoint find_start (t : node) (p : path) : option (node * path) :=
  match t with
  | Empty => None
  | HashRef _ => None
  | Leaf _ => match p with [] => Some (t, []) | _ => None end
  | Branch cs vc =>
      match p with
      | [] => Some (t, [])
      | i :: r =>
          match (fix at_ (l : list node) (i : nat) {struct l} : option (node * path) :=
                   match l, i with
                   | [], _ => None
                   | c :: _, O => find_start c r
                   | _ :: l', S i' => at_ l' i'
                   end) cs i with
          | Some (s, pre) => Some (s, i :: pre)
          | None => None
          end
      end
  | Ext k n =>
      match p with
      | [] => Some (n, k)
      | _ =>
          match strip k p with
          | Some r => match find_start n r with Some (s, pre) => Some (s, k ++ pre) | None => None end
          | None => if is_prefix p k then Some (n, k) else None
          end
      end
  end.

(* the loop over the 16 nibble children of a branch, ascending or descending; [j] is the index of the head *)
Section KidsLoop.
  Context {A : Type} (f : node -> nat -> list A) (bw : bool).
  Fixpoint kids_loop (l : list node) (j : nat) : list A :=
    match l with
    | [] => []
    | c :: l' => if bw then kids_loop l' (S j) ++ f c j else f c j ++ kids_loop l' (S j)
    end.
End KidsLoop.

(* ---------- ordered traversal (billet.go: traverse), leaves only, SPECIFIED behaviour ----------
   [path] is the path of [t], [from] the start point relative to [t] ([] = none).
   Forward: the leaves whose relative path is >= from, ascending.
   Backward: the leaves whose relative path is <= from or extends from, descending.
   (The unchanged Go code deviates backwards: finding F3; this is the code with fixes/F3 applied.) *)
Fixpoint traverse (t : node) (pth from : path) (bw : bool) {struct t} : list (path * bytes) :=
  match t with
  | Empty => []
  | HashRef _ => []
  | Leaf v => match from with [] => [(pth, v)] | _ => if bw then [(pth, v)] else [] end
  | Ext k n =>
      match from with
      | [] => traverse n (pth ++ k) [] bw
      | _ =>
          match strip k from with
          | Some f' => traverse n (pth ++ k) f' bw
          | None =>
              let gt := match lex_cmp k from with Gt => true | _ => false end in
              if negb (Bool.eqb gt bw) || (bw && is_prefix from k) then traverse n (pth ++ k) [] bw else []
          end
      end
  | Branch cs vc =>
      let s := match from with [] => if bw then 15 else 0 | x :: _ => x end in
      let f' := match from with [] => [] | _ :: r => r end in
      let kids :=
        kids_loop (fun c j => if (if bw then s <? j else j <? s) then []
                              else traverse c (pth ++ [j]) (if Nat.eqb j s then f' else []) bw) bw cs 0 in
      if bw then kids ++ traverse vc pth [] bw
      else match from with [] => traverse vc pth [] bw ++ kids | _ => kids end
  end.

(* the common preamble of TrieStore.Seek and Trie.Find: start node for the prefix, adjusted start point.
   None = no matching items *)
Definition seek_start (t : node) (prefixP fromP : path) (bw : bool) : option (node * path * path) :=
  match find_start t prefixP with
  | None => None
  | Some (start, full) =>
      let pth := skipn (length prefixP) full in
      match fromP with
      | [] => Some (start, pth, [])
      | _ =>
          match strip pth fromP with
          | Some f' => Some (start, pth, f')
          | None =>
              if is_prefix fromP pth then Some (start, pth, [])
              else
                let lt := match lex_cmp pth fromP with Lt => true | _ => false end in
                if Bool.eqb lt bw then Some (start, pth, []) else None        (* SPECIFIED; Go has == for != : finding F25 *)
          end
      end
  end.

(* TrieStore.Seek: keys are relative to the prefix in Go's callback (it prepends rng.Prefix); here absolute *)
Definition seek (t : node) (prefixP fromP : path) (bw : bool) : list (path * bytes) :=
  match seek_start t prefixP fromP bw with
  | None => []
  | Some (start, pth, f') => map (fun e => (prefixP ++ fst e, snd e)) (traverse start pth f' bw)
  end.

(* Trie.Find (forward only): [from_nil] = Go's from == nil; the item at prefix+from itself is left out *)
Definition trie_find (t : node) (prefixP fromP : path) (from_nil : bool) (maxn : nat) : list (path * bytes) :=
  match seek_start t prefixP fromP false with
  | None => []
  | Some (start, pth, f') =>
      let all := traverse start pth f' false in
      let kept := if from_nil then all else filter (fun e => negb (path_eqb (fst e) fromP)) all in
      map (fun e => (prefixP ++ fst e, snd e)) (firstn maxn kept)
  end.

(* ---------- specification of range search on the content ---------- *)

Definition in_range (from : path) (bw : bool) (p : path) : bool :=
  if bw then lex_le p from || is_prefix from p else lex_le from p.
Definition range_query (es : list (path * bytes)) (prefixP fromP : path) (bw : bool) : list (path * bytes) :=
  let sel := filter (fun e => match strip prefixP (fst e) with
                              | Some rel => in_range fromP bw rel
                              | None => false
                              end) es in
  if bw then rev sel else sel.

(* ---------- encoding and hashing ---------- *)

Fixpoint le_bytes (n : nat) (x : N) : bytes :=
  match n with O => [] | S n' => (x mod 256)%N :: le_bytes n' (x / 256)%N end.

(* io.PutVarUint (note the strict comparisons with 0xFFFF and 0xFFFFFFFF) *)
Definition var_uint (n : N) : bytes :=
  if (n <? 253)%N then [n]
  else if (n <? 65535)%N then 253%N :: le_bytes 2 n
  else if (n <? 4294967295)%N then 254%N :: le_bytes 4 n
  else 255%N :: le_bytes 8 n.
Definition var_bytes (b : bytes) : bytes := var_uint (N.of_nat (length b)) ++ b.

Definition max_path_len : N := 136.       (* maxPathLength = (MaxStorageKeyLen + 4) * 2 *)
Definition max_key_len : N := 68.         (* MaxKeyLength *)
Definition max_value_len : N := 65539.    (* MaxValueLength = 3 + MaxStorageValueLen + 1 *)

(* ---------- decoding (DecodeNodeWithType) ---------- *)

Definition take (n : nat) (bs : bytes) : option (bytes * bytes) :=
  if length bs <? n then None else Some (firstn n bs, skipn n bs).

Fixpoint from_le (l : bytes) : N := match l with [] => 0%N | b :: t => (b + 256 * from_le t)%N end.

(* BinReader.ReadVarUint: no minimality check *)
Definition read_var_uint (bs : bytes) : option (N * bytes) :=
  match bs with
  | [] => None
  | b :: r =>
      let wide (n : nat) := match take n r with Some (x, r') => Some (from_le x, r') | None => None end in
      if (b =? 253)%N then wide 2
      else if (b =? 254)%N then wide 4
      else if (b =? 255)%N then wide 8
      else Some (b, r)
  end.

(* n nodes in sequence, each decoded by [dec] *)
Section DecodeKids.
  Variable dec : bytes -> option (node * bytes).
  Fixpoint decode_kids (n : nat) (r : bytes) : option (list node * bytes) :=
    match n with
    | O => Some ([], r)
    | S n' =>
        match dec r with
        | Some (c, r') => match decode_kids n' r' with Some (cs, r'') => Some (c :: cs, r'') | None => None end
        | None => None
        end
    end.
End DecodeKids.

(* fuel: one unit per nested node; S (length bs) always suffices.  Inline children are accepted, as in Go *)
Fixpoint decode (fuel : nat) (depth : N) (bs : bytes) : option (node * bytes) :=
  match fuel with
  | O => None
  | S f =>
      if (max_path_len <? depth)%N then None                                (* errTooManyNodes *)
      else
        match bs with
        | [] => None
        | ty :: r =>
            if (ty =? 0)%N then
              match decode_kids (decode f (depth + 1)%N) 17 r with
              | Some (cs, r') => Some (Branch (firstn 16 cs) (nth 16 cs Empty), r')
              | None => None
              end
            else if (ty =? 1)%N then
              match read_var_uint r with
              | Some (sz, r1) =>
                  if (max_path_len <? sz)%N then None
                  else match take (N.to_nat sz) r1 with
                       | Some (k, r2) =>
                           match decode f (depth + 1)%N r2 with
                           | Some (n, r3) => Some (Ext (map N.to_nat k) n, r3)
                           | None => None
                           end
                       | None => None
                       end
              | None => None
              end
            else if (ty =? 2)%N then
              match read_var_uint r with
              | Some (sz, r1) =>
                  if (max_value_len <? sz)%N then None
                  else match take (N.to_nat sz) r1 with
                       | Some (v, r2) => Some (Leaf v, r2)
                       | None => None
                       end
              | None => None
              end
            else if (ty =? 3)%N then
              match take 32 r with Some (h, r1) => Some (HashRef h, r1) | None => None end
            else if (ty =? 4)%N then Some (Empty, r)
            else None
        end
  end.

Fixpoint bytes_eqb (a b : bytes) : bool :=
  match a, b with
  | [], [] => true
  | x :: a', y :: b' => (x =? y)%N && bytes_eqb a' b'
  | _, _ => false
  end.


(* ---------- a node store: hash |-> serialised node; the first matching entry counts ---------- *)

Definition store := list (bytes * bytes).

Definition store_lookup (st : store) (h : bytes) : option bytes :=
  match find (fun e => bytes_eqb (fst e) h) st with Some e => Some (snd e) | None => None end.

(* getFromStore: fetch, decode (trailing bytes ignored).  SPECIFIED: a stored hash node or empty node is an
   error (the unchanged Go code recurses forever / panics there: finding F26) *)
Definition store_get (st : store) (h : bytes) : option node :=
  match store_lookup st h with
  | Some bs =>
      match decode (S (length bs)) 0 bs with
      | Some (Empty, _) => None
      | Some (HashRef _, _) => None
      | Some (n, _) => Some n
      | None => None
      end
  | None => None
  end.

(* getWithPath (strict) through a store *)
Fixpoint walk (fuel : nat) (st : store) (t : node) (p : path) : option bytes :=
  match fuel with
  | O => None
  | S f =>
      match t with
      | Leaf v => match p with [] => Some v | _ => None end
      | Branch cs vc => match p with [] => walk f st vc [] | i :: r => walk f st (nth i cs Empty) r end
      | Ext k n => match strip k p with Some r => walk f st n r | None => None end
      | HashRef h => match store_get st h with Some n => walk f st n p | None => None end
      | Empty => None
      end
  end.

Section Hashing.
  Variable H : bytes -> bytes.

  (* encodeNodeWithType; children through encodeBinaryAsChild *)
  Fixpoint enc (t : node) : bytes :=
    match t with
    | Empty => [4%N]
    | HashRef h => 3%N :: h
    | Leaf v => 2%N :: var_bytes v
    | Ext k n =>
        1%N :: var_bytes (map N.of_nat k) ++
        match n with Empty => [4%N] | HashRef h => 3%N :: h | _ => 3%N :: H (H (enc n)) end
    | Branch cs vc =>
        0%N :: flat_map (fun c => match c with Empty => [4%N] | HashRef h => 3%N :: h | _ => 3%N :: H (H (enc c)) end) cs ++
        match vc with Empty => [4%N] | HashRef h => 3%N :: h | _ => 3%N :: H (H (enc vc)) end
    end.

  Definition hash (t : node) : bytes := match t with HashRef h => h | _ => H (H (enc t)) end.
  Definition child_ref (c : node) : bytes := match c with Empty => [4%N] | _ => 3%N :: hash c end.

  (* Trie.StateRoot *)
  Definition root (t : node) : bytes := match t with Empty => repeat 0%N 32 | _ => hash t end.

  (* Trie.Collapse *)
  Fixpoint collapse (d : nat) (t : node) : node :=
    match t with
    | Empty => t
    | HashRef _ => t
    | _ =>
        match d with
        | O => HashRef (hash t)
        | S d' =>
            match t with
            | Ext k n => Ext k (collapse d' n)
            | Branch cs vc => Branch (map (collapse d') cs) (collapse d' vc)
            | _ => t
            end
        end
    end.

  (* Trie.GetProof: serialised nodes on the path; None = ErrNotFound *)
  Fixpoint get_proof (t : node) (p : path) : option (list bytes) :=
    match t with
    | Leaf _ => match p with [] => Some [enc t] | _ => None end
    | Branch cs vc =>
        match (match p with
               | [] => get_proof vc []
               | i :: r =>
                   (fix at_ (l : list node) (i : nat) {struct l} : option (list bytes) :=
                      match l, i with
                      | [], _ => None
                      | c :: _, O => get_proof c r
                      | _ :: l', S i' => at_ l' i'
                      end) cs i
               end) with
        | Some pr => Some (enc t :: pr)
        | None => None
        end
    | Ext k n =>
        match strip k p with
        | Some r => match get_proof n r with Some pr => Some (enc t :: pr) | None => None end
        | None => None
        end
    | Empty => None
    | HashRef _ => None
    end.

  (* mpt.VerifyProof: a store filled with the given byte strings under their hashes, then getWithPath *)
  Definition store_of (proofs : list bytes) : store := rev (map (fun bs => (H (H bs), bs)) proofs).
  Definition verify_proof (rh : bytes) (p : path) (proofs : list bytes) : option bytes :=
    walk (2 * (length p + length proofs + length (concat proofs)) + 4) (store_of proofs) (HashRef rh) p.
End Hashing.

(* ---------- PutBatch (batch.go), on a key-sorted duplicate-free list; None as value = deletion ---------- *)

Definition kvs := list (path * option bytes).

(* lcpMany *)
Definition lcp (a b : path) : path := fst (fst (common a b)).
Definition lcp_many (kv : kvs) : path :=
  match kv with
  | [] => []
  | [(k, _)] => k
  | (k0, _) :: (k1, _) :: rest =>
      let p := lcp k0 k1 in
      match p with [] => [] | _ => fold_left (fun p kv => lcp p (fst kv)) rest p end
  end.
Definition strip_prefix (n : nat) (kv : kvs) : kvs := map (fun e => (skipn n (fst e), snd e)) kv.

(* iterateBatch walks over the runs of entries with the same first nibble (the empty key, always first in a
   sorted batch, is the run of index 16).  Since the batch is sorted and the children are independent, the loop
   is "every child receives the entries that start with its nibble": *)
Fixpoint sub_kv (c : nat) (kv : kvs) : kvs :=            (* the run for child c, first nibble stripped *)
  match kv with
  | [] => []
  | (x :: k', ov) :: r => if Nat.eqb x c then (k', ov) :: sub_kv c r else sub_kv c r
  | ([], _) :: r => sub_kv c r
  end.
Fixpoint emp_kv (kv : kvs) : kvs :=                      (* the run for the value child *)
  match kv with
  | [] => []
  | ([], ov) :: r => ([], ov) :: emp_kv r
  | _ :: r => emp_kv r
  end.
Fixpoint mapi (j : nat) (f : nat -> node -> node) (l : list node) : list node :=
  match l with [] => [] | c :: l' => f j c :: mapi (S j) f l' end.
Fixpoint maxlen (kv : kvs) : nat :=
  match kv with [] => 0 | e :: r => Nat.max (length (fst e)) (maxlen r) end.

(* mergeExtension *)
Definition merge_ext (prefix : path) (sub : node) : node :=
  match sub with
  | Ext k n => Ext (prefix ++ k) n
  | Empty => Empty
  | _ => match prefix with [] => sub | _ => Ext prefix sub end
  end.

(* stripBranch *)
Definition strip_branch (cs : list node) (vc : node) : node :=
  match ne_from 0 (cs ++ [vc]) with
  | [] => Empty
  | [(j, c)] => if Nat.eqb j 16 then c else merge_ext [j] c
  | _ => Branch cs vc
  end.

Section Batch.
  Variable rec : node -> kvs -> node.     (* putBatchIntoNode one level down *)

  Definition on_kv (kv : kvs) (c : node) : node := match kv with [] => c | _ => rec c kv end.

  (* addToBranch: iterateBatch then stripBranch *)
  Definition add_to_branch (cs : list node) (vc : node) (kv : kvs) : node :=
    strip_branch (mapi 0 (fun c child => on_kv (sub_kv c kv) child) cs) (on_kv (emp_kv kv) vc).

  (* newSubTrieMany *)
  Definition new_sub_many (prefix : path) (kv : kvs) (value : option bytes) : node :=
    let go (kv : kvs) (value : option bytes) :=
      let vc := match value with Some w => Leaf w | None => Empty end in
      merge_ext prefix (add_to_branch empties vc kv) in
    match kv with
    | ([], None) :: [] => Empty
    | ([], None) :: kv' => go kv' None            (* kv' starts with a non-empty key: keys are distinct *)
    | ([], Some w) :: [] => new_sub prefix (Leaf w)
    | ([], Some w) :: _ => go kv (Some w)
    | _ => go kv value
    end.

  (* putBatchIntoExtensionNoPrefix *)
  Definition put_batch_ext_noprefix (key : path) (next : node) (kv : kvs) : node :=
    match key with
    | [] => next                                        (* not reachable: the key tail is non-empty *)
    | a :: kt => add_to_branch (upd a (new_sub kt next) empties) Empty kv
    end.
End Batch.

(* fuel: one unit per nibble of the longest key, plus two *)
Fixpoint put_batch_node (fuel : nat) (t : node) (kv : kvs) : node :=
  match fuel with
  | O => t
  | S f =>
      let rec := put_batch_node f in
      match t with
      | Leaf w => new_sub_many rec [] kv (Some w)                                    (* putBatchIntoLeaf *)
      | Branch cs vc => add_to_branch rec cs vc kv                                   (* putBatchIntoBranch *)
      | Ext k n =>                                                                   (* putBatchIntoExtension *)
          let pref := lcp (lcp_many kv) k in
          if Nat.eqb (length pref) (length k) then
            merge_ext pref (rec n (strip_prefix (length k) kv))
          else
            match pref with
            | [] => put_batch_ext_noprefix rec k n kv
            | _ => merge_ext pref (put_batch_ext_noprefix rec (skipn (length pref) k) n (strip_prefix (length pref) kv))
            end
      | Empty =>                                                                     (* putBatchIntoEmpty *)
          let c := lcp_many kv in
          new_sub_many rec c (strip_prefix (length c) kv) None
      | HashRef _ => t
      end
  end.

Definition put_batch (t : node) (kv : kvs) : node :=
  match kv with
  | [] => t
  | _ => put_batch_node (maxlen kv + 2) t kv
  end.

(* ---------- normal form (doc.go: the three invariants; the value child is a leaf or empty;
   extension keys consist of nibbles) ---------- *)

Definition leaf_or_branch (t : node) : Prop := match t with Leaf _ | Branch _ _ => True | _ => False end.
Definition vc_ok (t : node) : Prop := match t with Empty | Leaf _ => True | _ => False end.

Inductive NFne : node -> Prop :=
| NF_leaf v : NFne (Leaf v)
| NF_ext k n : k <> [] -> path_ok k -> NFne n -> leaf_or_branch n -> NFne (Ext k n)
| NF_branch cs vc :
    length cs = 16 -> Forall (fun c => c = Empty \/ NFne c) cs -> vc_ok vc ->
    2 <= ne_count (cs ++ [vc]) -> NFne (Branch cs vc).
Definition NF (t : node) : Prop := t = Empty \/ NFne t.

(* boolean version, for computing *)
Fixpoint NFneb (t : node) : bool :=
  match t with
  | Leaf _ => true
  | Ext k n => negb (match k with [] => true | _ => false end) && path_okb k && NFneb n &&
               match n with Leaf _ | Branch _ _ => true | _ => false end
  | Branch cs vc =>
      Nat.eqb (length cs) 16 && forallb (fun c => is_empty c || NFneb c) cs &&
      match vc with Empty | Leaf _ => true | _ => false end && (2 <=? ne_count (cs ++ [vc]))
  | _ => false
  end.
Definition NFb (t : node) : bool := is_empty t || NFneb t.

(* ---------- operation sequences ---------- *)

Inductive op :=
| OPut (k : path) (v : bytes)
| ODel (k : path)
| OBatch (kv : kvs).

Definition apply_op (t : node) (o : op) : node :=
  match o with
  | OPut k v => put t k v
  | ODel k => delete t k
  | OBatch kv => put_batch t kv
  end.
Definition run (ops : list op) : node := fold_left apply_op ops Empty.

(* the same on the specification side: a finite map as a function *)
Definition fmap := path -> option bytes.
Definition fempty : fmap := fun _ => None.
Definition fput (m : fmap) (k : path) (v : bytes) : fmap := fun q => if path_eqb q k then Some v else m q.
Definition fdel (m : fmap) (k : path) : fmap := fun q => if path_eqb q k then None else m q.
Definition fbatch (m : fmap) (kv : kvs) : fmap :=
  fold_left (fun m e => match snd e with Some v => fput m (fst e) v | None => fdel m (fst e) end) kv m.
Definition spec_op (m : fmap) (o : op) : fmap :=
  match o with
  | OPut k v => fput m k v
  | ODel k => fdel m k
  | OBatch kv => fbatch m kv
  end.
Definition spec_run (ops : list op) : fmap := fold_left spec_op ops fempty.

(* ---------- the byte-key API with its argument checks (Trie.Put / Delete / Get); None = error ---------- *)

Definition trie_put (t : node) (key value : bytes) : option node :=
  match key with
  | [] => None
  | _ => if (max_key_len <? N.of_nat (length key))%N then None
         else if (max_value_len <? N.of_nat (length value))%N then None
         else Some (put t (to_nibbles key) value)
  end.
Definition trie_delete (t : node) (key : bytes) : option node :=
  if (max_key_len <? N.of_nat (length key))%N then None else Some (delete t (to_nibbles key)).
Definition trie_get (t : node) (key : bytes) : option bytes :=
  if (max_key_len <? N.of_nat (length key))%N then None else get t (to_nibbles key).
