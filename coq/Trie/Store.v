(* Tries with collapsed sub-tries (HashRef = Go's HashNode) over a node store: Flush, lazy expansion exactly
   where trie.go / batch.go / proof.go / billet.go fetch a hash node (getWithPath, putIntoHash, deleteFromNode,
   the sibling in deleteFromBranch, mergeExtension, putBatchIntoHash, getProof, traverse), and the operations
   on collapsed tries.  An operation FAILS (None) when a needed hash is missing from the store (Get: a
   missing node reads as "not found", as in getWithPath).
   Definitions only; additive to Trie/Model.v (nothing there is changed).  Proofs: Trie/StoreProofs.v.

   The store is Model.store: a list of (hash, serialised node), first match counts; Model.store_get = Go's
   getFromStore (fetch + decode, children come back as HashRef).  One unit of fuel is one node visited: the
   fetch of a hash node and the case analysis on what was fetched happen in the same step ([resolve1]). *)
From NG Require Import Common.Tactics Trie.Model.

(* getFromStore where the Go code meets a HashNode, nothing otherwise *)
Definition resolve1 (st : store) (t : node) : option node :=
  match t with HashRef h => store_get st h | _ => Some t end.

Fixpoint mapo {A B} (f : A -> option B) (l : list A) : option (list B) :=
  match l with
  | [] => Some []
  | x :: r => match f x, mapo f r with Some y, Some ys => Some (y :: ys) | _, _ => None end
  end.

Definition omap {A B} (f : A -> B) (o : option A) : option B := match o with Some a => Some (f a) | None => None end.

(* height of an expanded trie: the fuel the traversing functions need is [height t + 1] *)
Fixpoint height (t : node) : nat :=
  match t with
  | Empty => 0
  | HashRef _ => 0
  | Leaf _ => 1
  | Ext _ n => S (height n)
  | Branch cs vc => S (Nat.max (fold_right (fun c m => Nat.max (height c) m) 0 cs) (height vc))
  end.

(* ---------- full expansion (what repeated reads do to the in-memory trie) ---------- *)

Fixpoint expand (fuel : nat) (st : store) (t : node) : option node :=
  match fuel with
  | O => None
  | S f =>
      match resolve1 st t with
      | None => None
      | Some (Ext k n) => omap (Ext k) (expand f st n)
      | Some (Branch cs vc) =>
          match mapo (expand f st) cs, expand f st vc with
          | Some cs', Some vc' => Some (Branch cs' vc')
          | _, _ => None
          end
      | Some t' => Some t'
      end
  end.

(* ---------- Get on a collapsed trie (getWithPath, strict) ---------- *)

Fixpoint sget (fuel : nat) (st : store) (t : node) (p : path) : option bytes :=
  match fuel with
  | O => None
  | S f =>
      match resolve1 st t with
      | Some (Leaf v) => match p with [] => Some v | _ => None end
      | Some (Branch cs vc) => match p with [] => sget f st vc [] | i :: r => sget f st (nth i cs Empty) r end
      | Some (Ext k n) => match strip k p with Some r => sget f st n r | None => None end
      | _ => None                              (* empty node, or the hash is not in the store: ErrNotFound *)
      end
  end.

(* ---------- Put on a collapsed trie (putIntoNode with putIntoHash) ---------- *)

Fixpoint sput (fuel : nat) (st : store) (t : node) (p : path) (v : bytes) : option node :=
  match fuel with
  | O => None
  | S f =>
      match resolve1 st t with
      | None => None
      | Some (HashRef _) => None
      | Some Empty => Some (put Empty p v)
      | Some (Leaf w) => Some (put (Leaf w) p v)
      | Some (Ext k n) =>
          match common k p with
          | (_, [], r) => omap (Ext k) (sput f st n r v)
          | _ => Some (put (Ext k n) p v)          (* the extension is split: its next node is moved, not read *)
          end
      | Some (Branch cs vc) =>
          match p with
          | [] => omap (Branch cs) (sput f st vc [] v)
          | i :: r => omap (fun c' => Branch (upd i c' cs) vc) (sput f st (nth i cs Empty) r v)
          end
      end
  end.

(* ---------- Delete on a collapsed trie ---------- *)

(* the tail of deleteFromBranch: the only remaining child is fetched when it is a hash node *)
Definition safter_delete (st : store) (cs : list node) (vc : node) : option node :=
  match ne_from 0 (cs ++ [vc]) with
  | [] => Some (Ext [0] Empty)
  | [(j, c)] =>
      if Nat.eqb j 16 then Some c
      else match resolve1 st c with
           | None => None
           | Some (Ext k n) => Some (Ext (j :: k) n)
           | Some c' => Some (Ext [j] c')
           end
  | _ => Some (Branch cs vc)
  end.

Fixpoint sdelete (fuel : nat) (st : store) (t : node) (p : path) : option node :=
  match fuel with
  | O => None
  | S f =>
      match resolve1 st t with
      | None => None
      | Some (HashRef _) => None
      | Some Empty => Some Empty
      | Some (Leaf w) => Some (match p with [] => Empty | _ => Leaf w end)
      | Some (Ext k n) =>
          match strip k p with
          | None => Some (Ext k n)
          | Some r =>
              match sdelete f st n r with
              | None => None
              | Some (Ext k' n') => Some (Ext (k ++ k') n')
              | Some Empty => Some Empty
              | Some n' => Some (Ext k n')          (* a hash node stays as it is (deleteFromExtension) *)
              end
          end
      | Some (Branch cs vc) =>
          match p with
          | [] => match sdelete f st vc [] with Some vc' => safter_delete st cs vc' | None => None end
          | i :: r =>
              match sdelete f st (nth i cs Empty) r with
              | Some c' => safter_delete st (upd i c' cs) vc
              | None => None
              end
          end
      end
  end.

(* ---------- PutBatch on a collapsed trie ---------- *)

(* mergeExtension: a hash node is fetched first *)
Definition smerge_ext (st : store) (prefix : path) (sub : node) : option node :=
  match resolve1 st sub with
  | None => None
  | Some sub' => Some (merge_ext prefix sub')
  end.

(* stripBranch *)
Definition sstrip_branch (st : store) (cs : list node) (vc : node) : option node :=
  match ne_from 0 (cs ++ [vc]) with
  | [] => Some Empty
  | [(j, c)] => if Nat.eqb j 16 then Some c else smerge_ext st [j] c
  | _ => Some (Branch cs vc)
  end.

Fixpoint mapio (j : nat) (f : nat -> node -> option node) (l : list node) : option (list node) :=
  match l with
  | [] => Some []
  | c :: l' => match f j c, mapio (S j) f l' with Some c', Some r => Some (c' :: r) | _, _ => None end
  end.

Section SBatch.
  Variable st : store.
  Variable rec : node -> kvs -> option node.

  Definition son_kv (kv : kvs) (c : node) : option node := match kv with [] => Some c | _ => rec c kv end.

  Definition sadd_to_branch (cs : list node) (vc : node) (kv : kvs) : option node :=
    match mapio 0 (fun c child => son_kv (sub_kv c kv) child) cs, son_kv (emp_kv kv) vc with
    | Some cs', Some vc' => sstrip_branch st cs' vc'
    | _, _ => None
    end.

  Definition snew_sub_many (prefix : path) (kv : kvs) (value : option bytes) : option node :=
    let go (kv : kvs) (value : option bytes) :=
      let vc := match value with Some w => Leaf w | None => Empty end in
      match sadd_to_branch empties vc kv with Some b => smerge_ext st prefix b | None => None end in
    match kv with
    | ([], None) :: [] => Some Empty
    | ([], None) :: kv' => go kv' None
    | ([], Some w) :: [] => Some (new_sub prefix (Leaf w))
    | ([], Some w) :: _ => go kv (Some w)
    | _ => go kv value
    end.

  Definition sput_batch_ext_noprefix (key : path) (next : node) (kv : kvs) : option node :=
    match key with
    | [] => Some next
    | a :: kt => sadd_to_branch (upd a (new_sub kt next) empties) Empty kv
    end.
End SBatch.

Fixpoint sput_batch_node (fuel : nat) (st : store) (t : node) (kv : kvs) : option node :=
  match fuel with
  | O => None
  | S f =>
      let rec := sput_batch_node f st in
      match resolve1 st t with                                                      (* putBatchIntoHash *)
      | None => None
      | Some (HashRef _) => None
      | Some (Leaf w) => snew_sub_many st rec [] kv (Some w)
      | Some (Branch cs vc) => sadd_to_branch st rec cs vc kv
      | Some (Ext k n) =>
          let pref := lcp (lcp_many kv) k in
          if Nat.eqb (length pref) (length k) then
            match rec n (strip_prefix (length k) kv) with Some sub => smerge_ext st pref sub | None => None end
          else
            match pref with
            | [] => sput_batch_ext_noprefix st rec k n kv
            | _ => match sput_batch_ext_noprefix st rec (skipn (length pref) k) n (strip_prefix (length pref) kv) with
                   | Some sub => smerge_ext st pref sub
                   | None => None
                   end
            end
      | Some Empty =>
          let c := lcp_many kv in
          snew_sub_many st rec c (strip_prefix (length c) kv) None
      end
  end.

Definition sput_batch (st : store) (t : node) (kv : kvs) : option node :=
  match kv with
  | [] => Some t
  | _ => sput_batch_node (maxlen kv + 2) st t kv
  end.

(* ---------- non-strict getWithPath, ordered traversal, Seek on a collapsed trie ---------- *)

Fixpoint sfind_start (fuel : nat) (st : store) (t : node) (p : path) : option (node * path) :=
  match fuel with
  | O => None
  | S f =>
      match resolve1 st t with
      | Some (Leaf v) => match p with [] => Some (Leaf v, []) | _ => None end
      | Some (Branch cs vc) =>
          match p with
          | [] => Some (Branch cs vc, [])
          | i :: r => match sfind_start f st (nth i cs Empty) r with Some (s, pre) => Some (s, i :: pre) | None => None end
          end
      | Some (Ext k n) =>
          match p with
          | [] => Some (n, k)
          | _ =>
              match strip k p with
              | Some r => match sfind_start f st n r with Some (s, pre) => Some (s, k ++ pre) | None => None end
              | None => if is_prefix p k then Some (n, k) else None
              end
          end
      | _ => None
      end
  end.

Fixpoint straverse (fuel : nat) (st : store) (t : node) (pth from : path) (bw : bool) : list (path * bytes) :=
  match fuel with
  | O => []
  | S f =>
      match resolve1 st t with
      | Some (Leaf v) => match from with [] => [(pth, v)] | _ => if bw then [(pth, v)] else [] end
      | Some (Ext k n) =>
          match from with
          | [] => straverse f st n (pth ++ k) [] bw
          | _ =>
              match strip k from with
              | Some f' => straverse f st n (pth ++ k) f' bw
              | None =>
                  let gt := match lex_cmp k from with Gt => true | _ => false end in
                  if negb (Bool.eqb gt bw) || (bw && is_prefix from k) then straverse f st n (pth ++ k) [] bw else []
              end
          end
      | Some (Branch cs vc) =>
          let s := match from with [] => if bw then 15 else 0 | x :: _ => x end in
          let f' := match from with [] => [] | _ :: r => r end in
          let kids :=
            kids_loop (fun c j => if (if bw then s <? j else j <? s) then []
                                  else straverse f st c (pth ++ [j]) (if Nat.eqb j s then f' else []) bw) bw cs 0 in
          if bw then kids ++ straverse f st vc pth [] bw
          else match from with [] => straverse f st vc pth [] bw ++ kids | _ => kids end
      | _ => []
      end
  end.

(* TrieStore.Seek over a collapsed trie (in Go: a trie that is just HashNode(root)) *)
Definition sseek (fuel : nat) (st : store) (t : node) (prefixP fromP : path) (bw : bool) : list (path * bytes) :=
  match sfind_start fuel st t prefixP with
  | None => []
  | Some (start, full) =>
      let pth := skipn (length prefixP) full in
      let adj :=
        match fromP with
        | [] => Some []
        | _ =>
            match strip pth fromP with
            | Some f' => Some f'
            | None =>
                if is_prefix fromP pth then Some []
                else if Bool.eqb (match lex_cmp pth fromP with Lt => true | _ => false end) bw then Some [] else None
            end
        end in
      match adj with
      | None => []
      | Some f' => map (fun e => (prefixP ++ fst e, snd e)) (straverse fuel st start pth f' bw)
      end
  end.

Section StoreHash.
  Variable H : bytes -> bytes.

  (* every node of an expanded trie (the nodes Flush writes) *)
  Fixpoint nodes (t : node) : list node :=
    match t with
    | Empty => []
    | HashRef _ => []
    | Leaf _ => [t]
    | Ext _ n => t :: nodes n
    | Branch cs vc => t :: flat_map nodes cs ++ nodes vc
    end.

  (* Trie.Flush, ModeAll: every node's bytes under its hash; new entries shadow old ones *)
  Definition flush (t : node) (st : store) : store := map (fun n => (hash H n, enc H n)) (nodes t) ++ st.

  (* keys are the double hashes of the values (true of every store filled by Flush) *)
  Definition store_wf (st : store) : Prop := forall h bs, store_lookup st h = Some bs -> H (H bs) = h.
  (* the store has an entry for every node of t: "st contains flush t" *)
  Definition stored (st : store) (t : node) : Prop := forall n, In n (nodes t) -> store_lookup st (hash H n) <> None.

  (* GetProof on a collapsed trie *)
  Fixpoint sget_proof (fuel : nat) (st : store) (t : node) (p : path) : option (list bytes) :=
    match fuel with
    | O => None
    | S f =>
        match resolve1 st t with
        | Some (Leaf v) => match p with [] => Some [enc H (Leaf v)] | _ => None end
        | Some (Branch cs vc) =>
            match sget_proof f st (match p with [] => vc | i :: _ => nth i cs Empty end) (match p with [] => [] | _ :: r => r end) with
            | Some pr => Some (enc H (Branch cs vc) :: pr)
            | None => None
            end
        | Some (Ext k n) =>
            match strip k p with
            | Some r => match sget_proof f st n r with Some pr => Some (enc H (Ext k n) :: pr) | None => None end
            | None => None
            end
        | _ => None
        end
    end.

  (* a partial collapse of an expanded trie: some non-empty sub-tries replaced by their hash *)
  Inductive pcol : node -> node -> Prop :=
  | pcol_hash t : is_empty t = false -> pcol (HashRef (hash H t)) t
  | pcol_empty : pcol Empty Empty
  | pcol_leaf v : pcol (Leaf v) (Leaf v)
  | pcol_ext k c n : pcol c n -> pcol (Ext k c) (Ext k n)
  | pcol_branch cs cs' vc vc' : Forall2 pcol cs cs' -> pcol vc vc' -> pcol (Branch cs vc) (Branch cs' vc').
End StoreHash.
