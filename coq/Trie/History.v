(* Operation sequences: the trie after any history is in normal form and denotes the map the history
   describes; two histories with the same final map end in the SAME tree, hence in the same root hash for
   any hash function. *)
From NG Require Import Common.Tactics Trie.Model Trie.Lemmas Trie.PutDelete Trie.Unique Trie.Batch.

(* well-formed operations: keys are nibble paths; a batch is sorted by key without duplicates (what
   MapToMPTBatch produces from a map) *)
Definition op_ok (o : op) : Prop :=
  match o with
  | OPut k _ => path_ok k
  | ODel _ => True
  | OBatch kv => kv_ok kv
  end.

Lemma fbatch_ext m m' kv : (forall q, m q = m' q) -> forall q, fbatch m kv q = fbatch m' kv q.
Proof.
  unfold fbatch. revert m m'. induction kv as [|[k ov] kv IH]; intros m m' H q; simpl; auto.
  apply IH. intros q'. destruct ov; unfold fput, fdel; simpl; destruct (path_eqb q' k); auto.
Qed.

Lemma apply_op_spec t m o : op_ok o -> NF t -> (forall q, content t q = m q) ->
  NF (apply_op t o) /\ forall q, content (apply_op t o) q = spec_op m o q.
Proof.
  intros Ho Ht Hm. destruct o as [k v|k|kv]; simpl in *.
  - split; [apply put_NF; auto|]. intros q. rewrite put_content by auto. unfold fput. now rewrite Hm.
  - split; [apply delete_NF; auto|]. intros q. rewrite delete_content by auto. unfold fdel. now rewrite Hm.
  - destruct (put_batch_spec t kv Ht Ho) as [Hn Hc]. split; auto. intros q. rewrite Hc. now apply fbatch_ext.
Qed.

Lemma fold_spec ops : forall t m, Forall op_ok ops -> NF t -> (forall q, content t q = m q) ->
  NF (fold_left apply_op ops t) /\ forall q, content (fold_left apply_op ops t) q = fold_left spec_op ops m q.
Proof.
  induction ops as [|o ops IH]; intros t m Hok Ht Hm; simpl; auto.
  inv Hok. destruct (apply_op_spec t m o) as [Hn Hc]; auto.
Qed.

Theorem run_spec ops : Forall op_ok ops ->
  NF (run ops) /\ forall q, content (run ops) q = spec_run ops q.
Proof. intros H. apply fold_spec; auto. left; reflexivity. Qed.

Theorem history_independent ops1 ops2 : Forall op_ok ops1 -> Forall op_ok ops2 ->
  (forall q, spec_run ops1 q = spec_run ops2 q) -> run ops1 = run ops2.
Proof.
  intros H1 H2 Hs. destruct (run_spec ops1 H1) as [N1 C1]. destruct (run_spec ops2 H2) as [N2 C2].
  apply NF_unique; auto. intros q. now rewrite C1, C2.
Qed.

Theorem root_history_independent (H : bytes -> bytes) ops1 ops2 : Forall op_ok ops1 -> Forall op_ok ops2 ->
  (forall q, spec_run ops1 q = spec_run ops2 q) -> root H (run ops1) = root H (run ops2).
Proof. intros. f_equal. now apply history_independent. Qed.

(* in particular the trie equals the fresh trie built from any listing of its final content *)
Definition build (es : list (path * bytes)) : node := run (map (fun e => OPut (fst e) (snd e)) es).

Theorem root_equals_fresh_build (H : bytes -> bytes) ops es : Forall op_ok ops -> Forall (fun e => path_ok (fst e)) es ->
  (forall q, spec_run (map (fun e => OPut (fst e) (snd e)) es) q = spec_run ops q) ->
  run ops = build es /\ root H (run ops) = root H (build es).
Proof.
  intros Ho He Hs.
  assert (E : run ops = build es).
  { symmetry. apply history_independent; auto. rewrite Forall_map. eapply Forall_impl; [|exact He]. auto. }
  split; auto. now rewrite E.
Qed.
