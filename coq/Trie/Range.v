(* Reads and ordered range searches of Trie/Model.v agree with the content:
   get = content; entries is the sorted listing of the content; traverse (both directions, any start
   point) = filter of that listing; TrieStore.Seek / Trie.Find = range_query on the listing. *)
From Coq Require Import Sorted.
From NG Require Import Common.Tactics Trie.Model Trie.Lemmas.

(* ---------- get ---------- *)

Lemma get_branch_cons cs vc i r : get (Branch cs vc) (i :: r) = get (nth i cs Empty) r.
Proof. simpl. revert i; induction cs as [|c cs IH]; intros [|i]; simpl; auto. Qed.

(* the transcription of getWithPath (strict) IS the content function: the two fixpoints are the same term *)
Theorem get_spec t : forall p, get t p = content t p.
Proof. reflexivity. Qed.

(* ---------- lexicographic order ---------- *)

Lemma lex_cmp_refl a : lex_cmp a a = Eq.
Proof. induction a; simpl; auto. now rewrite Nat.compare_refl. Qed.

Lemma lex_cmp_antisym a b : lex_cmp b a = CompOpp (lex_cmp a b).
Proof.
  revert b; induction a as [|x a IH]; intros [|y b]; simpl; auto.
  rewrite (Nat.compare_antisym x y). destruct (x ?= y); simpl; auto.
Qed.

Lemma lex_cmp_app k a b : lex_cmp (k ++ a) (k ++ b) = lex_cmp a b.
Proof. induction k; simpl; auto. now rewrite Nat.compare_refl. Qed.

Lemma lex_cmp_eq a b : lex_cmp a b = Eq -> a = b.
Proof.
  revert b; induction a as [|x a IH]; intros [|y b]; simpl; try discriminate; auto.
  destruct (x ?= y) eqn:E; try discriminate. apply Nat.compare_eq in E. intros H. f_equal; auto.
Qed.

Lemma lex_le_app k a b : lex_le (k ++ a) (k ++ b) = lex_le a b.
Proof. unfold lex_le. now rewrite lex_cmp_app. Qed.

Lemma lex_le_nil_l a : lex_le [] a = true.
Proof. destruct a; reflexivity. Qed.

Lemma is_prefix_app k a b : is_prefix (k ++ a) (k ++ b) = is_prefix a b.
Proof. unfold is_prefix. rewrite strip_app_l, strip_app. reflexivity. Qed.

Lemma is_prefix_nil a : is_prefix [] a = true.
Proof. reflexivity. Qed.

Lemma in_range_nil bw p : in_range [] bw p = true.
Proof. unfold in_range. destruct bw; [|apply lex_le_nil_l]. rewrite is_prefix_nil. apply orb_true_r. Qed.

Lemma in_range_app k f bw r : in_range (k ++ f) bw (k ++ r) = in_range f bw r.
Proof. unfold in_range. now rewrite !lex_le_app, is_prefix_app. Qed.

(* k is not a prefix of f: the comparison of k ++ r with f is decided inside k *)
Lemma strip_none_cmp k f : strip k f = None -> forall r, lex_cmp (k ++ r) f = lex_cmp k f /\ lex_cmp k f <> Eq.
Proof.
  revert f; induction k as [|x k IH]; intros f H r; simpl in H; [discriminate|].
  destruct f as [|y f]; simpl; [split; [auto|discriminate]|].
  destruct (Nat.eqb_spec x y).
  - subst. rewrite Nat.compare_refl. apply IH; auto.
  - destruct (x ?= y) eqn:E; [apply Nat.compare_eq in E; congruence| |]; split; auto; discriminate.
Qed.

Lemma strip_none_prefix k f r : strip k f = None -> is_prefix f (k ++ r) = is_prefix f k.
Proof.
  revert f; induction k as [|x k IH]; intros f H; simpl in H; [discriminate|].
  destruct f as [|y f]; [reflexivity|]. unfold is_prefix. simpl. rewrite (Nat.eqb_sym y x).
  destruct (Nat.eqb x y); auto. apply IH; auto.
Qed.

(* the decision of traverse at an extension whose key is not a prefix of the start point *)
Lemma in_range_diverge k f bw r : strip k f = None ->
  in_range f bw (k ++ r) =
  (negb (Bool.eqb (match lex_cmp k f with Gt => true | _ => false end) bw) || (bw && is_prefix f k)).
Proof.
  intros H. destruct (strip_none_cmp k f H r) as [Hc Hne]. unfold in_range, lex_le.
  rewrite (strip_none_prefix k f r H). rewrite (lex_cmp_antisym (k ++ r) f), Hc.
  destruct bw; destruct (lex_cmp k f); simpl; try congruence; auto.
Qed.

(* ---------- list helpers ---------- *)

Definition prepend (pre : path) (e : path * bytes) : path * bytes := (pre ++ fst e, snd e).

Lemma filter_map_comm {A B} (f : A -> B) (P : B -> bool) l : filter P (map f l) = map f (filter (fun x => P (f x)) l).
Proof. induction l; simpl; auto. destruct (P (f a)); simpl; now rewrite IHl. Qed.

Lemma filter_ext' {A} (P Q : A -> bool) l : (forall x, In x l -> P x = Q x) -> filter P l = filter Q l.
Proof.
  induction l; simpl; auto. intros H. rewrite (H a) by auto. destruct (Q a); rewrite IHl; auto.
Qed.

Lemma filter_true {A} (P : A -> bool) l : (forall x, In x l -> P x = true) -> filter P l = l.
Proof. induction l; simpl; auto. intros H. rewrite (H a) by auto. rewrite IHl; auto. Qed.

Lemma filter_false {A} (P : A -> bool) l : (forall x, In x l -> P x = false) -> filter P l = [].
Proof. induction l; simpl; auto. intros H. rewrite (H a) by auto. rewrite IHl; auto. Qed.

Lemma map_prepend_prepend a b l : map (prepend a) (map (prepend b) l) = map (prepend (a ++ b)) l.
Proof. rewrite map_map. apply map_ext. intros [p v]. unfold prepend. simpl. now rewrite app_assoc. Qed.

Lemma map_prepend_nil l : map (prepend []) l = l.
Proof. rewrite <- (map_id l) at 2. apply map_ext. intros [p v]. reflexivity. Qed.

(* the plain range on relative paths *)
Definition range (es : list (path * bytes)) (from : path) (bw : bool) : list (path * bytes) :=
  let sel := filter (fun e => in_range from bw (fst e)) es in if bw then rev sel else sel.

Lemma range_query_nil es from bw : range_query es [] from bw = range es from bw.
Proof. reflexivity. Qed.

Lemma range_all es bw : range es [] bw = if bw then rev es else es.
Proof. unfold range. rewrite filter_true; auto. intros. apply in_range_nil. Qed.

Lemma range_map_prepend k es f bw : range (map (prepend k) es) (k ++ f) bw = map (prepend k) (range es f bw).
Proof.
  unfold range. rewrite filter_map_comm.
  rewrite (filter_ext' _ (fun e => in_range f bw (fst e))) by (intros; apply in_range_app).
  destruct bw; auto. now rewrite map_rev.
Qed.

Lemma range_map_prepend_all k es f bw : (forall r, in_range f bw (k ++ r) = true) ->
  range (map (prepend k) es) f bw = map (prepend k) (range es [] bw).
Proof.
  intros H. unfold range. rewrite filter_map_comm.
  rewrite (filter_true (fun x => in_range f bw (fst (prepend k x)))) by (intros [p v] _; apply H).
  rewrite (filter_true (fun e => in_range [] bw (fst e))) by (intros; apply in_range_nil).
  destruct bw; auto. now rewrite map_rev.
Qed.

Lemma range_map_prepend_none k es f bw : (forall r, in_range f bw (k ++ r) = false) ->
  range (map (prepend k) es) f bw = [].
Proof.
  intros H. unfold range. rewrite filter_map_comm.
  rewrite filter_false by (intros [p v] _; apply H). destruct bw; reflexivity.
Qed.

Lemma range_app es es' f bw : range (es ++ es') f bw = if bw then range es' f bw ++ range es f bw else range es f bw ++ range es' f bw.
Proof. unfold range. rewrite filter_app. destruct bw; auto. apply rev_app_distr. Qed.

(* ---------- entries ---------- *)

Fixpoint kid_entries (l : list node) (j : nat) : list (path * bytes) :=
  match l with
  | [] => []
  | c :: l' => map (prepend [j]) (entries c) ++ kid_entries l' (S j)
  end.

Lemma entries_branch cs vc : entries (Branch cs vc) = entries vc ++ kid_entries cs 0.
Proof. reflexivity. Qed.
Lemma entries_ext k n : entries (Ext k n) = map (prepend k) (entries n).
Proof. reflexivity. Qed.

Lemma entries_vc vc : vc_ok vc -> entries vc = [] \/ exists v, entries vc = [([], v)].
Proof. destruct vc; simpl; try tauto; eauto. Qed.

(* ---------- traverse ---------- *)

Definition kid_step (pth : path) (s : nat) (f' : path) (bw : bool) (c : node) (j : nat) : list (path * bytes) :=
  if (if bw then s <? j else j <? s) then []
  else traverse c (pth ++ [j]) (if Nat.eqb j s then f' else []) bw.

Lemma traverse_branch cs vc pth from bw :
  traverse (Branch cs vc) pth from bw =
  let s := match from with [] => if bw then 15 else 0 | x :: _ => x end in
  let f' := match from with [] => [] | _ :: r => r end in
  let kids := kids_loop (kid_step pth s f' bw) bw cs 0 in
  if bw then kids ++ traverse vc pth [] bw
  else match from with [] => traverse vc pth [] bw ++ kids | _ => kids end.
Proof. reflexivity. Qed.

Definition trav_ok (c : node) : Prop :=
  forall pth from bw, traverse c pth from bw = map (prepend pth) (range (entries c) from bw).

Lemma in_range_cons s f' bw j r :
  in_range (s :: f') bw (j :: r) =
  match Nat.compare j s with
  | Eq => in_range f' bw r
  | Lt => bw
  | Gt => negb bw
  end.
Proof.
  unfold in_range, lex_le, is_prefix. simpl. rewrite (Nat.compare_antisym j s).
  destruct (Nat.compare_spec j s) as [E|E|E]; simpl.
  - subst. rewrite Nat.eqb_refl. reflexivity.
  - destruct (Nat.eqb_spec s j); [lia|]. destruct bw; reflexivity.
  - destruct (Nat.eqb_spec s j); [lia|]. destruct bw; reflexivity.
Qed.

Lemma trav_kids_spec pth s f' bw l : forall j, Forall trav_ok l ->
  kids_loop (kid_step pth s f' bw) bw l j = map (prepend pth) (range (kid_entries l j) (s :: f') bw).
Proof.
  induction l as [|c l IH]; intros j Hall; [destruct bw; reflexivity|].
  inv Hall. rename H1 into Hc, H2 into Hl.
  simpl kids_loop. simpl kid_entries. rewrite range_app, IH by auto.
  assert (Hhere : kid_step pth s f' bw c j =
                  map (prepend pth) (range (map (prepend [j]) (entries c)) (s :: f') bw)).
  { unfold kid_step. destruct (Nat.compare_spec j s) as [E|E|E].
    - subst j. rewrite Nat.ltb_irrefl, Nat.eqb_refl.
      replace (if bw then false else false) with false by (destruct bw; auto).
      rewrite Hc. change (s :: f') with ([s] ++ f'). rewrite range_map_prepend, map_prepend_prepend. reflexivity.
    - destruct (Nat.eqb_spec j s); [lia|]. destruct bw.
      + destruct (Nat.ltb_spec s j); [lia|]. rewrite Hc.
        rewrite range_map_prepend_all, map_prepend_prepend; auto.
        intros r. change ([j] ++ r) with (j :: r). rewrite in_range_cons. destruct (Nat.compare_spec j s); try lia; reflexivity.
      + destruct (Nat.ltb_spec j s); [|lia].
        rewrite range_map_prepend_none; auto.
        intros r. change ([j] ++ r) with (j :: r). rewrite in_range_cons. destruct (Nat.compare_spec j s); try lia; reflexivity.
    - destruct (Nat.eqb_spec j s); [lia|]. destruct bw.
      + destruct (Nat.ltb_spec s j); [|lia].
        rewrite range_map_prepend_none; auto.
        intros r. change ([j] ++ r) with (j :: r). rewrite in_range_cons. destruct (Nat.compare_spec j s); try lia; reflexivity.
      + destruct (Nat.ltb_spec j s); [lia|]. rewrite Hc.
        rewrite range_map_prepend_all, map_prepend_prepend; auto.
        intros r. change ([j] ++ r) with (j :: r). rewrite in_range_cons. destruct (Nat.compare_spec j s); try lia; reflexivity. }
  rewrite Hhere. destruct bw; now rewrite map_app.
Qed.

(* with no start point the kids loop visits everything *)
Lemma kid_entries_first l j e : In e (kid_entries l j) -> exists i r, fst e = i :: r /\ j <= i < j + length l.
Proof.
  revert j; induction l as [|c l IH]; intros j H; simpl in H; [tauto|].
  apply in_app_or in H. destruct H as [H|H].
  - apply in_map_iff in H. destruct H as ([p v] & <- & _). exists j, p. simpl. split; auto. lia.
  - destruct (IH _ H) as (i & r & E & Hi). exists i, r. simpl. split; auto. lia.
Qed.

Lemma range_kids_all l j (bw : bool) : j + length l <= 16 ->
  range (kid_entries l j) ((if bw then 15 else 0) :: nil) bw = range (kid_entries l j) [] bw.
Proof.
  intros Hb. unfold range.
  rewrite (filter_ext' (fun e => in_range ((if bw then 15 else 0) :: nil) bw (fst e)) (fun e => in_range [] bw (fst e))); auto.
  intros e He.
  destruct (kid_entries_first _ _ _ He) as (i & r & E & Hi). rewrite E, in_range_nil, in_range_cons.
  destruct bw.
  - destruct (Nat.compare_spec i 15); try lia; auto. apply in_range_nil.
  - destruct (Nat.compare_spec i 0); try lia; auto. apply in_range_nil.
Qed.

Lemma NF_trav_children cs : Forall (fun c => c = Empty \/ NFne c) cs ->
  Forall (fun t => NF t -> trav_ok t) cs -> Forall trav_ok cs.
Proof.
  intros H1 H2. rewrite Forall_forall in *. intros c Hc. apply H2; auto. apply H1; auto.
Qed.

Theorem traverse_spec t : NF t -> trav_ok t.
Proof.
  induction t as [|w|k n IH|cs vc IHcs IHvc|h] using node_ind2; intros Ht pth from bw.
  - destruct bw; reflexivity.
  - simpl. unfold range, in_range. simpl.
    destruct from as [|x f]; simpl.
    + destruct bw; simpl; unfold prepend; simpl; now rewrite app_nil_r.
    + destruct bw; simpl; unfold prepend; simpl; now rewrite ?app_nil_r.
  - destruct Ht as [Ht|Ht]; [discriminate|]. inv Ht.
    assert (Hn : trav_ok n) by (apply IH; right; auto).
    rewrite entries_ext. simpl traverse. destruct from as [|x f].
    + rewrite Hn. rewrite range_map_prepend_all by (intros; apply in_range_nil).
      now rewrite map_prepend_prepend.
    + destruct (strip k (x :: f)) as [f'|] eqn:Es.
      * apply strip_some in Es. rewrite Es. rewrite range_map_prepend, Hn. now rewrite map_prepend_prepend.
      * pose proof (in_range_diverge k (x :: f) bw) as Hd.
        destruct (negb (Bool.eqb (match lex_cmp k (x :: f) with Gt => true | _ => false end) bw) || (bw && is_prefix (x :: f) k)) eqn:E.
        -- rewrite Hn. rewrite range_map_prepend_all by (intros; rewrite Hd; auto).
           now rewrite map_prepend_prepend.
        -- rewrite range_map_prepend_none by (intros; rewrite Hd; auto). reflexivity.
  - destruct Ht as [Ht|Ht]; [discriminate|]. inv Ht.
    rename H1 into Hlen, H2 into Hall, H3 into Hvc, H4 into Hcnt.
    assert (Hkids : Forall trav_ok cs) by (apply NF_trav_children; auto).
    assert (Hv : trav_ok vc) by (apply IHvc; apply vc_ok_NF; auto).
    rewrite traverse_branch, entries_branch. cbv zeta.
    rewrite trav_kids_spec by auto. rewrite Hv, range_app.
    destruct from as [|x f].
    + rewrite range_kids_all by lia. destruct bw; now rewrite map_app.
    + assert (Hvn : range (entries vc) (x :: f) bw = if bw then range (entries vc) [] bw else []).
      { destruct (entries_vc vc Hvc) as [E|[v E]]; rewrite E; [destruct bw; reflexivity|].
        unfold range, in_range. simpl. destruct bw; reflexivity. }
      rewrite Hvn. destruct bw; [now rewrite map_app|]. reflexivity.
  - destruct bw; reflexivity.
Qed.

(* ---------- entries is the sorted listing of the content ---------- *)

Lemma kid_entries_In l : forall j p v, In (p, v) (kid_entries l j) <->
  exists i r, p = i :: r /\ j <= i < j + length l /\ In (r, v) (entries (nth (i - j) l Empty)).
Proof.
  induction l as [|c l IH]; intros j p v; simpl.
  - split; [tauto|]. intros (i & r & _ & H & _). lia.
  - rewrite in_app_iff, IH. split.
    + intros [H|(i & r & E & Hi & Hin)].
      * apply in_map_iff in H. destruct H as ([q w] & E & Hin). unfold prepend in E. simpl in E. inv E.
        exists j, q. rewrite Nat.sub_diag. repeat split; auto; lia.
      * exists i, r. replace (i - j) with (S (i - S j)) by lia. repeat split; auto; lia.
    + intros (i & r & E & Hi & Hin). destruct (Nat.eq_dec i j) as [->|Hn].
      * left. rewrite Nat.sub_diag in Hin. apply in_map_iff. exists (r, v). split; auto. subst p. reflexivity.
      * right. exists i, r. replace (i - j) with (S (i - S j)) in Hin by lia. repeat split; auto; lia.
Qed.

Theorem entries_content t : NF t -> forall p v, In (p, v) (entries t) <-> content t p = Some v.
Proof.
  induction t as [|w|k n IH|cs vc IHcs IHvc|h] using node_ind2; intros Ht p v.
  - simpl. split; [tauto|discriminate].
  - simpl. split.
    + intros [E|[]]. inv E. reflexivity.
    + destruct p; [|discriminate]. intros E. inv E. auto.
  - destruct Ht as [Ht|Ht]; [discriminate|]. inv Ht. rewrite entries_ext, content_ext. split.
    + intros H. apply in_map_iff in H. destruct H as ([q w] & E & Hin). unfold prepend in E. simpl in E. inv E.
      rewrite strip_app. apply IH; auto. right; auto.
    + destruct (strip k p) as [r|] eqn:Es; [|discriminate]. apply strip_some in Es. subst p.
      intros H. apply in_map_iff. exists (r, v). split; auto. apply IH; auto. right; auto.
  - destruct Ht as [Ht|Ht]; [discriminate|]. inv Ht.
    rename H1 into Hlen, H2 into Hall, H3 into Hvc, H4 into Hcnt.
    rewrite entries_branch, in_app_iff, kid_entries_In. split.
    + intros [H|(i & r & E & Hi & Hin)].
      * destruct vc; simpl in Hvc; try tauto; simpl in H; [tauto|]. destruct H as [E|[]]. inv E. reflexivity.
      * subst p. rewrite Nat.sub_0_r in Hin. ctn. rewrite Forall_forall in IHcs.
        apply IHcs; auto; [apply nth_In; lia|apply NF_nth; auto].
    + destruct p as [|i r]; ctn.
      * intros H. left. destruct vc; simpl in Hvc; try tauto; ctn_in H; [discriminate|]. inv H. left; auto.
      * intros H. right. exists i, r. rewrite Nat.sub_0_r.
        destruct (Nat.lt_ge_cases i (length cs)) as [Hi|Hi].
        -- repeat split; auto; try lia. rewrite Forall_forall in IHcs.
           apply IHcs; auto; [apply nth_In; lia|apply NF_nth; auto].
        -- rewrite nth_overflow in H by lia. discriminate.
  - simpl. split; [tauto|discriminate].
Qed.

Definition lt_entry (a b : path * bytes) : Prop := lex_cmp (fst a) (fst b) = Lt.

Lemma SS_app {A} (R : A -> A -> Prop) a b : StronglySorted R a -> StronglySorted R b ->
  (forall x y, In x a -> In y b -> R x y) -> StronglySorted R (a ++ b).
Proof.
  induction 1; intros Hb Hab; simpl; auto. constructor.
  - apply IHStronglySorted; auto. intros; apply Hab; simpl; auto.
  - apply Forall_app. split; auto. apply Forall_forall. intros y Hy. apply Hab; simpl; auto.
Qed.

Lemma SS_map_prepend k es : StronglySorted lt_entry es -> StronglySorted lt_entry (map (prepend k) es).
Proof.
  induction 1; simpl; constructor; auto.
  rewrite Forall_map. eapply Forall_impl; [|exact H0]. intros e He. unfold lt_entry, prepend in *. simpl.
  now rewrite lex_cmp_app.
Qed.

Lemma kid_entries_sorted l : forall j, Forall (fun c => StronglySorted lt_entry (entries c)) l ->
  StronglySorted lt_entry (kid_entries l j).
Proof.
  induction l as [|c l IH]; intros j H; simpl; [constructor|]. inv H.
  apply SS_app; auto.
  - apply SS_map_prepend; auto.
  - intros x y Hx Hy. apply in_map_iff in Hx. destruct Hx as ([q w] & <- & _).
    destruct (kid_entries_first _ _ _ Hy) as (i & r & E & Hi). unfold lt_entry. simpl. rewrite E.
    destruct (Nat.compare_spec j i); try lia. reflexivity.
Qed.

Theorem entries_sorted t : NF t -> StronglySorted lt_entry (entries t).
Proof.
  induction t as [|w|k n IH|cs vc IHcs IHvc|h] using node_ind2; intros Ht; try (simpl; repeat constructor; fail).
  - destruct Ht as [Ht|Ht]; [discriminate|]. inv Ht. rewrite entries_ext. apply SS_map_prepend. apply IH. right; auto.
  - destruct Ht as [Ht|Ht]; [discriminate|]. inv Ht.
    rename H1 into Hlen, H2 into Hall, H3 into Hvc, H4 into Hcnt.
    rewrite entries_branch. apply SS_app.
    + destruct (entries_vc vc Hvc) as [E|[v E]]; rewrite E; repeat constructor.
    + apply kid_entries_sorted. rewrite Forall_forall in *. intros c Hc. apply IHcs; auto. apply Hall; auto.
    + intros x y Hx Hy. destruct (entries_vc vc Hvc) as [E|[v E]]; rewrite E in Hx; simpl in Hx; [tauto|].
      destruct Hx as [<-|[]]. destruct (kid_entries_first _ _ _ Hy) as (i & r & E' & _).
      unfold lt_entry. simpl. rewrite E'. reflexivity.
Qed.

(* ---------- TrieStore.Seek / Trie.Find ---------- *)

(* the entries below a prefix, with the prefix cut off *)
Definition sub_entries (P : path) (es : list (path * bytes)) : list (path * bytes) :=
  flat_map (fun e => match strip P (fst e) with Some r => [(r, snd e)] | None => [] end) es.

Lemma range_query_sub es P S bw : range_query es P S bw = map (prepend P) (range (sub_entries P es) S bw).
Proof.
  unfold range_query, range.
  assert (E : filter (fun e => match strip P (fst e) with Some rel => in_range S bw rel | None => false end) es =
              map (prepend P) (filter (fun e => in_range S bw (fst e)) (sub_entries P es))).
  { induction es as [|[p v] es IH]; simpl; auto.
    destruct (strip P p) as [rel|] eqn:Es; simpl; auto.
    apply strip_some in Es. subst p. destruct (in_range S bw rel); simpl; rewrite IH; auto. }
  rewrite E. destruct bw; auto. now rewrite map_rev.
Qed.

Lemma sub_entries_nil es : sub_entries [] es = es.
Proof. induction es as [|[p v] es IH]; simpl; auto. now rewrite IH. Qed.

Lemma sub_entries_app P a b : sub_entries P (a ++ b) = sub_entries P a ++ sub_entries P b.
Proof. unfold sub_entries. apply flat_map_app. Qed.

Lemma sub_entries_map_in P k r es : P = k ++ r -> sub_entries P (map (prepend k) es) = sub_entries r es.
Proof.
  intros ->. induction es as [|[p v] es IH]; simpl; auto.
  rewrite strip_app_l, strip_app, IH. reflexivity.
Qed.

Lemma sub_entries_map_out P k d es : k = P ++ d -> sub_entries P (map (prepend k) es) = map (prepend d) es.
Proof.
  intros ->. induction es as [|[p v] es IH]; simpl; auto.
  rewrite <- app_assoc, strip_app, IH. reflexivity.
Qed.

Lemma sub_entries_map_none P k es : strip k P = None -> is_prefix P k = false ->
  sub_entries P (map (prepend k) es) = [].
Proof.
  intros H1 H2. induction es as [|[p v] es IH]; simpl; auto. rewrite IH.
  pose proof (strip_none_prefix k P p H1) as E. rewrite H2 in E. unfold is_prefix in E.
  destruct (strip P (k ++ p)); [discriminate|reflexivity].
Qed.

Lemma sub_entries_kids i r l : forall j,
  sub_entries (i :: r) (kid_entries l j) =
  if (j <=? i) && (i <? j + length l) then sub_entries r (entries (nth (i - j) l Empty)) else [].
Proof.
  induction l as [|c l IH]; intros j.
  - simpl. destruct ((j <=? i) && (i <? j + 0)); auto. destruct (i - j); reflexivity.
  - cbn [kid_entries]. rewrite sub_entries_app, IH. clear IH.
    assert (Hlen : length (c :: l) = S (length l)) by reflexivity.
    destruct (Nat.eq_dec i j) as [->|Hn].
    + rewrite Nat.sub_diag. rewrite (sub_entries_map_in (j :: r) [j] r) by reflexivity.
      destruct (Nat.leb_spec (S j) j); [lia|].
      destruct (Nat.leb_spec j j); [|lia]. destruct (Nat.ltb_spec j (j + length (c :: l))); [|lia].
      cbn [andb nth]. apply app_nil_r.
    + assert (E : sub_entries (i :: r) (map (prepend [j]) (entries c)) = []).
      { apply sub_entries_map_none.
        - simpl. destruct (Nat.eqb_spec j i); [congruence|reflexivity].
        - unfold is_prefix. simpl. destruct (Nat.eqb_spec i j); [congruence|reflexivity]. }
      rewrite E, app_nil_l.
      destruct (Nat.leb_spec (S j) i); destruct (Nat.leb_spec j i); try lia;
        destruct (Nat.ltb_spec i (S j + length l)); destruct (Nat.ltb_spec i (j + length (c :: l)));
        cbn [andb]; try lia; auto.
      replace (i - j) with (S (i - S j)) by lia. reflexivity.
Qed.

Lemma find_start_branch_cons cs vc i r :
  find_start (Branch cs vc) (i :: r) =
  match find_start (nth i cs Empty) r with Some (s, pre) => Some (s, i :: pre) | None => None end.
Proof.
  simpl.
  assert (E : forall l j, (fix at_ (l : list node) (i : nat) {struct l} : option (node * path) :=
                             match l, i with
                             | [], _ => None
                             | c :: _, O => find_start c r
                             | _ :: l', S i' => at_ l' i'
                             end) l j = find_start (nth j l Empty) r).
  { induction l as [|c l IH]; intros [|j]; simpl; auto. }
  rewrite E. reflexivity.
Qed.

Lemma find_start_spec t : NF t -> forall P,
  match find_start t P with
  | None => sub_entries P (entries t) = []
  | Some (st, full) => exists rel, full = P ++ rel /\ NF st /\ sub_entries P (entries t) = map (prepend rel) (entries st)
  end.
Proof.
  induction t as [|w|k n IH|cs vc IHcs IHvc|h] using node_ind2; intros Ht P.
  - reflexivity.
  - destruct P as [|x P]; simpl; auto. exists []. repeat split; auto.
  - destruct Ht as [Ht|Ht]; [discriminate|]. inv Ht.
    assert (Hn : NF n) by (right; auto).
    rewrite entries_ext. destruct P as [|x P].
    + simpl find_start. exists k. rewrite sub_entries_nil. repeat split; auto.
    + simpl find_start. destruct (strip k (x :: P)) as [r|] eqn:Es.
      * apply strip_some in Es. specialize (IH Hn r). rewrite (sub_entries_map_in _ k r) by auto.
        destruct (find_start n r) as [[st pre]|]; auto.
        destruct IH as (rel & -> & Hst & E). exists rel. rewrite Es, <- app_assoc. repeat split; auto.
      * destruct (is_prefix (x :: P) k) eqn:Ep.
        -- apply is_prefix_true in Ep. destruct Ep as [d Ed]. exists d. repeat split; auto.
           apply sub_entries_map_out; auto.
        -- apply sub_entries_map_none; auto.
  - destruct Ht as [Ht|Ht]; [discriminate|]. pose proof Ht as Ht0. inv Ht.
    rename H1 into Hlen, H2 into Hall, H3 into Hvc, H4 into Hcnt.
    destruct P as [|i r].
    + simpl find_start. exists []. rewrite sub_entries_nil, app_nil_r, map_prepend_nil. repeat split; auto. right; auto.
    + rewrite find_start_branch_cons, entries_branch, sub_entries_app, sub_entries_kids.
      assert (Ev : sub_entries (i :: r) (entries vc) = []).
      { destruct (entries_vc vc Hvc) as [E|[v E]]; rewrite E; reflexivity. }
      rewrite Ev, Nat.sub_0_r. simpl.
      destruct (Nat.ltb_spec i (length cs)) as [Hi|Hi].
      * rewrite Forall_forall in IHcs.
        specialize (IHcs _ (nth_In _ _ Hi) (NF_nth cs i Hall) r).
        destruct (find_start (nth i cs Empty) r) as [[st pre]|]; auto.
        destruct IHcs as (rel & -> & Hst & E). exists rel. repeat split; auto.
      * rewrite nth_overflow by lia. reflexivity.
  - reflexivity.
Qed.

Lemma skipn_app_exact {A} (a b : list A) : skipn (length a) (a ++ b) = b.
Proof. induction a; simpl; auto. Qed.

(* the start-point adjustment of Seek/Find against the path below the prefix node *)
Lemma seek_adjust rel es S bw :
  range (map (prepend rel) es) S bw =
  match (match S with
         | [] => Some []
         | _ => match strip rel S with
                | Some f' => Some f'
                | None => if is_prefix S rel then Some []
                          else if Bool.eqb (match lex_cmp rel S with Lt => true | _ => false end) bw then Some [] else None
                end
         end) with
  | Some f' => map (prepend rel) (range es f' bw)
  | None => []
  end.
Proof.
  destruct S as [|x S].
  - apply range_map_prepend_all. intros. apply in_range_nil.
  - destruct (strip rel (x :: S)) as [f'|] eqn:Es.
    + apply strip_some in Es. rewrite Es. apply range_map_prepend.
    + pose proof (in_range_diverge rel (x :: S) bw) as Hd.
      destruct (is_prefix (x :: S) rel) eqn:Ep.
      * apply range_map_prepend_all. intros r. rewrite Hd by auto.
        destruct (strip_none_cmp rel (x :: S) Es []) as [_ Hne].
        apply is_prefix_true in Ep. destruct Ep as [d Ed].
        assert (Hg : lex_cmp rel (x :: S) = Gt).
        { rewrite Ed. rewrite <- (app_nil_r (x :: S)) at 2. rewrite lex_cmp_app.
          destruct d; [|reflexivity]. rewrite app_nil_r in Ed. subst rel.
          pose proof (strip_app (x :: S) []) as Hs. rewrite app_nil_r in Hs. congruence. }
        rewrite Hg. destruct bw; reflexivity.
      * destruct (strip_none_cmp rel (x :: S) Es []) as [_ Hne].
        destruct (Bool.eqb (match lex_cmp rel (x :: S) with Lt => true | _ => false end) bw) eqn:Eb.
        -- apply range_map_prepend_all. intros r. rewrite Hd by auto.
           destruct (lex_cmp rel (x :: S)); destruct bw; simpl in *; congruence.
        -- apply range_map_prepend_none. intros r. rewrite Hd by auto.
           destruct (lex_cmp rel (x :: S)); destruct bw; simpl in *; congruence.
Qed.

Theorem seek_spec t P S bw : NF t -> seek t P S bw = range_query (entries t) P S bw.
Proof.
  intros Ht. rewrite range_query_sub. unfold seek, seek_start.
  pose proof (find_start_spec t Ht P) as Hf.
  destruct (find_start t P) as [[st full]|].
  - destruct Hf as (rel & -> & Hst & E). rewrite E, skipn_app_exact, seek_adjust.
    destruct S as [|x S].
    + rewrite (traverse_spec st Hst). reflexivity.
    + destruct (strip rel (x :: S)) as [f'|]; [now rewrite (traverse_spec st Hst)|].
      destruct (is_prefix (x :: S) rel); [now rewrite (traverse_spec st Hst)|].
      destruct (Bool.eqb (match lex_cmp rel (x :: S) with Lt => true | _ => false end) bw); [now rewrite (traverse_spec st Hst)|reflexivity].
  - rewrite Hf. destruct bw; reflexivity.
Qed.

Lemma firstn_map {A B} (f : A -> B) n l : firstn n (map f l) = map f (firstn n l).
Proof. revert l; induction n; intros [|x l]; simpl; auto. now rewrite IHn. Qed.

(* Trie.Find: forward range, the start key itself left out (unless from was nil), at most maxn items *)
Theorem find_spec t P S from_nil maxn : NF t ->
  trie_find t P S from_nil maxn =
  let sel := range_query (entries t) P S false in
  firstn maxn (if from_nil then sel else filter (fun e => negb (path_eqb (fst e) (P ++ S))) sel).
Proof.
  intros Ht. cbv zeta. rewrite <- (seek_spec t P S false Ht). unfold trie_find, seek.
  destruct (seek_start t P S false) as [[[st pth] f']|]; [|destruct from_nil; destruct maxn; reflexivity].
  destruct from_nil.
  - now rewrite firstn_map.
  - rewrite filter_map_comm, firstn_map. do 2 f_equal. apply filter_ext'. intros [p v] _. simpl.
    now rewrite path_eqb_app.
Qed.
