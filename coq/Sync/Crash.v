(* C20, part 2c — crashes.  The module's and the ledger's own records live in a write cache (volatile) until a flush hands
   them to the backend as ONE batch (durable, atomic); a crash loses the cache.

   (1) The MPT side.  A crash at an operation boundary keeps the database the flushes have written — the (path, hash) pairs
       of an earlier state of the run — and loses the pool: restart = "pool rebuilt from disk", which reads the store only.
   (2) The records of the jump (blockchain.go jumpToStateInternal): the jump-stage marker, the current-block pointer, the
       state-root record of the sync point.  A node starts iff the marker is present (it then resumes the jump from the
       marked stage, everything the stage needs being durable) or the state-root record of its current block exists
       ("can't init MPT at height P" otherwise). *)
From NG Require Import Common.Tactics Sync.Restore Sync.RestoreProofs.
Open Scope N_scope.

(* ---------- (1) ---------- *)

(* what survives a crash: the database; the pool and the stage bit are volatile *)
Definition crashed (s : st) : st := mkSt (store s) [] false.

Lemma restart_reads_disk_only skip fuel T root s : restart skip fuel T root (crashed s) = restart skip fuel T root s.
Proof. reflexivity. Qed.

(* ---------- (2) ---------- *)

Inductive wr := SetCur (h : N) | AddRoot (h : N) | SetMarker (b : bool).

Record disk := mkD { cur : N; roots : list N; marker : bool }.

Definition apply1 (d : disk) (w : wr) : disk :=
  match w with
  | SetCur h => mkD h (roots d) (marker d)
  | AddRoot h => mkD (cur d) (h :: roots d) (marker d)
  | SetMarker b => mkD (cur d) (roots d) b
  end.
Definition apply_batch (d : disk) (b : list wr) : disk := fold_left apply1 b d.
Definition apply_batches (d : disk) (bs : list (list wr)) : disk := fold_left apply_batch bs d.

Definition startable (d : disk) : bool := marker d || existsb (N.eqb (cur d)) (roots d).

(* the jump as the code writes it: marker; ...stages...; [current block := P, stage marker kept]; [root record of P, marker
   removed] — the last two records in ONE batch *)
Definition jump_good (p : N) : list (list wr) :=
  [[SetMarker true]; [SetMarker true]; [SetCur p; SetMarker true]; [AddRoot p; SetMarker false]].
(* the root record written after the last flush: it reaches the backend with the next periodic flush only *)
Definition jump_late_root (p : N) : list (list wr) :=
  [[SetMarker true]; [SetMarker true]; [SetCur p; SetMarker true]; [SetMarker false]; [AddRoot p]].
