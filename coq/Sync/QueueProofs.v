(* C20, part 1 — proofs about the block-queue model: induction over arbitrary action traces. *)
From NG Require Import Common.Tactics Sync.Queue.
Open Scope N_scope.

Lemma pos_inj c a b : 0 < c -> pos c a = pos c b -> a <= b -> b < a + c -> a = b.
Proof.
  unfold pos; intros Hc He Hab Hb.
  assert (Hd : b - a < c) by (clear He; lia).
  assert (Hm : (b - a) mod c = b - a) by (apply N.mod_small; exact Hd).
  assert (Hlt : a mod c < c) by (apply N.mod_lt; clear - Hc; lia).
  assert (Hba : b = a + (b - a)) by (clear He Hm Hlt; lia).
  rewrite Hba in He. rewrite N.add_mod in He by (clear - Hc; lia). rewrite Hm in He.
  remember (a mod c) as r. remember (b - a) as d.
  destruct (N.lt_ge_cases (r + d) c) as [Hl|Hg].
  - rewrite (N.mod_small (r + d)) in He by exact Hl. clear - He Hba. lia.
  - assert (E2 : (r + d) mod c = r + d - c).
    { assert (E3 : r + d = (r + d - c) + 1 * c) by (clear - Hg; lia).
      rewrite E3 at 1. rewrite N.mod_add by (clear - Hc; lia). apply N.mod_small. clear - Hlt Hd Hg. lia. }
    rewrite E2 in He. clear - He Hd Hg. lia.
Qed.

Lemma cleanup_spec n : forall c i f l f' l',
  cleanup n c i f l = (f', l') ->
  forall p, f' p = f p \/ (f' p = None /\ exists b, f p = Some b /\ bidx b < i + N.of_nat n).
Proof.
  induction n as [|n IH]; intros c i f l f' l' H p; simpl in H.
  - inv H. auto.
  - destruct (f (pos c (i + 1))) as [b|] eqn:Eo.
    + destruct (bidx b =? i) eqn:Eb.
      * specialize (IH _ _ _ _ _ _ H p). unfold upd in IH.
        destruct (p =? pos c (i + 1)) eqn:Ep.
        -- apply N.eqb_eq in Ep; subst p. right. split.
           ++ destruct IH as [->|[-> _]]; reflexivity.
           ++ exists b. split; [assumption|]. apply N.eqb_eq in Eb. lia.
        -- destruct IH as [IH|[IH1 [b' [IH2 IH3]]]]; [left; assumption|right]. split; [assumption|].
           exists b'. split; [assumption|lia].
      * destruct (IH _ _ _ _ _ _ H p) as [IH'|[IH1 [b' [IH2 IH3]]]]; [left; assumption|right].
        split; [assumption|]. exists b'. split; [assumption|lia].
    + destruct (IH _ _ _ _ _ _ H p) as [IH'|[IH1 [b' [IH2 IH3]]]]; [left; assumption|right].
      split; [assumption|]. exists b'. split; [assumption|lia].
Qed.

Definition capeq (s : st) (c : N) : Prop := cap s = c.

Section Invariant.
Variables c h0 : N.
Hypothesis c_pos : 0 < c.

Record Inv (s : st) : Prop := {
  i_cap : capeq s c;
  i_h0 : h0 <= height s;
  i_lastH : lastH s <= height s;
  i_read : forall h, dpc s = ReadH h -> h <= height s /\ lastH s <= h;
  i_applied : rev (applied s) = iota (h0 + 1) (N.to_nat (height s - h0));
  i_stop : dpc s = Stopped -> discarded s = true;
  i_slot : forall p b, slots s p = Some b -> bidx b <= height s + c /\ pos c (bidx b) = p /\ In b (puts s);
  i_hold : forall b p, (dpc s = Hold b p \/ exists ok, dpc s = Tried b p ok) ->
           bidx b <= height s + c /\ pos c (bidx b) = p /\ In b (puts s);
  i_att : forall b ok, In (b, ok) (attempts s) -> In b (puts s) /\ (ok = true -> In (bidx b) (applied s));
  i_tried : forall b p, dpc s = Tried b p true -> bidx b <= height s;
  i_acc : discarded s = false -> forall i, In i (accd s) -> ~ In i (lost s) -> height s < i ->
          exists b, slots s (pos c i) = Some b /\ bidx b = i;
  i_accput : forall i, In i (accd s) -> exists b, In b (puts s) /\ bidx b = i;
  i_wake : forall b, slots s (pos c (height s + 1)) = Some b -> bidx b = height s + 1 ->
           token s = true \/ lastH s < height s \/ (dpc s <> Idle /\ dpc s <> Stopped);
  (* when no other source adds blocks *)
  i_sync : next s = 0 ->
           (dpc s = Idle -> lastH s = height s) /\
           (forall h, dpc s = ReadH h -> h = height s) /\
           (forall b p, dpc s = Hold b p -> p = pos c (height s + 1)) /\
           (forall b p, dpc s = Tried b p false -> bidx b <= height s) /\
           (forall i, In i (lost s) -> i <= height s);
}.

Lemma inv_init : Inv (init c h0).
Proof.
  constructor; simpl; try (intros; discriminate); try (intros; contradiction); try lia; auto.
  - reflexivity.
  - rewrite N.sub_diag. reflexivity.
  - intros b p [H|[ok H]]; discriminate.
  - intros _. repeat split; intros; try discriminate; try contradiction; lia.
Qed.

Lemma iota_snoc n : forall a, iota a (S n) = iota a n ++ [a + N.of_nat n].
Proof.
  induction n as [|n IH]; intros a.
  - simpl. f_equal. lia.
  - change (iota a (S (S n))) with (a :: iota (a + 1) (S n)). rewrite IH. simpl. do 2 f_equal. f_equal. lia.
Qed.

Lemma applied_step s : Inv s ->
  rev ((height s + 1) :: applied s) = iota (h0 + 1) (N.to_nat (height s + 1 - h0)).
Proof.
  intros I. simpl. rewrite (i_applied _ I).
  pose proof (i_h0 _ I).
  replace (N.to_nat (height s + 1 - h0)) with (S (N.to_nat (height s - h0))) by lia.
  rewrite iota_snoc. do 2 f_equal. lia.
Qed.

Lemma in_remove_n x y l : In x (remove_n y l) <-> In x l /\ x <> y.
Proof.
  unfold remove_n. rewrite filter_In. rewrite negb_true_iff, N.eqb_neq. tauto.
Qed.

Ltac kcap := try match goal with |- capeq _ _ => first [assumption | reflexivity | (unfold capeq in *; simpl; congruence)] end.

Ltac solve_sync I :=
  let H := fresh in
  intros H; destruct (i_sync _ I H) as (?&?&?&?&?);
  repeat split; intros; try discriminate; eauto.

Lemma step_inv s a s' : Inv s -> step s a = Some s' -> Inv s'.
Proof.
  intros I Hs. pose proof (i_cap _ I) as Hc.
  destruct a; simpl in Hs.
  - (* APut *)
    destruct (height s <? hseen) eqn:Eh; [discriminate|].
    assert (Hseen : hseen <= height s) by lia.
    assert (Itriv : Inv (mkSt (cap s) (slots s) (lastQ s) (qlen s) (discarded s) (token s) (height s) (lastH s) (dpc s)
                     (applied s) (attempts s) (b :: puts s) (accd s) (lost s) (lenlog s) (next s))).
    { destruct I. constructor; simpl; kcap; auto.
      - intros p b0 H. destruct (i_slot0 _ _ H) as (?&?&?). auto.
      - intros b0 p H. destruct (i_hold0 _ _ H) as (?&?&?). auto.
      - intros b0 ok H. destruct (i_att0 _ _ H). auto.
      - intros i H. destruct (i_accput0 _ H) as (b0&?&?). exists b0. auto. }
    destruct (discarded s) eqn:Ed; [inv Hs; exact Itriv|].
    destruct (bidx b <=? hseen) eqn:E1; [inv Hs; exact Itriv|].
    destruct (hseen + cap s <? bidx b) eqn:E2; [inv Hs; exact Itriv|].
    clear Itriv. inv Hs. unfold capeq in Hc; rewrite Hc in *; clear Hc.
    assert (Hb1 : height s < bidx b \/ bidx b <= height s) by lia.
    set (fresh := match slots s (pos c (bidx b)) with None => true | Some o => bidx o <? bidx b end).
    set (sl := if fresh then upd (slots s) (pos c (bidx b)) (Some b) else slots s).
    assert (Hsl : forall p x, sl p = Some x -> (slots s p = Some x) \/ (x = b /\ p = pos c (bidx b) /\ fresh = true)).
    { intros p x. unfold sl. destruct fresh; [|auto]. unfold upd. destruct (p =? pos c (bidx b)) eqn:Ep.
      - apply N.eqb_eq in Ep. intros H; inv H. auto.
      - auto. }
    destruct I. constructor; simpl; kcap; auto.
    + intros H. specialize (i_stop0 H). congruence.
    + (* slot *)
      intros p x H. destruct (Hsl _ _ H) as [H'|(->&->&_)].
      * destruct (i_slot0 _ _ H') as (?&?&?). auto.
      * repeat split; auto. lia.
    + intros b0 p H. destruct (i_hold0 _ _ H) as (?&?&?). auto.
    + intros b0 ok H. destruct (i_att0 _ _ H). auto.
    + (* acc *)
      intros _ i Hi Hl Hh.
      assert (Hold : i <> bidx b -> exists b0, slots s (pos c i) = Some b0 /\ bidx b0 = i).
      { intros Hne. apply i_acc0; auto.
        - destruct Hi; [congruence|assumption].
        - intros Hin. apply Hl. apply in_remove_n. auto. }
      destruct (N.eq_dec i (bidx b)) as [->|Hne].
      * (* the index just put *)
        unfold sl, fresh. destruct (slots s (pos c (bidx b))) as [o|] eqn:Eo.
        -- destruct (bidx o <? bidx b) eqn:Eob.
           ++ exists b. unfold upd. rewrite N.eqb_refl. auto.
           ++ exists o. split; [assumption|].
              destruct (i_slot0 _ _ Eo) as (Ho1&Ho2&_).
              symmetry. apply (pos_inj c); auto; lia.
        -- exists b. unfold upd. rewrite N.eqb_refl. auto.
      * destruct (Hold Hne) as (b0&Hb0&Hb0i). exists b0. split; [|assumption].
        unfold sl. destruct fresh eqn:Ef; [|assumption]. unfold upd.
        destruct (pos c i =? pos c (bidx b)) eqn:Ep; [|assumption].
        apply N.eqb_eq in Ep. exfalso.
        unfold fresh in Ef. rewrite <- Ep, Hb0 in Ef. subst i.
        (* bidx b0 < bidx b, same position, both above the height and inside the window *)
        apply Hne. apply (pos_inj c); auto; lia.
    + intros i [<-|Hi]; [exists b; auto|]. destruct (i_accput0 _ Hi) as (b0&?&?). exists b0; auto.
    + (* sync *)
      intros Hn. destruct (i_sync0 Hn) as (?&?&?&?&Hl). repeat split; auto.
      intros i Hi. apply in_remove_n in Hi. apply Hl. tauto.
  - (* AExt *)
    inv Hs. pose proof (applied_step _ I) as Happ. destruct I. constructor; simpl; kcap; auto; try lia.
    + intros h H. destruct (i_read0 _ H). lia.
    + intros p b H. destruct (i_slot0 _ _ H) as (?&?&?). repeat split; auto; lia.
    + intros b p H. destruct (i_hold0 _ _ H) as (?&?&?). repeat split; auto; lia.
    + intros b ok H. destruct (i_att0 _ _ H). auto.
    + intros b p H. specialize (i_tried0 _ _ H). lia.
    + intros Hd i Hi Hl Hh. apply i_acc0; auto. lia.
  - (* AWake *)
    destruct (dpc s) eqn:Ep; try discriminate.
    destruct (token s) eqn:Et.
    + inv Hs. destruct I. constructor; simpl; kcap; auto; try (intros; discriminate).
      * intros b p [H|[ok H]]; discriminate.
      * intros b H1 H2. right. right. split; discriminate.
      * intros Hn. repeat split; intros; try discriminate. destruct (i_sync0 Hn) as (?&?&?&?&?). auto.
    + destruct (discarded s) eqn:Ed; [|discriminate]. inv Hs.
      destruct I. constructor; simpl; kcap; auto; try (intros; discriminate).
      * intros b p [H|[ok H]]; discriminate.
      * intros b H1 H2. specialize (i_wake0 _ H1 H2). rewrite Ep, Et in i_wake0.
        destruct i_wake0 as [?|[?|[? _]]]; [discriminate|auto|congruence].
      * intros Hn. repeat split; intros; try discriminate. destruct (i_sync0 Hn) as (?&?&?&?&?). auto.
  - (* ARead *)
    destruct (dpc s) eqn:Ep; try discriminate. inv Hs.
    destruct I. constructor; simpl; kcap; auto; try (intros; discriminate).
    + intros h H; inv H. split; lia.
    + intros b p [H|[ok H]]; discriminate.
    + intros b H1 H2. right. right. split; discriminate.
    + intros Hn. repeat split; intros; try discriminate.
      * inv H. reflexivity.
      * destruct (i_sync0 Hn) as (?&?&?&?&?). auto.
  - (* APeek *)
    destruct (dpc s) as [| |h| | |] eqn:Ep; try discriminate.
    destruct (cleanup (N.to_nat (h - lastH s)) (cap s) (lastH s) (slots s) (qlen s)) as [sl ln] eqn:Ec.
    inv Hs. unfold capeq in Hc; rewrite Hc in *; clear Hc.
    pose proof (cleanup_spec _ _ _ _ _ _ _ Ec) as Hcl.
    destruct (i_read _ I h Ep) as [Hh1 Hh2].
    assert (Hcl' : forall p, sl p = slots s p \/ (sl p = None /\ exists b, slots s p = Some b /\ bidx b < h)).
    { intros p. destruct (Hcl p) as [?|(?&b&?&?)]; [auto|right]. split; auto. exists b. split; auto. lia. }
    destruct I. constructor; simpl; kcap; auto.
    + intros h' H. destruct (slots s (pos c (h + 1))); discriminate.
    + intros H. destruct (slots s (pos c (h + 1))); discriminate.
    + intros p b H. destruct (Hcl' p) as [E|[E _]]; rewrite E in H; [auto|discriminate].
    + intros b p [H|[ok H]].
      * destruct (slots s (pos c (h + 1))) as [x|] eqn:Ex; [|discriminate]. inv H. apply (i_slot0 _ _ Ex).
      * destruct (slots s (pos c (h + 1))); discriminate.
    + intros b p H. destruct (slots s (pos c (h + 1))); discriminate.
    + intros Hd i Hi Hl Hh. destruct (i_acc0 Hd i Hi Hl Hh) as (b&Hb&Hbi). exists b. split; [|assumption].
      destruct (Hcl' (pos c i)) as [E|(_&b'&E1&E2)]; [congruence|]. rewrite Hb in E1. inv E1. lia.
    + (* wake *)
      intros b H1 H2.
      destruct (slots s (pos c (h + 1))) as [x|] eqn:Ex.
      * right. right. split; discriminate.
      * destruct (N.eq_dec h (height s)) as [->|Hne]; [|right; left; lia].
        exfalso. destruct (Hcl' (pos c (height s + 1))) as [E|[E _]]; congruence.
    + intros Hn. destruct (i_sync0 Hn) as (_&Hr&_&_&Hl). specialize (Hr _ Ep). subst h.
      repeat split; auto; intros; try (destruct (slots s (pos c (height s + 1))); discriminate).
      destruct (slots s (pos c (height s + 1))); [|discriminate]. inv H. reflexivity.
  - (* AAdd *)
    destruct (dpc s) as [| | |b p| |] eqn:Ep; try discriminate.
    destruct (i_hold _ I b p (or_introl Ep)) as (Hb1&Hb2&Hb3).
    destruct (bidx b =? height s + 1) eqn:Eb; inv Hs.
    + apply N.eqb_eq in Eb. pose proof (applied_step _ I) as Happ. destruct I. constructor; simpl; kcap; auto; try lia; try (intros; discriminate).
      * intros p0 b0 H. destruct (i_slot0 _ _ H) as (?&?&?). repeat split; auto; lia.
      * intros b0 p0 [H|[ok H]]; [discriminate|]. inv H. repeat split; auto; lia.
      * intros b0 ok [H|H].
        -- inv H. split; [auto|intros _; left; auto].
        -- destruct (i_att0 _ _ H). split; [auto|intros; right; auto].
      * intros b0 p0 H. inv H. lia.
      * intros Hd i Hi Hl Hh. apply i_acc0; auto. lia.
      * intros Hn. destruct (i_sync0 Hn) as (_&_&_&_&Hl). repeat split; intros; try discriminate.
        specialize (Hl _ H). lia.
    + apply N.eqb_neq in Eb. destruct I. constructor; simpl; kcap; auto; try (intros; discriminate).
      * intros b0 p0 [H|[ok H]]; [discriminate|]. inv H. auto.
      * intros b0 ok [H|H]; [inv H; split; [auto|discriminate]|auto].
      * intros b0 H1 H2. right. right. split; discriminate.
      * intros Hn. destruct (i_sync0 Hn) as (_&_&Hh&_&Hl). repeat split; intros; try discriminate; auto.
        inv H. pose proof (Hh _ _ Ep) as Hp.
        destruct (N.le_gt_cases (bidx b0) (height s)) as [|Hgt]; [assumption|exfalso].
        apply Eb. symmetry. apply (pos_inj c); auto; lia.
  - (* AClear *)
    destruct (dpc s) as [| | | |b p ok|] eqn:Ep; try discriminate. inv Hs.
    destruct (i_hold _ I b p (or_intror (ex_intro _ ok Ep))) as (Hb1&Hb2&Hb3).
    set (same := match slots s p with Some o => blk_eqb o b | None => false end).
    set (sl := if same then upd (slots s) p None else slots s).
    assert (Hsl : forall q, sl q = slots s q \/ (sl q = None /\ q = p /\ same = true /\ exists o, slots s p = Some o /\ bidx o = bidx b)).
    { intros q. unfold sl. destruct same eqn:Es; [|auto]. unfold upd. destruct (q =? p) eqn:Eq; [|auto].
      apply N.eqb_eq in Eq. subst q. right. repeat split; auto. unfold same in Es.
      destruct (slots s p) as [o|]; [|discriminate]. exists o. split; auto.
      unfold blk_eqb in Es. apply andb_true_iff in Es. destruct Es as [Es _]. apply N.eqb_eq in Es. auto. }
    destruct I. constructor; simpl; kcap; auto; try (intros; discriminate).
    + intros q x H. destruct (Hsl q) as [E|(E&_)]; rewrite E in H; [auto|discriminate].
    + intros b0 p0 [H|[ok0 H]]; discriminate.
    + intros Hd i Hi Hl Hh.
      assert (Hl' : ~ In i (lost s)).
      { intros Hin. apply Hl. destruct (same && negb ok); [right|]; assumption. }
      destruct (i_acc0 Hd i Hi Hl' Hh) as (x&Hx&Hxi). exists x. split; [|assumption].
      destruct (Hsl (pos c i)) as [E|(E&Eq&Es&o&Eo&Eoi)]; [congruence|exfalso].
      rewrite Eq in Hx. rewrite Hx in Eo. inv Eo.
      destruct ok.
      * specialize (i_tried0 _ _ Ep). lia.
      * apply Hl. rewrite Es. simpl. left. auto.
    + intros b0 H1 H2. right. right. split; discriminate.
    + intros Hn. destruct (i_sync0 Hn) as (_&_&_&Ht&Hl). repeat split; intros; try discriminate.
      destruct (same && negb ok) eqn:Eso; [|auto]. destruct H as [<-|H]; [|auto].
      apply andb_true_iff in Eso. destruct Eso as [_ Eo]. destruct ok; [discriminate|]. apply Ht with p. exact Ep.
  - (* ADiscard *)
    destruct (discarded s) eqn:Ed; [inv Hs; assumption|]. inv Hs.
    destruct I. constructor; simpl; kcap; auto; try (intros; discriminate).
Qed.

Lemma run_inv tr : forall s s', Inv s -> run s tr = Some s' -> Inv s'.
Proof.
  induction tr as [|a tr IH]; intros s s' I H; simpl in H.
  - inv H. assumption.
  - destruct (step s a) as [s1|] eqn:E; [|discriminate]. eapply IH; [|eassumption]. eapply step_inv; eassumption.
Qed.

(* ---- theorems ---- *)

(* Whatever the producers, the drainer and other block sources do, in whatever order: the chain accepted exactly
   h0+1, h0+2, ..., height, in this order, each once; every block the drainer handed to the chain had been Put;
   a successful hand-over is one of the accepted indices. *)
Theorem queue_in_order_once tr s :
  run (init c h0) tr = Some s ->
  rev (applied s) = iota (h0 + 1) (N.to_nat (height s - h0)) /\
  (forall b ok, In (b, ok) (attempts s) -> In b (puts s) /\ (ok = true -> In (bidx b) (applied s))).
Proof.
  intros H. pose proof (run_inv _ _ _ inv_init H) as I. split; [apply (i_applied _ I)|apply (i_att _ I)].
Qed.

(* no lost wake-up: the successor of the tip is never left in the queue of a quiescent drainer *)
Theorem queue_no_lost_wakeup tr s :
  run (init c h0) tr = Some s -> quiescent s ->
  forall b, slots s (pos c (height s + 1)) = Some b -> bidx b <> height s + 1.
Proof.
  intros H (Q1&Q2&Q3&Q4) b Hb He. pose proof (run_inv _ _ _ inv_init H) as I.
  destruct (i_wake _ I b Hb He) as [?|[?|[? _]]]; [congruence|lia|congruence].
Qed.

(* [delivered s i]: some Put(i) passed the window check (i <= hseen + cap at that moment: blocks further ahead are
   dropped by the code and have to be delivered again), and block i was not afterwards thrown away by the drainer after
   a failed AddItem (possible only for a block exactly cap ahead of a stale height reading, see the notes). *)
Definition delivered (s : st) (i : N) : Prop := In i (accd s) /\ ~ In i (lost s).

Theorem queue_reaches_max_contiguous tr s M :
  run (init c h0) tr = Some s -> quiescent s ->
  (forall i, h0 < i <= M -> i <= height s \/ delivered s i) ->
  M <= height s.
Proof.
  intros H Q Hd. pose proof (run_inv _ _ _ inv_init H) as I.
  destruct (N.le_gt_cases M (height s)) as [|Hgt]; [assumption|exfalso].
  pose proof (i_h0 _ I) as Hh0.
  destruct (Hd (height s + 1)) as [?|[Ha Hl]]; [lia|lia|].
  destruct Q as (Q1&Q2&Q3&Q4).
  destruct (i_acc _ I Q4 _ Ha Hl) as (b&Hb&Hbi); [lia|].
  eapply queue_no_lost_wakeup; eauto. repeat split; auto.
Qed.

(* pure synchronisation (nobody else adds blocks): nothing above the tip is ever thrown away and an idle drainer
   has always seen the current height, so "idle, no signal pending" is quiescence *)
Theorem queue_sync_only tr s M :
  run (init c h0) tr = Some s -> next s = 0 ->
  dpc s = Idle -> token s = false -> discarded s = false ->
  (forall i, h0 < i <= M -> In i (accd s)) ->
  M <= height s.
Proof.
  intros H Hn Q1 Q2 Q4 Hd. pose proof (run_inv _ _ _ inv_init H) as I.
  destruct (i_sync _ I Hn) as (Hi&_&_&_&Hl).
  eapply queue_reaches_max_contiguous; eauto.
  - repeat split; auto.
  - intros i Hi'. destruct (N.le_gt_cases i (height s)); [left; assumption|right].
    split; [auto|]. intros Hin. specialize (Hl _ Hin). lia.
Qed.
End Invariant.
