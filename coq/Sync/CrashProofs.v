From NG Require Import Common.Tactics Sync.Restore Sync.RestoreProofs Sync.Crash.
Open Scope N_scope.

(* Every prefix of a sequence of batches each of which, AS A WHOLE, takes a startable disk to a startable disk is
   startable: the premise is per batch, not per record — records that depend on each other must share a batch. *)
Theorem batches_keep_startable bs : forall d,
  startable d = true ->
  (forall d' b, In b bs -> startable d' = true -> startable (apply_batch d' b) = true) ->
  forall k, startable (apply_batches d (firstn k bs)) = true.
Proof.
  induction bs as [|b bs IH]; intros d Hd Hb k.
  - rewrite firstn_nil. exact Hd.
  - destruct k; [exact Hd|]. simpl. apply IH.
    + apply Hb; [left; reflexivity|exact Hd].
    + intros d' b' Hin. apply Hb. right. exact Hin.
Qed.

(* the jump of the code: whichever batch was the last to reach the backend, the node starts *)
Theorem jump_crash_safe p d k : startable d = true -> startable (apply_batches d (firstn k (jump_good p))) = true.
Proof.
  intros Hd. destruct k as [|[|[|[|k]]]]; try exact Hd; try reflexivity.
  replace (firstn (S (S (S (S k)))) (jump_good p)) with (jump_good p) by (destruct k; reflexivity).
  unfold startable, apply_batches, apply_batch, jump_good. simpl. rewrite N.eqb_refl. reflexivity.
Qed.

(* the state-root record of the sync point written after the last flush: a crash before the next flush leaves no marker,
   current block 16, no root record for it — the node cannot start *)
Lemma jump_late_root_refuted :
  let d0 := mkD 0 [0] false in
  startable d0 = true /\
  startable (apply_batches d0 (firstn 4 (jump_late_root 16))) = false /\
  startable (apply_batches d0 (jump_late_root 16)) = true.
Proof. vm_compute. auto. Qed.

Section Mpt.
Variable T : tree.
Variable root : hash.
Variable rank : hash -> nat.
Hypothesis H_rank : forall h n l c, lookup T h = Some n -> In (l, c) (kids n) -> (rank c < rank h)%nat.
Hypothesis H_closed : forall h n l c, lookup T h = Some n -> In (l, c) (kids n) -> exists nc, lookup T c = Some nc.
Hypothesis H_root : exists n, lookup T root = Some n.

(* A crash at any operation boundary (the database as flushed there, the pool lost), a restart, any further deliveries and
   restarts: the run never fails and has the convergence properties of an uninterrupted one. *)
Theorem crash_restart_converges fuel ops1 ops2 s1 :
  fuel_ok T rank fuel -> Forall (genuine_op T) ops1 -> Forall (genuine_op T) ops2 ->
  run true true fuel T root ops1 (init root) = Some s1 ->
  exists s1' s, restart true fuel T root (crashed s1) = Some s1' /\ store s1' = store s1 /\
    run true true fuel T root ops2 s1' = Some s /\
    (pool s = [] <-> forall p h, occ T root p h -> stored (store s) h = true) /\
    (pool s = [] -> forall p h, In (p, h) (store s) <-> occ T root p h) /\
    (forall x, In x (pool s) <-> rootkid T root (store s) x /\ stored (store s) (snd x) = false).
Proof.
  intros Hf Hg1 Hg2 Hr.
  destruct (run_good T root rank H_rank H_closed H_root fuel Hf ops1 (init root) Hg1 (good_init T root)) as (s1g & E & G1).
  rewrite Hr in E. inv E.
  rewrite restart_reads_disk_only.
  destruct (restart_good T root rank H_rank H_closed H_root fuel s1g Hf G1) as (s1' & E1 & G1' & Es).
  destruct (run_good T root rank H_rank H_closed H_root fuel Hf ops2 s1' Hg2 G1') as (s & E2 & G2).
  exists s1', s. split; [exact E1|]. split; [exact Es|]. split; [exact E2|].
  split; [apply (complete_iff T root); assumption|]. split; [apply (complete_pairs T root); assumption|].
  apply (pool_exact T root). assumption.
Qed.
End Mpt.
