(* C20, part 1 — model of pkg/network/bqueue/queue.go (NonBlocking mode).

   The queue is a ring of [cap] slots indexed by block index modulo [cap], filled by [Put] from any number
   of producer goroutines and drained by the single [Run] goroutine.  Every region of the Go code that runs
   under [queueLock] (and every call into the chain, which has its own lock) is ONE atomic action here; the
   actions of producers, of the drainer and of other block sources adding to the chain directly ("external
   advance": RPC submitblock, another queue over the same chain, state jump) interleave arbitrarily.

     Put(b)      h := chain.Height()                      -- [APut b hseen]: hseen is that earlier reading,
                 lock; ...; unlock                           hseen <= current height is all that is known
     Run         <-checkBlocks                             -- [AWake]
                 h := chain.Height()                       -- [ARead]
                 lock; b := queue[pos(h+1)]; clean-up loop; unlock; lastHeight = h     -- [APeek]
                 err := chain.AddItem(b)                   -- [AAdd]
                 lock; len--; if queue[pos]==b {queue[pos]=nil}; unlock; lenUpdateF(l)  -- [AClear]
     Discard     flag; lock; close; clear; len = 0; unlock -- [ADiscard] (one action)

   The model keeps the code's bookkeeping as it is: [qlen] is decremented for every AddItem attempt even when
   the slot was overwritten meanwhile, the clean-up loop compares [GetIndex() == i] at the slot of [i+1]
   (queue.go:105), the lastQ scan runs to the end of the array without wrapping.  uint32 wrap-around of block
   indices is not modelled (indices are N).  Blocking mode (1 s ticker re-check) is not modelled.

   Ghost fields (not in the Go code, never read by the mechanism): [applied], [attempts], [puts], [accd],
   [lost], [lenlog], [next]. *)
From NG Require Import Common.Tactics.
Open Scope N_scope.

Record blk := mkBlk { bidx : N; bid : N }.   (* block index; identity of the Go object (pointer) *)

Definition blk_eqb (a b : blk) : bool := (bidx a =? bidx b) && (bid a =? bid b).

Inductive pc :=
| Idle                                  (* blocked in <-bq.checkBlocks *)
| Woken                                 (* at the top of the inner loop, about to call chain.Height() *)
| ReadH (h : N)                         (* has read h, about to take the lock *)
| Hold (b : blk) (p : N)                (* peeked b at position p, about to call chain.AddItem(b) *)
| Tried (b : blk) (p : N) (ok : bool)   (* AddItem returned, about to take the lock again *)
| Stopped.                              (* channel closed and drained: Run returned *)

Record st := mkSt {
  cap : N;                       (* cacheSize *)
  slots : N -> option blk;       (* queue[pos] *)
  lastQ : N;
  qlen : Z;                      (* len (Go int; may go negative) *)
  discarded : bool;
  token : bool;                  (* checkBlocks (capacity 1) holds a signal *)
  height : N;                    (* chain.Height() *)
  lastH : N;                     (* Run's local lastHeight *)
  dpc : pc;
  (* ghost *)
  applied : list N;              (* indices the chain accepted (from the queue or externally), newest first *)
  attempts : list (blk * bool);  (* every chain.AddItem call made by Run and its outcome, newest first *)
  puts : list blk;               (* every block passed to Put *)
  accd : list N;                 (* indices of Puts that passed the window checks *)
  lost : list N;                 (* indices whose latest queue event was "AddItem failed, slot cleared" *)
  lenlog : list Z;               (* arguments of lenUpdateF, newest first *)
  next : N;                      (* number of external advances *)
}.

Definition init (c h0 : N) : st :=
  mkSt c (fun _ => None) 0 0%Z false false h0 h0 Idle [] [] [] [] [] [] 0.

Definition pos (c i : N) : N := i mod c.

Definition upd (f : N -> option blk) (p : N) (v : option blk) : N -> option blk :=
  fun q => if q =? p then v else f q.

(* for pos < cacheSize && queue[pos] != nil && lastQ+1 == queue[pos].GetIndex() { lastQ = ...; pos++ } *)
Fixpoint adv_lastq (fuel : nat) (f : N -> option blk) (c p lq : N) : N :=
  match fuel with
  | O => lq
  | S fuel' =>
      if p <? c then
        match f p with
        | Some b => if lq + 1 =? bidx b then adv_lastq fuel' f c (p + 1) (bidx b) else lq
        | None => lq
        end
      else lq
  end.

(* for i := lastHeight; i < h; i++ { old := pos(i+1); if queue[old] != nil && queue[old].GetIndex() == i { len--; queue[old] = nil } } *)
Fixpoint cleanup (n : nat) (c i : N) (f : N -> option blk) (l : Z) : (N -> option blk) * Z :=
  match n with
  | O => (f, l)
  | S n' =>
      let old := pos c (i + 1) in
      match f old with
      | Some b => if bidx b =? i then cleanup n' c (i + 1) (upd f old None) (l - 1)%Z
                  else cleanup n' c (i + 1) f l
      | None => cleanup n' c (i + 1) f l
      end
  end.

Definition remove_n (x : N) (l : list N) : list N := filter (fun y => negb (y =? x)) l.

Inductive action :=
| APut (b : blk) (hseen : N)
| AExt
| AWake
| ARead
| APeek
| AAdd
| AClear
| ADiscard.

Definition set_d (s : st) (p : pc) : st :=
  mkSt (cap s) (slots s) (lastQ s) (qlen s) (discarded s) (token s) (height s) (lastH s) p
       (applied s) (attempts s) (puts s) (accd s) (lost s) (lenlog s) (next s).

(* [None]: the action is not enabled in this state *)
Definition step (s : st) (a : action) : option st :=
  match a with
  | APut b hseen =>
      if height s <? hseen then None else
      let s0 := mkSt (cap s) (slots s) (lastQ s) (qlen s) (discarded s) (token s) (height s) (lastH s) (dpc s)
                     (applied s) (attempts s) (b :: puts s) (accd s) (lost s) (lenlog s) (next s) in
      if discarded s then Some s0
      else if bidx b <=? hseen then Some s0
      else if hseen + cap s <? bidx b then Some s0
      else
        let p := pos (cap s) (bidx b) in
        let fresh := match slots s p with None => true | Some o => bidx o <? bidx b end in
        let sl := if fresh then upd (slots s) p (Some b) else slots s in
        let ln := if fresh then (qlen s + 1)%Z else qlen s in
        let lq := if fresh then adv_lastq (N.to_nat (cap s)) sl (cap s) p (lastQ s) else lastQ s in
        Some (mkSt (cap s) sl lq ln false true (height s) (lastH s) (dpc s)
                   (applied s) (attempts s) (b :: puts s) (bidx b :: accd s) (remove_n (bidx b) (lost s))
                   (ln :: lenlog s) (next s))
  | AExt =>
      Some (mkSt (cap s) (slots s) (lastQ s) (qlen s) (discarded s) (token s) (height s + 1) (lastH s) (dpc s)
                 ((height s + 1) :: applied s) (attempts s) (puts s) (accd s) (lost s) (lenlog s) (next s + 1))
  | AWake =>
      match dpc s with
      | Idle => if token s then
                  Some (mkSt (cap s) (slots s) (lastQ s) (qlen s) (discarded s) false (height s) (lastH s) Woken
                             (applied s) (attempts s) (puts s) (accd s) (lost s) (lenlog s) (next s))
                else if discarded s then Some (set_d s Stopped) else None
      | _ => None
      end
  | ARead =>
      match dpc s with
      | Woken => Some (set_d s (ReadH (height s)))
      | _ => None
      end
  | APeek =>
      match dpc s with
      | ReadH h =>
          let p := pos (cap s) (h + 1) in
          let b := slots s p in
          let '(sl, ln) := cleanup (N.to_nat (h - lastH s)) (cap s) (lastH s) (slots s) (qlen s) in
          Some (mkSt (cap s) sl (lastQ s) ln (discarded s) (token s) (height s) h
                     (match b with Some x => Hold x p | None => Idle end)
                     (applied s) (attempts s) (puts s) (accd s) (lost s) (lenlog s) (next s))
      | _ => None
      end
  | AAdd =>
      match dpc s with
      | Hold b p =>
          if bidx b =? height s + 1 then
            Some (mkSt (cap s) (slots s) (lastQ s) (qlen s) (discarded s) (token s) (height s + 1) (lastH s) (Tried b p true)
                       ((height s + 1) :: applied s) ((b, true) :: attempts s) (puts s) (accd s) (lost s) (lenlog s) (next s))
          else
            Some (mkSt (cap s) (slots s) (lastQ s) (qlen s) (discarded s) (token s) (height s) (lastH s) (Tried b p false)
                       (applied s) ((b, false) :: attempts s) (puts s) (accd s) (lost s) (lenlog s) (next s))
      | _ => None
      end
  | AClear =>
      match dpc s with
      | Tried b p ok =>
          let same := match slots s p with Some o => blk_eqb o b | None => false end in
          let sl := if same then upd (slots s) p None else slots s in
          let ln := (qlen s - 1)%Z in
          Some (mkSt (cap s) sl (lastQ s) ln (discarded s) (token s) (height s) (lastH s) Woken
                     (applied s) (attempts s) (puts s) (accd s)
                     (if same && negb ok then bidx b :: lost s else lost s)
                     (ln :: lenlog s) (next s))
      | _ => None
      end
  | ADiscard =>
      if discarded s then Some s
      else Some (mkSt (cap s) (fun _ => None) (lastQ s) 0%Z true (token s) (height s) (lastH s) (dpc s)
                      (applied s) (attempts s) (puts s) (accd s) (lost s) (lenlog s) (next s))
  end.

Fixpoint run (s : st) (tr : list action) : option st :=
  match tr with
  | [] => Some s
  | a :: t => match step s a with Some s' => run s' t | None => None end
  end.

(* the drainer has nothing to do and nobody has told it otherwise *)
Definition quiescent (s : st) : Prop :=
  dpc s = Idle /\ token s = false /\ lastH s = height s /\ discarded s = false.

Fixpoint iota (start : N) (n : nat) : list N :=
  match n with O => [] | S n' => start :: iota (start + 1) n' end.

(* run the drainer alone until it blocks (used by the harness evaluator) *)
Fixpoint drain (fuel : nat) (s : st) : st :=
  match fuel with
  | O => s
  | S f =>
      let a := match dpc s with
               | Idle => AWake | Woken => ARead | ReadH _ => APeek | Hold _ _ => AAdd | Tried _ _ _ => AClear
               | Stopped => AWake end in
      match step s a with Some s' => drain f s' | None => s end
  end.
