(* C20, part 2 — concrete witnesses: the two open findings refuted for the code as it is, and a non-trivial run. *)
From NG Require Import Common.Tactics Common.HarnessLib Sync.Restore Sync.RestoreProofs.
Open Scope N_scope.

(* a branch (hash 1) whose children 0 and 1 are the same leaf (hash 2, value 7) and whose child 2 is an extension
   (hash 3, key [5;6]) over a leaf (hash 4, value 8) *)
Definition exT : tree :=
  [ (1, mkNode [([0], 2); ([1], 2); ([2], 3)] None);
    (2, mkNode [] (Some 7));
    (3, mkNode [([5; 6], 4)] None);
    (4, mkNode [] (Some 8)) ].
Definition exRank (h : hash) : nat := match h with 1 => 3%nat | 3 => 2%nat | _ => 1%nat end.

Definition w (h : hash) : item := match lookup exT h with Some n => IWire h n [] | None => IBad end.

Lemma exT_rank : forall h n l c, lookup exT h = Some n -> In (l, c) (kids n) -> (exRank c < exRank h)%nat.
Proof.
  intros h n l c Hl Hk. unfold exT in Hl. cbn [lookup] in Hl.
  repeat match type of Hl with
         | (if ?h =? ?k then _ else _) = _ => destruct (N.eqb_spec h k) as [<-|?]
         end; inv Hl; simpl in Hk;
  repeat (destruct Hk as [Hk|Hk]; [inv Hk; simpl; lia|]); contradiction.
Qed.

Lemma exT_closed : forall h n l c, lookup exT h = Some n -> In (l, c) (kids n) -> exists nc, lookup exT c = Some nc.
Proof.
  intros h n l c Hl Hk. unfold exT in Hl. cbn [lookup] in Hl.
  repeat match type of Hl with
         | (if ?h =? ?k then _ else _) = _ => destruct (N.eqb_spec h k) as [<-|?]
         end; inv Hl; simpl in Hk;
  repeat (destruct Hk as [Hk|Hk]; [inv Hk; simpl; eauto|]); contradiction.
Qed.

Lemma exT_fuel : fuel_ok exT exRank 5.
Proof.
  intros h n Hl. unfold exT in Hl. cbn [lookup] in Hl.
  repeat match type of Hl with
         | (if ?h =? ?k then _ else _) = _ => destruct (N.eqb_spec h k) as [<-|?]
         end; inv Hl; simpl; lia.
Qed.

(* out of order, duplicated, with a foreign node (hash 9), undecodable bytes, a restart in the middle: *)
Definition exOps : list op :=
  [ ODeliver [w 2; w 4];                       (* not yet requested: ignored *)
    ODeliver [w 1; w 1; IWire 9 (mkNode [] (Some 1)) []];
    ORestart;
    ODeliver [w 3; IBad; w 2];                 (* error after the first item: the leaf is not looked at *)
    ODeliver [w 2];
    ORestart;                                  (* leaf 2 is stored at two paths now *)
    ODeliver [w 4; w 4] ].

Example ex_run_completes :
  exists s, run true true 5 exT 1 exOps (init 1) = Some s /\ pool s = [] /\ synced s = true /\
            count_of s 2 = 2%nat /\ count_of s 1 = 1%nat /\
            temp_storage exT s = [([2; 5; 6], 8); ([0], 7); ([1], 7)].
Proof. eexists. split; [vm_compute; reflexivity|]. vm_compute. auto. Qed.

Example ex_ops_genuine : Forall (genuine_op exT) exOps.
Proof.
  unfold exOps, w. cbn.
  repeat first [apply Forall_nil | apply Forall_cons | exact I
               | (cbn; intros n' H; vm_compute in H; congruence) ].
  all: unfold genuine; intros n' H; vm_compute in H; inv H; reflexivity.
Qed.

(* F8: the code as it is (canon = false) accepts the branch with its child 2 sent inline; the pool empties, the module
   reports the trie as synchronised, and node 3 with everything below it is not in the database *)
Definition exInline : list op := [ ODeliver [IWire 1 (mkNode [([0], 2); ([1], 2); ([2], 3)] None) [3]]; ODeliver [w 2] ].

Lemma restore_inline_refuted :
  exists s, run false true 5 exT 1 exInline (init 1) = Some s /\ pool s = [] /\ synced s = true /\
            stored (store s) 3 = false /\ stored (store s) 4 = false.
Proof. eexists. split; [vm_compute; reflexivity|]. vm_compute. auto. Qed.

(* ... which the repaired code refuses *)
Example ex_inline_refused :
  exists s, run true true 5 exT 1 exInline (init 1) = Some s /\ pool s = [([], 1)] /\ synced s = false.
Proof. eexists. split; [vm_compute; reflexivity|]. vm_compute. auto. Qed.

(* restart with a node stored at two paths: the pool callback of the code as it is (skip = false) panics *)
Definition exRestart : list op := [ ODeliver [w 1]; ODeliver [w 2]; ORestart ].

Lemma restore_restart_refuted : run true false 5 exT 1 exRestart (init 1) = None.
Proof. vm_compute. reflexivity. Qed.

Example ex_restart_fixed : exists s, run true true 5 exT 1 exRestart (init 1) = Some s /\ pool_hashes s = [3].
Proof. eexists. split; vm_compute; reflexivity. Qed.

(* ---------- the restart traversal must ACCUMULATE the children's paths over all paths of a stored node ---------- *)

(* a branch (1) whose children 0 and 1 are the same interior node (2: an extension over leaf 3) *)
Definition twT : tree :=
  [ (1, mkNode [([0], 2); ([1], 2)] None); (2, mkNode [([5], 3)] None); (3, mkNode [] (Some 9)) ].
Definition tw (h : hash) : item := match lookup twT h with Some n => IWire h n [] | None => IBad end.

(* the variant that keeps, for a node visited with several paths, only the children of its LAST path *)
Definition restore1_ow (h : hash) (n : node) (R Q : list pair) : list pair * list pair :=
  let P := paths_of Q h in
  (map (fun p => (p, h)) P ++ R,
   fold_right add_pair (remove_h Q h) (kid_pairs (match rev P with [] => [] | p :: _ => [p] end) n [])).

Fixpoint trav_ow (fuel : nat) (T : tree) (R : list pair) (h : hash) (CQ : list pair * list pair) : list pair * list pair :=
  match fuel with
  | O => CQ
  | S f =>
      if stored R h then
        match lookup T h with
        | None => CQ
        | Some n =>
            let cq := match paths_of (snd CQ) h with [] => CQ | _ :: _ => restore1_ow h n (fst CQ) (snd CQ) end in
            fold_left (fun a lc => trav_ow f T R (snd lc) a) (kids n) cq
        end
      else CQ
  end.

(* nodes 1 and 2 are stored (2 at both paths), leaf 3 is missing at [0;5] and [1;5]; restart *)
Definition tw_before : option st := run true true 5 twT 1 [ODeliver [tw 1]; ODeliver [tw 2]] (init 1).

Lemma restart_overwrite_refuted :
  exists s, tw_before = Some s /\
    (* the real traversal re-derives both paths of the missing leaf ... *)
    (exists s', restart true 5 twT 1 s = Some s' /\ pool s' = [([0; 5], 3); ([1; 5], 3)] /\
       exists s'', run true true 5 twT 1 [ODeliver [tw 3]] s' = Some s'' /\ pool s'' = [] /\ count_of s'' 3 = 2%nat /\
                   temp_storage twT s'' = [([0; 5], 9); ([1; 5], 9)]) /\
    (* ... the overwriting one only the last: after the leaf is delivered the pool is empty, the leaf is stored once, and
       the storage item at path [0;5] is missing *)
    let q := snd (trav_ow 5 twT (store s) 1 ([], [([], 1)])) in
    q = [([1; 5], 3)] /\
    exists s'', run true true 5 twT 1 [ODeliver [tw 3]] (mkSt (store s) q false) = Some s'' /\ pool s'' = [] /\
                count_of s'' 3 = 1%nat /\ temp_storage twT s'' = [([1; 5], 9)].
Proof.
  eexists. split; [vm_compute; reflexivity|]. split.
  - eexists. split; [vm_compute; reflexivity|]. split; [vm_compute; reflexivity|].
    eexists. split; [vm_compute; reflexivity|]. vm_compute. auto.
  - vm_compute. split; [reflexivity|]. eexists. split; [reflexivity|]. auto.
Qed.

(* ---------- a failing message whose accepted prefix is dropped from the database but kept in the pool ---------- *)
(* all nodes of a message in ONE batch that an early error return throws away, while the pool has already moved on *)
Definition add_nodes_drop (fuel : nat) (T : tree) (b : list item) (s : st) : st * bool :=
  if synced s then (s, true)
  else
    let '(RQ, err) := add_items true fuel T b (store s, pool s) in
    if err then (mkSt (store s) (snd RQ) false, true)
    else (mkSt (fst RQ) (snd RQ) (is_nil (snd RQ)), false).

(* root, then the message [extension 3; junk]: the error is returned, 3 is no longer requested and not stored; the remaining
   nodes arrive, the pool empties, the stage is "synchronised" — with node 3 missing *)
Lemma failed_message_dropped_batch_refuted :
  let s1 := fst (add_nodes true 5 exT [w 1] (init 1)) in
  let s2 := fst (add_nodes_drop 5 exT [w 3; IBad] s1) in
  let s3 := fst (add_nodes true 5 exT [w 2; w 4] s2) in
  snd (add_nodes_drop 5 exT [w 3; IBad] s1) = true /\ ~ In 3 (pool_hashes s2) /\ stored (store s2) 3 = false /\
  pool s3 = [] /\ synced s3 = true /\ stored (store s3) 3 = false.
Proof. vm_compute. repeat split; auto. intros [H|[H|[H|[]]]]; discriminate. Qed.

(* the same message as the code handles it: 3 stays stored, nothing is lost *)
Example failed_message_kept :
  let s1 := fst (add_nodes true 5 exT [w 1] (init 1)) in
  let s2 := fst (add_nodes true 5 exT [w 3; IBad] s1) in
  let s3 := fst (add_nodes true 5 exT [w 2; w 4] s2) in
  snd (add_nodes true 5 exT [w 3; IBad] s1) = true /\ stored (store s2) 3 = true /\ pool s3 = [] /\ synced s3 = true /\
  forallb (fun h => stored (store s3) h) [1; 2; 3; 4] = true.
Proof. vm_compute. auto. Qed.
