(* C20, part 4 — the LEDGER under concurrent producers.  core.Blockchain.AddBlock (blockchain.go:1859-1931) is ONE critical
   section of the block-addition lock: { read the height; compare the block's index with height+1; verify; storeBlock
   (execute, advance the height, run the post-block callbacks); send the block event }.  Producers — the block queue's
   drainer, the consensus service, RPC submitblock — call it concurrently; since the section is atomic, a concurrent
   execution is a SEQUENCE of calls, and which sequence is decided by the order in which the callers get the lock: any
   interleaving of the producers' call lists.  Blocks are identified by their index: everything here is about blocks of
   THE chain (what is accepted at an index is the chain's block there: C01/C06 and blocks_stage_rejects_foreign). *)
From NG Require Import Common.Tactics.
Open Scope N_scope.

Inductive res := ROk | RExists | RIndex.

Definition res_code (r : res) : N := match r with ROk => 0 | RExists => 1 | RIndex => 2 end.

Section Ledger.
Variable state : Type.
Variable apply : state -> N -> state.          (* executing block i on a state *)

Record led := mkL {
  height : N;
  lst : state;
  applied : list N;                            (* post-block callbacks, newest first *)
  events : list N;                             (* block events sent, newest first *)
}.

(* one critical section *)
Definition add_block (l : led) (i : N) : led * res :=
  if i =? height l + 1 then (mkL i (apply (lst l) i) (i :: applied l) (i :: events l), ROk)
  else if height l + 1 <? i then (l, RIndex) else (l, RExists).

Fixpoint run (l : led) (calls : list N) : led * list res :=
  match calls with
  | [] => (l, [])
  | i :: r => let '(l1, x) := add_block l i in let '(l2, xs) := run l1 r in (l2, x :: xs)
  end.

(* the reference node: blocks h0+1, h0+2, ... executed one after the other *)
Fixpoint ref_from (s : state) (h : N) (k : nat) : state :=
  match k with O => s | S k' => ref_from (apply s (h + 1)) (h + 1) k' end.

(* h0+k, ..., h0+1 *)
Fixpoint down (h : N) (k : nat) : list N :=
  match k with O => [] | S k' => (h + N.of_nat k) :: down h k' end.

Lemma ref_from_snoc s h k : ref_from s h (S k) = apply (ref_from s h k) (h + N.of_nat (S k)).
Proof.
  revert s h. induction k; intros s h.
  - simpl; f_equal; try lia.
  - change (ref_from s h (S (S k))) with (ref_from (apply s (h + 1)) (h + 1) (S k)).
    rewrite IHk. simpl ref_from at 2. f_equal. lia.
Qed.

(* what any sequence of calls preserves *)
Definition inv (l0 l : led) : Prop :=
  exists k, height l = height l0 + N.of_nat k /\ lst l = ref_from (lst l0) (height l0) k /\
            applied l = down (height l0) k ++ applied l0 /\ events l = down (height l0) k ++ events l0.

Lemma inv_refl l : inv l l.
Proof. exists O. simpl. repeat split; auto; lia. Qed.

Lemma add_block_inv l0 l i : inv l0 l -> inv l0 (fst (add_block l i)).
Proof.
  intros (k & Hh & Hs & Ha & He). unfold add_block.
  destruct (N.eqb_spec i (height l + 1)) as [E|E]; [|destruct (height l + 1 <? i); simpl; exists k; auto].
  simpl. exists (S k). rewrite ref_from_snoc.
  assert (Ei : i = height l0 + N.of_nat (S k)) by lia.
  repeat split.
  - exact Ei.
  - rewrite Hs, Ei. reflexivity.
  - rewrite Ha, Ei. reflexivity.
  - rewrite He, Ei. reflexivity.
Qed.

Lemma run_inv l0 calls : forall l, inv l0 l -> inv l0 (fst (run l calls)).
Proof.
  induction calls as [|i r IH]; intros l H; simpl; auto.
  pose proof (add_block_inv _ _ i H) as H1.
  destruct (add_block l i) as [l1 x]. simpl in H1.
  specialize (IH l1 H1). destruct (run l1 r) as [l2 xs]. exact IH.
Qed.

Lemma down_lt h k x : In x (down h k) -> h < x <= h + N.of_nat k.
Proof. induction k; simpl; [tauto|]. intros [<-|H]; [lia|]. apply IHk in H. lia. Qed.

Lemma down_nodup h k : NoDup (down h k).
Proof.
  induction k; simpl; constructor; auto.
  intros H. apply down_lt in H. lia.
Qed.

(* number of calls for index i that were answered "added" *)
Fixpoint oks (calls : list N) (rs : list res) (i : N) : nat :=
  match calls, rs with
  | c :: cr, ROk :: rr => (if (c =? i)%N then 1 else 0) + oks cr rr i
  | _ :: cr, _ :: rr => oks cr rr i
  | _, _ => 0
  end%nat.

Fixpoint count (x : N) (l : list N) : nat :=
  match l with [] => 0 | y :: r => (if (y =? x)%N then 1 else 0) + count x r end%nat.

Lemma run_oks calls : forall l i,
  count i (applied (fst (run l calls))) = (oks calls (snd (run l calls)) i + count i (applied l))%nat.
Proof.
  induction calls as [|c r IH]; intros l i; simpl; auto.
  unfold add_block.
  destruct (N.eqb_spec c (height l + 1)) as [E|E].
  - specialize (IH (mkL c (apply (lst l) c) (c :: applied l) (c :: events l)) i).
    destruct (run (mkL c (apply (lst l) c) (c :: applied l) (c :: events l)) r) as [l2 xs]. simpl in *.
    rewrite IH. lia.
  - destruct (height l + 1 <? c); specialize (IH l i); destruct (run l r) as [l2 xs]; simpl in *; exact IH.
Qed.

Lemma count_nodup x l : NoDup l -> (count x l <= 1)%nat.
Proof.
  induction 1 as [|y l Hn Hd IH]; simpl; auto.
  destruct (N.eqb_spec y x) as [->|]; [|lia].
  assert (count x l = 0%nat); [|lia].
  clear -Hn. induction l; simpl; auto. destruct (N.eqb_spec a x) as [->|]; [exfalso; apply Hn; left; auto|].
  apply IHl. intros H; apply Hn; right; auto.
Qed.

Lemma count_in x l : In x l <-> (count x l >= 1)%nat.
Proof.
  induction l; simpl; [split; [tauto|lia]|].
  destruct (N.eqb_spec a x) as [->|]; split; auto; try lia.
  - intros [?|H]; [congruence|]. apply IHl in H. lia.
  - intros H. right. apply IHl. lia.
Qed.

(* ---- the theorem about one sequence of atomic calls ---- *)
Theorem atomic_calls_once_in_order l0 calls :
  applied l0 = [] -> events l0 = [] ->
  let l := fst (run l0 calls) in let rs := snd (run l0 calls) in
  exists k,
    height l = height l0 + N.of_nat k /\
    applied l = down (height l0) k /\                     (* h0+1 .. h0+k, each once, in index order *)
    events l = applied l /\                               (* one event per applied block, same order *)
    lst l = ref_from (lst l0) (height l0) k /\            (* the reference node's state at that height *)
    NoDup (applied l) /\
    (forall i, oks calls rs i = if existsb (N.eqb i) (applied l) then 1%nat else 0%nat).   (* exactly one "added" per applied index, none otherwise *)
Proof.
  intros Ha0 He0 l rs.
  destruct (run_inv l0 calls l0 (inv_refl l0)) as (k & Hh & Hs & Ha & He). fold l in Hh, Hs, Ha, He.
  rewrite Ha0, app_nil_r in Ha. rewrite He0, app_nil_r in He.
  exists k. repeat split; auto; try congruence.
  - rewrite Ha. apply down_nodup.
  - intros i. pose proof (run_oks calls l0 i) as Ho. fold l rs in Ho. rewrite Ha0 in Ho. simpl in Ho. rewrite Nat.add_0_r in Ho.
    rewrite <- Ho.
    pose proof (count_nodup i (applied l)) as Hc. rewrite Ha in Hc at 1. specialize (Hc (down_nodup _ _)).
    destruct (existsb (N.eqb i) (applied l)) eqn:Ex.
    + apply existsb_exists in Ex. destruct Ex as (y & Hy & Ey). apply N.eqb_eq in Ey. subst y.
      apply count_in in Hy. lia.
    + destruct (count i (applied l)) eqn:Ec; auto.
      assert (In i (applied l)) by (apply count_in; lia).
      assert (existsb (N.eqb i) (applied l) = true) by (apply existsb_exists; exists i; split; auto; apply N.eqb_refl).
      congruence.
Qed.

(* ---- interleavings ---- *)
(* [interleave ts calls]: calls is a merge of the producers' call lists ts, each producer's order kept *)
Inductive interleave : list (list N) -> list N -> Prop :=
| il_done ts : Forall (fun t => t = []) ts -> interleave ts []
| il_step pre x t post calls : interleave (pre ++ t :: post) calls -> interleave (pre ++ (x :: t) :: post) (x :: calls).

Inductive subseq : list N -> list N -> Prop :=
| ss_nil l : subseq [] l
| ss_take x a b : subseq a b -> subseq (x :: a) (x :: b)
| ss_skip x a b : subseq a b -> subseq a (x :: b).

Lemma interleave_subseq ts calls : interleave ts calls -> forall t, In t ts -> subseq t calls.
Proof.
  induction 1 as [ts Hf|pre x t post calls Hi IH]; intros u Hu.
  - rewrite Forall_forall in Hf. rewrite (Hf u Hu). constructor.
  - apply in_app_or in Hu. destruct Hu as [Hu|[<-|Hu]].
    + apply ss_skip, IH, in_or_app; auto.
    + apply ss_take, IH, in_or_app; right; left; auto.
    + apply ss_skip, IH, in_or_app; right; right; auto.
Qed.

(* h+1, ..., h+k *)
Fixpoint up (h : N) (k : nat) : list N :=
  match k with O => [] | S k' => (h + 1) :: up (h + 1) k' end.

Lemma add_block_height_mono l i : height l <= height (fst (add_block l i)).
Proof. unfold add_block. destruct (N.eqb_spec i (height l + 1)); [simpl; lia|destruct (height l + 1 <? i); simpl; lia]. Qed.

Lemma run_height_mono calls : forall l, height l <= height (fst (run l calls)).
Proof.
  induction calls as [|i r IH]; intros l; simpl; [lia|].
  pose proof (add_block_height_mono l i). destruct (add_block l i) as [l1 x]. specialize (IH l1).
  destruct (run l1 r) as [l2 xs]. simpl in *. lia.
Qed.

(* a producer that offers the blocks in order (the queue: queue_in_order_once) gets the ledger at least that far, whatever
   the other calls in between are *)
Lemma subseq_reaches k : forall h calls l, subseq (up h k) calls -> h <= height l ->
  h + N.of_nat k <= height (fst (run l calls)).
Proof.
  induction k; intros h calls l Hs Hl.
  - pose proof (run_height_mono calls l). lia.
  - simpl up in Hs. remember ((h + 1) :: up (h + 1) k) as a eqn:Ea.
    revert l Hl. induction Hs as [l'|x a' b Hs' _|x a' b Hs' IHs]; intros l Hl; try discriminate.
    + inversion Ea; subst x a'. simpl.
      assert (Hn : h + 1 <= height (fst (add_block l (h + 1)))).
      { unfold add_block. destruct (N.eqb_spec (h + 1) (height l + 1)); [simpl; lia|].
        destruct (height l + 1 <? h + 1) eqn:E; simpl; [apply N.ltb_lt in E; lia|lia]. }
      destruct (add_block l (h + 1)) as [l1 y]. simpl in Hn.
      pose proof (IHk (h + 1) b l1 Hs' Hn) as H. destruct (run l1 b) as [l2 xs]. simpl in *. lia.
    + simpl. pose proof (add_block_height_mono l x) as Hm. destruct (add_block l x) as [l1 y]. simpl in Hm.
      assert (Hl1 : h <= height l1) by lia.
      specialize (IHs Ea l1 Hl1). destruct (run l1 b) as [l2 xs]. exact IHs.
Qed.

Theorem concurrent_producers_converge l0 ts calls k :
  applied l0 = [] -> events l0 = [] ->
  interleave ts calls ->
  In (up (height l0) k) ts ->                             (* one producer offers h0+1 .. h0+k in order *)
  let l := fst (run l0 calls) in
  exists k', (k <= k')%nat /\ height l = height l0 + N.of_nat k' /\
             applied l = down (height l0) k' /\ events l = applied l /\
             lst l = ref_from (lst l0) (height l0) k' /\ NoDup (applied l).
Proof.
  intros Ha He Hi Hin l.
  destruct (atomic_calls_once_in_order l0 calls Ha He) as (k' & Hh & Hap & Hev & Hs & Hn & _).
  exists k'. fold l in Hh, Hap, Hev, Hs, Hn. repeat split; auto.
  pose proof (subseq_reaches k (height l0) calls l0 (interleave_subseq _ _ Hi _ Hin) (N.le_refl _)) as H.
  fold l in H. lia.
Qed.

End Ledger.

(* ---- the same call in TWO sections: { check } ... { apply } ---- *)
(* concrete state: the list of blocks executed *)
Definition lapply (s : list N) (i : N) : list N := i :: s.

Inductive act :=
| ACheck (t : nat) (i : N)      (* producer t reads the height and compares it with the index of its block *)
| AApply (t : nat) (i : N)      (* ... and later, in another section, stores the block if the comparison was fine *)
| AEvent (t : nat).             (* ... and later sends the event for "the top block", read again *)

Record led2 := mkL2 { l2 : led (list N); passed : list nat }.

Definition step2 (s : led2) (a : act) : led2 :=
  match a with
  | ACheck t i => if i =? height _ (l2 s) + 1 then mkL2 (l2 s) (t :: passed s) else s
  | AApply t i =>
      if existsb (Nat.eqb t) (passed s)
      then mkL2 (mkL _ i (lapply (lst _ (l2 s)) i) (i :: applied _ (l2 s)) (events _ (l2 s))) (passed s) else s
  | AEvent t => mkL2 (mkL _ (height _ (l2 s)) (lst _ (l2 s)) (applied _ (l2 s)) (height _ (l2 s) :: events _ (l2 s))) (passed s)
  end.

Definition run2 (s : led2) (tr : list act) : led2 := fold_left step2 tr s.

Definition init2 : led2 := mkL2 (mkL _ 0 [] [] []) [].

(* two producers with block 1, both check before either stores: the block is executed twice *)
Example split_check_apply_refuted :
  let s := run2 init2 [ACheck 0 1; ACheck 1 1; AApply 0 1; AApply 1 1] in
  applied _ (l2 s) = [1; 1] /\ lst _ (l2 s) = [1; 1] /\ lst _ (l2 s) <> ref_from _ lapply [] 0 1.
Proof. vm_compute. repeat split; auto. discriminate. Qed.

(* the same with block 1 stored, then a stale producer (it passed its check when the height was 0) stores block 1 over block 2 *)
Example split_stale_apply_refuted :
  let s := run2 init2 [ACheck 0 1; ACheck 1 1; AApply 0 1; ACheck 2 2; AApply 2 2; AApply 1 1] in
  applied _ (l2 s) = [1; 2; 1] /\ height _ (l2 s) = 1.
Proof. vm_compute. auto. Qed.

(* check and store in one section, the event in a later one with the height read again: two producers, blocks 1 and 2,
   both events say 2 *)
Example event_reread_refuted :
  let s := run2 init2 [ACheck 0 1; AApply 0 1; ACheck 1 2; AApply 1 2; AEvent 0; AEvent 1] in
  applied _ (l2 s) = [2; 1] /\ events _ (l2 s) = [2; 2].
Proof. vm_compute. auto. Qed.
