(* C20, part 2 — proofs about the state-synchronisation model. *)
From NG Require Import Common.Tactics Common.HarnessLib Sync.Restore.
Open Scope N_scope.

(* ---------- list facts ---------- *)

Lemma path_eqb_eq a b : path_eqb a b = true <-> a = b.
Proof. apply list_eqb_eq. intros x y. apply N.eqb_eq. Qed.

Lemma pair_eqb_eq a b : pair_eqb a b = true <-> a = b.
Proof.
  unfold pair_eqb. rewrite andb_true_iff, path_eqb_eq, N.eqb_eq.
  destruct a, b; simpl. split; [intros [-> ->]; reflexivity|intros H; inv H; auto].
Qed.

Lemma mem_pair_in x q : mem_pair x q = true <-> In x q.
Proof.
  unfold mem_pair. rewrite existsb_exists. split.
  - intros (y & Hy & E). apply pair_eqb_eq in E. subst. assumption.
  - intros H. exists x. split; [assumption|apply pair_eqb_eq; reflexivity].
Qed.

Lemma in_add_pair x y q : In x (add_pair y q) <-> x = y \/ In x q.
Proof.
  unfold add_pair. destruct (mem_pair y q) eqn:E.
  - apply mem_pair_in in E. split; [auto|intros [->|H]; auto].
  - simpl. split; intros [H|H]; auto.
Qed.

Lemma in_fold_add x L Q0 : In x (fold_right add_pair Q0 L) <-> In x L \/ In x Q0.
Proof.
  induction L as [|y L IH]; simpl.
  - tauto.
  - rewrite in_add_pair, IH. split; intros H; intuition auto.
Qed.

Lemma in_paths_of p Q h : In p (paths_of Q h) <-> In (p, h) Q.
Proof.
  unfold paths_of. rewrite in_map_iff. split.
  - intros ([p' h'] & E & H). simpl in E. subst p'. apply filter_In in H. destruct H as [H E].
    unfold has_hash in E. simpl in E. apply N.eqb_eq in E. subst. assumption.
  - intros H. exists (p, h). split; [reflexivity|]. apply filter_In. split; [assumption|].
    unfold has_hash. simpl. apply N.eqb_refl.
Qed.

Lemma in_remove_h x Q h : In x (remove_h Q h) <-> In x Q /\ snd x <> h.
Proof.
  unfold remove_h. rewrite filter_In. unfold has_hash. rewrite negb_true_iff, N.eqb_neq. tauto.
Qed.

Lemma stored_iff R h : stored R h = true <-> exists p, In (p, h) R.
Proof.
  unfold stored. rewrite existsb_exists. split.
  - intros ([p h'] & H & E). unfold has_hash in E. simpl in E. apply N.eqb_eq in E. subst. eauto.
  - intros (p & H). exists (p, h). split; [assumption|]. unfold has_hash. simpl. apply N.eqb_refl.
Qed.

Lemma stored_false R h : stored R h = false <-> forall p, ~ In (p, h) R.
Proof.
  split.
  - intros E p H. assert (stored R h = true) by (apply stored_iff; eauto). congruence.
  - intros H. destruct (stored R h) eqn:E; [|reflexivity]. apply stored_iff in E. destruct E as (p & Hp). exfalso. eapply H; eauto.
Qed.

Lemma in_kid_pairs x P n : In x (kid_pairs P n []) <-> exists p l c, In p P /\ In (l, c) (kids n) /\ x = (p ++ l, c).
Proof.
  unfold kid_pairs. rewrite in_flat_map. split.
  - intros (p & Hp & H). apply in_flat_map in H. destruct H as ([l c] & Hlc & H). simpl in H.
    destruct H as [<-|[]]. exists p, l, c. auto.
  - intros (p & l & c & Hp & Hlc & ->). exists p. split; [assumption|]. apply in_flat_map. exists (l, c). split; [assumption|].
    simpl. auto.
Qed.

Lemma paths_of_nil Q h : paths_of Q h = [] <-> ~ In h (map snd Q).
Proof.
  split.
  - intros E H. apply in_map_iff in H. destruct H as ([p h'] & E' & H). simpl in E'. subst h'.
    apply in_paths_of in H. rewrite E in H. contradiction.
  - intros H. destruct (paths_of Q h) as [|p t] eqn:E; [reflexivity|exfalso]. apply H.
    assert (Hp : In p (paths_of Q h)) by (rewrite E; left; reflexivity).
    apply in_paths_of in Hp. apply in_map_iff. exists (p, h). auto.
Qed.

(* membership after restore1 (canonical node) *)
Lemma restore1_R h n R Q x :
  In x (fst (restore1 h n [] R Q)) <-> (snd x = h /\ In x Q) \/ In x R.
Proof.
  unfold restore1. simpl. rewrite in_app_iff, in_map_iff. split.
  - intros [(p & <- & Hp)|H]; [left|right; assumption]. simpl. apply in_paths_of in Hp. auto.
  - intros [[E H]|H]; [left|right; assumption]. destruct x as [p h']. simpl in E. subst h'. exists p. split; [reflexivity|].
    apply in_paths_of. assumption.
Qed.

Lemma restore1_Q h n R Q x :
  In x (snd (restore1 h n [] R Q)) <->
  (exists p l c, In (p, h) Q /\ In (l, c) (kids n) /\ x = (p ++ l, c)) \/ (In x Q /\ snd x <> h).
Proof.
  unfold restore1. simpl. rewrite in_fold_add, in_kid_pairs, in_remove_h. split.
  - intros [(p & l & c & Hp & Hlc & ->)|H]; [left|right; assumption]. apply in_paths_of in Hp. eauto 6.
  - intros [(p & l & c & Hp & Hlc & ->)|H]; [left|right; assumption]. apply in_paths_of in Hp. eauto 6.
Qed.

(* ---------- the source trie ---------- *)

Section Trie.
Variable T : tree.
Variable root : hash.
Variable rank : hash -> nat.
Hypothesis H_rank : forall h n l c, lookup T h = Some n -> In (l, c) (kids n) -> (rank c < rank h)%nat.
Hypothesis H_closed : forall h n l c, lookup T h = Some n -> In (l, c) (kids n) -> exists nc, lookup T c = Some nc.
Hypothesis H_root : exists n, lookup T root = Some n.

(* node h occurs at path p of the trie *)
Inductive occ : path -> hash -> Prop :=
| occ_root : occ [] root
| occ_kid p h n l c : occ p h -> lookup T h = Some n -> In (l, c) (kids n) -> occ (p ++ l) c.

Lemma occ_in_T p h : occ p h -> exists n, lookup T h = Some n.
Proof. intros H. destruct H; [exact H_root|eapply H_closed; eauto]. Qed.

Lemma occ_rank p h : occ p h -> (p = [] /\ h = root) \/ (rank h < rank root)%nat.
Proof.
  induction 1 as [|p h n l c Ho IH Hl Hk]; [left; auto|right].
  pose proof (H_rank _ _ _ _ Hl Hk). destruct IH as [[_ ->]|IH]; lia.
Qed.

Definition rootkid (S : list pair) (x : pair) : Prop :=
  x = ([], root) \/ exists p h n l, In (p, h) S /\ lookup T h = Some n /\ In (l, snd x) (kids n) /\ fst x = p ++ l.

Lemma rootkid_mono S S' x : (forall y, In y S -> In y S') -> rootkid S x -> rootkid S' x.
Proof. intros Hs [H|(p & h & n & l & H1 & H2 & H3 & H4)]; [left; assumption|right]. exists p, h, n, l. auto. Qed.

Record Inv0 (R Q : list pair) : Prop := {
  v_a : forall x, In x R -> occ (fst x) (snd x);
  v_b : forall x, In x Q -> occ (fst x) (snd x);
  v_a2 : forall x, In x R -> rootkid R x;
  v_b2 : forall x, In x Q -> rootkid R x;
  v_c : In ([], root) R \/ In ([], root) Q;
  v_d : forall p h n l c, In (p, h) R -> lookup T h = Some n -> In (l, c) (kids n) -> In (p ++ l, c) R \/ In (p ++ l, c) Q;
}.

(* no requested hash is already in the database *)
Definition G (R Q : list pair) : Prop := forall x, In x Q -> stored R (snd x) = false.

Lemma restore1_inv0 h n R Q :
  lookup T h = Some n -> Inv0 R Q -> Inv0 (fst (restore1 h n [] R Q)) (snd (restore1 h n [] R Q)).
Proof.
  intros Hl I. destruct I as [Ia Ib Ia2 Ib2 Ic Id].
  assert (Hmono : forall y, In y R -> In y (fst (restore1 h n [] R Q))) by (intros y Hy; apply restore1_R; auto).
  constructor.
  - intros x Hx. apply restore1_R in Hx. destruct Hx as [[_ Hx]|Hx]; auto.
  - intros x Hx. apply restore1_Q in Hx. destruct Hx as [(p & l & c & Hp & Hlc & ->)|[Hx _]]; [|auto].
    simpl. eapply occ_kid; eauto. apply (Ib _ Hp).
  - intros x Hx. apply restore1_R in Hx. destruct Hx as [[_ Hx]|Hx]; eapply rootkid_mono; eauto.
  - intros x Hx. apply restore1_Q in Hx. destruct Hx as [(p & l & c & Hp & Hlc & ->)|[Hx _]].
    + right. exists p, h, n, l. repeat split; auto. apply restore1_R. left. auto.
    + eapply rootkid_mono; eauto.
  - destruct Ic as [Hc|Hc]; [left; auto|]. destruct (N.eq_dec root h) as [E|E].
    + left. apply restore1_R. left. auto.
    + right. apply restore1_Q. right. auto.
  - intros p h0 n0 l c Hp Hl0 Hk. apply restore1_R in Hp. simpl in Hp. destruct Hp as [[E Hp]|Hp].
    + subst h0. rewrite Hl in Hl0. inv Hl0. right. apply restore1_Q. left. eauto 6.
    + destruct (Id _ _ _ _ _ Hp Hl0 Hk) as [H|H]; [left; auto|].
      destruct (N.eq_dec c h) as [E|E].
      * left. apply restore1_R. left. auto.
      * right. apply restore1_Q. right. auto.
Qed.

(* hashes in the database after restore1 *)
Lemma restore1_stored h n R Q c :
  stored (fst (restore1 h n [] R Q)) c = true <-> stored R c = true \/ (c = h /\ paths_of Q h <> []).
Proof.
  rewrite !stored_iff. split.
  - intros (p & Hp). apply restore1_R in Hp. simpl in Hp. destruct Hp as [[-> Hp]|Hp]; [right|left; eauto].
    split; [reflexivity|]. apply in_paths_of in Hp. intros E. rewrite E in Hp. contradiction.
  - intros [(p & Hp)|[-> Hne]].
    + exists p. apply restore1_R. auto.
    + destruct (paths_of Q h) as [|p t] eqn:E; [congruence|]. exists p. apply restore1_R. left. split; [reflexivity|].
      apply in_paths_of. rewrite E. left. reflexivity.
Qed.

Definition Bad (R Q : list pair) (x : pair) : Prop := In x Q /\ stored R (snd x) = true.

(* restoreNode on a canonical node: keeps the invariant, adds to the database only pairs of hash h (if requested) or of
   hashes that were there, and leaves no new "requested but present" pair; those of hash h are gone *)
Lemma rnode_spec fuel : forall h n R Q,
  (rank h < fuel)%nat -> lookup T h = Some n -> Inv0 R Q ->
  let RQ' := rnode fuel T h n [] (R, Q) in
  Inv0 (fst RQ') (snd RQ') /\
  (forall c, stored (fst RQ') c = true <-> stored R c = true \/ (c = h /\ paths_of Q h <> [])) /\
  (forall x, Bad (fst RQ') (snd RQ') x -> Bad R Q x /\ snd x <> h).
Proof.
  induction fuel as [|f IH]; intros h n R Q Hf Hl I; [lia|].
  simpl. destruct (paths_of Q h) as [|p0 pt] eqn:EP.
  - simpl. split; [assumption|]. split.
    + intros c. split; [auto|]. intros [H|[_ H]]; [assumption|congruence].
    + intros x [Hx Hs]. split; [split; assumption|]. intros E. apply paths_of_nil in EP. apply EP.
      apply in_map_iff. exists x. auto.
  - (* requested *)
    set (R1 := fst (restore1 h n [] R Q)). set (Q1 := snd (restore1 h n [] R Q)).
    assert (I1 : Inv0 R1 Q1) by (apply restore1_inv0; assumption).
    assert (S1 : forall c, stored R1 c = true <-> stored R c = true \/ c = h).
    { intros c. unfold R1. rewrite restore1_stored. rewrite EP. split; intros [H|H]; auto.
      - right. tauto.
      - right. split; [assumption|discriminate]. }
    assert (B1 : forall x, Bad R1 Q1 x -> (Bad R Q x /\ snd x <> h) \/ (exists l, In (l, snd x) (kids n))).
    { intros x [Hx Hs]. apply restore1_Q in Hx. destruct Hx as [(p & l & c & Hp & Hlc & ->)|[Hx Hne]].
      - right. exists l. assumption.
      - left. split; [|assumption]. split; [assumption|]. apply S1 in Hs. destruct Hs; [assumption|congruence]. }
    (* the loop over the children *)
    assert (Loop : forall ks acc,
      (forall l c, In (l, c) ks -> In (l, c) (kids n)) ->
      Inv0 (fst acc) (snd acc) ->
      (forall c, stored (fst acc) c = true <-> stored R1 c = true) ->
      let acc' := fold_left (fun acc lc =>
                       let c := snd lc in
                       if mem_hash c [] then acc
                       else if stored (fst acc) c then
                              match lookup T c with Some nc => rnode f T c nc [] acc | None => acc end
                            else acc) ks acc in
      Inv0 (fst acc') (snd acc') /\
      (forall c, stored (fst acc') c = true <-> stored R1 c = true) /\
      (forall x, Bad (fst acc') (snd acc') x -> Bad (fst acc) (snd acc) x /\ ~ (exists l, In (l, snd x) ks))).
    { induction ks as [|[l c] ks IHk]; intros acc Hsub Ia Sa; simpl.
      - split; [assumption|]. split; [assumption|]. intros x Hx. split; [assumption|]. intros (l & []).
      - assert (Hk : In (l, c) (kids n)) by (apply Hsub; left; reflexivity).
        assert (Hsub' : forall l0 c0, In (l0, c0) ks -> In (l0, c0) (kids n)) by (intros; apply Hsub; right; assumption).
        destruct (stored (fst acc) c) eqn:Esc.
        + destruct (H_closed _ _ _ _ Hl Hk) as (nc & Hnc). rewrite Hnc.
          destruct acc as [Ra Qa]. simpl in *.
          assert (Hr : (rank c < f)%nat) by (pose proof (H_rank _ _ _ _ Hl Hk); lia).
          destruct (IH c nc Ra Qa Hr Hnc Ia) as (I2 & S2 & B2).
          set (acc2 := rnode f T c nc [] (Ra, Qa)) in *.
          assert (Sa2 : forall c0, stored (fst acc2) c0 = true <-> stored R1 c0 = true).
          { intros c0. rewrite S2, <- Sa. split; [intros [H|[-> _]]; assumption|auto]. }
          destruct (IHk acc2 Hsub' I2 Sa2) as (I3 & S3 & B3).
          split; [assumption|]. split; [assumption|].
          intros x Hx. destruct (B3 _ Hx) as [Hx2 Hn2]. destruct (B2 _ Hx2) as [Hx1 Hn1].
          split; [assumption|]. intros (l0 & [E|Hin]); [inv E; congruence|]. apply Hn2. eauto.
        + destruct (IHk acc Hsub' Ia Sa) as (I3 & S3 & B3).
          split; [assumption|]. split; [assumption|].
          intros x Hx. destruct (B3 _ Hx) as [Hx2 Hn2]. split; [assumption|].
          intros (l0 & [E|Hin]); [|apply Hn2; eauto]. inv E. destruct Hx2 as [_ Hs]. congruence. }
    destruct (Loop (kids n) (R1, Q1)) as (I3 & S3 & B3); auto.
    { intros c. reflexivity. }
    change (restore1 h n [] R Q) with (R1, Q1).
    set (res := fold_left _ (kids n) (R1, Q1)) in *.
    split; [assumption|]. split.
    + intros c. rewrite S3, S1. split; intros [H|H]; auto.
      * right. split; [assumption|discriminate].
      * right. tauto.
    + intros x Hx. destruct (B3 _ Hx) as [Hx1 Hn]. simpl in Hx1. destruct (B1 _ Hx1) as [H|H]; [assumption|contradiction].
Qed.

Lemma rnode_notreq fuel h n il RQ : paths_of (snd RQ) h = [] -> rnode fuel T h n il RQ = RQ.
Proof. intros E. destruct fuel; simpl; [reflexivity|]. rewrite E. reflexivity. Qed.

(* ---------- AddMPTNodes ---------- *)

(* what is delivered under a hash of the trie is that node (hash collision freedom) *)
Definition genuine (it : item) : Prop :=
  match it with IWire h n _ => forall n', lookup T h = Some n' -> n = n' | IBad => True end.

Definition fuel_ok (fuel : nat) : Prop := forall h n, lookup T h = Some n -> (rank h < fuel)%nat.

Lemma add_items_spec fuel : fuel_ok fuel -> forall b R Q,
  Forall genuine b -> Inv0 R Q -> G R Q ->
  let r := add_items true fuel T b (R, Q) in
  Inv0 (fst (fst r)) (snd (fst r)) /\ G (fst (fst r)) (snd (fst r)) /\
  (forall c, stored R c = true -> stored (fst (fst r)) c = true).
Proof.
  intros Hfuel. induction b as [|it b IH]; intros R Q Hg I HG; simpl.
  - auto.
  - inv Hg. destruct it as [h n il|]; [|simpl; auto].
    destruct il as [|i il]; simpl; [|auto].
    destruct (paths_of Q h) as [|p0 pt] eqn:EP.
    + rewrite rnode_notreq by (simpl; assumption). apply IH; assumption.
    + assert (Hp : In (p0, h) Q) by (apply in_paths_of; rewrite EP; left; reflexivity).
      destruct (occ_in_T _ _ (v_b _ _ I _ Hp)) as (n' & Hn'). simpl in H1. pose proof (H1 _ Hn'). subst n'.
      destruct (rnode_spec fuel h n R Q (Hfuel _ _ Hn') Hn' I) as (I2 & S2 & B2).
      destruct (rnode fuel T h n [] (R, Q)) as [R2 Q2] eqn:E2. simpl in *.
      assert (G2 : G R2 Q2).
      { intros x Hx. destruct (stored R2 (snd x)) eqn:Es; [exfalso|reflexivity].
        destruct (B2 x (conj Hx Es)) as [[Hx1 Hs1] _]. rewrite (HG _ Hx1) in Hs1. discriminate. }
      destruct (IH R2 Q2 H2 I2 G2) as (I3 & G3 & M3). split; [assumption|]. split; [assumption|].
      intros c Hc. apply M3. apply S2. auto.
Qed.

(* ---------- defineSyncStage (restart) ---------- *)

Section Restart.
Variables R Qold : list pair.
Hypothesis IR : Inv0 R Qold.
Hypothesis GR : G R Qold.

(* invariant of the traversal: (C, Q) is a consistent restore state of its own, made of pairs known to the old state,
   and everything accounted for is in the database *)
Record K (C Q : list pair) : Prop := {
  k_inv : Inv0 C Q;
  k_sub : forall x, In x C \/ In x Q -> In x R \/ In x Qold;
  k_st : forall x, In x C -> stored R (snd x) = true;
}.

Lemma K_C_in_R C Q x : K C Q -> In x C -> In x R.
Proof.
  intros Kq Hx. destruct (k_sub _ _ Kq x (or_introl Hx)) as [H|H]; [assumption|].
  pose proof (k_st _ _ Kq _ Hx) as Hs. rewrite (GR _ H) in Hs. discriminate.
Qed.

Lemma K_step h n C Q : stored R h = true -> lookup T h = Some n -> K C Q ->
  K (fst (restore1 h n [] C Q)) (snd (restore1 h n [] C Q)).
Proof.
  intros Hs Hl Kq. constructor.
  - apply restore1_inv0; [assumption|apply (k_inv _ _ Kq)].
  - intros x [Hx|Hx].
    + apply restore1_R in Hx. destruct Hx as [[_ Hx]|Hx]; apply (k_sub _ _ Kq); auto.
    + apply restore1_Q in Hx. destruct Hx as [(p & l & c & Hp & Hlc & ->)|[Hx _]]; [|apply (k_sub _ _ Kq); auto].
      assert (HpR : In (p, h) R).
      { destruct (k_sub _ _ Kq (p, h) (or_intror Hp)) as [H|H]; [assumption|]. pose proof (GR _ H) as E. simpl in E. congruence. }
      apply (v_d _ _ IR _ _ _ _ _ HpR Hl Hlc).
  - intros x Hx. apply restore1_R in Hx. destruct Hx as [[E _]|Hx]; [rewrite E; assumption|apply (k_st _ _ Kq); assumption].
Qed.

Definition BadR (Q : list pair) (x : pair) : Prop := In x Q /\ stored R (snd x) = true.

Lemma trav_spec fuel : forall h C Q,
  (rank h < fuel)%nat -> K C Q ->
  exists C' Q', trav true fuel T R h (C, Q) = Some (C', Q') /\ K C' Q' /\
                (forall x, BadR Q' x -> BadR Q x /\ snd x <> h).
Proof.
  induction fuel as [|f IH]; intros h C Q Hf Kq; [lia|].
  simpl. destruct (stored R h) eqn:Es.
  2:{ exists C, Q. split; [reflexivity|]. split; [assumption|]. intros x Hx. split; [assumption|].
      intros E. destruct Hx as [_ Hx]. congruence. }
  destruct (lookup T h) as [n|] eqn:El.
  2:{ (* a stored hash is a hash of the trie *)
      exfalso. apply stored_iff in Es. destruct Es as (p & Hp). destruct (occ_in_T _ _ (v_a _ _ IR _ Hp)) as (n & Hn).
      simpl in Hn. congruence. }
  set (cq1 := match paths_of Q h with [] => (C, Q) | _ :: _ => restore1 h n [] C Q end).
  assert (E1 : (match paths_of Q h with [] => Some (C, Q) | _ :: _ => Some (restore1 h n [] C Q) end) = Some cq1).
  { unfold cq1. destruct (paths_of Q h); reflexivity. }
  rewrite E1. clear E1.
  assert (K1 : K (fst cq1) (snd cq1)).
  { unfold cq1. destruct (paths_of Q h); [assumption|apply K_step; assumption]. }
  assert (B1 : forall x, BadR (snd cq1) x -> (BadR Q x /\ snd x <> h) \/ (exists l, In (l, snd x) (kids n))).
  { unfold cq1. destruct (paths_of Q h) as [|p0 pt] eqn:EP; intros x [Hx Hs].
    - left. split; [split; assumption|]. intros E. apply paths_of_nil in EP. apply EP. apply in_map_iff. exists x. auto.
    - apply restore1_Q in Hx. destruct Hx as [(p & l & c & Hp & Hlc & ->)|[Hx Hne]]; [right; eauto|left].
      split; [split; assumption|assumption]. }
  assert (Loop : forall ks cq,
      (forall l c, In (l, c) ks -> In (l, c) (kids n)) -> K (fst cq) (snd cq) ->
      exists C' Q', fold_left (fun acc lc => match acc with Some a => trav true f T R (snd lc) a | None => None end) ks (Some cq) = Some (C', Q')
                    /\ K C' Q' /\ (forall x, BadR Q' x -> BadR (snd cq) x /\ ~ (exists l, In (l, snd x) ks))).
  { induction ks as [|[l c] ks IHk]; intros cq Hsub Kc; simpl.
    - destruct cq as [C0 Q0]. exists C0, Q0. split; [reflexivity|]. split; [assumption|]. intros x Hx. split; [assumption|].
      intros (l & []).
    - assert (Hk : In (l, c) (kids n)) by (apply Hsub; left; reflexivity).
      assert (Hr : (rank c < f)%nat) by (pose proof (H_rank _ _ _ _ El Hk); lia).
      destruct cq as [C0 Q0]. simpl in Kc.
      destruct (IH c C0 Q0 Hr Kc) as (C2 & Q2 & E2 & K2 & B2). rewrite E2.
      destruct (IHk (C2, Q2)) as (C3 & Q3 & E3 & K3 & B3); [intros; apply Hsub; right; assumption|assumption|].
      exists C3, Q3. split; [assumption|]. split; [assumption|].
      intros x Hx. destruct (B3 _ Hx) as [Hx2 Hn2]. destruct (B2 _ Hx2) as [Hx1 Hn1]. split; [assumption|].
      intros (l0 & [E|Hin]); [inv E; congruence|apply Hn2; eauto]. }
  destruct (Loop (kids n) cq1) as (C3 & Q3 & E3 & K3 & B3); auto.
  exists C3, Q3. split; [assumption|]. split; [assumption|].
  intros x Hx. destruct (B3 _ Hx) as [Hx1 Hn]. destruct (B1 _ Hx1) as [H|H]; [assumption|contradiction].
Qed.

(* every restored pair is accounted for by a traversal that leaves nothing stored in its pool *)
Lemma cover C Q : K C Q -> G R Q -> forall k x, In x R -> (rank root - rank (snd x) <= k)%nat -> In x C.
Proof.
  intros Kq Gq. induction k as [|k IHk]; intros x Hx Hk.
  - (* rank (snd x) >= rank root: x is the root pair *)
    destruct (occ_rank _ _ (v_a _ _ IR _ Hx)) as [[E1 E2]|Hlt]; [|lia].
    destruct x as [p h]. simpl in *. subst.
    destruct (v_c _ _ (k_inv _ _ Kq)) as [H|H]; [assumption|].
    pose proof (Gq _ H) as E. simpl in E. assert (stored R root = true) by (apply stored_iff; eauto). congruence.
  - destruct (v_a2 _ _ IR _ Hx) as [E|(p & h & n & l & Hp & Hl & Hkid & Ef)].
    + subst x. destruct (v_c _ _ (k_inv _ _ Kq)) as [H|H]; [assumption|].
      pose proof (Gq _ H) as E. simpl in E. assert (stored R root = true) by (apply stored_iff; eauto). congruence.
    + assert (HpC : In (p, h) C).
      { apply IHk; [assumption|]. simpl. pose proof (H_rank _ _ _ _ Hl Hkid). lia. }
      destruct x as [q c]. simpl in *. subst q.
      destruct (v_d _ _ (k_inv _ _ Kq) _ _ _ _ _ HpC Hl Hkid) as [H|H]; [assumption|].
      pose proof (Gq _ H) as E. simpl in E. assert (stored R c = true) by (apply stored_iff; eauto). congruence.
Qed.

Lemma restart_spec fuel : (rank root < fuel)%nat ->
  exists C Q, trav true fuel T R root ([], [([], root)]) = Some (C, Q) /\ Inv0 R Q /\ G R Q.
Proof.
  intros Hf.
  assert (K0 : K [] [([], root)]).
  { constructor.
    - constructor; simpl; try (intros; contradiction).
      + intros x [<-|[]]. simpl. apply occ_root.
      + intros x [<-|[]]. left. reflexivity.
      + right. left. reflexivity.
    - intros x [[]|[<-|[]]]. apply (v_c _ _ IR).
    - intros x []. }
  destruct (trav_spec fuel root [] [([], root)] Hf K0) as (C & Q & E & Kq & B).
  exists C, Q. split; [assumption|].
  assert (Gq : G R Q).
  { intros x Hx. destruct (stored R (snd x)) eqn:Es; [exfalso|reflexivity].
    destruct (B x (conj Hx Es)) as [[[<-|[]] _] Hne]. simpl in Hne. congruence. }
  split; [|assumption].
  pose proof (k_inv _ _ Kq) as Ic.
  constructor.
  - apply (v_a _ _ IR).
  - apply (v_b _ _ Ic).
  - apply (v_a2 _ _ IR).
  - intros x Hx. eapply rootkid_mono; [|apply (v_b2 _ _ Ic _ Hx)]. intros y Hy. eapply K_C_in_R; eauto.
  - destruct (v_c _ _ Ic) as [H|H]; [left; eapply K_C_in_R; eauto|right; assumption].
  - intros p h n l c Hp Hl Hk.
    destruct (v_d _ _ IR _ _ _ _ _ Hp Hl Hk) as [H|H]; [left; assumption|].
    assert (HpC : In (p, h) C) by (eapply (cover C Q Kq Gq); eauto).
    destruct (v_d _ _ Ic _ _ _ _ _ HpC Hl Hk) as [H'|H']; [left; eapply K_C_in_R; eauto|right; assumption].
Qed.
End Restart.

(* the callback that panics agrees with the one that skips whenever it does not panic *)
Lemma trav_asis fuel : forall R h cq r, trav false fuel T R h cq = Some r -> trav true fuel T R h cq = Some r.
Proof.
  induction fuel as [|f IH]; intros R h cq r H; simpl in *; [assumption|].
  destruct (stored R h); [|assumption]. destruct (lookup T h) as [n|]; [|assumption].
  assert (Loop : forall ks a r, fold_left (fun (acc : option (list pair * list pair)) (lc : path * hash) => match acc with Some a => trav false f T R (snd lc) a | None => None end) ks a = Some r ->
                               fold_left (fun (acc : option (list pair * list pair)) (lc : path * hash) => match acc with Some a => trav true f T R (snd lc) a | None => None end) ks a = Some r).
  { induction ks as [|[l c] ks IHk]; intros a r0 Hr; simpl in *; [assumption|].
    destruct a as [a|].
    - destruct (trav false f T R c a) as [a2|] eqn:E2.
      + rewrite (IH _ _ _ _ E2). apply IHk. assumption.
      + exfalso. clear - Hr. induction ks as [|x ks IHk]; simpl in Hr; [discriminate|auto].
    - exfalso. clear - Hr. induction ks as [|x ks IHk]; simpl in Hr; [discriminate|auto]. }
  destruct (paths_of (snd cq) h); [discriminate|]. apply Loop. assumption.
Qed.

(* ---------- whole runs ---------- *)

Record Good (s : st) : Prop := {
  g_inv : Inv0 (store s) (pool s);
  g_g : G (store s) (pool s);
  g_sync : synced s = true -> pool s = [];
}.

Lemma good_init : Good (init root).
Proof.
  constructor; simpl.
  - constructor; simpl; try (intros; contradiction).
    + intros x [<-|[]]. apply occ_root.
    + intros x [<-|[]]. left. reflexivity.
    + right. left. reflexivity.
  - intros x [<-|[]]. reflexivity.
  - discriminate.
Qed.

Definition genuine_op (o : op) : Prop := match o with ODeliver b => Forall genuine b | ORestart => True end.

Lemma is_nil_true {A} (l : list A) : is_nil l = true -> l = [].
Proof. destruct l; [reflexivity|discriminate]. Qed.

Lemma add_nodes_good fuel b s : fuel_ok fuel -> Forall genuine b -> Good s -> Good (fst (add_nodes true fuel T b s)).
Proof.
  intros Hf Hg Gs. unfold add_nodes. destruct (synced s) eqn:Esy; [assumption|].
  destruct (add_items_spec fuel Hf b (store s) (pool s) Hg (g_inv _ Gs) (g_g _ Gs)) as (I & G' & _).
  destruct (add_items true fuel T b (store s, pool s)) as [[R Q] err]. simpl in *.
  destruct err; constructor; simpl; auto; try discriminate. apply is_nil_true.
Qed.

Lemma restart_good fuel s : fuel_ok fuel -> Good s -> exists s', restart true fuel T root s = Some s' /\ Good s' /\ store s' = store s.
Proof.
  intros Hf Gs. destruct H_root as (nr & Hnr).
  destruct (restart_spec (store s) (pool s) (g_inv _ Gs) (g_g _ Gs) fuel (Hf _ _ Hnr)) as (C & Q & E & I & G').
  unfold restart. rewrite E. eexists. split; [reflexivity|]. split; [|reflexivity].
  constructor; simpl; auto. apply is_nil_true.
Qed.

Lemma run_good fuel : fuel_ok fuel -> forall ops s, Forall genuine_op ops -> Good s ->
  exists s', run true true fuel T root ops s = Some s' /\ Good s'.
Proof.
  intros Hf. induction ops as [|o ops IH]; intros s Hg Gs; simpl.
  - eauto.
  - inv Hg. destruct o as [b|].
    + apply IH; [assumption|]. apply add_nodes_good; assumption.
    + destruct (restart_good fuel s Hf Gs) as (s' & E & Gs' & _). rewrite E. apply IH; assumption.
Qed.

(* completion detection is exact *)
Lemma complete_pairs s : Good s -> pool s = [] -> forall p h, In (p, h) (store s) <-> occ p h.
Proof.
  intros Gs E p h. split; [intros H; apply (v_a _ _ (g_inv _ Gs) _ H)|].
  induction 1 as [|p h n l c Ho IH Hl Hk].
  - destruct (v_c _ _ (g_inv _ Gs)) as [H|H]; [assumption|]. rewrite E in H. contradiction.
  - destruct (v_d _ _ (g_inv _ Gs) _ _ _ _ _ IH Hl Hk) as [H|H]; [assumption|]. rewrite E in H. contradiction.
Qed.

Lemma complete_iff s : Good s -> (pool s = [] <-> forall p h, occ p h -> stored (store s) h = true).
Proof.
  intros Gs. split.
  - intros E p h Ho. apply stored_iff. exists p. apply complete_pairs; assumption.
  - intros H. destruct (pool s) as [|x q] eqn:E; [reflexivity|exfalso].
    assert (Hx : In x (pool s)) by (rewrite E; left; reflexivity).
    pose proof (v_b _ _ (g_inv _ Gs) _ Hx) as Ho. pose proof (H _ _ Ho) as Hs.
    rewrite (g_g _ Gs _ Hx) in Hs. discriminate.
Qed.

(* The pool of every reachable state — in particular the one a restart re-derives by traversing what is stored — is EXACT:
   it holds a (path, hash) pair iff the hash is missing and the pair is the root's or a child pair of a restored pair; every
   path of a missing node below every restored occurrence of its parent, none lost, none invented.  It is a function of the
   database alone: what an uninterrupted run holds at the same database. *)
Lemma pool_exact s : Good s ->
  forall x, In x (pool s) <-> rootkid (store s) x /\ stored (store s) (snd x) = false.
Proof.
  intros Gs x. split.
  - intros Hx. split; [apply (v_b2 _ _ (g_inv _ Gs) _ Hx)|apply (g_g _ Gs _ Hx)].
  - intros [Hr Hs]. destruct Hr as [->|(p & h & n & l & Hp & Hl & Hk & Hf)].
    + destruct (v_c _ _ (g_inv _ Gs)) as [H|H]; [|assumption].
      exfalso. assert (stored (store s) root = true) by (apply stored_iff; eauto). simpl in Hs. congruence.
    + destruct x as [q c]. simpl in *. subst q.
      destruct (v_d _ _ (g_inv _ Gs) _ _ _ _ _ Hp Hl Hk) as [H|H]; [|assumption].
      exfalso. assert (stored (store s) c = true) by (apply stored_iff; eauto). congruence.
Qed.

Theorem restart_pool_exact fuel ops s :
  fuel_ok fuel -> Forall genuine_op ops ->
  run true true fuel T root ops (init root) = Some s ->
  forall x, In x (pool s) <-> rootkid (store s) x /\ stored (store s) (snd x) = false.
Proof.
  intros Hf Hg Hr. destruct (run_good fuel Hf ops (init root) Hg good_init) as (s' & E & Gs). rewrite Hr in E. inv E.
  apply pool_exact. assumption.
Qed.

(* For every sequence of deliveries (any order, batching, duplication, nodes that were never asked for, undecodable
   bytes, non-canonical encodings — refused) and restarts at any point: the run never fails, the pool is empty exactly
   when every node of the trie is in the database, and then the restored (path, node) pairs are exactly the occurrences
   of the trie (each once per path: exact reference counts, complete temporary storage). *)
Theorem restore_converges fuel ops s :
  fuel_ok fuel -> Forall genuine_op ops ->
  run true true fuel T root ops (init root) = Some s ->
  (pool s = [] <-> forall p h, occ p h -> stored (store s) h = true) /\
  (pool s = [] -> forall p h, In (p, h) (store s) <-> occ p h) /\
  (forall p h, In (p, h) (store s) -> occ p h) /\
  (synced s = true -> pool s = []).
Proof.
  intros Hf Hg Hr. destruct (run_good fuel Hf ops (init root) Hg good_init) as (s' & E & Gs). rewrite Hr in E. inv E.
  split; [apply complete_iff; assumption|]. split; [apply complete_pairs; assumption|].
  split; [intros p h H; apply (v_a _ _ (g_inv _ Gs) _ H)|apply (g_sync _ Gs)].
Qed.

Theorem restore_never_fails fuel ops :
  fuel_ok fuel -> Forall genuine_op ops -> exists s, run true true fuel T root ops (init root) = Some s.
Proof. intros Hf Hg. destruct (run_good fuel Hf ops (init root) Hg good_init) as (s' & E & _). eauto. Qed.

(* a requested node, delivered, gets stored: the request loop makes progress and ends after at most |nodes| rounds *)
Theorem restore_progress fuel s p h n :
  fuel_ok fuel -> Good s -> synced s = false -> In (p, h) (pool s) -> lookup T h = Some n ->
  let s' := fst (add_nodes true fuel T [IWire h n []] s) in
  stored (store s) h = false /\ stored (store s') h = true /\ (forall c, stored (store s) c = true -> stored (store s') c = true).
Proof.
  intros Hf Gs Esy Hp Hl. unfold add_nodes. rewrite Esy. simpl.
  destruct (rnode_spec fuel h n (store s) (pool s) (Hf _ _ Hl) Hl (g_inv _ Gs)) as (_ & S2 & _).
  destruct (rnode fuel T h n [] (store s, pool s)) as [R2 Q2] eqn:E2. simpl in *.
  split; [apply (g_g _ Gs _ Hp)|]. split.
  - apply S2. right. split; [reflexivity|]. intros E. apply in_paths_of in Hp. rewrite E in Hp. contradiction.
  - intros c Hc. apply S2. auto.
Qed.
(* A message = a LIST of nodes handled by one AddMPTNodes call: [add_nodes] folds the per-node restore over it and stops at
   the first node that errors (undecodable, non-canonical), KEEPING the effect of the accepted prefix in both the database
   and the pool — this is what the code does: restoreNode persists every node's own private batch before the next node is
   looked at.  A failing message therefore preserves the invariant (Inv0: everything the trie needs below what is stored is
   stored or requested, nothing else is; G: nothing requested is stored) and loses nothing that was stored. *)
Theorem failed_message_keeps_invariant fuel b s :
  fuel_ok fuel -> Forall genuine b -> Good s -> snd (add_nodes true fuel T b s) = true ->
  Good (fst (add_nodes true fuel T b s)) /\
  (forall c, stored (store s) c = true -> stored (store (fst (add_nodes true fuel T b s))) c = true).
Proof.
  intros Hf Hg Gs _. split; [apply add_nodes_good; assumption|].
  unfold add_nodes. destruct (synced s); [auto|].
  destruct (add_items_spec fuel Hf b (store s) (pool s) Hg (g_inv _ Gs) (g_g _ Gs)) as (_ & _ & M).
  destruct (add_items true fuel T b (store s, pool s)) as [[R Q] err]. simpl in *.
  destruct err; simpl; exact M.
Qed.

End Trie.

(* data whose hash was not requested changes nothing (whatever it is, in either version of the code) *)
Theorem restore_rejects_foreign canon fuel T it s :
  (forall h n il, it = IWire h n il -> ~ In h (pool_hashes s)) ->
  let s' := fst (add_nodes canon fuel T [it] s) in store s' = store s /\ pool s' = pool s.
Proof.
  intros H. unfold add_nodes. destruct (synced s); [auto|]. simpl.
  destruct it as [h n il|]; [|simpl; auto].
  destruct (canon && negb match il with [] => true | _ :: _ => false end); [simpl; auto|].
  rewrite rnode_notreq; [simpl; auto|]. simpl. apply paths_of_nil. apply (H _ _ _ eq_refl).
Qed.
