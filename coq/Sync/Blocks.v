(* C20, part 2b — the BLOCKS stage of state synchronisation (statesync.Module.AddBlock, module.go:489-553): after headers
   and state, the blocks P-MaxTraceableBlocks+1 .. P are stored without being executed.  A delivered block is accepted only
   in that stage, only as the next index, only if the Merkle root of the delivered transaction list is the one in its header
   and its header hash is the hash of the header synchronised before. *)
From NG Require Import Common.Tactics.
Open Scope N_scope.

Section Blocks.
Variable tx : Type.
Variable merkle : list tx -> N.              (* block.ComputeMerkleRoot of the delivered transactions *)

Record header := mkH { hidx : N; hmerkle : N; hrest : N }.
Variable hhash : header -> N.                (* block.Hash(): covers every header field *)

Record blk := mkB { bhdr : header; btxs : list tx }.

Record bst := mkBS {
  need_blocks : bool;                        (* headersSynced & mptSynced & not blocksSynced *)
  bheight : N;                               (* s.blockHeight *)
  point : N;                                 (* sync point P *)
  synced_hash : N -> N;                      (* bc.GetHeaderHash(i): headers synchronised before *)
  stored : list blk;                         (* StoreAsBlock + StoreAsTransaction *)
}.

(* [None] = error returned, nothing changed *)
Definition add_block (s : bst) (b : blk) : option bst :=
  if negb (need_blocks s) then None                       (* returns nil without doing anything; modelled as "not accepted" *)
  else if negb (hidx (bhdr b) =? bheight s + 1) then None
  else if negb (merkle (btxs b) =? hmerkle (bhdr b)) then None
  else if negb (hhash (bhdr b) =? synced_hash s (hidx (bhdr b))) then None
  else Some (mkBS (negb (hidx (bhdr b) =? point s)) (hidx (bhdr b)) (point s) (synced_hash s) (b :: stored s)).

(* what is accepted has the synchronised header's hash and carries exactly a transaction list its header commits to *)
Lemma add_block_sound s b s' :
  add_block s b = Some s' ->
  hhash (bhdr b) = synced_hash s (hidx (bhdr b)) /\ merkle (btxs b) = hmerkle (bhdr b) /\
  hidx (bhdr b) = bheight s + 1 /\ stored s' = b :: stored s.
Proof.
  unfold add_block. intros H.
  destruct (need_blocks s); simpl in H; [|discriminate].
  destruct (hidx (bhdr b) =? bheight s + 1) eqn:E1; simpl in H; [|discriminate].
  destruct (merkle (btxs b) =? hmerkle (bhdr b)) eqn:E2; simpl in H; [|discriminate].
  destruct (hhash (bhdr b) =? synced_hash s (hidx (bhdr b))) eqn:E3; simpl in H; [|discriminate].
  inv H. apply N.eqb_eq in E1, E2, E3. auto.
Qed.

(* with collision-free hashes: the header is THE synchronised header and the transactions are THE transactions of that
   block of the source chain *)
Hypothesis hhash_inj : forall a b, hhash a = hhash b -> a = b.
Hypothesis merkle_inj : forall a b, merkle a = merkle b -> a = b.

Theorem blocks_stage_rejects_foreign s b s' (src : N -> blk) :
  (forall i, hhash (bhdr (src i)) = synced_hash s i /\ merkle (btxs (src i)) = hmerkle (bhdr (src i))) ->
  add_block s b = Some s' -> b = src (hidx (bhdr b)).
Proof.
  intros Hsrc H. destruct (add_block_sound _ _ _ H) as (Hh & Hm & _ & _).
  destruct (Hsrc (hidx (bhdr b))) as [Sh Sm].
  set (g := src (hidx (bhdr b))) in *.
  assert (Eh : bhdr b = bhdr g) by (apply hhash_inj; congruence).
  assert (Et : btxs b = btxs g) by (apply merkle_inj; rewrite Hm, Eh; symmetry; exact Sm).
  destruct b as [hb tb]. destruct g as [hs ts]. simpl in Eh, Et. subst. reflexivity.
Qed.

End Blocks.
