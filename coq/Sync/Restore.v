(* C20, part 2 — model of MPT-based state synchronisation:
   pkg/core/statesync/module.go (AddMPTNodes, restoreNode, defineSyncStage), mptpool.go, mpt/billet.go
   (RestoreHashNode, incrementRefAndStore, Traverse) and mpt/helpers.go (GetChildrenPaths).

   The source trie is a table [hash -> node]; a node lists its children as (label, child hash) in the order
   Billet.traverse visits them (value child of a branch first, label []; then children 0..15, label [i]; the
   single child of an extension, label = its key).  A leaf has no children and a value.

   State of the syncing node:
     store  — the (path, hash) pairs restored so far.  Billet.RestoreHashNode increments the reference count
              of the node once per pair, so "hash h is in the database" = some pair with hash h is in [store],
              and its stored count = number of such pairs; a restored leaf at path p also writes p -> value
              into the temporary contract storage ([temp_storage]).
     pool   — statesync.Pool: the unknown hashes with the paths they are expected at, as (path, hash) pairs.
     synced — the mptSynced stage bit.
   The in-memory billet (which only re-validates "this hash is expected at this path") is represented by the
   pool's pairs; its ErrRestoreFailed returns do not occur under the pool discipline and are not modelled.

   Two switches select the behaviour of the code as it is ([false]) or as repaired ([true]):
     canon — AddMPTNodes refuses node bytes that are not the canonical encoding (children by hash only): F8;
     skip  — the pool callback of defineSyncStage skips a stored node it has already accounted for instead of
             panicking "failed to get MPT node from the pool" (second visit of a node stored at two paths). *)
From NG Require Import Common.Tactics Common.HarnessLib.
Open Scope N_scope.

Definition hash := N.
Definition path := list N.
Record node := mkNode { kids : list (path * hash); lval : option N }.
Definition tree := list (hash * node).
Definition pair := (path * hash)%type.

Fixpoint lookup (T : tree) (h : hash) : option node :=
  match T with
  | [] => None
  | (k, n) :: t => if k =? h then Some n else lookup t h
  end.

Definition path_eqb : path -> path -> bool := list_eqb N.eqb.
Definition pair_eqb (a b : pair) : bool := path_eqb (fst a) (fst b) && (snd a =? snd b).

Record st := mkSt { store : list pair; pool : list pair; synced : bool }.

Definition has_hash (h : hash) (x : pair) : bool := snd x =? h.
Definition paths_of (q : list pair) (h : hash) : list path := map fst (filter (has_hash h) q).   (* Pool.TryGet *)
Definition remove_h (q : list pair) (h : hash) : list pair := filter (fun x => negb (has_hash h x)) q.
Definition mem_pair (x : pair) (q : list pair) : bool := existsb (pair_eqb x) q.
Definition add_pair (x : pair) (q : list pair) : list pair := if mem_pair x q then q else x :: q.  (* addPaths skips known paths *)
Definition stored (R : list pair) (h : hash) : bool := existsb (has_hash h) R.                 (* Billet.GetFromStore succeeds *)
Definition mem_hash (h : hash) (l : list hash) : bool := existsb (N.eqb h) l.

(* GetChildrenPaths for every path of the node: children that are hash references (inline ones are skipped) *)
Definition kid_pairs (P : list path) (n : node) (il : list hash) : list pair :=
  flat_map (fun p => flat_map (fun lc => if mem_hash (snd lc) il then [] else [(p ++ fst lc, snd lc)]) (kids n)) P.

(* the loop over nPaths in restoreNode + mptpool.Update *)
Definition restore1 (h : hash) (n : node) (il : list hash) (R Q : list pair) : list pair * list pair :=
  let P := paths_of Q h in
  (map (fun p => (p, h)) P ++ R, fold_right add_pair (remove_h Q h) (kid_pairs P n il)).

(* restoreNode: not requested -> nothing; else restore at every path, then for every child that is already in the
   database restore it as well (its stored, canonical form) *)
Fixpoint rnode (fuel : nat) (T : tree) (h : hash) (n : node) (il : list hash) (RQ : list pair * list pair)
  : list pair * list pair :=
  match fuel with
  | O => RQ
  | S f =>
      match paths_of (snd RQ) h with
      | [] => RQ
      | _ :: _ =>
          fold_left (fun acc lc =>
                       let c := snd lc in
                       if mem_hash c il then acc
                       else if stored (fst acc) c then
                              match lookup T c with Some nc => rnode f T c nc [] acc | None => acc end
                            else acc)
                    (kids n) (restore1 h n il (fst RQ) (snd RQ))
      end
  end.

Inductive item :=
| IWire (h : hash) (n : node) (il : list hash)   (* decodable node bytes: canonical hash, content, children sent inline *)
| IBad.                                           (* bytes that do not decode *)

(* the loop of AddMPTNodes; [true] = an error was returned (the rest of the batch is not looked at) *)
Fixpoint add_items (canon : bool) (fuel : nat) (T : tree) (b : list item) (RQ : list pair * list pair)
  : (list pair * list pair) * bool :=
  match b with
  | [] => (RQ, false)
  | IBad :: _ => (RQ, true)
  | IWire h n il :: t =>
      if canon && negb (match il with [] => true | _ => false end) then (RQ, true)
      else add_items canon fuel T t (rnode fuel T h n il RQ)
  end.

Definition is_nil {A} (l : list A) : bool := match l with [] => true | _ => false end.

Definition add_nodes (canon : bool) (fuel : nat) (T : tree) (b : list item) (s : st) : st * bool :=
  if synced s then (s, true)                     (* "MPT nodes were not requested" *)
  else
    let '(RQ, err) := add_items canon fuel T b (store s, pool s) in
    if err then (mkSt (fst RQ) (snd RQ) false, true)
    else (mkSt (fst RQ) (snd RQ) (is_nil (snd RQ)), false).

(* defineSyncStage: a fresh pool holding the root, then Billet.Traverse over what is in the database with the pool
   callback; [C] collects the pairs the callback has accounted for.  [None] = the callback panicked. *)
Fixpoint trav (skip : bool) (fuel : nat) (T : tree) (R : list pair) (h : hash) (CQ : list pair * list pair)
  : option (list pair * list pair) :=
  match fuel with
  | O => Some CQ
  | S f =>
      if stored R h then
        match lookup T h with
        | None => Some CQ
        | Some n =>
            let after :=
              match paths_of (snd CQ) h with
              | [] => if skip then Some CQ else None
              | _ :: _ => Some (restore1 h n [] (fst CQ) (snd CQ))
              end in
            match after with
            | None => None
            | Some cq =>
                fold_left (fun acc lc => match acc with Some a => trav skip f T R (snd lc) a | None => None end)
                          (kids n) (Some cq)
            end
        end
      else Some CQ
  end.

Definition restart (skip : bool) (fuel : nat) (T : tree) (root : hash) (s : st) : option st :=
  match trav skip fuel T (store s) root ([], [([], root)]) with
  | Some (_, Q) => Some (mkSt (store s) Q (is_nil Q))
  | None => None
  end.

Definition init (root : hash) : st := mkSt [] [([], root)] false.

Inductive op := ODeliver (b : list item) | ORestart.

Fixpoint run (canon skip : bool) (fuel : nat) (T : tree) (root : hash) (ops : list op) (s : st) : option st :=
  match ops with
  | [] => Some s
  | ODeliver b :: t => run canon skip fuel T root t (fst (add_nodes canon fuel T b s))
  | ORestart :: t => match restart skip fuel T root s with Some s' => run canon skip fuel T root t s' | None => None end
  end.

(* observables *)
Definition pool_hashes (s : st) : list hash := map snd (pool s).
Definition count_of (s : st) (h : hash) : nat := length (filter (has_hash h) (store s)).          (* stored reference count *)
Definition temp_storage (T : tree) (s : st) : list (path * N) :=
  flat_map (fun x => match lookup T (snd x) with
                     | Some n => match lval n with Some v => [(fst x, v)] | None => [] end
                     | None => [] end) (store s).
