package main

import (
	"fmt"

	"github.com/nspcc-dev/neo-go/pkg/core"
	"github.com/nspcc-dev/neo-go/pkg/core/block"
	"github.com/nspcc-dev/neo-go/pkg/core/mpt"
	"github.com/nspcc-dev/neo-go/pkg/util"
)

// ---- state synchronisation + state jump scenario ----
// The victim is a light node (P2PStateExchangeExtensions, RemoveUntraceableBlocks) that synchronises
// headers, the MPT of the state sync point P and the blocks (P-MaxTraceableBlocks, P] from the source,
// then jumps to P (jumpToStateInternal: a stage machine of its own) and continues with ordinary blocks.

type c02SyncSrc struct {
	b     *c02Built
	top   uint32
	nodes map[util.Uint256][]byte // MPT nodes of the state at P, by hash
	p     uint32
	// wrapBlock, when set, runs the addition of block i (c02RunJump: under c02StepCache)
	wrapBlock func(i uint32, add func() error) error
}

func c02SyncPoint(top uint32) uint32 { return top / c02SSI * c02SSI }

func c02NewSyncSrc(b *c02Built) (*c02SyncSrc, error) {
	s := &c02SyncSrc{b: b, top: uint32(len(b.Blocks) - 1), nodes: map[util.Uint256][]byte{}}
	s.p = c02SyncPoint(s.top)
	err := b.src.GetStateSyncModule().Traverse(b.Snaps[s.p].Root, func(n mpt.Node, nb []byte) bool {
		s.nodes[n.Hash()] = append([]byte{}, nb...)
		return false
	})
	return s, err
}

// c02SyncStep is one step of the synchronisation driver; steps are chosen from what the module asks for,
// so the same driver continues a synchronisation that was interrupted at any point.
// flush(i) is called after every step (the caller decides whether to flush).
func (s *c02SyncSrc) drive(bc *core.Blockchain, nodeBatch int, flush func(step int) error) error {
	m := bc.GetStateSyncModule()
	if err := m.Init(s.top); err != nil {
		return fmt.Errorf("statesync Init: %w", err)
	}
	step := 0
	after := func() error {
		step++
		if flush != nil {
			return flush(step)
		}
		return nil
	}
	for guard := 0; m.IsActive() && guard < 100000; guard++ {
		switch {
		case m.NeedHeaders():
			var hs []*block.Header
			for i := max(bc.HeaderHeight()+1, bc.GetConfig().TrustedHeader.Index); i <= s.top; i++ {
				hs = append(hs, &s.b.Blocks[i].Header)
			}
			if len(hs) == 0 {
				return fmt.Errorf("headers requested but none left (header height %d)", bc.HeaderHeight())
			}
			// in two portions so that a flush can fall between them
			half := len(hs) / 2
			if half > 0 {
				if err := m.AddHeaders(hs[:half]...); err != nil {
					return fmt.Errorf("statesync AddHeaders: %w", err)
				}
				if err := after(); err != nil {
					return err
				}
			}
			if err := m.AddHeaders(hs[half:]...); err != nil {
				return fmt.Errorf("statesync AddHeaders: %w", err)
			}
		case m.NeedStorageData():
			need := m.GetUnknownMPTNodesBatch(nodeBatch)
			if len(need) == 0 {
				return fmt.Errorf("MPT data needed but no unknown nodes")
			}
			add := make([][]byte, 0, len(need))
			for _, h := range need {
				nb, ok := s.nodes[h]
				if !ok {
					return fmt.Errorf("node %s requested, not part of the state at %d", h.StringLE(), s.p)
				}
				add = append(add, nb)
			}
			if err := m.AddMPTNodes(add); err != nil {
				return fmt.Errorf("statesync AddMPTNodes: %w", err)
			}
		case m.NeedBlocks():
			i := m.BlockHeight() + 1
			if i > s.top {
				return fmt.Errorf("block %d requested", i)
			}
			add := func() error { return m.AddBlock(s.b.Blocks[i]) }
			var err error
			if s.wrapBlock != nil {
				err = s.wrapBlock(i, add)
			} else {
				err = add()
			}
			if err != nil {
				return fmt.Errorf("statesync AddBlock %d: %w", i, err)
			}
		default:
			return fmt.Errorf("active module needs nothing")
		}
		if err := after(); err != nil {
			return err
		}
	}
	return nil
}
