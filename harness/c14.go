package main

// C14 — compiled contracts behave like the Go source.  Sub-command "c14":
//
//	kind "diff"  one entry function of a generated dialect program, several argument tuples:
//	             real compiler -> real VM   versus   go build of the same source (oracle of the property)
//	kind "frag"  a program of the MiniGo fragment: real bytecode decoded to the Coq target machine and run
//	             there, MiniGo semantics in Coq, model compiler output versus real instruction sequence
//	kind "meta"  manifest / debug information versus bytecode (direct checks)

import (
	"encoding/json"
	"flag"
	"fmt"
	"go/ast"
	"go/parser"
	"go/token"
	"go/types"
	"hash/fnv"
	"os"
	"path/filepath"
	"sort"
	"strings"
)

func init() { register("c14", runC14) }

// ---------- signatures and struct layouts from the source text ----------

func c14TypeStr(e ast.Expr) string { return types.ExprString(e) }

var c14ArgTypes = map[string]bool{"int": true, "bool": true, "string": true, "[]int": true, "[]byte": true}

// c14Analyze lists the entry functions (exported, no receiver, supported parameter types, at most one
// result) and the field types of the struct types declared in src.
func c14Analyze(src string) (funcs []c14Func, structs map[string][]string, err error) {
	fset := token.NewFileSet()
	f, err := parser.ParseFile(fset, "u.go", src, 0)
	if err != nil {
		return nil, nil, err
	}
	structs = map[string][]string{}
	for _, d := range f.Decls {
		switch n := d.(type) {
		case *ast.GenDecl:
			for _, s := range n.Specs {
				ts, ok := s.(*ast.TypeSpec)
				if !ok {
					continue
				}
				st, ok := ts.Type.(*ast.StructType)
				if !ok {
					continue
				}
				var fs []string
				for _, fl := range st.Fields.List {
					k := len(fl.Names)
					if k == 0 {
						k = 1
					}
					for i := 0; i < k; i++ {
						fs = append(fs, c14TypeStr(fl.Type))
					}
				}
				structs[ts.Name.Name] = fs
			}
		case *ast.FuncDecl:
			if n.Recv != nil || !n.Name.IsExported() {
				continue
			}
			fn := c14Func{Name: n.Name.Name, Params: []string{}}
			ok := true
			for _, p := range n.Type.Params.List {
				t := c14TypeStr(p.Type)
				if !c14ArgTypes[t] {
					ok = false
				}
				for range p.Names {
					fn.Params = append(fn.Params, t)
				}
			}
			if n.Type.Results != nil {
				if n.Type.Results.NumFields() > 1 {
					ok = false
				} else if n.Type.Results.NumFields() == 1 {
					fn.Ret = c14TypeStr(n.Type.Results.List[0].Type)
				}
			}
			if ok {
				funcs = append(funcs, fn)
			}
		}
	}
	return funcs, structs, nil
}

// ---------- one batch: units -> compile both ways -> compare ----------

type c14DiffInput struct {
	Unit c14Unit    `json:"unit"`
	Fn   string     `json:"fn"`
	Ops  [][]c14Val `json:"ops"` // argument tuples (shrunk by ./check)
	Note string     `json:"note,omitempty"`
}

type c14DiffImpl struct {
	VM     []string `json:"vm"`
	Go     []string `json:"go"`
	Detail []string `json:"vm_fault,omitempty"`
}

type c14Job struct {
	unit   c14Unit
	fn     c14Func
	tuples [][]c14Val
	tag    string
}

func c14Hash(xs []string) uint64 {
	h := fnv.New64a()
	for _, x := range xs {
		h.Write([]byte(x))
		h.Write([]byte{0})
	}
	return h.Sum64() >> 2
}

// c14RunBatch compiles all units with the real compiler and with the Go toolchain, runs every job both
// ways and records one "diff" case per job plus the "meta" checks per unit.
func c14RunBatch(co *caseOut, dir string, units []c14Unit, jobs []c14Job, unitOf []int) error {
	var calls []c14GoCall
	first := make([]int, len(jobs))
	for j, job := range jobs {
		first[j] = len(calls)
		for _, t := range job.tuples {
			calls = append(calls, c14GoCall{Unit: unitOf[j], Fn: job.fn, Args: t})
		}
	}
	ws, err := c14WriteWorkspace(dir, units, calls)
	if err != nil {
		return err
	}
	// the real compiler, unit by unit
	comp := make([]*c14Compiled, len(units))
	structs := make([]map[string][]string, len(units))
	for i, u := range units {
		_, st, err := c14Analyze(u.Src)
		if err != nil {
			return fmt.Errorf("generated unit %s does not parse: %v", u.Pkg, err)
		}
		structs[i] = st
		cc, err := c14Compile(filepath.Join(dir, u.Pkg))
		if err != nil {
			// the program is accepted by the Go toolchain (checked below); a rejection by the compiler is not a
			// behavioural difference, but a compiler crash is reported
			if strings.Contains(err.Error(), "compiler panic") {
				co.violation("diff", "the compiler panics on a generated program: "+firstLine(err.Error()),
					c14DiffInput{Unit: u, Note: "compile"}, err.Error())
			} else {
				// the generator emits only constructs the unchanged compiler accepts (and go build accepts this
				// program, checked below): a rejection is a failure on one side only
				co.violation("diff", "the compiler rejects a generated program of the dialect: "+firstLine(err.Error()),
					c14DiffInput{Unit: u, Note: "compile"}, err.Error())
			}
			continue
		}
		comp[i] = cc
		c14Meta(co, u, cc)
	}
	if err := ws.build(); err != nil {
		return fmt.Errorf("the Go toolchain rejects a generated program (generator defect): %v", err)
	}
	gores, err := ws.run(len(calls))
	if err != nil {
		return err
	}
	for j, job := range jobs {
		cc := comp[unitOf[j]]
		if cc == nil {
			continue
		}
		impl := c14DiffImpl{}
		nontriv := false
		for k, t := range job.tuples {
			r, detail := c14VMResult(cc, job.fn, t, structs[unitOf[j]])
			impl.VM = append(impl.VM, r)
			impl.Go = append(impl.Go, gores[first[j]+k])
			if detail != "" {
				impl.Detail = append(impl.Detail, detail)
			}
			if r != "F" && r != "V" {
				nontriv = true
			}
		}
		in := c14DiffInput{Unit: job.unit, Fn: job.fn.Name, Ops: job.tuples}
		co.add("diff", job.tag, nontriv, in, impl, fmt.Sprintf("CObs %d %d", c14Hash(impl.Go), c14Hash(impl.VM)))
	}
	return nil
}

func c14Strs(v any) []string {
	if v == nil {
		return nil
	}
	return v.([]string)
}

func firstLine(s string) string {
	if i := strings.IndexByte(s, '\n'); i >= 0 {
		return s[:i]
	}
	return s
}

// ---------- probe: a hand-written unit, every entry function on default argument tuples ----------

func c14DefaultTuples(f c14Func) [][]c14Val {
	ints := []int64{0, 1, 7, -3, 12}
	var out [][]c14Val
	for k := 0; k < 4; k++ {
		var t []c14Val
		for i, p := range f.Params {
			switch p {
			case "int":
				t = append(t, c14Val{T: "int", I: ints[(k+2*i)%len(ints)]})
			case "bool":
				t = append(t, c14Val{T: "bool", B: (k+i)%2 == 0})
			case "string":
				t = append(t, c14Val{T: "string", S: []string{"", "a", "hello", "zz9"}[(k+i)%4]})
			case "[]byte":
				t = append(t, c14Val{T: "[]byte", S: []string{"", "a", "hello", "zz9"}[(k+i)%4]})
			case "[]int":
				t = append(t, c14Val{T: "[]int", L: [][]int64{{}, {5}, {3, 1, 2}, {-1, 0, 9, 4}}[(k+i)%4]})
			}
		}
		out = append(out, t)
		if len(f.Params) == 0 {
			break
		}
	}
	return out
}

func c14Probe(co *caseOut, dir, file string) error {
	b, err := os.ReadFile(file)
	if err != nil {
		return err
	}
	src := string(b)
	pkg := "probe"
	if i := strings.Index(src, "package "); i >= 0 {
		pkg = strings.Fields(src[i+8:])[0]
	}
	u := c14Unit{Pkg: pkg, Src: src, Helpers: map[string]string{}}
	// helper packages next to the probe file: <file>.<name>.helper
	ms, _ := filepath.Glob(file + ".*.helper")
	for _, m := range ms {
		hb, _ := os.ReadFile(m)
		name := strings.TrimSuffix(strings.TrimPrefix(m, file+"."), ".helper")
		u.Helpers[name] = string(hb)
	}
	fs, _, err := c14Analyze(src)
	if err != nil {
		return err
	}
	u.Funcs = fs
	var jobs []c14Job
	var unitOf []int
	for _, f := range fs {
		jobs = append(jobs, c14Job{unit: u, fn: f, tuples: c14DefaultTuples(f), tag: "probe"})
		unitOf = append(unitOf, 0)
	}
	if err := c14RunBatch(co, dir, []c14Unit{u}, jobs, unitOf); err != nil {
		return err
	}
	for _, r := range co.recs {
		im := r.Impl.(c14DiffImpl)
		in := r.Input.(c14DiffInput)
		for k := range im.VM {
			st := "ok  "
			if im.VM[k] != im.Go[k] {
				st = "DIFF"
			}
			fmt.Printf("%s %s%s vm=%s go=%s\n", st, in.Fn, c14JSON(in.Ops[k]), im.VM[k], im.Go[k])
		}
		for _, d := range im.Detail {
			fmt.Println("     vm fault:", d)
		}
	}
	for _, d := range co.direct {
		fmt.Println("DIRECT:", d.Note)
	}
	if x := co.extra["x_rejected"]; x != nil {
		fmt.Println("REJECTED:", x)
	}
	return nil
}

// ---------- sub-command ----------

func runC14(args []string) error {
	cf, fs := parseCommon("c14", args)
	probe := fs.String("probe", "", "development: run a hand-written unit through both back-ends")
	fs.Parse(args)
	_ = flag.ErrHelp
	co := newCaseOut(cf.out, "Harness.C14", "Z",
		"diff: one case per (generated program, entry function) with its argument tuples, non-trivial when at least one tuple returns a value; "+
			"frag: one case per MiniGo program with all its runs, non-trivial when the program has a loop, a call or a short-circuit operator and some run returns a value; "+
			"distinct by Coq term")
	co.shard = 12
	work := filepath.Join(cf.out, "ws")
	if *probe != "" {
		return c14Probe(co, work, *probe)
	}
	if cf.replay != "" {
		cases, err := readReplay(cf.replay)
		if err != nil {
			return err
		}
		for i, c := range cases {
			var x struct {
				Kind  string          `json:"kind"`
				Input json.RawMessage `json:"input"`
			}
			if err := json.Unmarshal(c, &x); err != nil {
				return err
			}
			if err := c14Replay(co, filepath.Join(cf.out, fmt.Sprintf("ws%d", i)), x.Kind, x.Input); err != nil {
				return err
			}
		}
		return co.finish()
	}
	if err := c14Generate(co, cf, work); err != nil {
		return err
	}
	co.extra["x_max_vm_steps_of_a_call"] = c14MaxSteps
	keys := []string{}
	for k := range co.extra {
		keys = append(keys, k)
	}
	sort.Strings(keys)
	return co.finish()
}

func c14Replay(co *caseOut, dir, kind string, raw json.RawMessage) error {
	switch kind {
	case "diff", "meta":
		var in c14DiffInput
		if err := json.Unmarshal(raw, &in); err != nil {
			return err
		}
		if in.Unit.Helpers == nil {
			in.Unit.Helpers = map[string]string{}
		}
		var jobs []c14Job
		var unitOf []int
		for _, f := range in.Unit.Funcs {
			if f.Name == in.Fn {
				jobs = append(jobs, c14Job{unit: in.Unit, fn: f, tuples: in.Ops, tag: "replay"})
				unitOf = append(unitOf, 0)
			}
		}
		return c14RunBatch(co, dir, []c14Unit{in.Unit}, jobs, unitOf)
	case "frag":
		var in c14FragInput
		if err := json.Unmarshal(raw, &in); err != nil {
			return err
		}
		return c14FragRun(co, dir, []c14FragInput{in})
	case "initframe":
		var in c14InitInput
		if err := json.Unmarshal(raw, &in); err != nil {
			return err
		}
		return c14InitRun(co, dir, []c14InitInput{in})
	case "reject":
		var in c14RejectInput
		if err := json.Unmarshal(raw, &in); err != nil {
			return err
		}
		return c14RejectRun(co, dir, in)
	}
	return fmt.Errorf("unknown kind %q", kind)
}
