package main

// Deterministic boundary scripts: every VM limit at limit-1, limit, limit+1.  Used by c13 (kind "boundary") and
// c12 (kind "limits").

import (
	"math/big"

	"github.com/nspcc-dev/neo-go/pkg/vm"
	"github.com/nspcc-dev/neo-go/pkg/vm/opcode"
	"github.com/nspcc-dev/neo-go/pkg/vm/stackitem"
)

type c13Bound struct {
	tag    string
	script []byte
	base   int64
	limit  int64 // datoshi
}

func c13Boundaries() []c13Bound {
	var out []c13Bound
	add := func(tag string, a *c13Asm, base, limit int64) {
		out = append(out, c13Bound{tag, a.b, base, limit})
	}
	bi := func(n int) *big.Int { return big.NewInt(int64(n)) }
	// --- MaxStackSize through the item counter
	for _, d := range []int{-2, -1, 0, 1} {
		n := vm.MaxStackSize + d
		for _, op := range []opcode.Opcode{opcode.NEWARRAY, opcode.NEWSTRUCT} {
			a := &c13Asm{}
			a.int(bi(n), nil).op(op).op(opcode.SIZE)
			add("stacksize-new", a, 1, 20)
		}
		a := &c13Asm{}
		a.int(bi(n), nil).op(opcode.NEWARRAYT, 0x21).op(opcode.DROP).op(opcode.PUSH1)
		add("stacksize-newt", a, 1, 20)
		// n-1 elements plus a few pushes
		a = &c13Asm{}
		a.int(bi(n-3), nil).op(opcode.NEWARRAY).op(opcode.PUSH1).op(opcode.PUSH2).op(opcode.DEPTH)
		add("stacksize-pushes", a, 1, 20)
		// an array inside an array: children counted once, then unpacked
		a = &c13Asm{}
		a.int(bi(n/2), nil).op(opcode.NEWARRAY).op(opcode.DUP).op(opcode.UNPACK).op(opcode.DROP).op(opcode.DEPTH)
		add("stacksize-unpack", a, 1, 20)
		// VALUES copies the children of a referenced array
		a = &c13Asm{}
		a.int(bi((n-2)/2), nil).op(opcode.NEWARRAY).op(opcode.DUP).op(opcode.VALUES).op(opcode.SIZE)
		add("stacksize-values", a, 1, 20)
	}
	// push until the counter overflows: the instruction at which FAULT happens shows in the gas
	{
		a := &c13Asm{}
		a.op(opcode.PUSH1).op(opcode.JMP, 0xff)
		add("stacksize-loop", a, 1, 2)
		a = &c13Asm{}
		a.op(opcode.NEWARRAY0).op(opcode.DUP).op(opcode.DUP).op(opcode.APPEND).op(opcode.JMP, 0xfd) // 1: DUP .. loop appends the array to itself
		add("stacksize-selfappend", a, 1, 20)
		a = &c13Asm{}
		a.op(opcode.NEWMAP).op(opcode.DUP).op(opcode.DEPTH).op(opcode.DUP).op(opcode.SETITEM).op(opcode.DUP).op(opcode.JMP, 0xfc)
		add("stacksize-mapgrow", a, 1, 40)
	}
	// --- MaxInvocationStackSize
	{
		a := &c13Asm{}
		a.op(opcode.CALL, 0)
		add("invocation-call", a, 1, 100)
		a = &c13Asm{}
		a.op(opcode.PUSHA, 0, 0, 0, 0).op(opcode.CALLA)
		add("invocation-calla", a, 1, 100)
		// exactly 1023 / 1024 nested calls through a counter, then unwinding by RET
		for _, k := range []int{1022, 1023, 1024} {
			a = &c13Asm{}
			// 0: PUSHINT16 k ; 3: CALL +3 (->6) ; 5: RET ; 6: DEC ; 7: DUP ; 8: JMPIFNOT +4 (->12) ; 10: CALL -4 (->6) ; 12: RET
			a.op(opcode.PUSHINT16, byte(k), byte(k>>8)).op(opcode.CALL, 3).op(opcode.RET).op(opcode.DEC).op(opcode.DUP).op(opcode.JMPIFNOT, 4).op(opcode.CALL, 0xfc).op(opcode.RET)
			add("invocation-exact", a, 1, 100)
		}
	}
	// --- MaxTryNestingDepth
	for _, k := range []int{vm.MaxTryNestingDepth - 1, vm.MaxTryNestingDepth, vm.MaxTryNestingDepth + 1} {
		a := &c13Asm{}
		for j := 0; j < k; j++ {
			a.op(opcode.TRY, 3, 0)
		}
		a.op(opcode.PUSH1)
		add("trydepth", a, 1, 20)
		a = &c13Asm{}
		for j := 0; j < k; j++ {
			a.op(opcode.TRYL, 0, 0, 0, 0, 9, 0, 0, 0)
		}
		a.op(opcode.PUSH1).op(opcode.THROW)
		add("trydepth-l", a, 1, 20)
	}
	// --- MaxSize of byte strings and buffers
	for _, d := range []int{-1, 0, 1} {
		n := stackitem.MaxSize + d
		a := &c13Asm{}
		a.int(bi(n), nil).op(opcode.NEWBUFFER).op(opcode.SIZE)
		add("maxsize-newbuffer", a, 1, 20)
		for _, n1 := range []int{1, 2, 65535, 65536, stackitem.MaxSize - 1} {
			a = &c13Asm{}
			a.int(bi(n1), nil).op(opcode.NEWBUFFER).int(bi(n-n1), nil).op(opcode.NEWBUFFER).op(opcode.CAT).op(opcode.SIZE)
			add("maxsize-cat", a, 1, 20)
		}
		// SUBSTR / LEFT / RIGHT / MEMCPY at the end of a maximum-length buffer
		a = &c13Asm{}
		a.int(bi(stackitem.MaxSize), nil).op(opcode.NEWBUFFER).int(bi(stackitem.MaxSize-5), nil).int(bi(5+d), nil).op(opcode.SUBSTR).op(opcode.SIZE)
		add("maxsize-substr", a, 1, 20)
		a = &c13Asm{}
		a.int(bi(stackitem.MaxSize), nil).op(opcode.NEWBUFFER).int(bi(n), nil).op(opcode.LEFT).op(opcode.SIZE)
		add("maxsize-left", a, 1, 20)
		a = &c13Asm{}
		a.int(bi(stackitem.MaxSize), nil).op(opcode.NEWBUFFER).int(bi(n), nil).op(opcode.RIGHT).op(opcode.SIZE)
		add("maxsize-right", a, 1, 20)
		a = &c13Asm{}
		a.i(8).op(opcode.NEWBUFFER).op(opcode.DUP).i(int64(4 + d)).data([]byte{1, 2, 3, 4, 5, 6}).i(2).i(4).op(opcode.MEMCPY)
		add("memcpy-edge", a, 1, 20)
		a = &c13Asm{}
		a.i(8).op(opcode.NEWBUFFER).op(opcode.DUP).i(0).data([]byte{1, 2, 3, 4, 5, 6}).i(int64(2 + d)).i(4).op(opcode.MEMCPY)
		add("memcpy-edge", a, 1, 20)
		// HASKEY index bound
		a = &c13Asm{}
		a.op(opcode.NEWARRAY0).int(bi(n), nil).op(opcode.HASKEY)
		add("haskey-index", a, 1, 20)
	}
	// --- byte string comparison limit (65536) and key size (64), integer width (32 bytes)
	for _, d := range []int{-1, 0, 1} {
		n := stackitem.MaxByteArrayComparableSize + d
		a := &c13Asm{}
		a.int(bi(n), nil).op(opcode.NEWBUFFER).op(opcode.CONVERT, 0x28).op(opcode.DUP).op(opcode.EQUAL)
		add("equal-limit", a, 1, 20)
		a = &c13Asm{}
		a.int(bi(n), nil).op(opcode.NEWBUFFER).op(opcode.CONVERT, 0x28).i(1).op(opcode.PACKSTRUCT).op(opcode.DUP).i(0).op(opcode.PICKITEM).i(1).op(opcode.PACKSTRUCT).op(opcode.EQUAL)
		add("equal-limit-struct", a, 1, 20)
		a = &c13Asm{}
		a.data(make([]byte, 5)).int(bi(n), nil).op(opcode.NEWBUFFER).op(opcode.CONVERT, 0x28).op(opcode.EQUAL)
		add("equal-limit-other", a, 1, 20)
		k := stackitem.MaxKeySize + d
		key := make([]byte, k)
		key[0] = 7
		a = &c13Asm{}
		a.op(opcode.NEWMAP).op(opcode.DUP).data(key).op(opcode.PUSH1).op(opcode.SETITEM).op(opcode.DUP).data(key).op(opcode.HASKEY)
		add("keysize", a, 1, 20)
		a = &c13Asm{}
		a.op(opcode.PUSH1).data(key).i(1).op(opcode.PACKMAP).data(key).op(opcode.PICKITEM)
		add("keysize-packmap", a, 1, 20)
		a = &c13Asm{}
		a.op(opcode.NEWARRAY0).data(key).op(pick(newRng(uint64(k)), []opcode.Opcode{opcode.PICKITEM, opcode.REMOVE}))
		add("keysize-array", a, 1, 20)
		w := 32 + d
		b := make([]byte, w)
		b[w-1] = 0x7f
		for _, t := range []byte{0x21, 0x20} {
			a = &c13Asm{}
			a.data(b).op(opcode.CONVERT, t)
			add("intwidth", a, 1, 20)
			a = &c13Asm{}
			a.buffer(b).op(opcode.CONVERT, t)
			add("intwidth-buffer", a, 1, 20)
		}
		a = &c13Asm{}
		a.data(b).op(opcode.NOT)
		add("intwidth-bool", a, 1, 20)
		a = &c13Asm{}
		a.data(b).op(opcode.INC)
		add("intwidth-arith", a, 1, 20)
	}
	// --- struct clone / comparison counters with heavily shared nested structs
	for _, m := range []int{44, 45, 46} {
		// S = struct of m ints; A = struct of m references to S (PACKSTRUCT clones nothing; APPEND/SETITEM clone)
		a := &c13Asm{}
		a.int(bi(m), nil).op(opcode.NEWSTRUCT)
		for j := 0; j < m; j++ {
			a.op(opcode.DUP)
		}
		a.int(bi(m), nil).op(opcode.PACKSTRUCT).op(opcode.NIP)
		// clone it through APPEND into an array: m*m + m elements to clone (limit 2047)
		a.op(opcode.NEWARRAY0).op(opcode.DUP).op(opcode.ROT).op(opcode.APPEND).op(opcode.SIZE)
		add("clone-limit", a, 1, 40)
		a = &c13Asm{}
		a.int(bi(m), nil).op(opcode.NEWSTRUCT)
		for j := 0; j < m; j++ {
			a.op(opcode.DUP)
		}
		a.int(bi(m), nil).op(opcode.PACKSTRUCT).op(opcode.NIP)
		a.op(opcode.DUP).op(opcode.CONVERT, 0x40).op(opcode.CONVERT, 0x41).op(opcode.EQUAL) // a different struct with the same (shared) fields
		add("equal-count-limit", a, 1, 40)
	}
	// --- results exactly at and just beyond the 256-bit integer range
	{
		p255 := new(big.Int).Lsh(big.NewInt(1), 255)
		p254 := new(big.Int).Lsh(big.NewInt(1), 254)
		hi := new(big.Int).Sub(p255, big.NewInt(1))
		lo := new(big.Int).Neg(p255)
		neg := func(x *big.Int) *big.Int { return new(big.Int).Neg(x) }
		plus := func(x *big.Int, d int64) *big.Int { return new(big.Int).Add(x, big.NewInt(d)) }
		un := func(x *big.Int, op opcode.Opcode) {
			a := &c13Asm{}
			a.int(x, nil).op(op)
			add("intrange-1", a, 1, 20)
		}
		for _, x := range []*big.Int{hi, plus(hi, -1), lo, plus(lo, 1)} {
			for _, op := range []opcode.Opcode{opcode.INC, opcode.DEC, opcode.NEGATE, opcode.ABS, opcode.INVERT, opcode.SIGN, opcode.SQRT} {
				un(x, op)
			}
		}
		bin := func(x, y *big.Int, op opcode.Opcode) {
			a := &c13Asm{}
			a.int(x, nil).int(y, nil).op(op)
			add("intrange-2", a, 1, 20)
		}
		for _, d := range []int64{-1, 0, 1} {
			bin(p254, plus(p254, d), opcode.ADD)
			bin(neg(p254), plus(neg(p254), d), opcode.ADD)
			bin(plus(p254, d), neg(p254), opcode.SUB)
			bin(plus(neg(p254), d), p254, opcode.SUB)
			bin(plus(p254, d), big.NewInt(2), opcode.MUL)
			bin(plus(p254, d), big.NewInt(-2), opcode.MUL)
			bin(new(big.Int).Lsh(big.NewInt(1), 127), plus(new(big.Int).Lsh(big.NewInt(1), 128), d), opcode.MUL)
			bin(neg(new(big.Int).Lsh(big.NewInt(1), 127)), plus(new(big.Int).Lsh(big.NewInt(1), 128), d), opcode.MUL)
			bin(big.NewInt(1), big.NewInt(255+d), opcode.SHL)
			bin(big.NewInt(-1), big.NewInt(255+d), opcode.SHL)
			bin(big.NewInt(2), big.NewInt(255+d), opcode.POW)
			bin(big.NewInt(-2), big.NewInt(255+d), opcode.POW)
			bin(plus(lo, d+1), big.NewInt(-1), opcode.DIV)
			bin(plus(lo, d+1), big.NewInt(-1), opcode.MOD)
			bin(plus(lo, d+1), big.NewInt(-1), opcode.MUL)
			bin(hi, plus(lo, d+1), opcode.MAX)
			bin(hi, plus(lo, d+1), opcode.OR)
			bin(hi, plus(lo, d+1), opcode.XOR)
		}
	}
	// --- value semantics of structs: APPEND / SETITEM / VALUES store a copy, PACK / arrays share
	for _, how := range []int{0, 1, 2, 3, 4} {
		a := &c13Asm{}
		// S = struct[1] ; container gets S ; then S[0] = 5 ; read container[0][0]
		a.op(opcode.PUSH1).i(1).op(opcode.PACKSTRUCT) // S
		switch how {
		case 0: // array via APPEND
			a.op(opcode.NEWARRAY0).op(opcode.DUP).i(2).op(opcode.PICK).op(opcode.APPEND)
		case 1: // array via SETITEM
			a.i(1).op(opcode.NEWARRAY).op(opcode.DUP).i(0).i(3).op(opcode.PICK).op(opcode.SETITEM)
		case 2: // map via SETITEM
			a.op(opcode.NEWMAP).op(opcode.DUP).i(0).i(3).op(opcode.PICK).op(opcode.SETITEM)
		case 3: // PACK shares
			a.op(opcode.DUP).i(1).op(opcode.PACK)
		default: // VALUES of an array that shares S
			a.op(opcode.DUP).i(1).op(opcode.PACK).op(opcode.VALUES)
		}
		// stack: container, S
		a.op(opcode.SWAP).i(0).i(5).op(opcode.SETITEM) // S[0] = 5
		a.i(0).op(opcode.PICKITEM).i(0).op(opcode.PICKITEM)
		add("struct-value-semantics", a, 1, 60)
	}
	// --- instructions cut off at every possible point, length prefixes pointing past the end
	for b := 0; b < 256; b++ {
		op := opcode.Opcode(b)
		if !opcode.IsValid(op) {
			continue
		}
		probe := &c13Asm{}
		c13RandInstr(probe, newRng(uint64(b)), []opcode.Opcode{op})
		full := probe.b
		if len(full) == 1 {
			continue
		}
		for cut := 1; cut < len(full); cut++ {
			a := &c13Asm{}
			a.op(opcode.PUSH1).op(opcode.PUSH1).raw(full[:cut]...)
			add("truncated", a, 1, 100)
		}
	}
	for _, tail := range [][]byte{
		{byte(opcode.PUSHDATA1)}, {byte(opcode.PUSHDATA1), 0}, {byte(opcode.PUSHDATA1), 1}, {byte(opcode.PUSHDATA1), 2, 7},
		{byte(opcode.PUSHDATA2)}, {byte(opcode.PUSHDATA2), 0}, {byte(opcode.PUSHDATA2), 0, 0}, {byte(opcode.PUSHDATA2), 1, 0}, {byte(opcode.PUSHDATA2), 2, 0, 7},
		{byte(opcode.PUSHDATA4)}, {byte(opcode.PUSHDATA4), 0, 0, 0}, {byte(opcode.PUSHDATA4), 0, 0, 0, 0}, {byte(opcode.PUSHDATA4), 1, 0, 0, 0},
		{byte(opcode.PUSHDATA4), 0xfe, 0xff, 0x01, 0}, {byte(opcode.PUSHDATA4), 0xff, 0xff, 0x01, 0}, {byte(opcode.PUSHDATA4), 0xff, 0xff, 0xff, 0xff},
		{byte(opcode.PUSHDATA4), 2, 0, 0, 0, 7, 8}, {6}, {7}, {0x42}, {0xff},
	} {
		a := &c13Asm{}
		a.op(opcode.PUSH2).raw(tail...)
		add("truncated-data", a, 1, 100)
	}
	// --- an exception thrown inside a catch block that has a finally block: the finally block runs, then the outer handler
	for _, inner := range []int{0, 1} {
		a := &c13Asm{}
		a.op(opcode.TRY, 17, 0)         // 0: outer, catch at 17
		a.op(opcode.TRY, 7, 11)         // 3: inner, catch at 10, finally at 14
		a.op(opcode.PUSH1)              // 6
		a.op(opcode.THROW)              // 7
		a.op(opcode.NOP).op(opcode.NOP) // 8, 9
		a.op(opcode.PUSH2)              // 10: catch
		if inner == 0 {
			a.op(opcode.THROW) // 11: throw inside catch
		} else {
			a.op(opcode.ABORT)
		}
		a.op(opcode.NOP).op(opcode.NOP) // 12, 13
		a.op(opcode.PUSH3)              // 14: finally
		a.op(opcode.ENDFINALLY)         // 15
		a.op(opcode.NOP)                // 16
		a.op(opcode.PUSH4)              // 17: outer catch
		a.op(opcode.ENDTRY, 2)          // 18
		a.op(opcode.PUSH5)              // 20
		add("throw-in-catch", a, 1, 100)
	}
	// --- comparisons on equal and adjacent operands
	{
		hi := new(big.Int).Sub(new(big.Int).Lsh(big.NewInt(1), 255), big.NewInt(2))
		lo := new(big.Int).Neg(new(big.Int).Lsh(big.NewInt(1), 255))
		for _, x := range []*big.Int{big.NewInt(0), big.NewInt(-1), big.NewInt(127), hi, lo} {
			x1 := new(big.Int).Add(x, big.NewInt(1))
			for _, pr := range [][2]*big.Int{{x, x}, {x, x1}, {x1, x}} {
				if !c13InRange(pr[0]) || !c13InRange(pr[1]) {
					continue
				}
				for _, op := range []opcode.Opcode{opcode.LT, opcode.LE, opcode.GT, opcode.GE, opcode.NUMEQUAL, opcode.NUMNOTEQUAL, opcode.MIN, opcode.MAX, opcode.EQUAL} {
					a := &c13Asm{}
					a.int(pr[0], nil).int(pr[1], nil).op(op)
					add("compare", a, 1, 20)
				}
				for _, op := range []opcode.Opcode{opcode.JMPEQ, opcode.JMPNE, opcode.JMPGT, opcode.JMPGE, opcode.JMPLT, opcode.JMPLE} {
					a := &c13Asm{}
					a.int(pr[0], nil).int(pr[1], nil).op(op, 3).op(opcode.PUSH7).op(opcode.PUSH8)
					add("compare-jmp", a, 1, 20)
				}
			}
			x2 := new(big.Int).Add(x, big.NewInt(2))
			xm := new(big.Int).Sub(x, big.NewInt(1))
			for _, v := range []*big.Int{xm, x, x1, x2} { // WITHIN [x, x2)
				if !c13InRange(v) || !c13InRange(x2) {
					continue
				}
				a := &c13Asm{}
				a.int(v, nil).int(x, nil).int(x2, nil).op(opcode.WITHIN)
				add("compare-within", a, 1, 20)
			}
		}
	}
	// --- every instruction on every kind of operand (type matrix)
	{
		kinds := []func(a *c13Asm){
			func(a *c13Asm) { a.i(3) },
			func(a *c13Asm) { a.op(opcode.PUSHT) },
			func(a *c13Asm) { a.op(opcode.PUSHNULL) },
			func(a *c13Asm) { a.data([]byte{1}) },
			func(a *c13Asm) { a.data(make([]byte, 33)) },
			func(a *c13Asm) { a.buffer([]byte{2, 0}) },
			func(a *c13Asm) { a.i(1).i(1).op(opcode.PACK) },
			func(a *c13Asm) { a.i(1).i(1).op(opcode.PACKSTRUCT) },
			func(a *c13Asm) { a.i(7).i(1).i(1).op(opcode.PACKMAP) },
			func(a *c13Asm) { a.op(opcode.PUSHA, 0, 0, 0, 0) },
		}
		unary := []opcode.Opcode{opcode.SIGN, opcode.ABS, opcode.NEGATE, opcode.INC, opcode.DEC, opcode.INVERT, opcode.SQRT, opcode.NOT, opcode.NZ,
			opcode.ISNULL, opcode.SIZE, opcode.KEYS, opcode.VALUES, opcode.UNPACK, opcode.REVERSEITEMS, opcode.CLEARITEMS, opcode.POPITEM,
			opcode.NEWBUFFER, opcode.NEWARRAY, opcode.ASSERT, opcode.THROW, opcode.CALLA, opcode.JMPIF, opcode.ABORTMSG, opcode.DROP, opcode.DUP}
		for _, op := range unary {
			for _, k := range kinds {
				a := &c13Asm{}
				k(a)
				if op == opcode.JMPIF {
					a.op(op, 2)
				} else {
					a.op(op)
				}
				add("types-1", a, 1, 60)
			}
		}
		binary := []opcode.Opcode{opcode.ADD, opcode.DIV, opcode.AND, opcode.SHL, opcode.POW, opcode.BOOLAND, opcode.BOOLOR, opcode.NUMEQUAL, opcode.LT, opcode.LE, opcode.GT, opcode.GE,
			opcode.MIN, opcode.EQUAL, opcode.NOTEQUAL, opcode.CAT, opcode.LEFT, opcode.PICKITEM, opcode.HASKEY, opcode.REMOVE, opcode.APPEND, opcode.JMPEQ, opcode.ASSERTMSG, opcode.PICK, opcode.XDROP}
		for _, op := range binary {
			for _, k1 := range kinds {
				for _, k2 := range kinds {
					a := &c13Asm{}
					k1(a)
					k2(a)
					if op == opcode.JMPEQ {
						a.op(op, 2)
					} else {
						a.op(op)
					}
					add("types-2", a, 1, 60)
				}
			}
		}
		for _, k1 := range kinds { // SETITEM: container kind x value kind, key 0
			for _, k2 := range kinds {
				a := &c13Asm{}
				k1(a)
				a.op(opcode.DUP).i(0)
				k2(a)
				a.op(opcode.SETITEM)
				add("types-setitem", a, 1, 60)
			}
		}
	}
	// --- removing / overwriting an element whose removal frees a cycle through the container itself
	for _, how := range []int{0, 1, 2, 3, 4, 5} {
		a := &c13Asm{}
		switch how {
		case 0, 1: // m = {0: [m]}
			a.op(opcode.NEWMAP).op(opcode.DUP).i(0).op(opcode.NEWARRAY0).op(opcode.DUP).i(3).op(opcode.PICK).op(opcode.APPEND).op(opcode.SETITEM)
		default: // c = [[c]]  (array or struct holding an array that holds it)
			a.op(opcode.NEWARRAY0).op(opcode.DUP).op(opcode.NEWARRAY0).op(opcode.DUP).i(3).op(opcode.PICK).op(opcode.APPEND).op(opcode.APPEND)
		}
		switch how {
		case 0, 2:
			a.i(0).op(opcode.REMOVE)
		case 1, 3:
			a.i(0).i(5).op(opcode.SETITEM)
		case 4:
			a.op(opcode.CLEARITEMS)
		default:
			a.op(opcode.POPITEM)
		}
		a.op(opcode.PUSH1).op(opcode.PUSH2)
		add("cycle-cascade", a, 1, 60)
	}
	// --- stack indices far beyond the stack (a 31-bit operand): PICK / ROLL / XDROP / REVERSEN must just fault
	for _, o := range []opcode.Opcode{opcode.PICK, opcode.ROLL, opcode.XDROP, opcode.REVERSEN} {
		for _, n := range []int64{2, 3, 4, 1 << 20, 1<<31 - 1, 1 << 31} {
			a := &c13Asm{}
			a.op(opcode.PUSH1).op(opcode.PUSH2).op(opcode.PUSH3).i(n).op(o).op(opcode.DEPTH)
			add("huge-index", a, 1, 60)
		}
	}
	// --- gas: exactly at the limit, one unit beyond
	for _, d := range []int64{-1, 0, 1} {
		// PUSH1 PUSH1 ADD = 1 + 1 + 8 = 10 units; base = 10000 pico so that 1 datoshi = 1 unit
		a := &c13Asm{}
		a.op(opcode.PUSH1).op(opcode.PUSH1).op(opcode.ADD)
		add("gas-exact", a, 10000, 10+d)
	}
	return out
}
