package main

import (
	"encoding/hex"
	"encoding/json"
	"flag"
	"fmt"
	"math/big"
	"os"
	"path/filepath"
	"sort"
	"strings"
)

// ---- deterministic PRNG: splitmix64, every random choice derives from it ----

type rng struct{ s uint64 }

// newRng hashes the seed first, so that consecutive seeds give unrelated streams (not one stream shifted by a draw).
func newRng(seed uint64) *rng {
	z := seed + 0x9E3779B97F4A7C15
	z = (z ^ (z >> 30)) * 0xBF58476D1CE4E5B9
	z = (z ^ (z >> 27)) * 0x94D049BB133111EB
	return &rng{s: (z ^ (z >> 31)) + 0x1234567}
}

func (r *rng) next() uint64 {
	r.s += 0x9E3779B97F4A7C15
	z := r.s
	z = (z ^ (z >> 30)) * 0xBF58476D1CE4E5B9
	z = (z ^ (z >> 27)) * 0x94D049BB133111EB
	return z ^ (z >> 31)
}
func (r *rng) intn(n int) int {
	if n <= 0 {
		return 0
	}
	return int(r.next() % uint64(n))
}
func (r *rng) bool() bool    { return r.next()&1 == 1 }
func (r *rng) chance(p int) bool { return r.intn(100) < p } // p percent
func (r *rng) bytes(n int) []byte {
	b := make([]byte, n)
	for i := range b {
		b[i] = byte(r.next())
	}
	return b
}
func pick[T any](r *rng, xs []T) T { return xs[r.intn(len(xs))] }

// ---- Coq term printers ----

func coqZ(z *big.Int) string {
	if z.Sign() < 0 {
		return "(" + z.String() + ")"
	}
	return z.String()
}
func coqZi(z int64) string { return coqZ(big.NewInt(z)) }
func coqN(n uint64) string { return fmt.Sprintf("%d", n) }
func coqBool(b bool) string {
	if b {
		return "true"
	}
	return "false"
}

// bytes as list of numerals (scope decided by the case type: Z or N)
func coqBytes(b []byte) string {
	var sb strings.Builder
	sb.WriteByte('[')
	for i, x := range b {
		if i > 0 {
			sb.WriteByte(';')
		}
		fmt.Fprintf(&sb, "%d", x)
	}
	sb.WriteByte(']')
	return sb.String()
}
func coqList(xs []string) string { return "[" + strings.Join(xs, "; ") + "]" }
func coqOpt(s string, ok bool) string {
	if ok {
		return "(Some " + s + ")"
	}
	return "None"
}
func coqStr(s string) string { // Coq string literal
	return "\"" + strings.ReplaceAll(s, "\"", "\"\"") + "\""
}

// ---- case output ----

type caseRec struct {
	I     int    `json:"i"`
	Kind  string `json:"kind"`
	Tag   string `json:"tag,omitempty"` // branch tag used for non-triviality / histogram
	Input any    `json:"input"`
	Impl  any    `json:"impl"`
	Coq   string `json:"coq"`
	Note  string `json:"note,omitempty"`
}

type caseOut struct {
	dir      string
	module   string // Coq module providing case/check_case, e.g. "Harness.C18"
	scope    string // e.g. "Z" or "N"
	recs     []caseRec
	distinct map[string]bool
	nontriv  map[string]bool
	hist     map[string]int
	rule     string
	extra    map[string]any
	shard    int // cases per cases_<k>.v file (default 300)
	// direct violations found on the Go side (spec evaluated on the implementation directly)
	direct []caseRec
}

func newCaseOut(dir, module, scope, rule string) *caseOut {
	os.MkdirAll(dir, 0o755)
	return &caseOut{dir: dir, module: module, scope: scope, rule: rule,
		distinct: map[string]bool{}, nontriv: map[string]bool{}, hist: map[string]int{}, extra: map[string]any{}}
}

// add records one case; nontrivial says whether it counts as non-trivial by the rule.
func (c *caseOut) add(kind, tag string, nontrivial bool, input, impl any, coq string) {
	r := caseRec{I: len(c.recs), Kind: kind, Tag: tag, Input: input, Impl: impl, Coq: coq}
	c.recs = append(c.recs, r)
	c.hist[kind+"/"+tag]++
	if !c.distinct[coq] {
		c.distinct[coq] = true
		if nontrivial {
			c.nontriv[coq] = true
		}
	}
}

// violation records a property violation observed directly on the implementation.
func (c *caseOut) violation(kind, note string, input, impl any) {
	c.direct = append(c.direct, caseRec{I: len(c.direct), Kind: kind, Input: input, Impl: impl, Note: note})
}

func (c *caseOut) finish() error {
	// cases_<k>.v shards (evaluated in parallel by ./check)
	old, _ := filepath.Glob(filepath.Join(c.dir, "cases_*.v"))
	for _, f := range old {
		os.Remove(f)
	}
	const chunk = 100
	shard := c.shard
	if shard == 0 {
		shard = 300
	}
	for s0, k := 0, 0; s0 < len(c.recs) || k == 0; s0, k = s0+shard, k+1 {
		s1 := min(s0+shard, len(c.recs))
		var sb strings.Builder
		fmt.Fprintf(&sb, "From NG Require Import Common.Tactics Common.HarnessLib %s.\n", c.module)
		if c.scope != "" {
			fmt.Fprintf(&sb, "Open Scope %s_scope.\n", c.scope)
		}
		nch := 0
		for i := s0; i < s1; i += chunk {
			j := min(i+chunk, s1)
			fmt.Fprintf(&sb, "Definition cs%d : list case := [\n", nch)
			for q := i; q < j; q++ {
				sb.WriteString("  " + c.recs[q].Coq)
				if q+1 < j {
					sb.WriteString(";\n")
				}
			}
			sb.WriteString("].\n")
			nch++
		}
		sb.WriteString("Definition cases : list (list case) := [")
		for i := 0; i < nch; i++ {
			if i > 0 {
				sb.WriteString("; ")
			}
			fmt.Fprintf(&sb, "cs%d", i)
		}
		sb.WriteString("].\n")
		fmt.Fprintf(&sb, "Definition M := Eval vm_compute in mismatches_from check_case %d%%N (concat cases).\nPrint M.\n", s0)
		if err := os.WriteFile(filepath.Join(c.dir, fmt.Sprintf("cases_%d.v", k)), []byte(sb.String()), 0o644); err != nil {
			return err
		}
	}
	// cases.jsonl
	f, err := os.Create(filepath.Join(c.dir, "cases.jsonl"))
	if err != nil {
		return err
	}
	enc := json.NewEncoder(f)
	for _, r := range c.recs {
		enc.Encode(r)
	}
	f.Close()
	// meta.json
	samples := []any{}
	step := max(1, len(c.recs)/6)
	for i := 0; i < len(c.recs) && len(samples) < 6; i += step {
		r := c.recs[i]
		samples = append(samples, map[string]any{"kind": r.Kind, "tag": r.Tag, "input": r.Input, "impl": r.Impl})
	}
	keys := make([]string, 0, len(c.hist))
	for k := range c.hist {
		keys = append(keys, k)
	}
	sort.Strings(keys)
	hist := map[string]int{}
	for _, k := range keys {
		hist[k] = c.hist[k]
	}
	meta := map[string]any{
		"evaluations":         len(c.recs),
		"distinct":            len(c.distinct),
		"distinct_nontrivial": len(c.nontriv),
		"rule":                c.rule,
		"histogram":           hist,
		"samples":             samples,
		"direct_violations":   c.direct,
	}
	for k, v := range c.extra {
		meta[k] = v
	}
	b, _ := json.MarshalIndent(meta, "", " ")
	return os.WriteFile(filepath.Join(c.dir, "meta.json"), b, 0o644)
}

// ---- common flags ----

type commonFlags struct {
	seed   uint64
	n      int
	out    string
	replay string
	tier   string
}

func parseCommon(name string, args []string) (*commonFlags, *flag.FlagSet) {
	fs := flag.NewFlagSet(name, flag.ExitOnError)
	cf := &commonFlags{}
	fs.Uint64Var(&cf.seed, "seed", 1, "PRNG seed")
	fs.IntVar(&cf.n, "n", 100, "volume")
	fs.StringVar(&cf.out, "out", ".", "output directory")
	fs.StringVar(&cf.replay, "replay", "", "replay file (re-run exactly these cases)")
	fs.StringVar(&cf.tier, "tier", "quick", "tier")
	return cf, fs
}

func hx(b []byte) string { return hex.EncodeToString(b) }
func unhx(s string) []byte {
	b, err := hex.DecodeString(s)
	if err != nil {
		panic(err)
	}
	return b
}

// catch runs f and reports a panic as a string ("" if none)
func catch(f func()) (p string) {
	defer func() {
		if r := recover(); r != nil {
			p = fmt.Sprint(r)
		}
	}()
	f()
	return ""
}

// readReplay loads the "cases" array of a replay file (each element is the JSON input of one case).
func readReplay(path string) ([]json.RawMessage, error) {
	b, err := os.ReadFile(path)
	if err != nil {
		return nil, err
	}
	var r struct {
		Cases []struct {
			Kind  string          `json:"kind"`
			Input json.RawMessage `json:"input"`
		} `json:"cases"`
	}
	if err := json.Unmarshal(b, &r); err != nil {
		return nil, err
	}
	out := []json.RawMessage{}
	for _, c := range r.Cases {
		m, _ := json.Marshal(map[string]any{"kind": c.Kind, "input": c.Input})
		out = append(out, m)
	}
	return out, nil
}
