package main

// C16 harness: call flags and manifest permissions on a live (neotest) chain.
//
//  sys      every system call of the table, executed by a deployed proxy method whose frame has exactly the flags f,
//           for all 16 f: refused? storage diff? event/log? nested call?
//  native   every method of every native contract, called through System.Contract.Call asking for f (directly from
//           the entry script and through the proxy, which makes the caller a contract), for all 16 f
//  chain    call chains (non-safe / safe / LoadScript hops) ending in a write, an event or a call
//  perm1    Permission.IsAllowed, every permission kind x method list x callee x method of a small universe
//  perm     Manifest.CanCall over lists of permissions
//  permcall real cross-contract calls from deployed contracts carrying the permissions (HALT / FAULT)

import (
	"encoding/json"
	"errors"
	"fmt"
	"os"
	"sort"
	"strings"

	"github.com/nspcc-dev/neo-go/pkg/config"
	"github.com/nspcc-dev/neo-go/pkg/core/dao"
	"github.com/nspcc-dev/neo-go/pkg/core/interop"
	"github.com/nspcc-dev/neo-go/pkg/core/interop/interopnames"
	"github.com/nspcc-dev/neo-go/pkg/core/native"
	"github.com/nspcc-dev/neo-go/pkg/core/native/nativenames"
	"github.com/nspcc-dev/neo-go/pkg/core/native/noderoles"
	"github.com/nspcc-dev/neo-go/pkg/core/state"
	"github.com/nspcc-dev/neo-go/pkg/core/transaction"
	"github.com/nspcc-dev/neo-go/pkg/crypto/keys"
	"github.com/nspcc-dev/neo-go/pkg/io"
	"github.com/nspcc-dev/neo-go/pkg/neotest"
	"github.com/nspcc-dev/neo-go/pkg/smartcontract"
	"github.com/nspcc-dev/neo-go/pkg/smartcontract/callflag"
	"github.com/nspcc-dev/neo-go/pkg/smartcontract/manifest"
	"github.com/nspcc-dev/neo-go/pkg/smartcontract/nef"
	"github.com/nspcc-dev/neo-go/pkg/smartcontract/trigger"
	"github.com/nspcc-dev/neo-go/pkg/util"
	"github.com/nspcc-dev/neo-go/pkg/vm/emit"
	"github.com/nspcc-dev/neo-go/pkg/vm/opcode"
	"github.com/nspcc-dev/neo-go/pkg/vm/stackitem"
	"go.uber.org/zap"
)

func init() {
	register("c16", func(a []string) error { return runC16("c16", a) })   // the exhaustive enumerations
	register("c16r", func(a []string) error { return runC16("c16r", a) }) // the random part (longer chains, permission lists)
}

// ---------- environment ----------

type c16Env struct {
	c       *c16Chain
	P, Z    *neotest.Contract
	T       *neotest.Contract            // executes CALLT: 96 method tokens (6 final methods of P x 16 token flags), wildcard permission
	CB      [4]*neotest.Contract         // callback contracts: onNEP17Payment/_deploy try capability k (0 none, 1 put, 2 notify, 3 call)
	TP      map[string]*neotest.Contract // CALLT callers with restricted permissions (key: JSON of the permission)
	pub     *keys.PublicKey
	single  neotest.SingleSigner
	signers []transaction.Signer
	nat     map[string]util.Uint160
	natPar  map[string][]manifest.Parameter // "Contract.method/arity" -> parameters
	blocked util.Uint160
	// permission universe on chain
	callees []*neotest.Contract        // C0 {G0}, C1 {G0,G1}, C2 {}
	callers map[string]*neotest.Contract // canonical JSON of the permission list -> deployed caller
	// the permission contracts live on their own chain over a LevelDB directory, so that the node can be restarted
	pc         *c16Chain
	pcDir      string
	pcDirty    bool // something was deployed since the last restart
	pcReopened bool
	pcBroken   bool // the restart failed: reported once, the remaining restart cases are skipped
	// cache of hand-built contract states for the stored-form cases
	stCallee map[string]*state.Contract
	// generic-argument parameter list for a method of an older hard-fork table (nil: use the latest table)
	parOverride []manifest.Parameter
	// a second chain on which hard-fork k activates at height 3k: swept at each stage
	hc      *c16Chain
	hcStage int
	ovlInst *c16Ovl
}

type c16Raw func(w *io.BinWriter) // code leaving exactly one item on the stack

func c16PushArgs(w *io.BinWriter, items ...any) {
	if len(items) == 0 {
		emit.Opcodes(w, opcode.NEWARRAY0)
		return
	}
	for i := len(items) - 1; i >= 0; i-- {
		if r, ok := items[i].(c16Raw); ok {
			r(w)
		} else {
			emit.Any(w, items[i])
		}
	}
	emit.Int(w, int64(len(items)))
	emit.Opcodes(w, opcode.PACK)
}

// call hash.method(args) asking for flags f; args may contain c16Raw items
func c16EmitCall(w *io.BinWriter, h util.Uint160, method string, f int, items ...any) {
	c16PushArgs(w, items...)
	emit.Int(w, int64(f))
	emit.String(w, method)
	emit.Bytes(w, h.BytesBE())
	emit.Syscall(w, interopnames.SystemContractCall)
}

func c16SysMethod(name string) string { return "s_" + strings.ReplaceAll(name, ".", "_") }

// number of stack parameters of each system call (unknown ones: 0)
var c16SysArity = map[string]int{
	"System.Contract.Call": 4, "System.Contract.CallNative": 1, "System.Contract.CreateMultisigAccount": 2,
	"System.Contract.CreateStandardAccount": 1, "System.Crypto.CheckMultisig": 2, "System.Crypto.CheckSig": 2,
	"System.Iterator.Next": 1, "System.Iterator.Value": 1, "System.Runtime.BurnGas": 1, "System.Runtime.CheckWitness": 1,
	"System.Runtime.GetNotifications": 1, "System.Runtime.LoadScript": 3, "System.Runtime.Log": 1, "System.Runtime.Notify": 2,
	"System.Storage.AsReadOnly": 1, "System.Storage.Delete": 2, "System.Storage.Find": 3, "System.Storage.Get": 2,
	"System.Storage.Local.Delete": 1, "System.Storage.Local.Find": 2, "System.Storage.Local.Get": 1,
	"System.Storage.Local.Put": 2, "System.Storage.Put": 3,
}

func c16Setup() (env *c16Env, err error) {
	defer func() {
		if r := recover(); r != nil {
			err = fmt.Errorf("c16 setup: %v", r)
		}
	}()
	c := c16NewChain()
	env = &c16Env{c: c, nat: map[string]util.Uint160{}, natPar: map[string][]manifest.Parameter{}, callers: map[string]*neotest.Contract{}}
	ms := c.owner.(neotest.MultiSigner)
	env.single = ms.Single(0)
	env.pub = env.single.Account().PublicKey()
	env.signers = []transaction.Signer{
		{Account: c.owner.ScriptHash(), Scopes: transaction.Global},
		{Account: env.single.ScriptHash(), Scopes: transaction.Global},
	}
	latest := config.HFLatestKnown
	for _, n := range native.NewDefaultContracts(config.ProtocolConfiguration{}) {
		md := n.Metadata()
		env.nat[md.Name] = md.Hash
		for _, m := range md.HFSpecificContractMD(&latest).Methods {
			env.natPar[fmt.Sprintf("%s.%s/%d", md.Name, m.MD.Name, len(m.MD.Parameters))] = m.MD.Parameters
		}
	}
	ret := []byte{byte(opcode.RET)}
	clearRet := []byte{byte(opcode.CLEAR), byte(opcode.RET)}
	wild := []manifest.Permission{*manifest.NewPermission(manifest.PermissionWildcard)}
	env.Z, err = c.deploy(c16ContractSpec{Name: "Z", Perms: wild, Methods: []c16Method{
		{Name: "nop", Void: true, Body: ret},
		{Name: "onNEP17Payment", NParams: 3, Void: true, Body: clearRet},
		{Name: "_deploy", NParams: 2, Void: true, Body: clearRet},
	}})
	if err != nil {
		return nil, err
	}
	lput := c16Code(func(w *io.BinWriter) {
		emit.Bytes(w, []byte("v"))
		emit.Bytes(w, []byte("k"))
		emit.Syscall(w, interopnames.SystemStorageLocalPut)
		emit.Opcodes(w, opcode.RET)
	})
	note := c16Code(func(w *io.BinWriter) {
		emit.Opcodes(w, opcode.NEWARRAY0)
		emit.String(w, "Ev")
		emit.Syscall(w, interopnames.SystemRuntimeNotify)
		emit.Opcodes(w, opcode.RET)
	})
	callz := c16Code(func(w *io.BinWriter) {
		emit.AppCall(w, env.Z.Hash, "nop", callflag.All)
		emit.Opcodes(w, opcode.CLEAR, opcode.RET)
	})
	pm := []c16Method{
		{Name: "fwd", NParams: 4, Body: c16SyscallBody(interopnames.SystemContractCall, false)},
		{Name: "sfwd", NParams: 4, Safe: true, Body: c16SyscallBody(interopnames.SystemContractCall, false)},
		{Name: "load", NParams: 3, Body: c16SyscallBody(interopnames.SystemRuntimeLoadScript, false)},
		{Name: "lput", Void: true, Body: lput},
		{Name: "slput", Void: true, Safe: true, Body: lput},
		{Name: "note", Void: true, Body: note},
		{Name: "snote", Void: true, Safe: true, Body: note},
		{Name: "callz", Void: true, Body: callz},
		{Name: "nop", Void: true, Body: ret},
		{Name: "onNEP17Payment", NParams: 3, Void: true, Body: clearRet},
		{Name: "getctx", Body: c16SyscallBody(interopnames.SystemStorageGetContext, false)},
		{Name: "_deploy", NParams: 2, Void: true, Body: clearRet},
	}
	for _, f := range c16Interops() {
		pm = append(pm, c16Method{Name: c16SysMethod(f.Name), NParams: c16SysArity[f.Name], Void: true, Body: c16SyscallBody(f.Name, true)})
	}
	env.P, err = c.deploy(c16ContractSpec{Name: "P", Perms: wild, Methods: pm, Events: []manifest.Event{{Name: "Ev", Parameters: []manifest.Parameter{}}}})
	if err != nil {
		return nil, err
	}
	// CALLT: a contract whose NEF carries method tokens to P's final methods, one token per (method, token call flags)
	mkTok := func(perms []manifest.Permission, name string, flagSets []int) (*neotest.Contract, error) {
		var toks []nef.MethodToken
		var ms []c16Method
		for _, fin := range c16FinalOrder {
			for _, tf := range flagSets {
				idx := len(toks)
				toks = append(toks, nef.MethodToken{Hash: env.P.Hash, Method: c16Finals[fin], ParamCount: 0, HasReturn: false, CallFlag: callflag.CallFlag(tf)})
				ms = append(ms, c16Method{Name: fmt.Sprintf("t%d", idx), Void: true, Body: c16Code(func(w *io.BinWriter) {
					emit.Instruction(w, opcode.CALLT, []byte{byte(idx), byte(idx >> 8)})
					emit.Opcodes(w, opcode.RET)
				})})
			}
		}
		return c.deploy(c16ContractSpec{Name: name, Perms: perms, Methods: ms, Tokens: toks})
	}
	all16 := make([]int, 16)
	for i := range all16 {
		all16[i] = i
	}
	if env.T, err = mkTok(wild, "T", all16); err != nil {
		return nil, err
	}
	env.TP = map[string]*neotest.Contract{}
	for i, tp := range c16TokPerms {
		mp := manifest.NewPermission(manifest.PermissionWildcard)
		if tp.D == "h0" {
			mp = manifest.NewPermission(manifest.PermissionHash, env.P.Hash)
		} else if tp.D == "h1" {
			mp = manifest.NewPermission(manifest.PermissionHash, env.Z.Hash)
		}
		if tp.M != nil {
			mp.Methods.Value = append([]string{}, tp.M...)
		}
		ct, err := mkTok([]manifest.Permission{*mp}, fmt.Sprintf("TP%d", i), []int{15})
		if err != nil {
			return nil, err
		}
		kb, _ := json.Marshal(tp)
		env.TP[string(kb)] = ct
	}
	for k := 0; k < 4; k++ {
		if env.CB[k], err = c.deploy(env.cbSpec(fmt.Sprintf("CB%d", k), k)); err != nil {
			return nil, err
		}
	}
	e := c.e
	neo, gas := env.nat[nativenames.Neo], env.nat[nativenames.Gas]
	own := c.owner.ScriptHash()
	// state the sweeps act on: P holds NEO/GAS and a storage item, the committee key is a candidate, P and the owner vote,
	// an account is blocked, a whitelist entry exists, Notary deposits exist
	e.NewInvoker(env.P.Hash, c.owner).Invoke(c.t, nil, "lput")
	e.NewInvoker(gas, c.owner).Invoke(c.t, true, "transfer", own, env.P.Hash, 1000_0000_0000, nil)
	e.NewInvoker(gas, c.owner).Invoke(c.t, true, "transfer", own, env.single.ScriptHash(), 1000_0000_0000, nil)
	e.NewInvoker(neo, c.owner).Invoke(c.t, true, "transfer", own, env.P.Hash, 1000, nil)
	for k := 0; k < 4; k++ {
		e.NewInvoker(neo, c.owner).Invoke(c.t, true, "transfer", own, env.CB[k].Hash, 100, nil)
		e.NewInvoker(gas, c.owner).Invoke(c.t, true, "transfer", own, env.CB[k].Hash, 100_0000_0000, nil)
	}
	e.NewInvoker(neo, c.owner, env.single).Invoke(c.t, true, "registerCandidate", env.pub.Bytes())
	e.NewInvoker(neo, c.owner).Invoke(c.t, true, "vote", own, env.pub.Bytes())
	pol := env.nat[nativenames.Policy]
	env.blocked = util.Uint160{0xb1, 0x0c}
	e.NewInvoker(pol, c.owner).Invoke(c.t, true, "blockAccount", env.blocked)
	e.NewInvoker(pol, c.owner).Invoke(c.t, nil, "setWhitelistFeeContract", env.Z.Hash, "nop", 0, 1)
	notary := env.nat[nativenames.Notary]
	h := c.bc.BlockHeight()
	e.NewInvoker(gas, c.owner).Invoke(c.t, true, "transfer", own, notary, 5_0000_0000, []any{own, int64(h + 3)})
	e.NewInvoker(gas, env.single).Invoke(c.t, true, "transfer", env.single.ScriptHash(), notary, 5_0000_0000, []any{env.single.ScriptHash(), int64(h + 1000)})
	e.GenerateNewBlocks(c.t, 6)
	return env, nil
}

// ---------- sys ----------

type c16SysIn struct {
	Name  string `json:"name"`
	Flags int    `json:"flags"`
	Trig  string `json:"trigger,omitempty"` // "" application (through the proxy); "onpersist"/"postpersist": entry script with flags f
	WL    int    `json:"wl,omitempty"`      // 1 / 2: the proxy method is put on the Policy fee whitelist (fee 0 / 7) first: system calls in it are free, flags unchanged
}

func (env *c16Env) sysArgs(name string) []any {
	P := env.P.Hash
	getctx := c16Raw(func(w *io.BinWriter) { emit.AppCall(w, P, "getctx", callflag.ReadStates) })
	iter := c16Raw(func(w *io.BinWriter) {
		emit.AppCall(w, env.nat[nativenames.Management], "getContractHashes", callflag.ReadStates)
	})
	pub := env.pub.Bytes()
	switch name {
	case "System.Contract.Call":
		return []any{env.Z.Hash, "nop", 15, []any{}}
	case "System.Contract.CallNative":
		return []any{0}
	case "System.Contract.CreateMultisigAccount":
		return []any{1, []any{pub}}
	case "System.Contract.CreateStandardAccount":
		return []any{pub}
	case "System.Crypto.CheckMultisig":
		return []any{[]any{pub}, []any{make([]byte, 64)}}
	case "System.Crypto.CheckSig":
		return []any{pub, make([]byte, 64)}
	case "System.Iterator.Next", "System.Iterator.Value":
		return []any{iter}
	case "System.Runtime.BurnGas":
		return []any{1}
	case "System.Runtime.CheckWitness":
		return []any{env.c.owner.ScriptHash()}
	case "System.Runtime.GetNotifications":
		return []any{nil}
	case "System.Runtime.LoadScript":
		return []any{[]byte{byte(opcode.PUSH1), byte(opcode.RET)}, 15, []any{}}
	case "System.Runtime.Log":
		return []any{"hello"}
	case "System.Runtime.Notify":
		return []any{"Ev", []any{}}
	case "System.Storage.AsReadOnly":
		return []any{getctx}
	case "System.Storage.Delete", "System.Storage.Get":
		return []any{getctx, []byte("k")}
	case "System.Storage.Find":
		return []any{getctx, []byte("k"), 0}
	case "System.Storage.Local.Delete", "System.Storage.Local.Get":
		return []any{[]byte("k")}
	case "System.Storage.Local.Find":
		return []any{[]byte("k"), 0}
	case "System.Storage.Local.Put":
		return []any{[]byte("k"), []byte("w")}
	case "System.Storage.Put":
		return []any{getctx, []byte("k"), []byte("w")}
	}
	return nil
}

func c16Tag(o c16Obs, gateOK bool) string {
	if !o.Reached {
		return "not-reached"
	}
	if !gateOK {
		return "refused"
	}
	t := "ran"
	if o.State != "HALT" {
		t = "ran-fault"
	}
	if o.Wrote {
		t += "+w"
	}
	if o.Notified {
		t += "+n"
	}
	if o.Called {
		t += "+c"
	}
	return t
}

func (env *c16Env) runSys(co *caseOut, in c16SysIn) {
	var obs c16Obs
	f := callflag.CallFlag(in.Flags)
	switch in.Trig {
	case "":
		script := c16Code(func(w *io.BinWriter) {
			if in.WL > 0 {
				c16EmitCall(w, env.nat[nativenames.Policy], "setWhitelistFeeContract", 15, env.P.Hash, c16SysMethod(in.Name), c16SysArity[in.Name], []int{0, 0, 7}[in.WL%3])
				emit.Opcodes(w, opcode.DROP)
			}
			c16EmitCall(w, env.P.Hash, c16SysMethod(in.Name), in.Flags, env.sysArgs(in.Name)...)
		})
		obs, _ = env.c.invoke(script, env.signers, env.P.Hash, 2, trigger.Application, callflag.All, false)
	default:
		// the persist system calls only work as the entry script of the block triggers: load it with flags f
		tr := trigger.OnPersist
		if in.Trig == "postpersist" {
			tr = trigger.PostPersist
		}
		script := c16Code(func(w *io.BinWriter) { emit.Syscall(w, in.Name) })
		obs, _ = env.c.invoke(script, nil, util.Uint160{}, 1, tr, f, false)
		obs.Called = false // native persist handlers are Go code, no script context
		obs.Callees = nil
	}
	gateOK := obs.Reached && !obs.GateFault
	if !obs.Reached {
		co.violation("sys", "harness: frame under test not reached: "+obs.Fault, in, obs)
		return
	}
	c16Direct(co, "sys", in, obs, in.Flags)
	co.add("sys", c16Tag(obs, gateOK), gateOK && (obs.Wrote || obs.Notified || obs.Called || obs.State == "HALT"), in, obs,
		fmt.Sprintf("CSys %s%%string %d %s %s %s %s", coqStr(in.Name), in.Flags, coqBool(gateOK), coqBool(obs.Wrote), coqBool(obs.Notified), coqBool(obs.Called)))
}

// direct specification checks on the observation (also evaluated in Coq; here they carry the details)
func c16Direct(co *caseOut, kind string, in any, obs c16Obs, frameFlags int) {
	f := callflag.CallFlag(frameFlags)
	if obs.Wrote && !f.Has(callflag.WriteStates) {
		co.violation(kind, fmt.Sprintf("storage changed by a frame without WriteStates (flags %04b), keys %v", frameFlags, obs.Keys), in, obs)
	}
	if obs.Notified && !f.Has(callflag.AllowNotify) {
		co.violation(kind, fmt.Sprintf("event emitted by a frame without AllowNotify (flags %04b): %v", frameFlags, obs.Events), in, obs)
	}
	if obs.Called && !f.Has(callflag.AllowCall) && !obs.F39 {
		co.violation(kind, fmt.Sprintf("contract code started from a frame without AllowCall (flags %04b): %v", frameFlags, obs.Callees), in, obs)
	}
}

// ---------- native ----------

type c16NatIn struct {
	Contract string `json:"contract"`
	Method   string `json:"method"`
	Arity    int    `json:"arity"`
	Flags    int    `json:"flags"`
	Via      string `json:"via"` // "entry": called by the entry script; "proxy": by the deployed proxy (caller is a contract)
}

func (env *c16Env) natArgs(in c16NatIn) []any {
	own := env.c.owner.ScriptHash()
	actor := own
	if in.Via == "proxy" {
		actor = env.P.Hash
	}
	pub := env.pub.Bytes()
	key := fmt.Sprintf("%s.%s/%d", in.Contract, in.Method, in.Arity)
	h := int64(env.c.bc.BlockHeight())
	switch key {
	case "ContractManagement.deploy/2", "ContractManagement.deploy/3":
		ct := c16Build(actor, c16ContractSpec{Name: "D", Methods: []c16Method{
			{Name: "nop", Void: true, Body: []byte{byte(opcode.RET)}},
			{Name: "_deploy", NParams: 2, Void: true, Body: []byte{byte(opcode.CLEAR), byte(opcode.RET)}}}})
		nb, _ := ct.NEF.Bytes()
		mb, _ := json.Marshal(ct.Manifest)
		if in.Arity == 3 {
			return []any{nb, mb, nil}
		}
		return []any{nb, mb}
	case "ContractManagement.update/2", "ContractManagement.update/3":
		m := *env.P.Manifest
		mb, _ := json.Marshal(&m)
		if in.Arity == 3 {
			return []any{nil, mb, nil}
		}
		return []any{nil, mb}
	case "ContractManagement.setMinimumDeploymentFee/1":
		return []any{5_0000_0000}
	case "NeoToken.transfer/4", "GasToken.transfer/4":
		return []any{actor, env.Z.Hash, 1, nil}
	case "NeoToken.vote/2":
		return []any{actor, pub}
	case "NeoToken.setGasPerBlock/1":
		return []any{4_0000_0000}
	case "NeoToken.setRegisterPrice/1":
		return []any{900_0000_0000}
	case "NeoToken.unclaimedGas/2":
		return []any{actor, h + 1}
	case "PolicyContract.blockAccount/1":
		if in.Via == "proxy" {
			return []any{env.P.Hash}
		}
		return []any{util.Uint160{0xb1, 0x0d}}
	case "PolicyContract.unblockAccount/1", "PolicyContract.isBlocked/1":
		return []any{env.blocked}
	case "PolicyContract.recoverFund/2":
		return []any{env.blocked, env.nat[nativenames.Gas]}
	case "PolicyContract.setAttributeFee/2", "PolicyContract.getAttributeFee/1":
		if in.Arity == 2 {
			return []any{int64(transaction.HighPriority), 7}
		}
		return []any{int64(transaction.HighPriority)}
	case "PolicyContract.setExecFeeFactor/1":
		return []any{50}
	case "PolicyContract.setFeePerByte/1", "PolicyContract.setStoragePrice/1":
		return []any{2000}
	case "PolicyContract.setMaxTraceableBlocks/1":
		return []any{int64(env.c.bc.GetConfig().MaxTraceableBlocks) - 1}
	case "PolicyContract.setMaxValidUntilBlockIncrement/1":
		return []any{100}
	case "PolicyContract.setMillisecondsPerBlock/1":
		return []any{2000}
	case "PolicyContract.setWhitelistFeeContract/4":
		return []any{env.Z.Hash, "onNEP17Payment", 3, 5}
	case "PolicyContract.removeWhitelistFeeContract/3":
		return []any{env.Z.Hash, "nop", 0}
	case "RoleManagement.designateAsRole/2":
		return []any{int64(noderoles.Oracle), []any{pub}}
	case "RoleManagement.getDesignatedByRole/2":
		return []any{int64(noderoles.Oracle), h}
	case "OracleContract.request/5":
		return []any{"https://example.org/x", nil, "nop", nil, 1_0000_0000}
	case "OracleContract.setPrice/1":
		return []any{6000_0000}
	case "Notary.lockDepositUntil/2":
		return []any{env.single.ScriptHash(), h + 2000}
	case "Notary.withdraw/2":
		return []any{own, own}
	case "Notary.setMaxNotValidBeforeDelta/1":
		return []any{100}
	case "Notary.balanceOf/1", "Notary.expirationOf/1":
		return []any{own}
	case "LedgerContract.getBlock/1", "LedgerContract.getTransactionFromBlock/2":
		if in.Arity == 2 {
			return []any{1, 0}
		}
		return []any{1}
	}
	ps := env.natPar[key]
	if env.parOverride != nil {
		ps = env.parOverride
	}
	args := make([]any, len(ps))
	for i, p := range ps {
		switch p.Type {
		case smartcontract.Hash160Type:
			args[i] = actor
		case smartcontract.IntegerType:
			args[i] = 1
		case smartcontract.ByteArrayType:
			args[i] = []byte{1}
		case smartcontract.StringType:
			args[i] = "1"
		case smartcontract.PublicKeyType:
			args[i] = pub
		case smartcontract.BoolType:
			args[i] = true
		case smartcontract.ArrayType:
			args[i] = []any{}
		case smartcontract.Hash256Type:
			args[i] = env.c.bc.GetHeaderHash(1)
		case smartcontract.SignatureType:
			args[i] = make([]byte, 64)
		default:
			args[i] = nil
		}
	}
	return args
}

func (env *c16Env) runNative(co *caseOut, in c16NatIn) {
	nh, ok := env.nat[in.Contract]
	key := fmt.Sprintf("%s.%s/%d", in.Contract, in.Method, in.Arity)
	if _, ok2 := env.natPar[key]; !ok || !ok2 {
		co.violation("native", "harness: unknown native method "+key, in, nil)
		return
	}
	args := env.natArgs(in)
	var script []byte
	depth := 2
	if in.Via == "proxy" {
		depth = 3
		script = c16Code(func(w *io.BinWriter) {
			c16EmitCall(w, env.P.Hash, "fwd", 15, nh, in.Method, in.Flags, args)
		})
	} else {
		script = c16Code(func(w *io.BinWriter) { c16EmitCall(w, nh, in.Method, in.Flags, args...) })
	}
	obs, _ := env.c.invoke(script, env.signers, nh, depth, trigger.Application, callflag.All, false)
	if !obs.Reached {
		co.violation("native", "harness: frame under test not reached: "+obs.Fault, in, obs)
		return
	}
	gateOK := !obs.GateFault
	// the frame's flags: safe methods lose WriteStates|AllowNotify
	ff := in.Flags
	if c16NativeSafe(in.Contract, in.Method, in.Arity) {
		ff &^= int(callflag.WriteStates | callflag.AllowNotify)
	}
	if obs.Called && ff&int(callflag.AllowCall) == 0 &&
		(key == "NeoToken.vote/2" || key == "PolicyContract.blockAccount/1" || key == "ContractManagement.destroy/0") {
		obs.F39 = true // finding F39: the voter contract's onNEP17Payment is started by a frame without AllowCall
	}
	c16Direct(co, "native", in, obs, ff)
	if ff != in.Flags && (obs.Wrote || obs.Notified) {
		co.violation("native", "state changed / event emitted through a method marked safe", in, obs)
	}
	co.add("native", c16Tag(obs, gateOK), gateOK, in, obs,
		fmt.Sprintf("CNat %s%%string %s%%string %d %d %s %s %s %s", coqStr(in.Contract), coqStr(in.Method), in.Arity, in.Flags,
			coqBool(gateOK), coqBool(obs.Wrote), coqBool(obs.Notified), coqBool(obs.Called)))
}

// ---------- native methods in other chain states ----------

type c16NatStIn struct {
	Contract string `json:"contract"`
	Method   string `json:"method"`
	Arity    int    `json:"arity"`
	Flags    int    `json:"flags"`
	Via      string `json:"via"`
	HF       int    `json:"hf"` // hard-forks enabled: 0 none .. latest all (latest = the main chain with its full state)
	WL       int    `json:"wl"` // 0 not whitelisted; 1 / 2: the method is put on the Policy fee whitelist with fee 0 / 7 first
}

func c16HFMethod(hf int, c, m string, a int) (interop.HFSpecificMethodAndPrice, bool) {
	h := config.Hardfork(hf)
	for _, n := range native.NewDefaultContracts(config.ProtocolConfiguration{}) {
		md := n.Metadata()
		if md.Name != c {
			continue
		}
		if act := n.ActiveIn(); act != nil && act.Cmp(h) > 0 {
			return interop.HFSpecificMethodAndPrice{}, false
		}
		for _, x := range md.HFSpecificContractMD(&h).Methods {
			if x.MD.Name == m && len(x.MD.Parameters) == a {
				return x, true
			}
		}
	}
	return interop.HFSpecificMethodAndPrice{}, false
}

// the staged chain: hard-fork k activates at height 3k; stage k = height 3k (hard-forks 1..k enabled, k+1.. not yet)
func (env *c16Env) stagedChain(k int) (c *c16Chain, err error) {
	defer func() {
		if r := recover(); r != nil {
			err = fmt.Errorf("staged chain: %v", r)
		}
	}()
	if env.hc == nil || env.hcStage > k {
		if env.hc != nil {
			env.hc.close()
		}
		env.hc = c16NewChainHF(nil, func(hf config.Hardfork) uint32 { return 3 * uint32(hf) })
		env.hcStage = 0
	}
	if want := uint32(3 * k); env.hc.bc.BlockHeight() < want {
		env.hc.e.GenerateNewBlocks(env.hc.t, int(want-env.hc.bc.BlockHeight()))
	}
	env.hcStage = k
	return env.hc, nil
}

func (env *c16Env) runNativeSt(co *caseOut, in c16NatStIn) {
	latest := int(config.HFLatestKnown)
	nh, ok := env.nat[in.Contract]
	mm, ok2 := c16HFMethod(in.HF, in.Contract, in.Method, in.Arity)
	if !ok || !ok2 || in.HF < 0 || in.HF > latest {
		co.violation("nativest", "harness: unknown native method for this hard-fork", in, nil)
		return
	}
	ch := env.c
	if in.HF != latest {
		var err error
		if ch, err = env.stagedChain(in.HF); err != nil {
			co.violation("nativest", "harness: "+err.Error(), in, nil)
			return
		}
		in.WL, in.Via = 0, "entry" // no proxy and no whitelist on the staged chain
	}
	env.parOverride = mm.MD.Parameters
	args := env.natArgs(c16NatIn{Contract: in.Contract, Method: in.Method, Arity: in.Arity, Flags: in.Flags, Via: in.Via})
	env.parOverride = nil
	pol := env.nat[nativenames.Policy]
	fee := []int{0, 0, 7}[in.WL%3]
	depth := 2
	script := c16Code(func(w *io.BinWriter) {
		if in.Via == "proxy" {
			depth = 3
			if in.WL > 0 { // the whitelisting call runs at depth 2, the method under test at depth 3
				c16EmitCall(w, pol, "setWhitelistFeeContract", 15, nh, in.Method, in.Arity, fee)
				emit.Opcodes(w, opcode.DROP)
			}
			c16EmitCall(w, env.P.Hash, "fwd", 15, nh, in.Method, in.Flags, args)
		} else {
			if in.WL > 0 { // the whitelisting call runs at depth 3 (through the proxy), the method under test at depth 2
				c16EmitCall(w, env.P.Hash, "fwd", 15, pol, "setWhitelistFeeContract", 15, []any{nh, in.Method, in.Arity, fee})
				emit.Opcodes(w, opcode.DROP)
			}
			c16EmitCall(w, nh, in.Method, in.Flags, args...)
		}
	})
	obs, ic := ch.invoke(script, env.signers, nh, depth, trigger.Application, callflag.All, false)
	if !obs.Reached {
		co.violation("nativest", "harness: frame under test not reached: "+obs.Fault, in, obs)
		return
	}
	if in.WL > 0 { // the state really is the one intended
		if p, ok := ic.PolicyChecker.(interface {
			WhitelistedFee(*dao.Simple, util.Uint160, int) int64
		}); !ok || p.WhitelistedFee(ic.DAO, nh, mm.MD.Offset) < 0 {
			co.violation("nativest", "harness: the method is not on the fee whitelist after setWhitelistFeeContract: "+obs.Fault, in, obs)
			return
		}
	}
	gateOK := !obs.GateFault
	ff := in.Flags
	if mm.MD.Safe {
		ff &^= int(callflag.WriteStates | callflag.AllowNotify)
	}
	f := callflag.CallFlag(ff)
	if obs.Wrote && !f.Has(callflag.WriteStates) {
		co.violation("nativest", fmt.Sprintf("storage changed by a native frame without WriteStates (flags %04b, hard-fork %d, whitelist state %d), keys %v", ff, in.HF, in.WL, obs.Keys), in, obs)
	}
	if obs.Notified && !f.Has(callflag.AllowNotify) && in.HF >= int(config.HFFaun) {
		co.violation("nativest", fmt.Sprintf("event emitted by a native frame without AllowNotify (flags %04b, hard-fork %d, whitelist state %d): %v", ff, in.HF, in.WL, obs.Events), in, obs)
	}
	if !f.Has(mm.RequiredFlags) && in.HF >= 1 && (obs.Wrote || obs.Notified || obs.Called) {
		co.violation("nativest", fmt.Sprintf("native method ran with flags %04b although it requires %04b (hard-fork %d, whitelist state %d)", ff, mm.RequiredFlags, in.HF, in.WL), in, obs)
	}
	tag := fmt.Sprintf("hf%d/wl%d/%s", in.HF, in.WL, c16Tag(obs, gateOK))
	co.add("nativest", tag, gateOK, in, obs,
		fmt.Sprintf("CNatSt %d %d %s%%string %s%%string %d %d %s %s %s %s", in.HF, in.WL, coqStr(in.Contract), coqStr(in.Method), in.Arity, in.Flags,
			coqBool(gateOK), coqBool(obs.Wrote), coqBool(obs.Notified), coqBool(obs.Called)))
}

// the flag sets that discriminate a gate for required flags req: nothing, everything, exactly req, req minus one bit
func c16DiscFlags(req int) []int {
	out := []int{0, 15, req}
	for _, b := range []int{1, 2, 4, 8} {
		if req&b != 0 {
			out = append(out, req&^b)
		}
	}
	seen := map[int]bool{}
	var r []int
	for _, x := range out {
		if !seen[x] {
			seen[x] = true
			r = append(r, x)
		}
	}
	return r
}

// a contract blocked by Policy must not run, whoever calls it
type c16BlockedIn struct {
	Shape string `json:"shape"` // direct | nested | payment
}

func (env *c16Env) runBlocked(co *caseOut, in c16BlockedIn) {
	pol, gas := env.nat[nativenames.Policy], env.nat[nativenames.Gas]
	script := c16Code(func(w *io.BinWriter) {
		c16EmitCall(w, pol, "blockAccount", 15, env.Z.Hash)
		emit.Opcodes(w, opcode.ASSERT) // blockAccount returned true
		switch in.Shape {
		case "nested":
			c16EmitCall(w, env.P.Hash, "callz", 15)
		case "payment":
			c16EmitCall(w, gas, "transfer", 15, env.c.owner.ScriptHash(), env.Z.Hash, 1, nil)
		default:
			c16EmitCall(w, env.Z.Hash, "nop", 15)
		}
	})
	obs, _ := env.c.invoke(script, env.signers, util.Uint160{}, 1, trigger.Application, callflag.All, false)
	ran := false
	for _, h := range obs.Callees {
		ran = ran || h == env.Z.Hash.StringLE()
	}
	if ran {
		co.violation("blocked", "a contract blocked by Policy.blockAccount was executed", in, obs)
	}
	if !strings.Contains(obs.Fault, "blocked") {
		co.violation("blocked", "harness: expected the call into the blocked contract to be refused: "+obs.State+" "+obs.Fault, in, obs)
		return
	}
	co.add("blocked", in.Shape, true, in, obs, fmt.Sprintf("CBlocked %s", coqBool(ran)))
}

var c16SafeCache map[string]bool

func c16NativeSafe(c, m string, a int) bool {
	if c16SafeCache == nil {
		c16SafeCache = map[string]bool{}
		for _, x := range c16NativeMethods(config.HFLatestKnown) {
			c16SafeCache[fmt.Sprintf("%s.%s/%d", x.Contract, x.Name, x.Arity)] = x.Safe
		}
	}
	return c16SafeCache[fmt.Sprintf("%s.%s/%d", c, m, a)]
}

// ---------- chain ----------

type c16ChainIn struct {
	Ops   [][2]int `json:"ops"`   // hops: [requested flags, kind] kind 0 non-safe, 1 safe, 2 LoadScript
	Final [2]int   `json:"final"` // [requested flags, final op 10..15]
}

var c16Finals = map[int]string{10: "lput", 11: "note", 12: "callz", 13: "slput", 14: "snote", 15: "nop"}
var c16FinalOrder = []int{10, 11, 12, 13, 14, 15}

// permissions of the restricted CALLT callers (h0 = the proxy P holding the final methods, h1 = another contract)
var c16TokPerms = []c16Perm{{"h0", []string{"lput"}}, {"*", []string{"note", "slput"}}, {"h1", nil}, {"h0", []string{}}, {"h0", nil}}

// ---------- the executing contract changes itself, then calls ----------

type c16SelfIn struct {
	Stage  int    `json:"stage"`  // 0 before Domovoi, 1 after
	Helper string `json:"helper"` // HW: permissions [Management:*, C:[a]] (update widens), HN: [Management:*, C:*] (update narrows)
	Action string `json:"action"` // none | update | destroy | deploy (deploys another contract and calls that one)
	Via    string `json:"via"`    // call (System.Contract.Call) | callt
	Method string `json:"method"` // a | b | s
}

func (env *c16Env) runSelfCall(co *caseOut, in c16SelfIn) {
	s, err := c16SelfGet(in.Stage)
	if err != nil {
		co.violation("selfcall", "harness: "+err.Error(), in, nil)
		return
	}
	h, wideLoaded := s.HW, false
	if in.Helper == "HN" {
		h, wideLoaded = s.HN, true
	}
	mi := map[string]int{"a": 0, "b": 1, "s": 2}[in.Method]
	target := s.C.Hash
	var script []byte
	switch {
	case in.Action == "deploy":
		d := c16Build(s.c.owner.ScriptHash(), s.spec("SD", []manifest.Permission{*manifest.NewPermission(manifest.PermissionWildcard)}, nil, util.Uint160{}))
		nb, _ := d.NEF.Bytes()
		mb, _ := json.Marshal(d.Manifest)
		target = d.Hash
		in.Via = "call"
		script = c16Code(func(w *io.BinWriter) { c16EmitCall(w, h.Hash, "dep_fwd", 15, nb, mb, target, in.Method, 15, []any{}) })
	case in.Via == "callt":
		script = c16Code(func(w *io.BinWriter) {
			switch in.Action {
			case "update":
				c16EmitCall(w, h.Hash, fmt.Sprintf("u_t%d", mi), 15, s.newManifest(in.Helper, s.perms(!wideLoaded), nil))
			case "destroy":
				c16EmitCall(w, h.Hash, fmt.Sprintf("d_t%d", mi), 15)
			default:
				c16EmitCall(w, h.Hash, fmt.Sprintf("n_t%d", mi), 15)
			}
		})
	default:
		script = c16Code(func(w *io.BinWriter) {
			switch in.Action {
			case "update":
				c16EmitCall(w, h.Hash, "u_fwd", 15, s.newManifest(in.Helper, s.perms(!wideLoaded), nil), target, in.Method, 15, []any{})
			case "destroy":
				c16EmitCall(w, h.Hash, "d_fwd", 15, target, in.Method, 15, []any{})
			default:
				c16EmitCall(w, h.Hash, "fwd", 15, target, in.Method, 15, []any{})
			}
		})
	}
	obs, _ := s.c.invoke(script, env.signers, h.Hash, 2, trigger.Application, callflag.All, false)
	ran := false
	for _, x := range obs.Callees {
		ran = ran || x == target.StringLE()
	}
	if !obs.Reached || (obs.State != "HALT" && !strings.Contains(obs.Fault, "disallowed method call")) {
		co.violation("selfcall", "harness: unexpected outcome: "+obs.State+" "+obs.Fault, in, obs)
		return
	}
	if ran != (obs.State == "HALT") {
		co.violation("selfcall", "callee ran although the call was refused (or the reverse)", in, obs)
	}
	perm := func(wide bool) string {
		if wide {
			return "[mk_perm (DHash 2) MWild; mk_perm (DHash 1) MWild]"
		}
		return "[mk_perm (DHash 2) MWild; mk_perm (DHash 1) (MList [\"a\"%string])]"
	}
	loaded := perm(wideLoaded)
	current := "(Some " + loaded + ")"
	callee := "(mk_callee 1 [])"
	switch in.Action {
	case "update":
		current = "(Some " + perm(!wideLoaded) + ")"
	case "destroy":
		current = "None"
	case "deploy":
		callee = "(mk_callee 3 [])"
	}
	tag := fmt.Sprintf("stage%d/%s/%s/%s", in.Stage, in.Helper, in.Action, in.Via)
	co.add("selfcall", tag, in.Method != "s", in, obs, fmt.Sprintf("CSelfCall %s %s %s %s %s%%string %s %s",
		coqBool(in.Stage == 1), loaded, current, callee, coqStr(in.Method), coqBool(in.Method == "s"), coqBool(ran)))
}

// ---------- native -> contract callbacks ----------

// a contract whose onNEP17Payment and _deploy try capability k; also a forwarder so that it can be the caller
func (env *c16Env) cbSpec(name string, k int) c16ContractSpec {
	probe := c16Code(func(w *io.BinWriter) {
		emit.Opcodes(w, opcode.CLEAR)
		switch k {
		case 1:
			emit.Bytes(w, []byte("v"))
			emit.Bytes(w, []byte("cb"))
			emit.Syscall(w, interopnames.SystemStorageLocalPut)
		case 2:
			emit.Opcodes(w, opcode.NEWARRAY0)
			emit.String(w, "Cb")
			emit.Syscall(w, interopnames.SystemRuntimeNotify)
		case 3:
			emit.AppCall(w, env.Z.Hash, "nop", callflag.All)
			emit.Opcodes(w, opcode.CLEAR)
		}
		emit.Opcodes(w, opcode.RET)
	})
	return c16ContractSpec{Name: name, Perms: []manifest.Permission{*manifest.NewPermission(manifest.PermissionWildcard)},
		Events: []manifest.Event{{Name: "Cb", Parameters: []manifest.Parameter{}}},
		Methods: []c16Method{
			{Name: "fwd", NParams: 4, Body: c16SyscallBody(interopnames.SystemContractCall, false)},
			{Name: "onNEP17Payment", NParams: 3, Void: true, Body: probe},
			{Name: "_deploy", NParams: 2, Void: true, Body: probe},
		}}
}

type c16CbIn struct {
	Path  string `json:"path"`  // gas-transfer neo-transfer vote block destroy deploy update notary
	Flags int    `json:"flags"` // flags the native method is called with (= flags of its frame)
	Probe int    `json:"probe"` // 0 none, 1 Local.Put, 2 Notify, 3 System.Contract.Call
}

var c16CbPaths = []string{"gas-transfer", "neo-transfer", "vote", "block", "destroy", "deploy", "update", "notary"}

type c16CbObs struct {
	State     string `json:"state"`
	Fault     string `json:"fault,omitempty"`
	Ran       bool   `json:"ran"`
	CbFlags   int    `json:"cb_flags"`
	Effect    bool   `json:"effect"`
	NatFlags  int    `json:"native_frame_flags"`
	NatFrames int    `json:"native_frames"`
}

func (env *c16Env) runCallback(co *caseOut, in c16CbIn) {
	if in.Probe < 0 || in.Probe > 3 {
		return
	}
	cb := env.CB[in.Probe]
	own := env.c.owner.ScriptHash()
	gas, neo := env.nat[nativenames.Gas], env.nat[nativenames.Neo]
	mgmt, pol := env.nat[nativenames.Management], env.nat[nativenames.Policy]
	var ct, m string
	var nh, cbHash util.Uint160
	var args []any
	via := false
	cbHash = cb.Hash
	switch in.Path {
	case "gas-transfer":
		ct, m, nh, args = "GasToken", "transfer", gas, []any{own, cb.Hash, 1, nil}
	case "neo-transfer":
		ct, m, nh, args = "NeoToken", "transfer", neo, []any{own, cb.Hash, 1, nil}
	case "vote":
		ct, m, nh, args, via = "NeoToken", "vote", neo, []any{cb.Hash, env.pub.Bytes()}, true
	case "block":
		ct, m, nh, args = "PolicyContract", "blockAccount", pol, []any{cb.Hash}
	case "destroy":
		if in.Probe == 1 {
			return // destroy removes the contract's storage after the callback: the put cannot be observed afterwards
		}
		ct, m, nh, args, via = "ContractManagement", "destroy", mgmt, []any{}, true
	case "deploy":
		d := c16Build(own, env.cbSpec(fmt.Sprintf("DP%d", in.Probe), in.Probe))
		nb, _ := d.NEF.Bytes()
		mb, _ := json.Marshal(d.Manifest)
		ct, m, nh, args, cbHash = "ContractManagement", "deploy", mgmt, []any{nb, mb}, d.Hash
	case "update":
		mb, _ := json.Marshal(cb.Manifest)
		ct, m, nh, args, via = "ContractManagement", "update", mgmt, []any{nil, mb}, true
	case "notary":
		if in.Probe != 0 {
			return
		}
		cbHash = env.nat[nativenames.Notary]
		ct, m, nh, args = "GasToken", "transfer", gas, []any{own, cbHash, 2_0000_0000, []any{own, int64(env.c.bc.BlockHeight() + 100)}}
	default:
		co.violation("callback", "harness: unknown path "+in.Path, in, nil)
		return
	}
	script := c16Code(func(w *io.BinWriter) {
		if via {
			c16EmitCall(w, cb.Hash, "fwd", 15, nh, m, in.Flags, args)
		} else {
			c16EmitCall(w, nh, m, in.Flags, args...)
		}
	})
	natDepth := 2
	if via {
		natDepth = 3
	}
	tx := transaction.New(script, 0)
	tx.Signers = env.signers
	tx.ValidUntilBlock = env.c.bc.BlockHeight() + 1
	ic, err := env.c.bc.GetTestVM(trigger.Application, tx, nil)
	if err != nil {
		panic(err)
	}
	ic.Log = zap.NewNop()
	ic.VM.SetGasLimit(5000_0000_0000)
	var o c16CbObs
	o.CbFlags, o.NatFlags = -1, -1
	zran := false
	ic.VM.SetOnExecHook(func(sh util.Uint160, off int, op opcode.Opcode) {
		d := len(ic.VM.Istack())
		if d == natDepth && sh.Equals(nh) && o.NatFlags < 0 {
			o.NatFlags = int(ic.VM.Context().GetCallFlags())
		}
		if d > natDepth && sh.Equals(cbHash) && !o.Ran {
			o.Ran = true
			o.CbFlags = int(ic.VM.Context().GetCallFlags())
		}
		if o.Ran && sh.Equals(env.Z.Hash) {
			zran = true
		}
	})
	ic.VM.LoadWithFlags(script, callflag.All)
	var runErr error
	if p := catch(func() { runErr = ic.Exec() }); p != "" {
		o.State, o.Fault = "PANIC", p
	} else {
		o.State = ic.VM.State().String()
		if runErr != nil {
			o.Fault = runErr.Error()
		}
	}
	if len(o.Fault) > 160 {
		o.Fault = o.Fault[:160]
	}
	switch in.Probe {
	case 1:
		b := ic.DAO.Store.GetBatch()
		for _, kv := range b.Put {
			if len(kv.Key) >= 2 && string(kv.Key[len(kv.Key)-2:]) == "cb" && string(kv.Value) == "v" {
				o.Effect = true
			}
		}
	case 2:
		for _, n := range ic.Notifications {
			if n.Name == "Cb" && n.ScriptHash.Equals(cbHash) {
				o.Effect = true
			}
		}
	case 3:
		o.Effect = zran
	}
	if o.NatFlags < 0 {
		co.violation("callback", "harness: the native frame was not reached: "+o.Fault, in, o)
		return
	}
	completed := o.State == "HALT"
	cbf := max(o.CbFlags, 0)
	if o.Ran && o.CbFlags&^in.Flags != 0 {
		co.violation("callback", fmt.Sprintf("the callback ran with flags %04b, not within the native frame's flags %04b (flags must only shrink)", o.CbFlags, in.Flags), in, o)
	}
	bit := []int{0, 2, 8, 4}[in.Probe]
	if o.Effect && in.Flags&bit == 0 {
		co.violation("callback", fmt.Sprintf("the callback could use capability %04b although the native's frame has flags %04b", bit, in.Flags), in, o)
	}
	arity := len(args)
	tag := in.Path
	switch {
	case !o.Ran:
		tag += "/no-callback"
	case completed:
		tag += fmt.Sprintf("/ran-%04b", o.CbFlags)
	default:
		tag += fmt.Sprintf("/ran-%04b-fault", o.CbFlags)
	}
	co.add("callback", tag, o.Ran, in, o, fmt.Sprintf("CCallback %s%%string %s%%string %d %d %d %s %d %s %s", coqStr(ct), coqStr(m), arity, in.Flags, in.Probe,
		coqBool(o.Ran), cbf, coqBool(completed), coqBool(o.Effect)))
}

// ---------- CALLT ----------

type c16CallTIn struct {
	Flags int `json:"flags"`       // flags of the frame executing CALLT
	TF    int `json:"token_flags"` // call flags recorded in the method token
	Final int `json:"final"`       // 10..15
}

func c16FinalIdx(fin int) int {
	for i, f := range c16FinalOrder {
		if f == fin {
			return i
		}
	}
	return -1
}

func (env *c16Env) runCallT(co *caseOut, in c16CallTIn) {
	fi := c16FinalIdx(in.Final)
	if fi < 0 || in.TF < 0 || in.TF > 15 {
		return
	}
	script := c16Code(func(w *io.BinWriter) { c16EmitCall(w, env.T.Hash, fmt.Sprintf("t%d", fi*16+in.TF), in.Flags) })
	obs, _ := env.c.invoke(script, env.signers, env.T.Hash, 2, trigger.Application, callflag.All, false)
	if !obs.Reached {
		co.violation("callt", "harness: frame under test not reached: "+obs.Fault, in, obs)
		return
	}
	completed := obs.State == "HALT"
	ran, zran := false, false
	for _, h := range obs.Callees {
		ran = ran || h == env.P.Hash.StringLE()
		zran = zran || h == env.Z.Hash.StringLE()
	}
	g := in.Flags & in.TF
	if in.Final == 13 || in.Final == 14 {
		g &^= 10
	}
	if ran && in.Flags&4 == 0 {
		co.violation("callt", fmt.Sprintf("CALLT started the callee from a frame without AllowCall (flags %04b)", in.Flags), in, obs)
	}
	if obs.Wrote && g&2 == 0 {
		co.violation("callt", fmt.Sprintf("storage changed through CALLT although frame flags & token flags = %04b", g), in, obs)
	}
	if obs.Notified && g&8 == 0 {
		co.violation("callt", fmt.Sprintf("event emitted through CALLT although frame flags & token flags = %04b", g), in, obs)
	}
	if zran && g&4 == 0 {
		co.violation("callt", fmt.Sprintf("the token's callee called on although frame flags & token flags = %04b", g), in, obs)
	}
	tag := c16Finals[in.Final]
	switch {
	case !ran:
		tag += "/refused"
	case completed:
		tag += "/halt"
	default:
		tag += "/callee-fault"
	}
	co.add("callt", tag, ran, in, obs, fmt.Sprintf("CCallT %d %d %d %s %s %s %s %s", in.Flags, in.TF, in.Final,
		coqBool(completed), coqBool(obs.Wrote), coqBool(obs.Notified), coqBool(ran), coqBool(zran)))
}

// CALLT from a contract with a restricted permission: the permission check of callInternal applies to tokens too
func (env *c16Env) runCallTPerm(co *caseOut, in c16PermIn) {
	if len(in.Ops) != 1 {
		return
	}
	kb, _ := json.Marshal(in.Ops[0])
	ct, ok := env.TP[string(kb)]
	fi := -1
	for i, f := range c16FinalOrder {
		if c16Finals[f] == in.Method {
			fi = i
		}
	}
	if !ok || fi < 0 {
		co.violation("calltperm", "harness: unknown restricted CALLT caller or method", in, nil)
		return
	}
	in.Callee = c16Callee{Hash: 0, Groups: []int{}}
	in.Safe = in.Method == "slput" || in.Method == "snote"
	script := c16Code(func(w *io.BinWriter) { c16EmitCall(w, ct.Hash, fmt.Sprintf("t%d", fi), 15) })
	obs, _ := env.c.invoke(script, env.signers, ct.Hash, 2, trigger.Application, callflag.All, false)
	ran := false
	for _, h := range obs.Callees {
		ran = ran || h == env.P.Hash.StringLE()
	}
	refused := strings.Contains(obs.Fault, "disallowed method call")
	if ran == refused {
		co.violation("calltperm", "callee ran although the token call was refused (or neither): "+obs.Fault, in, obs)
	}
	tag := "refused"
	if ran {
		tag = "ran"
	}
	co.add("calltperm", tag, !in.Safe, in, c16PermOut{ran, c16F6Shape(in, ran)},
		fmt.Sprintf("CPermCall %s %s %s%%string %s %s", coqList([]string{c16CoqPerm(in.Ops[0])}), c16CoqCallee(in.Callee), coqStr(in.Method), coqBool(in.Safe), coqBool(ran)))
}

type c16CallDesc struct {
	method string
	flags  int
	args   []any
}

func (env *c16Env) chainCall(ops [][2]int, fin [2]int) c16CallDesc {
	if len(ops) == 0 {
		return c16CallDesc{c16Finals[fin[1]], fin[0], []any{}}
	}
	next := env.chainCall(ops[1:], fin)
	r, k := ops[0][0], ops[0][1]
	switch k {
	case 0:
		return c16CallDesc{"fwd", r, []any{env.P.Hash, next.method, next.flags, next.args}}
	case 1:
		return c16CallDesc{"sfwd", r, []any{env.P.Hash, next.method, next.flags, next.args}}
	default:
		inner := c16Code(func(w *io.BinWriter) { c16EmitCall(w, env.P.Hash, next.method, next.flags, next.args...) })
		return c16CallDesc{"load", r, []any{inner, r, []any{}}}
	}
}

func (env *c16Env) runChain(co *caseOut, in c16ChainIn) {
	if _, ok := c16Finals[in.Final[1]]; !ok {
		in.Final[1] = 15
	}
	d := env.chainCall(in.Ops, in.Final)
	script := c16Code(func(w *io.BinWriter) { c16EmitCall(w, env.P.Hash, d.method, d.flags, d.args...) })
	obs, _ := env.c.invoke(script, env.signers, env.P.Hash, 2, trigger.Application, callflag.All, false)
	completed := obs.State == "HALT"
	zran := false
	for _, h := range obs.Callees {
		if h == env.Z.Hash.StringLE() {
			zran = true
		}
	}
	// the specification evaluated directly: intersection of everything asked for along the chain
	g := 15
	for _, op := range in.Ops {
		g &= op[0]
		if op[1] == 1 {
			g &^= 10
		}
		if op[1] == 2 {
			g &= 5
		}
	}
	g &= in.Final[0]
	if in.Final[1] == 13 || in.Final[1] == 14 {
		g &^= 10
	}
	if obs.Wrote && g&2 == 0 {
		co.violation("chain", fmt.Sprintf("storage changed at the end of a chain whose flags intersect to %04b", g), in, obs)
	}
	if obs.Notified && g&8 == 0 {
		co.violation("chain", fmt.Sprintf("event emitted at the end of a chain whose flags intersect to %04b", g), in, obs)
	}
	if zran && g&4 == 0 {
		co.violation("chain", fmt.Sprintf("contract called at the end of a chain whose flags intersect to %04b", g), in, obs)
	}
	hops := make([]string, len(in.Ops))
	for i, op := range in.Ops {
		hops[i] = fmt.Sprintf("(%d, %d)", op[0], op[1])
	}
	tag := fmt.Sprintf("len%d/%s", len(in.Ops), c16Finals[in.Final[1]])
	if completed {
		tag += "/halt"
	} else {
		tag += "/fault"
	}
	co.add("chain", tag, g != 15 && g != 0, in, obs, fmt.Sprintf("CChain %s %d %d %s %s %s %s", coqList(hops), in.Final[0], in.Final[1],
		coqBool(completed), coqBool(obs.Wrote), coqBool(obs.Notified), coqBool(zran)))
}

// ---------- permissions ----------

type c16Perm struct {
	D string   `json:"d"` // "*", "h<i>", "g<j>"
	M []string `json:"m"` // nil = wildcard
}
type c16Callee struct {
	Hash   int   `json:"hash"`   // index into the hash universe
	Groups []int `json:"groups"` // indices into the group universe
}
type c16PermIn struct {
	Ops    []c16Perm `json:"ops"` // the permission list (named "ops" so that ./check can shrink it)
	Callee c16Callee `json:"callee"`
	Method string    `json:"method"`
	Safe   bool      `json:"safe,omitempty"`
	// permcall: run on the node restarted from the same DB; permstored: 1 = every Permission/Group/Method through
	// ToStackItem/FromStackItem, 2 = whole manifests through ToStackItem/FromStackItem, 3 = whole contract states
	// through stackitem.SerializeConvertible/DeserializeConvertible (the form kept in the DAO)
	Reopened bool `json:"reopened,omitempty"`
	Form     int  `json:"form,omitempty"`
}
type c16PermOut struct {
	Allowed bool `json:"allowed"`
	F6Shape bool `json:"f6_shape,omitempty"`
}

var c16PermDescs = []string{"*", "h0", "h1", "h2", "g0", "g1"}
var c16PermMethods = [][]string{nil, {}, {"a"}, {"b"}, {"a", "b"}}

func c16HashU(i int) util.Uint160 { return util.Uint160{0xc0, byte(i + 1)} }

func (env *c16Env) mkPerm(p c16Perm, onChain bool) manifest.Permission {
	var mp *manifest.Permission
	switch p.D[0] {
	case '*':
		mp = manifest.NewPermission(manifest.PermissionWildcard)
	case 'h':
		i := int(p.D[1] - '0')
		h := c16HashU(i)
		if onChain {
			h = env.callees[i].Hash
		}
		mp = manifest.NewPermission(manifest.PermissionHash, h)
	default:
		mp = manifest.NewPermission(manifest.PermissionGroup, c16Key(int(p.D[1]-'0')).PublicKey())
	}
	if p.M != nil {
		mp.Methods.Value = append([]string{}, p.M...)
	}
	return *mp
}

func c16CoqPerm(p c16Perm) string {
	d := "DWild"
	switch p.D[0] {
	case 'h':
		d = fmt.Sprintf("(DHash %d)", int(p.D[1]-'0')+1)
	case 'g':
		d = fmt.Sprintf("(DGroup %d)", int(p.D[1]-'0')+1)
	}
	m := "MWild"
	if p.M != nil {
		xs := make([]string, len(p.M))
		for i, s := range p.M {
			xs[i] = coqStr(s) + "%string"
		}
		m = "(MList " + coqList(xs) + ")"
	}
	return fmt.Sprintf("(mk_perm %s %s)", d, m)
}

func c16CoqCallee(c c16Callee) string {
	gs := make([]string, len(c.Groups))
	for i, g := range c.Groups {
		gs[i] = fmt.Sprint(g + 1)
	}
	return fmt.Sprintf("(mk_callee %d %s)", c.Hash+1, coqList(gs))
}

// the shape of finding F6: allowed although no permission matches callee AND method, while some group permission with
// an explicit method list matches the callee's group and lacks the method
func c16F6Shape(in c16PermIn, allowed bool) bool {
	if !allowed || in.Safe {
		return false
	}
	inGroup := func(g int) bool {
		for _, x := range in.Callee.Groups {
			if x == g {
				return true
			}
		}
		return false
	}
	has := func(ms []string) bool {
		if ms == nil {
			return true
		}
		for _, m := range ms {
			if m == in.Method {
				return true
			}
		}
		return false
	}
	culprit := false
	for _, p := range in.Ops {
		match := p.D == "*" || (p.D[0] == 'h' && int(p.D[1]-'0') == in.Callee.Hash) || (p.D[0] == 'g' && inGroup(int(p.D[1]-'0')))
		if match && has(p.M) {
			return false // legitimately allowed
		}
		if p.D[0] == 'g' && match && !has(p.M) {
			culprit = true
		}
	}
	return culprit
}

func (env *c16Env) runPerm(co *caseOut, kind string, in c16PermIn) {
	cm := manifest.NewManifest("callee")
	for _, g := range in.Callee.Groups {
		cm.Groups = append(cm.Groups, manifest.Group{PublicKey: c16Key(g).PublicKey()})
	}
	h := c16HashU(in.Callee.Hash)
	var allowed bool
	var term string
	ps := make([]string, len(in.Ops))
	for i, p := range in.Ops {
		ps[i] = c16CoqPerm(p)
	}
	if kind == "perm1" {
		p := env.mkPerm(in.Ops[0], false)
		if pn := catch(func() { allowed = p.IsAllowed(h, cm, in.Method) }); pn != "" {
			co.violation(kind, "panic: "+pn, in, nil)
			return
		}
		term = fmt.Sprintf("CPerm1 %s %s %s%%string %s", ps[0], c16CoqCallee(in.Callee), coqStr(in.Method), coqBool(allowed))
	} else {
		m := manifest.NewManifest("caller")
		for _, p := range in.Ops {
			m.Permissions = append(m.Permissions, env.mkPerm(p, false))
		}
		if pn := catch(func() { allowed = m.CanCall(h, cm, in.Method) }); pn != "" {
			co.violation(kind, "panic: "+pn, in, nil)
			return
		}
		term = fmt.Sprintf("CPerm %s %s %s%%string %s", coqList(ps), c16CoqCallee(in.Callee), coqStr(in.Method), coqBool(allowed))
	}
	nontriv := false
	for _, p := range in.Ops {
		if p.D != "*" || p.M != nil {
			nontriv = true
		}
	}
	tag := "deny"
	if allowed {
		tag = "allow"
	}
	co.add(kind, fmt.Sprintf("%dperm/%s", len(in.Ops), tag), nontriv, in, c16PermOut{allowed, c16F6Shape(in, allowed)}, term)
}

// real call: a deployed caller whose manifest carries the permissions calls method m of a deployed callee
func (env *c16Env) ensurePermContracts() (err error) {
	if env.callees != nil {
		return nil
	}
	defer func() {
		if r := recover(); r != nil {
			err = fmt.Errorf("perm contracts: %v", r)
		}
	}()
	env.pcDir, err = os.MkdirTemp("", "auth-c16-db-")
	if err != nil {
		return err
	}
	if env.pc, err = c16NewChainAt(env.pcDir); err != nil {
		return err
	}
	env.pcDirty = true
	ret := []byte{byte(opcode.RET)}
	groups := [][]*keys.PrivateKey{{c16Key(0)}, {c16Key(0), c16Key(1)}, {}}
	for i, gs := range groups {
		ct, err := env.pc.deploy(c16ContractSpec{Name: fmt.Sprintf("C%d", i), Groups: gs, Methods: []c16Method{
			{Name: "a", Void: true, Body: ret}, {Name: "b", Void: true, Body: ret}, {Name: "c", Void: true, Body: ret},
			{Name: "s", Void: true, Safe: true, Body: ret}}})
		if err != nil {
			return err
		}
		env.callees = append(env.callees, ct)
	}
	return nil
}

var c16CalleeGroups = [][]int{{0}, {0, 1}, {}}

func (env *c16Env) callerFor(perms []c16Perm) (*neotest.Contract, error) {
	kb, _ := json.Marshal(perms)
	if ct, ok := env.callers[string(kb)]; ok {
		return ct, nil
	}
	var ps []manifest.Permission
	for _, p := range perms {
		ps = append(ps, env.mkPerm(p, true))
	}
	ct, err := env.pc.deploy(c16ContractSpec{Name: fmt.Sprintf("K%d", len(env.callers)), Perms: ps, Methods: []c16Method{
		{Name: "fwd", NParams: 4, Body: c16SyscallBody(interopnames.SystemContractCall, false)}}})
	if err != nil {
		return nil, err
	}
	env.pcDirty = true
	env.callers[string(kb)] = ct
	return ct, nil
}

func (env *c16Env) runPermCall(co *caseOut, in c16PermIn) {
	if err := env.ensurePermContracts(); err != nil {
		co.violation("permcall", "harness: "+err.Error(), in, nil)
		return
	}
	if in.Callee.Hash < 0 || in.Callee.Hash >= len(env.callees) {
		return
	}
	in.Callee.Groups = c16CalleeGroups[in.Callee.Hash]
	in.Safe = in.Method == "s"
	k, err := env.callerFor(in.Ops)
	if err != nil {
		co.violation("permcall", "harness: "+err.Error(), in, nil)
		return
	}
	if env.pcBroken {
		return
	}
	if in.Reopened && (env.pcDirty || !env.pcReopened) {
		// restart the node: close (persists and closes the DB), open a new Blockchain over the same directory
		if err := env.reopenPerm(); err != nil {
			msg := err.Error()
			if i := strings.Index(msg, "Error:"); i >= 0 {
				msg = strings.Join(strings.Fields(msg[i:]), " ")
			}
			if len(msg) > 300 {
				msg = msg[:300]
			}
			co.violation("permcall", "the node cannot be restarted from the DB it wrote (contract states are rebuilt from their stored form): "+msg, in, nil)
			env.pcBroken = true
			return
		}
	}
	callee := env.callees[in.Callee.Hash]
	script := c16Code(func(w *io.BinWriter) { c16EmitCall(w, k.Hash, "fwd", 15, callee.Hash, in.Method, 15, []any{}) })
	obs, _ := env.pc.invoke(script, env.signers, k.Hash, 2, trigger.Application, callflag.All, false)
	halted := obs.State == "HALT"
	if !halted && !strings.Contains(obs.Fault, "disallowed method call") {
		co.violation("permcall", "unexpected fault of the cross-contract call (neither HALT nor a permission refusal): "+obs.Fault, in, obs)
		return
	}
	ran := false
	for _, h := range obs.Callees {
		if h == callee.Hash.StringLE() {
			ran = true
		}
	}
	if ran != halted {
		co.violation("permcall", "callee ran although the call was refused (or did not run although it halted)", in, obs)
	}
	ps := make([]string, len(in.Ops))
	for i, p := range in.Ops {
		ps[i] = c16CoqPerm(p)
	}
	tag := "fault"
	if halted {
		tag = "halt"
	}
	if in.Reopened {
		tag += "/reopened"
	}
	co.add("permcall", fmt.Sprintf("%dperm/%s", len(in.Ops), tag), !in.Safe, in, c16PermOut{halted, c16F6Shape(in, halted)},
		fmt.Sprintf("CPermCall %s %s %s%%string %s %s", coqList(ps), c16CoqCallee(in.Callee), coqStr(in.Method), coqBool(in.Safe), coqBool(halted)))
}

func (env *c16Env) reopenPerm() (err error) {
	defer func() {
		if r := recover(); r != nil {
			err = fmt.Errorf("%v", r)
		}
	}()
	h := env.pc.bc.BlockHeight()
	env.pc.close()
	if env.pc, err = c16NewChainAt(env.pcDir); err != nil {
		return err
	}
	if env.pc.bc.BlockHeight() != h {
		return fmt.Errorf("height %d after restart, %d before", env.pc.bc.BlockHeight(), h)
	}
	env.pcDirty, env.pcReopened = false, true
	return nil
}

func (env *c16Env) closePerm() {
	if env.pc != nil && !env.pcBroken {
		catch(func() { env.pc.close() })
	}
	if env.pcDir != "" {
		os.RemoveAll(env.pcDir)
	}
}

// ---------- stored form ----------

// the real item of a permission as a term of Auth/PermStore.v sitem
func c16CoqItem(it stackitem.Item) string {
	str, ok := it.Value().([]stackitem.Item)
	if it.Type() != stackitem.StructT || !ok {
		return "(SStruct [])"
	}
	parts := make([]string, len(str))
	for i, x := range str {
		switch {
		case x.Type() == stackitem.AnyT:
			parts[i] = "SNull"
		case x.Type() == stackitem.ByteArrayT && i == 0:
			b, _ := x.TryBytes()
			id := 0
			for j := 0; j < 3; j++ {
				if len(b) == 20 && string(b) == string(c16HashU(j).BytesBE()) {
					id = j + 1
				}
			}
			for j := 0; j < 2; j++ {
				if string(b) == string(c16Key(j).PublicKey().Bytes()) {
					id = j + 1
				}
			}
			parts[i] = fmt.Sprintf("(SBytes %d %d)", len(b), id)
		case x.Type() == stackitem.ArrayT:
			var ms []string
			for _, y := range x.Value().([]stackitem.Item) {
				b, err := y.TryBytes()
				if err != nil || y.Type() != stackitem.ByteArrayT {
					ms = append(ms, "SNull")
				} else {
					ms = append(ms, "(SStr "+coqStr(string(b))+"%string)")
				}
			}
			parts[i] = "(SArray " + coqList(ms) + ")"
		default:
			parts[i] = "(SStruct [])"
		}
	}
	return "(SStruct " + coqList(parts) + ")"
}

func (env *c16Env) runPermItem(co *caseOut, in c16PermIn) {
	if len(in.Ops) != 1 {
		return
	}
	p := env.mkPerm(in.Ops[0], false)
	var it stackitem.Item
	if pn := catch(func() { it = p.ToStackItem() }); pn != "" {
		co.violation("permitem", "panic: "+pn, in, nil)
		return
	}
	term := c16CoqItem(it)
	co.add("permitem", in.Ops[0].D[:1], true, in, term, fmt.Sprintf("CPermItem %s %s", c16CoqPerm(in.Ops[0]), term))
}

func c16RT[T any, P interface {
	*T
	ToStackItem() stackitem.Item
	FromStackItem(stackitem.Item) error
}](x P) (*T, error) {
	y := P(new(T))
	if err := y.FromStackItem(x.ToStackItem()); err != nil {
		return nil, err
	}
	return (*T)(y), nil
}

// the callInternal decision taken on the STORED forms of caller and callee, to be compared with the model's answer
// for the original permissions
func (env *c16Env) runPermStored(co *caseOut, in c16PermIn) {
	in.Safe = in.Method == "s"
	ret := []byte{byte(opcode.RET)}
	var gk []*keys.PrivateKey
	for _, g := range in.Callee.Groups {
		gk = append(gk, c16Key(g))
	}
	key := fmt.Sprint(in.Callee.Hash, in.Callee.Groups)
	if env.stCallee == nil {
		env.stCallee = map[string]*state.Contract{}
	}
	callee, ok := env.stCallee[key]
	if !ok {
		ct := c16Build(util.Uint160{1}, c16ContractSpec{Name: "callee", Groups: gk, Methods: []c16Method{
			{Name: "a", Void: true, Body: ret}, {Name: "b", Void: true, Body: ret}, {Name: "c", Void: true, Body: ret},
			{Name: "s", Void: true, Safe: true, Body: ret}}})
		callee = &state.Contract{ContractBase: state.ContractBase{ID: 7, Hash: c16HashU(in.Callee.Hash), NEF: *ct.NEF, Manifest: *ct.Manifest}}
		env.stCallee[key] = callee
	}
	var ps []manifest.Permission
	for _, p := range in.Ops {
		ps = append(ps, env.mkPerm(p, false))
	}
	kt := c16Build(util.Uint160{2}, c16ContractSpec{Name: "caller", Perms: ps, Methods: []c16Method{{Name: "x", Void: true, Body: ret}}})
	caller := &state.Contract{ContractBase: state.ContractBase{ID: 8, Hash: kt.Hash, NEF: *kt.NEF, Manifest: *kt.Manifest}}

	var callerM, calleeM *manifest.Manifest
	calleeH := callee.Hash
	var err error
	fail := func(what string, e error) {
		co.violation("permstored", fmt.Sprintf("stored form cannot be read back (%s): %v", what, e), in, nil)
	}
	pn := catch(func() {
		switch in.Form {
		case 1:
			cm, km := callee.Manifest, caller.Manifest
			km.Permissions = make([]manifest.Permission, len(caller.Manifest.Permissions))
			for i := range caller.Manifest.Permissions {
				var q *manifest.Permission
				if q, err = c16RT(&caller.Manifest.Permissions[i]); err != nil {
					return
				}
				km.Permissions[i] = *q
			}
			cm.Groups = make([]manifest.Group, len(callee.Manifest.Groups))
			for i := range callee.Manifest.Groups {
				var g *manifest.Group
				if g, err = c16RT(&callee.Manifest.Groups[i]); err != nil {
					return
				}
				cm.Groups[i] = *g
			}
			cm.ABI.Methods = make([]manifest.Method, len(callee.Manifest.ABI.Methods))
			for i := range callee.Manifest.ABI.Methods {
				var md *manifest.Method
				if md, err = c16RT(&callee.Manifest.ABI.Methods[i]); err != nil {
					return
				}
				cm.ABI.Methods[i] = *md
			}
			callerM, calleeM = &km, &cm
		case 2:
			for _, pr := range []struct {
				src *manifest.Manifest
				dst **manifest.Manifest
			}{{&caller.Manifest, &callerM}, {&callee.Manifest, &calleeM}} {
				var it stackitem.Item
				if it, err = pr.src.ToStackItem(); err != nil {
					return
				}
				m := new(manifest.Manifest)
				if err = m.FromStackItem(it); err != nil {
					return
				}
				*pr.dst = m
			}
		default:
			var out [2]*state.Contract
			for i, src := range []*state.Contract{caller, callee} {
				var b []byte
				if b, err = stackitem.SerializeConvertible(src); err != nil {
					return
				}
				out[i] = new(state.Contract)
				if err = stackitem.DeserializeConvertible(b, out[i]); err != nil {
					return
				}
			}
			callerM, calleeM, calleeH = &out[0].Manifest, &out[1].Manifest, out[1].Hash
		}
	})
	if pn != "" {
		co.violation("permstored", "panic in the stored-form round trip: "+pn, in, nil)
		return
	}
	if err != nil {
		fail(fmt.Sprintf("form %d", in.Form), err)
		return
	}
	md := calleeM.ABI.GetMethod(in.Method, 0)
	if md == nil {
		fail("method lost", errors.New(in.Method))
		return
	}
	if md.Safe != in.Safe {
		co.violation("permstored", fmt.Sprintf("safe flag of method %q changed in the stored form: %v", in.Method, md.Safe), in, nil)
	}
	var permitted bool
	if pn := catch(func() { permitted = md.Safe || callerM.CanCall(calleeH, calleeM, md.Name) }); pn != "" {
		co.violation("permstored", "panic when the permission check runs on the stored form: "+pn, in, nil)
		return
	}
	ps2 := make([]string, len(in.Ops))
	for i, p := range in.Ops {
		ps2[i] = c16CoqPerm(p)
	}
	tag := "deny"
	if permitted {
		tag = "allow"
	}
	co.add("permstored", fmt.Sprintf("form%d/%dperm/%s", in.Form, len(in.Ops), tag), !in.Safe, in, c16PermOut{permitted, c16F6Shape(in, permitted)},
		fmt.Sprintf("CPermStored %d %s %s %s%%string %s %s", in.Form, coqList(ps2), c16CoqCallee(in.Callee), coqStr(in.Method), coqBool(in.Safe), coqBool(permitted)))
}

// ---------- driver ----------

func c16AllPerms() []c16Perm {
	var out []c16Perm
	for _, d := range c16PermDescs {
		for _, m := range c16PermMethods {
			out = append(out, c16Perm{d, m})
		}
	}
	return out
}

func c16AllCallees() []c16Callee {
	var out []c16Callee
	for h := 0; h < 3; h++ {
		for _, g := range [][]int{{}, {0}, {1}, {0, 1}} {
			out = append(out, c16Callee{h, g})
		}
	}
	return out
}

func runC16(cmd string, args []string) error {
	cf, fs := parseCommon(cmd, args)
	only := fs.String("only", "", "comma-separated kinds to run (default all)")
	fs.Parse(args)
	co := newCaseOut(cf.out, "Harness.C16", "N",
		"sys/native: every table entry under each of the 16 flag sets (natives also through a contract caller); a case is non-trivial when the flag gate let the call through; "+
			"chain: non-trivial when the flags along the chain intersect to neither nothing nor everything; perm*: non-trivial when some permission is not the plain wildcard; distinct by Coq term")
	env, err := c16Setup()
	if err != nil {
		return err
	}
	defer env.c.close()
	defer env.closePerm()
	defer func() {
		if env.hc != nil {
			env.hc.close()
		}
		if c16SelfInst != nil {
			c16SelfInst.c.close()
		}
	}()
	want := func(k string) bool { return *only == "" || strings.Contains(","+*only+",", ","+k+",") }

	if cf.replay != "" {
		cases, err := readReplay(cf.replay)
		if err != nil {
			return err
		}
		for _, c := range cases {
			var x struct {
				Kind  string          `json:"kind"`
				Input json.RawMessage `json:"input"`
			}
			if err := json.Unmarshal(c, &x); err != nil {
				return err
			}
			switch x.Kind {
			case "sys":
				var in c16SysIn
				json.Unmarshal(x.Input, &in)
				env.runSys(co, in)
			case "native":
				var in c16NatIn
				json.Unmarshal(x.Input, &in)
				env.runNative(co, in)
			case "chain":
				var in c16ChainIn
				json.Unmarshal(x.Input, &in)
				env.runChain(co, in)
			case "perm1", "perm":
				var in c16PermIn
				json.Unmarshal(x.Input, &in)
				if len(in.Ops) == 0 && x.Kind == "perm1" {
					continue
				}
				env.runPerm(co, x.Kind, in)
			case "permcall":
				var in c16PermIn
				json.Unmarshal(x.Input, &in)
				env.runPermCall(co, in)
			case "overload":
				var in c16OvlIn
				json.Unmarshal(x.Input, &in)
				env.runOverload(co, in)
			case "selfcall":
				var in c16SelfIn
				json.Unmarshal(x.Input, &in)
				env.runSelfCall(co, in)
			case "nativest":
				var in c16NatStIn
				json.Unmarshal(x.Input, &in)
				env.runNativeSt(co, in)
			case "blocked":
				var in c16BlockedIn
				json.Unmarshal(x.Input, &in)
				env.runBlocked(co, in)
			case "callback":
				var in c16CbIn
				json.Unmarshal(x.Input, &in)
				env.runCallback(co, in)
			case "callt":
				var in c16CallTIn
				json.Unmarshal(x.Input, &in)
				env.runCallT(co, in)
			case "calltperm":
				var in c16PermIn
				json.Unmarshal(x.Input, &in)
				env.runCallTPerm(co, in)
			case "permitem":
				var in c16PermIn
				json.Unmarshal(x.Input, &in)
				env.runPermItem(co, in)
			case "permstored":
				var in c16PermIn
				json.Unmarshal(x.Input, &in)
				if in.Form < 1 || in.Form > 3 {
					in.Form = 3
				}
				env.runPermStored(co, in)
			default:
				return fmt.Errorf("unknown kind %q", x.Kind)
			}
		}
		return co.finish()
	}

	r := newRng(cf.seed)
	thorough := cf.tier == "thorough"
	all16 := make([]int, 16)
	for i := range all16 {
		all16[i] = i
	}
	ex := cmd == "c16" // exhaustive part
	// (i) flag sweeps: exhaustive
	if ex && want("sys") {
		for _, f := range c16Interops() {
			for fl := 0; fl < 16; fl++ {
				env.runSys(co, c16SysIn{Name: f.Name, Flags: fl})
			}
		}
		// the block-trigger system calls: the node loads the persist scripts with callflag.All and nothing else can run
		// them (trigger check), so the reachable frames are f = All; the f without States are run too (refusal)
		for fl := 0; fl < 16; fl++ {
			if fl&3 == 3 && fl != 15 {
				continue
			}
			env.runSys(co, c16SysIn{Name: interopnames.SystemContractNativeOnPersist, Flags: fl, Trig: "onpersist"})
			env.runSys(co, c16SysIn{Name: interopnames.SystemContractNativePostPersist, Flags: fl, Trig: "postpersist"})
		}
	}
	if ex && want("native") {
		for _, m := range c16NativeMethods(config.HFLatestKnown) {
			for _, via := range []string{"entry", "proxy"} {
				for fl := 0; fl < 16; fl++ {
					env.runNative(co, c16NatIn{Contract: m.Contract, Method: m.Name, Arity: m.Arity, Flags: fl, Via: via})
				}
			}
		}
	}
	// chains: all of length 0 and 1 (thorough: also length 2 over the flag sets that matter); random longer ones in c16r
	finals := []int{10, 11, 12, 13, 14}
	if ex && want("chain") {
		for ff := 0; ff < 16; ff++ {
			for _, fin := range finals {
				env.runChain(co, c16ChainIn{Final: [2]int{ff, fin}})
			}
		}
		for r1 := 0; r1 < 16; r1++ {
			for k := 0; k < 3; k++ {
				for ff := 0; ff < 16; ff++ {
					for _, fin := range finals {
						env.runChain(co, c16ChainIn{Ops: [][2]int{{r1, k}}, Final: [2]int{ff, fin}})
					}
				}
			}
		}
		if thorough {
			fl := []int{5, 7, 13, 15, 3, 10}
			for _, r1 := range fl {
				for k1 := 0; k1 < 3; k1++ {
					for _, r2 := range fl {
						for k2 := 0; k2 < 3; k2++ {
							for _, ff := range fl {
								for _, fin := range finals {
									env.runChain(co, c16ChainIn{Ops: [][2]int{{r1, k1}, {r2, k2}}, Final: [2]int{ff, fin}})
								}
							}
						}
					}
				}
			}
		}
	}
	// CALLT: every frame flag set x every token flag set x every final method (1536), and the restricted callers
	if ex && want("callt") {
		for _, fin := range c16FinalOrder {
			for tf := 0; tf < 16; tf++ {
				for fl := 0; fl < 16; fl++ {
					env.runCallT(co, c16CallTIn{Flags: fl, TF: tf, Final: fin})
				}
			}
		}
		for _, tp := range c16TokPerms {
			for _, fin := range c16FinalOrder {
				env.runCallTPerm(co, c16PermIn{Ops: []c16Perm{tp}, Method: c16Finals[fin]})
			}
		}
	}
	// state-dependent paths of the gates: (a) each native method on the fee whitelist (fee 0 and > 0), called by the
	// entry script and by a contract; (b) the method tables of every hard-fork on a chain where hard-fork k activates
	// at height 3k; (c) a blocked contract; (d) the proxy's system-call methods on the fee whitelist.
	// quick: the flag sets that discriminate each method's gate; thorough: all 16
	if ex && want("nativest") {
		latest := int(config.HFLatestKnown)
		flagsFor := func(req int) []int {
			if thorough {
				return all16
			}
			return c16DiscFlags(req)
		}
		for _, m := range c16NativeMethods(config.HFLatestKnown) {
			for _, wl := range []int{1, 2} {
				for _, via := range []string{"entry", "proxy"} {
					if !thorough && wl == 2 && via == "proxy" {
						continue
					}
					for _, fl := range flagsFor(int(m.Flags)) {
						env.runNativeSt(co, c16NatStIn{Contract: m.Contract, Method: m.Name, Arity: m.Arity, Flags: fl, Via: via, HF: latest, WL: wl})
					}
				}
			}
		}
		for hf := 0; hf < latest; hf++ {
			for _, m := range c16NativeMethods(config.Hardfork(hf)) {
				for _, fl := range flagsFor(int(m.Flags)) {
					env.runNativeSt(co, c16NatStIn{Contract: m.Contract, Method: m.Name, Arity: m.Arity, Flags: fl, Via: "entry", HF: hf})
				}
			}
		}
		for _, sh := range []string{"direct", "nested", "payment"} {
			env.runBlocked(co, c16BlockedIn{Shape: sh})
		}
	}
	if ex && want("sys") {
		for _, f := range c16Interops() {
			for _, wl := range []int{1, 2} {
				fls := c16DiscFlags(int(f.RequiredFlags))
				if thorough {
					fls = all16
				}
				for _, fl := range fls {
					env.runSys(co, c16SysIn{Name: f.Name, Flags: fl, WL: wl})
				}
			}
		}
	}
	// overloads m/1, m/2 (one safe, one not, both ABI orders) x probe x overload called x {Contract.Call, CALLT} x caller
	// permission x flags
	if ex && want("overload") {
		for order := 0; order < 2; order++ {
			for probe := 1; probe <= 3; probe++ {
				for ar := 1; ar <= 2; ar++ {
					for _, via := range []string{"call", "callt"} {
						for caller := 0; caller < 3; caller++ {
							for _, fl := range []int{15, 7, 13, 5} {
								env.runOverload(co, c16OvlIn{Order: order, Probe: probe, Arity: ar, Via: via, Caller: caller, Flags: fl})
							}
						}
					}
				}
			}
		}
	}
	// the executing contract updates / destroys itself (or deploys the callee) and then calls, before and after Domovoi
	if ex && want("selfcall") {
		for stage := 0; stage <= 1; stage++ {
			for _, hp := range []string{"HW", "HN"} {
				for _, m := range []string{"a", "b", "s"} {
					for _, act := range []string{"none", "update", "destroy"} {
						for _, via := range []string{"call", "callt"} {
							env.runSelfCall(co, c16SelfIn{Stage: stage, Helper: hp, Action: act, Via: via, Method: m})
						}
					}
					env.runSelfCall(co, c16SelfIn{Stage: stage, Helper: hp, Action: "deploy", Via: "call", Method: m})
				}
			}
		}
	}
	// native -> contract callbacks: every path x 4 capability probes x 16 flag sets of the native's frame
	if ex && want("callback") {
		for _, path := range c16CbPaths {
			for probe := 0; probe < 4; probe++ {
				for fl := 0; fl < 16; fl++ {
					env.runCallback(co, c16CbIn{Path: path, Flags: fl, Probe: probe})
				}
			}
		}
	}
	if !ex && want("chain") {
		for i := 0; i < cf.n; i++ {
			n := 2 + r.intn(3)
			var ops [][2]int
			for j := 0; j < n; j++ {
				fl := 15
				if r.chance(60) {
					fl = pick(r, []int{5, 7, 13, 15, 15, 3, 11, 14, 12})
				}
				if r.chance(10) {
					fl = r.intn(16)
				}
				k := 0
				if r.chance(25) {
					k = 1 + r.intn(2)
				}
				ops = append(ops, [2]int{fl, k})
			}
			env.runChain(co, c16ChainIn{Ops: ops, Final: [2]int{pick(r, []int{15, 15, 7, 13, 11, 2, 8, 4, r.intn(16)}), pick(r, finals)}})
		}
	}
	// (ii) permissions
	perms := c16AllPerms()
	callees := c16AllCallees()
	if ex && want("perm1") {
		for _, p := range perms {
			for _, c := range callees {
				for _, m := range []string{"a", "b", "c"} {
					env.runPerm(co, "perm1", c16PermIn{Ops: []c16Perm{p}, Callee: c, Method: m})
				}
			}
		}
	}
	if want("perm") {
		if ex {
			for _, c := range callees {
				env.runPerm(co, "perm", c16PermIn{Ops: []c16Perm{}, Callee: c, Method: "a"})
			}
			if thorough { // all pairs with distinct descriptors
				for _, p1 := range perms {
					for _, p2 := range perms {
						if p1.D >= p2.D {
							continue
						}
						for _, c := range callees {
							for _, m := range []string{"a", "b", "c"} {
								env.runPerm(co, "perm", c16PermIn{Ops: []c16Perm{p1, p2}, Callee: c, Method: m})
							}
						}
					}
				}
			}
		} else {
			for i := 0; i < cf.n*4; i++ {
				p1, p2 := pick(r, perms), pick(r, perms)
				if p1.D == p2.D {
					continue
				}
				env.runPerm(co, "perm", c16PermIn{Ops: []c16Perm{p1, p2}, Callee: pick(r, callees), Method: pick(r, []string{"a", "b", "c"})})
			}
			for i := 0; i < cf.n*2; i++ {
				ds := append([]string{}, c16PermDescs...)
				for j := len(ds) - 1; j > 0; j-- {
					q := r.intn(j + 1)
					ds[j], ds[q] = ds[q], ds[j]
				}
				var ps []c16Perm
				for _, d := range ds[:3+r.intn(3)] {
					ps = append(ps, c16Perm{d, pick(r, c16PermMethods)})
				}
				env.runPerm(co, "perm", c16PermIn{Ops: ps, Callee: pick(r, callees), Method: pick(r, []string{"a", "b", "c"})})
			}
		}
	}
	if ex && want("permitem") {
		for _, p := range perms {
			env.runPermItem(co, c16PermIn{Ops: []c16Perm{p}})
		}
	}
	if ex && want("permstored") {
		// the decision of callInternal taken on the stored forms: every single permission x callee x method x 3 forms
		for form := 1; form <= 3; form++ {
			for _, p := range perms {
				for _, c := range callees {
					for _, m := range []string{"a", "b", "c", "s"} {
						env.runPermStored(co, c16PermIn{Ops: []c16Perm{p}, Callee: c, Method: m, Form: form})
					}
				}
			}
			for _, c := range callees {
				env.runPermStored(co, c16PermIn{Ops: []c16Perm{}, Callee: c, Method: "a", Form: form})
			}
		}
	}
	if !ex && want("permstored") {
		for i := 0; i < cf.n*2; i++ {
			ds := append([]string{}, c16PermDescs...)
			for j := len(ds) - 1; j > 0; j-- {
				q := r.intn(j + 1)
				ds[j], ds[q] = ds[q], ds[j]
			}
			var ps []c16Perm
			for _, d := range ds[:2+r.intn(3)] {
				ps = append(ps, c16Perm{d, pick(r, c16PermMethods)})
			}
			env.runPermStored(co, c16PermIn{Ops: ps, Callee: pick(r, callees), Method: pick(r, []string{"a", "b", "c", "s"}), Form: 1 + r.intn(3)})
		}
	}
	if ex && want("permcall") {
		// every single permission as the whole manifest of a deployed caller x the three deployed callees x methods;
		// then the same calls on the node restarted from the same DB
		var done []c16PermIn
		for _, p := range perms {
			for h := 0; h < 3; h++ {
				for _, m := range []string{"a", "b", "c", "s"} {
					in := c16PermIn{Ops: []c16Perm{p}, Callee: c16Callee{Hash: h}, Method: m}
					env.runPermCall(co, in)
					done = append(done, in)
				}
			}
		}
		for _, in := range done {
			in.Reopened = true
			env.runPermCall(co, in)
		}
	}
	if !ex && want("permcall") {
		var later []c16PermIn
		for i := 0; i < cf.n/4+2; i++ {
			p1, p2 := pick(r, perms), pick(r, perms)
			if p1.D == p2.D {
				continue
			}
			for h := 0; h < 3; h++ {
				in := c16PermIn{Ops: []c16Perm{p1, p2}, Callee: c16Callee{Hash: h}, Method: pick(r, []string{"a", "b", "c", "s"})}
				env.runPermCall(co, in)
				later = append(later, in)
			}
		}
		for _, in := range later {
			in.Reopened = true
			env.runPermCall(co, in)
		}
	}
	co.extra["exhaustive"] = ex && *only == ""
	if ex {
		co.extra["x_universe"] = "sys: all system calls of the table x 16 flag sets (block-trigger calls: the node's flag set and the refused ones); native: all methods (latest hard-fork set) x 16 flag sets x {called by the entry script, called by a contract}; " +
			"overload: callees with m/1 and m/2 (one safe, one not, both ABI orders) x 3 capability probes x overload called x {Contract.Call, CALLT} x caller permission {none, wildcard, explicit} x 4 flag sets; selfcall: {before, after Domovoi} x {narrow->wide, wide->narrow permissions} x {no change, update self, destroy self, deploy the callee} x {System.Contract.Call, CALLT} x {permitted, not permitted, safe method}; nativest: every native method on the Policy fee whitelist (fee 0 / 7; called by entry and by a contract) and every method of every older hard-fork table on a chain staged through the hard-forks, under the flag sets that discriminate its gate (thorough: all 16); the proxy's system-call methods whitelisted; calls into a blocked contract; callback: 8 native->contract callback paths (GAS/NEO transfer, vote, blockAccount, destroy, deploy, update, Notary deposit) x 4 capability probes x 16 flag sets; chain: all chains of length 0 and 1 (16 x 3 hop kinds x 16 x 5 finals); callt: 16 frame flag sets x 16 token flag sets x 6 final methods through the CALLT opcode, and 5 restricted-permission CALLT callers x 6 methods; perm1: 6 descriptors x 5 method lists x 12 callees x 3 methods; permitem: the 30 permissions' real stack items; permstored: 30 permissions x 12 callees x 4 methods x 3 stored forms; permcall: 30 single-permission deployed callers x 3 deployed callees x 4 methods, before and after a node restart over the same LevelDB; " +
			"thorough adds chains of length 2 over 6 flag sets and all pairs of permissions with distinct descriptors"
	}
	co.extra["x_witnessed"] = c16Witnessed(co)
	return co.finish()
}

// which classified effects were actually seen (liveness of the classification list), for the evidence
func c16Witnessed(co *caseOut) map[string][]string {
	seen := map[string]map[string]bool{"w": {}, "n": {}, "c": {}}
	for _, r := range co.recs {
		o, ok := r.Impl.(c16Obs)
		if !ok {
			continue
		}
		var name string
		switch in := r.Input.(type) {
		case c16SysIn:
			name = in.Name
		case c16NatIn:
			name = in.Contract + "." + in.Method
		default:
			continue
		}
		if o.Wrote {
			seen["w"][name] = true
		}
		if o.Notified {
			seen["n"][name] = true
		}
		if o.Called {
			seen["c"][name] = true
		}
	}
	out := map[string][]string{}
	for k, m := range seen {
		for n := range m {
			out[k] = append(out[k], n)
		}
		sort.Strings(out[k])
	}
	return out
}
