package main

// C08 — memory pool invariants. Operation sequences are run on the real mempool.Pool with a stub
// Feer; after every operation the public getters are read, compared with the model inside Coq
// (Harness/C08.v) and the invariant of the property text is also evaluated here on the observable
// projection (direct violations, which end the sequence: at most one, the first, per case).

import (
	"encoding/json"
	"errors"
	"fmt"
	"math/big"
	"math/bits"
	"sort"
	"strings"
	"sync"
	"time"

	"github.com/nspcc-dev/neo-go/pkg/core/mempool"
	"github.com/nspcc-dev/neo-go/pkg/core/native/nativehashes"
	"github.com/nspcc-dev/neo-go/pkg/core/transaction"
	"github.com/nspcc-dev/neo-go/pkg/util"
)

func init() { register("c08", runC08) }

var c08EventCount = map[string]int{}

type c08Tx struct {
	Signers []int   `json:"signers"` // account numbers: 1 = native Notary, >= 2 ordinary
	Sys     int64   `json:"sys"`
	Net     int64   `json:"net"`
	Size    int     `json:"size"` // wanted serialized size (script padded); the real size is what is reported
	High    bool    `json:"high,omitempty"`
	NA      bool    `json:"na,omitempty"`    // NotaryAssisted attribute (a main transaction co-signed by the Notary contract)
	Confl   []int   `json:"confl,omitempty"` // universe indices (< own index) or >= 1000: a foreign hash
	Oracle  *uint64 `json:"oracle,omitempty"`
}

type c08Bal struct {
	P int   `json:"p"`
	S int   `json:"s"`
	V int64 `json:"v"`
}

type c08Op struct {
	Op    string   `json:"op"` // add, remove, verify, has, stale
	I     int      `json:"i"`
	Stale []int    `json:"stale,omitempty"`
	Bal   []c08Bal `json:"bal,omitempty"`
	Fpb   int64    `json:"fpb,omitempty"`
	H     uint32   `json:"h,omitempty"` // stale: the block height the Feer reports from now on (never decreases)
}

type c08Input struct {
	Cap int      `json:"cap"`
	Txs []c08Tx  `json:"txs"`
	Bal []c08Bal `json:"bal"`
	Ops []c08Op  `json:"ops"`
}

type c08Step struct {
	Op     string `json:"op"`
	Res    string `json:"res"`
	Ids    []int  `json:"ids"`
	Keys   []int  `json:"keys"`
	Resent []int  `json:"resent,omitempty"`
}

type c08Impl struct {
	Diag  string    `json:"diag,omitempty"`
	Sizes []int     `json:"sizes"`
	Steps []c08Step `json:"steps"`
}

func c08Account(k int) util.Uint160 {
	switch {
	case k == 0:
		return util.Uint160{}
	case k == 1:
		return nativehashes.Notary
	}
	return util.Uint160{0xAC, byte(k), byte(k >> 8)}
}

func c08ForeignHash(h int) util.Uint256 { return util.Uint256{0xEE, byte(h), byte(h >> 8), 0x77} }

type c08Feer struct {
	bal    map[[2]util.Uint160]int64
	fpb    int64
	height uint32
}

func (f *c08Feer) FeePerByte() int64 { return f.fpb }

// as Blockchain.GetUtilityTokenBalance: the deposit of the secondary account when the primary is the Notary
// contract, otherwise the GAS balance of the primary whatever the secondary is
func (f *c08Feer) GetUtilityTokenBalance(p, s util.Uint160) *big.Int {
	if p.Equals(nativehashes.Notary) && !s.Equals(util.Uint160{}) {
		return big.NewInt(f.bal[[2]util.Uint160{p, s}])
	}
	return big.NewInt(f.bal[[2]util.Uint160{p, {}}])
}
func (f *c08Feer) BlockHeight() uint32 { return f.height }
func (f *c08Feer) set(b []c08Bal) {
	f.bal = map[[2]util.Uint160]int64{}
	for _, x := range b {
		f.bal[[2]util.Uint160{c08Account(x.P), c08Account(x.S)}] = x.V
	}
}

// c08Build makes the real transactions of the universe (hashes of earlier ones are needed for Conflicts).
func c08Build(txs []c08Tx) ([]*transaction.Transaction, error) {
	out := make([]*transaction.Transaction, len(txs))
	for i, d := range txs {
		mk := func(pad int) *transaction.Transaction {
			script := make([]byte, 1+pad)
			for j := range script {
				script[j] = 0x21 // NOP
			}
			tx := transaction.New(script, d.Sys)
			tx.Nonce = uint32(i)
			tx.NetworkFee = d.Net
			tx.ValidUntilBlock = 100
			for _, a := range d.Signers {
				tx.Signers = append(tx.Signers, transaction.Signer{Account: c08Account(a)})
				tx.Scripts = append(tx.Scripts, transaction.Witness{InvocationScript: []byte{}, VerificationScript: []byte{}})
			}
			if d.High {
				tx.Attributes = append(tx.Attributes, transaction.Attribute{Type: transaction.HighPriority})
			}
			if d.NA {
				tx.Attributes = append(tx.Attributes, transaction.Attribute{Type: transaction.NotaryAssistedT, Value: &transaction.NotaryAssisted{NKeys: 1}})
			}
			if d.Oracle != nil {
				tx.Attributes = append(tx.Attributes, transaction.Attribute{Type: transaction.OracleResponseT,
					Value: &transaction.OracleResponse{ID: *d.Oracle, Code: transaction.Success, Result: []byte{}}})
			}
			for _, c := range d.Confl {
				var h util.Uint256
				if c >= 1000 {
					h = c08ForeignHash(c)
				} else if c >= 0 && c < i {
					h = out[c].Hash()
				} else {
					return nil
				}
				tx.Attributes = append(tx.Attributes, transaction.Attribute{Type: transaction.ConflictsT, Value: &transaction.Conflicts{Hash: h}})
			}
			return tx
		}
		if len(d.Signers) == 0 || (d.Signers[0] == 1 && len(d.Signers) < 2) {
			return nil, fmt.Errorf("tx %d: bad signers", i)
		}
		tx := mk(0)
		if tx == nil {
			return nil, fmt.Errorf("tx %d: Conflicts must name an earlier transaction or a foreign hash", i)
		}
		pad := 0
		for k := 0; k < 4 && tx.Size() != d.Size; k++ { // pad the script to the wanted size (the var-int prefix may grow once)
			pad += d.Size - tx.Size()
			if pad < 0 {
				tx = mk(0)
				break
			}
			tx = mk(pad)
		}
		out[i] = tx
	}
	return out, nil
}

func c08ErrName(err error) string {
	switch {
	case err == nil:
		return "ok"
	case errors.Is(err, mempool.ErrDup):
		return "EDup"
	case errors.Is(err, mempool.ErrInsufficientFunds):
		return "EInsufficient"
	case errors.Is(err, mempool.ErrConflictsAttribute):
		return "EConflictsAttr"
	case errors.Is(err, mempool.ErrConflict):
		return "EConflict"
	case errors.Is(err, mempool.ErrOracleResponse):
		return "EOracle"
	case errors.Is(err, mempool.ErrOOM):
		return "EOOM"
	}
	return "unknown:" + err.Error()
}

func c08CoqRes(r string) string {
	switch r {
	case "resent":
		return "HResent" // the list is appended by the caller
	case "ok":
		return "HOk"
	case "true", "false":
		return "HBool " + r
	case "panic":
		return "HPanic"
	}
	return "HErr " + r
}

func c08Ints(xs []int) string {
	ss := make([]string, len(xs))
	for i, x := range xs {
		ss[i] = fmt.Sprint(x)
	}
	return "[" + strings.Join(ss, ";") + "]"
}

func c08CoqBal(b []c08Bal) string {
	ss := make([]string, len(b))
	for i, x := range b {
		ss[i] = fmt.Sprintf("((%d,%d),%d)", x.P, x.S, x.V)
	}
	return "[" + strings.Join(ss, ";") + "]"
}

// priority comparison of the property text: HighPriority, then fee per byte, then network fee
func c08Less(d []c08Tx, sizes []int, a, b int) int {
	if d[a].High != d[b].High {
		if d[a].High {
			return 1
		}
		return -1
	}
	fa, fb := d[a].Net/int64(sizes[a]), d[b].Net/int64(sizes[b])
	if fa != fb {
		if fa > fb {
			return 1
		}
		return -1
	}
	switch {
	case d[a].Net > d[b].Net:
		return 1
	case d[a].Net < d[b].Net:
		return -1
	}
	return 0
}

func c08Payer(d c08Tx) [2]int {
	if d.Signers[0] == 1 {
		return [2]int{1, d.Signers[1]}
	}
	return [2]int{d.Signers[0], 0}
}

func c08Names(d []c08Tx, a, b int) bool { // a names b in a Conflicts attribute
	for _, c := range d[a].Confl {
		if c == b {
			return true
		}
	}
	return false
}

// c08Inv evaluates the invariant of the property text on the observable projection; "" if it holds.
func c08Inv(in *c08Input, sizes []int, bal map[[2]int]int64, ids []int) string {
	seen := map[int]bool{}
	for _, x := range ids {
		if seen[x] {
			return fmt.Sprintf("duplicate: transaction %d is listed twice", x)
		}
		seen[x] = true
	}
	if len(ids) > in.Cap {
		return fmt.Sprintf("capacity: %d transactions pooled, capacity %d", len(ids), in.Cap)
	}
	for i := 0; i+1 < len(ids); i++ {
		if c08Less(in.Txs, sizes, ids[i], ids[i+1]) < 0 {
			return fmt.Sprintf("order: transaction %d is listed before the more prioritised %d", ids[i], ids[i+1])
		}
	}
	sums := map[[2]int]int64{}
	for _, x := range ids {
		sums[c08Payer(in.Txs[x])] += in.Txs[x].Sys + in.Txs[x].Net
	}
	var ps [][2]int
	for p := range sums {
		ps = append(ps, p)
	}
	sort.Slice(ps, func(i, j int) bool { return ps[i][0] < ps[j][0] || ps[i][0] == ps[j][0] && ps[i][1] < ps[j][1] })
	for _, p := range ps {
		if sums[p] > bal[p] {
			kind := "ordinary"
			if p[0] == 1 {
				kind = "notary-sponsored"
			}
			return fmt.Sprintf("solvency: pooled fees %d exceed the balance %d of the %s payer (%d,%d)", sums[p], bal[p], kind, p[0], p[1])
		}
	}
	for _, a := range ids {
		for _, b := range ids {
			if c08Names(in.Txs, a, b) {
				return fmt.Sprintf("conflict: pooled transaction %d names pooled transaction %d in Conflicts", a, b)
			}
			if a < b && in.Txs[a].Oracle != nil && in.Txs[b].Oracle != nil && *in.Txs[a].Oracle == *in.Txs[b].Oracle {
				return fmt.Sprintf("oracle: two pooled responses (%d, %d) for request %d", a, b, *in.Txs[a].Oracle)
			}
		}
	}
	return ""
}

func c08EqInts(a, b []int) bool {
	if len(a) != len(b) {
		return false
	}
	for i := range a {
		if a[i] != b[i] {
			return false
		}
	}
	return true
}

// c08Sess: one pool with what the harness knows about it; do() runs one operation, observes the pool through the
// public API, extends the Coq steps and evaluates the property text directly (diag = first violation).
type c08Sess struct {
	in       *c08Input
	txs      []*transaction.Transaction
	sizes    []int
	byHash   map[util.Uint256]int
	feer     *c08Feer
	bal      map[[2]int]int64
	mp       *mempool.Pool
	impl     c08Impl
	coqSteps []string
	events   map[string]bool
	prev     []int
	prevKeys []int

	threshold uint32
	resentMu  sync.Mutex
	resent    []int
	resentNow []int
	stamp     map[int]uint32
	oomOracle map[uint64]bool // oracle ids whose latest response was refused with ErrOOM and none pooled since
	diag      string
}

func (s *c08Sess) setBal(b []c08Bal) {
	s.bal = map[[2]int]int64{}
	for _, x := range b {
		s.bal[[2]int{x.P, x.S}] = x.V
	}
}

func c08NewSess(in *c08Input, metrics func(int)) (*c08Sess, error) {
	txs, err := c08Build(in.Txs)
	if err != nil {
		return nil, err
	}
	s := &c08Sess{in: in, txs: txs, sizes: make([]int, len(txs)), byHash: map[util.Uint256]int{}, feer: &c08Feer{},
		events: map[string]bool{}, prev: []int{}, prevKeys: []int{}, stamp: map[int]uint32{}, oomOracle: map[uint64]bool{}}
	for i, t := range txs {
		s.sizes[i] = t.Size()
		s.byHash[t.Hash()] = i
	}
	s.feer.set(in.Bal)
	s.setBal(in.Bal)
	s.mp = mempool.New(in.Cap, false, metrics)
	s.impl = c08Impl{Sizes: s.sizes}
	return s, nil
}

// observe reads the pool through the public API: the listed transactions and the universe ids ContainsKey holds for.
func (s *c08Sess) observe() (ids, keys []int, unknown bool) {
	ids, keys = []int{}, []int{}
	for _, t := range s.mp.GetVerifiedTransactions() {
		i, ok := s.byHash[t.Hash()]
		if !ok {
			unknown = true
		}
		ids = append(ids, i)
	}
	for i, t := range s.txs {
		if s.mp.ContainsKey(t.Hash()) {
			keys = append(keys, i)
		}
	}
	return
}

// do runs one operation; false = the sequence ends here (violation or panic).
func (s *c08Sess) do(op c08Op) bool {
	in, txs, mp, feer := s.in, s.txs, s.mp, s.feer
	var res, coqOp string
	valid := op.I >= 0 && op.I < len(txs)
	var pan string
	switch op.Op {
	case "add":
		if !valid {
			return true
		}
		coqOp = fmt.Sprintf("HAdd %d%%nat", op.I)
		pan = catch(func() { res = c08ErrName(mp.Add(txs[op.I], feer, op.I)) })
	case "remove":
		var h util.Uint256
		if op.I >= 1000 {
			h = c08ForeignHash(op.I)
		} else if valid {
			h = txs[op.I].Hash()
		} else {
			return true
		}
		coqOp = fmt.Sprintf("HRemove %d", op.I)
		pan = catch(func() { mp.Remove(h); res = "ok" })
	case "verify":
		if !valid {
			return true
		}
		coqOp = fmt.Sprintf("HVerify %d%%nat", op.I)
		pan = catch(func() { res = fmt.Sprint(mp.Verify(txs[op.I], feer)) })
	case "has":
		if !valid {
			return true
		}
		coqOp = fmt.Sprintf("HHas %d%%nat", op.I)
		pan = catch(func() { res = fmt.Sprint(mp.HasConflicts(txs[op.I], feer)) })
	case "stale":
		stale := map[util.Uint256]bool{}
		var sl []int
		for _, x := range op.Stale {
			if x >= 0 && x < len(txs) {
				stale[txs[x].Hash()] = true
				sl = append(sl, x)
			}
		}
		feer.set(op.Bal)
		feer.fpb = op.Fpb
		s.setBal(op.Bal)
		if op.H > feer.height {
			feer.height = op.H
		}
		coqOp = fmt.Sprintf("HStale %s %s %d %d", c08Ints(sl), c08CoqBal(op.Bal), op.Fpb, feer.height)
		// how many items the documented rule hands to the resend callback (to know how long to wait for it)
		expect := 0
		for _, t := range mp.GetVerifiedTransactions() {
			i := s.byHash[t.Hash()]
			if !stale[t.Hash()] && s.threshold != 0 {
				d := feer.height - s.stamp[i]
				if d%s.threshold == 0 && bits.OnesCount32(d/s.threshold) == 1 {
					expect++
				}
			}
		}
		s.resentMu.Lock()
		s.resent = nil
		s.resentMu.Unlock()
		pan = catch(func() {
			mp.RemoveStale(func(t *transaction.Transaction) bool { return !stale[t.Hash()] }, feer)
			res = "resent"
		})
		// the callback runs on its own goroutine: wait for what is expected (some of it may have been dropped for
		// balance reasons and never come), then a little longer for anything beyond it
		deadline := time.Now().Add(20 * time.Millisecond)
		for expect > 0 && time.Now().Before(deadline) {
			s.resentMu.Lock()
			n := len(s.resent)
			s.resentMu.Unlock()
			if n >= expect {
				break
			}
			time.Sleep(50 * time.Microsecond)
		}
		time.Sleep(150 * time.Microsecond)
		s.resentMu.Lock()
		s.resentNow = append([]int{}, s.resent...)
		s.resentMu.Unlock()
	case "resend":
		s.threshold = uint32(op.I % 4)
		if op.I < 0 {
			s.threshold = 0
		}
		coqOp = fmt.Sprintf("HSetResend %d", s.threshold)
		pan = catch(func() {
			mp.SetResendThreshold(s.threshold, func(t *transaction.Transaction, _ any) {
				s.resentMu.Lock()
				s.resent = append(s.resent, s.byHash[t.Hash()])
				s.resentMu.Unlock()
			})
			res = "ok"
		})
	default:
		return true
	}
	if pan != "" {
		res = "panic"
		s.impl.Steps = append(s.impl.Steps, c08Step{Op: coqOp, Res: res})
		s.coqSteps = append(s.coqSteps, fmt.Sprintf("(%s, HPanic, [], [])", coqOp))
		s.diag = fmt.Sprintf("panic in %s: %s", op.Op, pan)
		if op.Op == "add" && in.Txs[op.I].Oracle != nil {
			s.diag = fmt.Sprintf("panic in Add of an OracleResponse transaction (id %d): %s", *in.Txs[op.I].Oracle, pan)
			if s.oomOracle[*in.Txs[op.I].Oracle] {
				s.diag += " [an earlier response with this id was refused with ErrOOM]"
			}
		}
		return false // the pool's mutex is still held: nothing more can be observed
	}
	// observe through the public API
	ids, keys, unknown := s.observe()
	prev, prevKeys := s.prev, s.prevKeys
	s.impl.Steps = append(s.impl.Steps, c08Step{Op: coqOp, Res: res, Ids: ids, Keys: keys, Resent: s.resentNow})
	coqR := c08CoqRes(res)
	if res == "resent" {
		coqR = "HResent " + c08Ints(s.resentNow)
		if len(s.resentNow) > 0 {
			s.events["resent"] = true
		}
	}
	s.coqSteps = append(s.coqSteps, fmt.Sprintf("(%s, %s, %s, %s)", coqOp, coqR, c08Ints(ids), c08Ints(keys)))
	// direct evaluation of the property text on the observable projection
	diag := ""
	if op.Op == "stale" {
		var want []int
		for _, x := range ids {
			if s.threshold != 0 {
				d := feer.height - s.stamp[x]
				if d%s.threshold == 0 && bits.OnesCount32(d/s.threshold) == 1 {
					want = append(want, x)
				}
			}
		}
		if !c08EqInts(want, s.resentNow) && len(want)+len(s.resentNow) > 0 {
			diag = fmt.Sprintf("resend: RemoveStale at height %d with threshold %d handed %v to the callback, the kept items that are due are %v", feer.height, s.threshold, s.resentNow, want)
		}
	} else {
		s.resentNow = nil
	}
	switch {
	case diag != "":
	case unknown:
		diag = "the pool lists a transaction that was never added"
	case strings.HasPrefix(res, "unknown:"):
		diag = "Add returned an error outside its documented classes: " + res
	case mp.Count() != len(ids):
		diag = fmt.Sprintf("Count() = %d but %d transactions are listed", mp.Count(), len(ids))
	}
	if diag == "" {
		var it []int
		mp.IterateVerifiedTransactions(func(t *transaction.Transaction, data any) bool {
			it = append(it, s.byHash[t.Hash()])
			if d, ok := data.(int); !ok || d != s.byHash[t.Hash()] {
				diag = fmt.Sprintf("IterateVerifiedTransactions: transaction %d carries data %v", s.byHash[t.Hash()], data)
			}
			return true
		})
		if diag == "" && !c08EqInts(it, ids) && len(it)+len(ids) > 0 {
			diag = "IterateVerifiedTransactions and GetVerifiedTransactions disagree"
		}
	}
	if diag == "" {
		sk := append([]int{}, ids...)
		sort.Ints(sk)
		if !c08EqInts(sk, keys) {
			diag = fmt.Sprintf("slice and map disagree: listed %v, ContainsKey holds for %v", ids, keys)
		}
	}
	if diag == "" {
		for i, t := range txs {
			got, ok := mp.TryGetValue(t.Hash())
			inPool := mp.ContainsKey(t.Hash())
			if ok != inPool || ok && got != t {
				diag = fmt.Sprintf("TryGetValue(%d) disagrees with ContainsKey", i)
				break
			}
			d, ok2 := mp.TryGetData(t.Hash())
			if ok2 != inPool || ok2 && d != any(i) {
				diag = fmt.Sprintf("TryGetData(%d) = (%v, %v) while ContainsKey = %v", i, d, ok2, inPool)
				break
			}
		}
	}
	if diag == "" {
		diag = c08Inv(in, s.sizes, s.bal, ids)
		if strings.HasPrefix(diag, "solvency:") && strings.Contains(diag, "notary-sponsored") && op.Op == "add" && res == "ok" {
			// which input class: did the newcomer replace, through Conflicts, a transaction sponsored by another depositor?
			t := in.Txs[op.I]
			for _, x := range prev {
				gone := true
				for _, y := range ids {
					if x == y {
						gone = false
					}
				}
				e := in.Txs[x]
				if gone && (c08Names(in.Txs, op.I, x) || c08Names(in.Txs, x, op.I)) && t.Signers[0] == 1 && e.Signers[0] == 1 && t.Signers[1] != e.Signers[1] {
					diag += " [after Add of a Notary-sponsored transaction that replaced, through Conflicts, one sponsored by another depositor]"
					break
				}
			}
		}
	}
	if diag == "" && op.Op == "add" && res != "ok" && (!c08EqInts(ids, prev) || !c08EqInts(keys, prevKeys)) {
		diag = fmt.Sprintf("a failed Add (%s) changed the pool: %v -> %v", res, prev, ids)
	}
	// branch events
	if op.Op == "add" && res == "ok" {
		s.stamp[op.I] = feer.height
	}
	if op.Op == "add" {
		s.events[res] = true
		if o := in.Txs[op.I].Oracle; o != nil {
			if res == "EOOM" {
				s.oomOracle[*o] = true
			} else if res == "ok" {
				delete(s.oomOracle, *o) // a pooled response legitimately owns the id again
			}
		}
		if res == "ok" && len(ids) <= len(prev) {
			s.events["replaced"] = true
			if len(prev) == in.Cap {
				s.events["evicted"] = true
			}
		}
	}
	if op.Op == "stale" && len(ids) < len(prev) {
		s.events["stale-dropped"] = true
	}
	if diag != "" {
		s.diag = diag
		return false
	}
	s.prev, s.prevKeys = ids, keys
	return true
}

// universe as Coq terms (the real sizes)
func (s *c08Sess) coqUniverse() string {
	var utxs []string
	for i, d := range s.in.Txs {
		sg := c08Ints(d.Signers)
		cf := c08Ints(d.Confl)
		or := "None"
		if d.Oracle != nil {
			or = fmt.Sprintf("(Some %d)", *d.Oracle)
		}
		utxs = append(utxs, fmt.Sprintf("mkTx %d %s %d %d %d %s %s %s", i, sg, d.Sys, d.Net, s.sizes[i], coqBool(d.High), cf, or))
	}
	return coqList(utxs)
}

// c08Run executes one sequence and records the case.
func c08Run(co *caseOut, in c08Input) {
	kind := "seq"
	s, err := c08NewSess(&in, nil)
	if err != nil {
		co.add(kind, "malformed", false, in, err.Error(), "CSeq 0%nat [] [] []")
		return
	}
	for _, op := range in.Ops {
		if !s.do(op) {
			break
		}
	}
	diag, events := s.diag, s.events
	s.impl.Diag = diag
	var evs []string
	for e := range events {
		if e != "ok" {
			evs = append(evs, e)
		}
	}
	sort.Strings(evs)
	// branch tag: the rarest event of the sequence
	tag := "plain"
	for _, e := range []string{"stale-dropped", "EDup", "EInsufficient", "EConflict", "EConflictsAttr", "replaced", "EOracle", "EOOM", "evicted"} {
		if events[e] {
			tag = e
		}
	}
	if diag != "" {
		tag = "violation"
	}
	nontrivial := false
	for _, e := range evs {
		if e != "EDup" {
			nontrivial = true
		}
		c08EventCount[e]++
	}
	term := fmt.Sprintf("CSeq %d%%nat %s %s %s", in.Cap, s.coqUniverse(), c08CoqBal(in.Bal), coqList(s.coqSteps))
	co.add(kind, tag, nontrivial, in, s.impl, term)
	if diag != "" {
		co.violation(kind, diag, in, s.impl)
	}
}

// ---------- generation ----------

func c08Gen(r *rng, thorough bool) c08Input {
	in := c08Input{Cap: 1 + r.intn(6)}
	ordinary := []int{2, 3, 4}
	depositors := []int{5, 6}
	if r.chance(30) {
		depositors = []int{5, 6, 2} // an account that is both an ordinary sender and a depositor
	}
	pNotary, pConfl, pOracle := 38, 45, 28
	sponsoredProfile := false
	cosignedProfile := false // who signs vs who pays: conflicts against transactions the newcomer's payer only co-signed
	pCosign := 18
	pNotaryCo := 12
	switch r.intn(6) {
	case 2:
		cosignedProfile = true
		ordinary = []int{2, 3}
		depositors = []int{2, 3} // every payer account both sends ordinary transactions and sponsors Notary ones
		pNotary, pConfl, pOracle, pCosign = 45, 80, 8, 40
		pNotaryCo = 40
		in.Cap = 3 + r.intn(4)
	case 0: // sponsored transactions of several depositors replacing each other, deposits nearly used up
		pNotary, pConfl, pOracle = 85, 75, 10
		sponsoredProfile = true
		in.Cap = 3 + r.intn(4)
	case 1: // oracle responses competing for few slots
		pOracle, pConfl = 60, 25
		in.Cap = 1 + r.intn(3)
	}
	ntx := 5 + r.intn(8)
	if thorough {
		ntx = 5 + r.intn(14)
	}
	nets := []int64{0, 100, 200, 200, 300, 400, 400, 500, 800, 1200}
	syss := []int64{0, 0, 50, 100}
	sizeChoices := []int{200, 200, 400}
	for i := 0; i < ntx; i++ {
		var d c08Tx
		if r.chance(pNotary) {
			d.Signers = []int{1, pick(r, depositors)}
		} else {
			d.Signers = []int{pick(r, ordinary)}
		}
		cos := []int{2, 3, 4, 5, 6}
		if cosignedProfile {
			cos = []int{2, 3, 4}
		}
		for _, a := range cos { // co-signers
			dup := false
			for _, s := range d.Signers {
				dup = dup || s == a
			}
			if !dup && r.chance(pCosign) {
				d.Signers = append(d.Signers, a)
			}
		}
		// a main transaction: ordinary sender, the Notary contract among the further signers (position 1 or 2)
		if d.Signers[0] != 1 && r.chance(pNotaryCo) {
			pos := 1
			if len(d.Signers) >= 2 && r.bool() {
				pos = 2
			}
			d.Signers = append(d.Signers[:pos], append([]int{1}, d.Signers[pos:]...)...)
			d.NA = true
		}
		d.Net = pick(r, nets)
		if sponsoredProfile || cosignedProfile {
			d.Net = pick(r, []int64{100, 200, 300, 400})
		}
		if r.chance(10) {
			d.Net += int64(r.intn(3)) * 50
		}
		d.Sys = pick(r, syss)
		d.Size = pick(r, sizeChoices)
		d.High = r.chance(10)
		if i > 0 && r.chance(pConfl) {
			k := 1 + r.intn(2)
			for j := 0; j < k; j++ {
				c := r.intn(i)
				if r.chance(60) || cosignedProfile { // prefer a transaction sharing a signer
					for tries := 0; tries < 8; tries++ {
						share := false
						for _, a := range in.Txs[c].Signers {
							for _, b := range d.Signers {
								share = share || a == b && a != 1
							}
						}
						// ... and, in the co-signed profile, one that somebody else pays for
						if share && (!cosignedProfile || c08Payer(in.Txs[c]) != c08Payer(d) || tries > 5) {
							if cosignedProfile && r.chance(70) {
								d.Net = in.Txs[c].Net + 100 // out-bid it
							}
							break
						}
						c = r.intn(i)
					}
				}
				dup := false
				for _, x := range d.Confl {
					dup = dup || x == c
				}
				if !dup {
					d.Confl = append(d.Confl, c)
				}
			}
		}
		if r.chance(6) {
			d.Confl = append(d.Confl, 1000+r.intn(3))
		}
		if r.chance(pOracle) {
			id := uint64(1 + r.intn(2))
			d.Oracle = &id
		}
		in.Txs = append(in.Txs, d)
	}
	genBal := func() []c08Bal {
		var b []c08Bal
		vals := []int64{0, 150, 300, 300, 500, 700, 1000, 1500}
		dvals := vals
		if sponsoredProfile || cosignedProfile {
			dvals = []int64{300, 400, 500, 600, 700}
		}
		if cosignedProfile {
			vals = dvals
		}
		for _, a := range ordinary {
			b = append(b, c08Bal{P: a, S: 0, V: pick(r, vals)})
		}
		for _, dp := range depositors {
			b = append(b, c08Bal{P: 1, S: dp, V: pick(r, dvals)})
		}
		return b
	}
	in.Bal = genBal()
	if sponsoredProfile || cosignedProfile { // first offer the transactions roughly in the order they were made
		for i := 0; i < ntx; i++ {
			if r.chance(85) {
				in.Ops = append(in.Ops, c08Op{Op: "add", I: i})
			}
			if r.chance(15) {
				in.Ops = append(in.Ops, c08Op{Op: pick(r, []string{"verify", "has", "remove"}), I: r.intn(ntx)})
			}
		}
	}
	var genHeight uint32
	resendProfile := r.chance(40) // a resend threshold and many block refreshes, so that kept items come due
	if resendProfile {
		in.Ops = append([]c08Op{{Op: "resend", I: 1 + r.intn(3)}}, in.Ops...)
	}
	nops := 8 + r.intn(20)
	if thorough {
		nops = 8 + r.intn(40)
	}
	for i := 0; i < nops; i++ {
		x := r.intn(100)
		if resendProfile && x >= 75 {
			x = 95 // more refreshes
		}
		if r.chance(3) {
			in.Ops = append(in.Ops, c08Op{Op: "resend", I: r.intn(4)})
		}
		switch {
		case x < 62:
			in.Ops = append(in.Ops, c08Op{Op: "add", I: r.intn(ntx)})
		case x < 70:
			i := r.intn(ntx)
			if r.chance(5) {
				i = 1000 + r.intn(3)
			}
			in.Ops = append(in.Ops, c08Op{Op: "remove", I: i})
		case x < 80:
			in.Ops = append(in.Ops, c08Op{Op: "verify", I: r.intn(ntx)})
		case x < 90:
			in.Ops = append(in.Ops, c08Op{Op: "has", I: r.intn(ntx)})
		default:
			op := c08Op{Op: "stale"}
			for j := 0; j < ntx; j++ {
				if r.chance(15) {
					op.Stale = append(op.Stale, j)
				}
			}
			op.Bal = in.Bal
			if len(in.Ops) > 0 && r.chance(60) {
				op.Bal = genBal()
			}
			genHeight += uint32(1 + r.intn(3))
			op.H = genHeight
			if r.chance(30) {
				op.Fpb = int64(r.intn(4))
			}
			in.Ops = append(in.Ops, op)
		}
	}
	return in
}

func runC08(args []string) error {
	cf, fs := parseCommon("c08", args)
	fs.Parse(args)
	co := newCaseOut(cf.out, "Harness.C08", "N",
		"operation sequences (Add/Remove/Verify/HasConflicts/RemoveStale at rising block heights/SetResendThreshold 0..3 with a recording callback) on mempool.Pool with capacity 1..6 over 5..18 transactions with "+
			"few distinct fees and sizes, ordinary and Notary-sponsored senders, co-signers, Conflicts against earlier transactions, two oracle ids, "+
			"balances that bind; conc: after a sequential prefix, 2-3 operations (the same transaction twice, transactions in conflict or of one payer, Add against Remove, Add against RemoveStale with lowered balances, Adds for the last slots, Verify/HasConflicts together) issued by one goroutine each under forced interleavings (every start order behind the pool's write lock, the read lock, readers kept inside together; a reader queued behind every write region); a sequence is non-trivial when some Add was refused for a reason other than ErrDup, or replaced/evicted another "+
			"transaction, or RemoveStale dropped one; distinct by Coq term")
	co.shard = 40
	if cf.replay != "" {
		cases, err := readReplay(cf.replay)
		if err != nil {
			return err
		}
		for _, c := range cases {
			var k struct {
				Kind string `json:"kind"`
			}
			if err := json.Unmarshal(c, &k); err != nil {
				return err
			}
			if k.Kind == "conc" {
				var x struct {
					Input c08ConcIn `json:"input"`
				}
				if err := json.Unmarshal(c, &x); err != nil {
					return err
				}
				c08RunConc(co, x.Input)
				continue
			}
			var x struct {
				Kind  string   `json:"kind"`
				Input c08Input `json:"input"`
			}
			if err := json.Unmarshal(c, &x); err != nil {
				return err
			}
			c08Run(co, x.Input)
		}
		return co.finish()
	}
	r := newRng(cf.seed*0x2545F491 + 8) // adjacent seeds of newRng are the same stream shifted by one draw: spread them
	for i := 0; i < cf.n; i++ {
		c08Run(co, c08Gen(r, cf.tier == "thorough"))
	}
	// the pool under concurrent callers: forced interleavings of 2-3 operations after a sequential prefix
	rc := newRng(cf.seed*0x9E3779B1 + 808)
	for i := 0; i < cf.n/10; i++ {
		for _, in := range c08GenConc(rc) {
			c08RunConc(co, in)
		}
	}
	co.extra["x_events"] = c08EventCount
	return co.finish()
}
