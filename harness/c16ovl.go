package main

// C16: method OVERLOADS — callee contracts whose ABI has m/1 and m/2, one safe and one not, in both ABI orders; the
// gate (flag masking, permission check) must decide on the very overload that is executed.

import (
	"fmt"

	"github.com/nspcc-dev/neo-go/pkg/core/interop/interopnames"
	"github.com/nspcc-dev/neo-go/pkg/io"
	"github.com/nspcc-dev/neo-go/pkg/neotest"
	"github.com/nspcc-dev/neo-go/pkg/smartcontract/callflag"
	"github.com/nspcc-dev/neo-go/pkg/smartcontract/manifest"
	"github.com/nspcc-dev/neo-go/pkg/smartcontract/nef"
	"github.com/nspcc-dev/neo-go/pkg/smartcontract/trigger"
	"github.com/nspcc-dev/neo-go/pkg/vm/emit"
	"github.com/nspcc-dev/neo-go/pkg/vm/opcode"
)

type c16OvlIn struct {
	Order  int    `json:"order"`  // 0: ABI [m/1 safe, m/2 unsafe]; 1: ABI [m/1 unsafe, m/2 safe]
	Probe  int    `json:"probe"`  // 1 Local.Put, 2 Notify, 3 Contract.Call
	Arity  int    `json:"arity"`  // the overload called: 1 or 2
	Via    string `json:"via"`    // call | callt
	Caller int    `json:"caller"` // permissions of the caller: 0 none, 1 wildcard, 2 explicit [callee: m]
	Flags  int    `json:"flags"`  // flags asked for (call) / flags of the caller's frame (callt, token flags All)
}

type c16Ovl struct {
	callee [2][4]*neotest.Contract // [order][probe]
	caller [3]*neotest.Contract
}

func (env *c16Env) ovl() (o *c16Ovl, err error) {
	if env.ovlInst != nil {
		return env.ovlInst, nil
	}
	defer func() {
		if r := recover(); r != nil {
			err = fmt.Errorf("overload contracts: %v", r)
		}
	}()
	o = &c16Ovl{}
	for order := 0; order < 2; order++ {
		for probe := 1; probe <= 3; probe++ {
			body := c16Code(func(w *io.BinWriter) {
				emit.Opcodes(w, opcode.CLEAR)
				switch probe {
				case 1:
					emit.Bytes(w, []byte("v"))
					emit.Bytes(w, []byte("ov"))
					emit.Syscall(w, interopnames.SystemStorageLocalPut)
				case 2:
					emit.Opcodes(w, opcode.NEWARRAY0)
					emit.String(w, "Ov")
					emit.Syscall(w, interopnames.SystemRuntimeNotify)
				default:
					emit.AppCall(w, env.Z.Hash, "nop", callflag.All)
					emit.Opcodes(w, opcode.CLEAR)
				}
				emit.Opcodes(w, opcode.RET)
			})
			ms := []c16Method{{Name: "m", NParams: 1, Void: true, Safe: order == 0, Body: body}, {Name: "m", NParams: 2, Void: true, Safe: order == 1, Body: body}}
			ct, err := env.c.deploy(c16ContractSpec{Name: fmt.Sprintf("OV%d%d", order, probe), Methods: ms,
				Perms:  []manifest.Permission{*manifest.NewPermission(manifest.PermissionWildcard)},
				Events: []manifest.Event{{Name: "Ov", Parameters: []manifest.Parameter{}}}})
			if err != nil {
				return nil, err
			}
			o.callee[order][probe] = ct
		}
	}
	for k := 0; k < 3; k++ {
		var perms []manifest.Permission
		switch k {
		case 1:
			perms = []manifest.Permission{*manifest.NewPermission(manifest.PermissionWildcard)}
		case 2:
			for order := 0; order < 2; order++ {
				for probe := 1; probe <= 3; probe++ {
					p := manifest.NewPermission(manifest.PermissionHash, o.callee[order][probe].Hash)
					p.Methods.Value = []string{"m"}
					perms = append(perms, *p)
				}
			}
		}
		ms := []c16Method{{Name: "fwd", NParams: 4, Body: c16SyscallBody(interopnames.SystemContractCall, false)}}
		var toks []nef.MethodToken
		for order := 0; order < 2; order++ {
			for probe := 1; probe <= 3; probe++ {
				for ar := 1; ar <= 2; ar++ {
					idx := len(toks)
					toks = append(toks, nef.MethodToken{Hash: o.callee[order][probe].Hash, Method: "m", ParamCount: uint16(ar), HasReturn: false, CallFlag: callflag.All})
					ms = append(ms, c16Method{Name: fmt.Sprintf("t%d", idx), Void: true, Body: c16Code(func(w *io.BinWriter) {
						for i := 0; i < ar; i++ {
							emit.Opcodes(w, opcode.PUSH1)
						}
						emit.Instruction(w, opcode.CALLT, []byte{byte(idx), 0})
						emit.Opcodes(w, opcode.RET)
					})})
				}
			}
		}
		ct, err := env.c.deploy(c16ContractSpec{Name: fmt.Sprintf("OK%d", k), Perms: perms, Methods: ms, Tokens: toks})
		if err != nil {
			return nil, err
		}
		o.caller[k] = ct
	}
	env.ovlInst = o
	return o, nil
}

func (env *c16Env) runOverload(co *caseOut, in c16OvlIn) {
	if in.Order < 0 || in.Order > 1 || in.Probe < 1 || in.Probe > 3 || in.Arity < 1 || in.Arity > 2 || in.Caller < 0 || in.Caller > 2 {
		return
	}
	o, err := env.ovl()
	if err != nil {
		co.violation("overload", "harness: "+err.Error(), in, nil)
		return
	}
	callee, caller := o.callee[in.Order][in.Probe], o.caller[in.Caller]
	args := make([]any, in.Arity)
	for i := range args {
		args[i] = 1
	}
	script := c16Code(func(w *io.BinWriter) {
		if in.Via == "callt" {
			idx := (in.Order*3+(in.Probe-1))*2 + (in.Arity - 1)
			c16EmitCall(w, caller.Hash, fmt.Sprintf("t%d", idx), in.Flags)
		} else {
			c16EmitCall(w, caller.Hash, "fwd", 15, callee.Hash, "m", in.Flags, args)
		}
	})
	obs, ic := env.c.invoke(script, env.signers, caller.Hash, 2, trigger.Application, callflag.All, false)
	if !obs.Reached {
		co.violation("overload", "harness: caller frame not reached: "+obs.Fault, in, obs)
		return
	}
	ran, zran := false, false
	for _, h := range obs.Callees {
		ran = ran || h == callee.Hash.StringLE()
		zran = zran || h == env.Z.Hash.StringLE()
	}
	eff := false
	switch in.Probe {
	case 1:
		for _, kv := range ic.DAO.Store.GetBatch().Put {
			if len(kv.Key) >= 2 && string(kv.Key[len(kv.Key)-2:]) == "ov" {
				eff = true
			}
		}
	case 2:
		for _, n := range ic.Notifications {
			eff = eff || (n.Name == "Ov" && n.ScriptHash.Equals(callee.Hash))
		}
	default:
		eff = zran
	}
	safe := (in.Arity == 1) == (in.Order == 0)
	if safe && eff && in.Probe != 3 {
		co.violation("overload", fmt.Sprintf("the SAFE overload m/%d changed state / emitted an event", in.Arity), in, obs)
	}
	if !safe && ran && in.Caller == 0 {
		co.violation("overload", fmt.Sprintf("the non-safe overload m/%d ran for a caller without any permission", in.Arity), in, obs)
	}
	abi := "[mk_md \"m\"%string 1 true; mk_md \"m\"%string 2 false]"
	if in.Order == 1 {
		abi = "[mk_md \"m\"%string 1 false; mk_md \"m\"%string 2 true]"
	}
	perms := []string{"[]", "[mk_perm DWild MWild]", "[mk_perm (DHash 1) (MList [\"m\"%string])]"}[in.Caller]
	tag := fmt.Sprintf("order%d/m%d/%s/caller%d", in.Order, in.Arity, in.Via, in.Caller)
	co.add("overload", tag, ran, in, obs, fmt.Sprintf("COverload %s \"m\"%%string %d %s %d %d %s %s", abi, in.Arity, perms, in.Flags, in.Probe, coqBool(ran), coqBool(eff)))
}
