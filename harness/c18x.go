package main

// C18 extensions: Base58 / Base58Check / addresses, fixed-point decimals, Uint160/256 string forms, Merkle roots,
// multi-signature checking on the real VM under varied scheduling, and the ECDSA / WIF / NEP-2 / public-key laws
// (checked directly: elliptic-curve arithmetic is not modelled).

import (
	"time"
	"bytes"
	"crypto/ecdsa"
	"crypto/elliptic"
	"encoding/json"
	"fmt"
	"math"
	"math/big"
	"runtime"
	"sort"
	"strings"

	"github.com/decred/dcrd/dcrec/secp256k1/v4"
	mrbase58 "github.com/mr-tron/base58"
	"github.com/nspcc-dev/neo-go/pkg/config"
	"github.com/nspcc-dev/neo-go/pkg/core/interop"
	icrypto "github.com/nspcc-dev/neo-go/pkg/core/interop/crypto"
	"github.com/nspcc-dev/neo-go/pkg/core/native"
	"github.com/nspcc-dev/neo-go/pkg/core/transaction"
	"github.com/nspcc-dev/neo-go/pkg/crypto/hash"
	"github.com/nspcc-dev/neo-go/pkg/crypto/keys"
	"github.com/nspcc-dev/neo-go/pkg/encoding/address"
	"github.com/nspcc-dev/neo-go/pkg/encoding/base58"
	"github.com/nspcc-dev/neo-go/pkg/encoding/fixedn"
	"github.com/nspcc-dev/neo-go/pkg/io"
	"github.com/nspcc-dev/neo-go/pkg/smartcontract"
	"github.com/nspcc-dev/neo-go/pkg/smartcontract/scparser"
	"github.com/nspcc-dev/neo-go/pkg/util"
	"github.com/nspcc-dev/neo-go/pkg/vm"
	"github.com/nspcc-dev/neo-go/pkg/vm/emit"
	"github.com/nspcc-dev/neo-go/pkg/vm/opcode"
	"github.com/nspcc-dev/neo-go/pkg/vm/stackitem"
)

type c18xInput struct {
	Z      string   `json:"z,omitempty"`
	Bytes  string   `json:"bytes,omitempty"`
	S      *string  `json:"s,omitempty"`
	Prec   int      `json:"prec,omitempty"`
	Prefix int      `json:"prefix,omitempty"`
	N      int      `json:"n,omitempty"`
	Mode   int      `json:"mode,omitempty"`
	Hashes []string `json:"hashes,omitempty"`
	Keys   []int    `json:"keys,omitempty"` // index into the key pool; -1 = malformed key bytes
	Sigs   []int    `json:"sigs,omitempty"` // index of the signing key; -1 = invalid signature (random bytes); -2 = valid signature of another message
	Seed   uint64   `json:"seed,omitempty"`
	P      string   `json:"p,omitempty"`   // NEP-2: passphrase the key is encrypted with (hex of the bytes: may be invalid UTF-8)
	Q      string   `json:"q,omitempty"`   // NEP-2: passphrase tried for decryption (hex)
	Raw    string   `json:"raw,omitempty"` // hex of the bytes of the text input (replaces S: JSON cannot carry invalid UTF-8)
}

func coqStrZ(s string) string { return coqBytes([]byte(s)) }
func coqOptBytes(b []byte, ok bool) string {
	if !ok {
		return "None"
	}
	return "(Some " + coqBytes(b) + ")"
}
func sp(s string) *string { return &s }

func c18xRun(co *caseOut, kind string, in c18xInput) {
	p := catch(func() { c18xRunInner(co, kind, in) })
	if p != "" {
		if len(p) > 60 {
			p = p[:60]
		}
		co.violation(kind, "panic: "+p, in, nil)
	}
}

func c18xRunInner(co *caseOut, kind string, in c18xInput) {
	if in.Raw != "" { // the text as bytes (JSON strings cannot carry invalid UTF-8); replaces S
		t := string(unhx(in.Raw))
		in.S = &t
	}
	switch kind {
	case "b58_enc":
		b := unhx(in.Bytes)
		s := mrbase58.Encode(b)
		lead := 0
		for lead < len(b) && b[lead] == 0 {
			lead++
		}
		co.add(kind, fmt.Sprintf("zeros%d", min(lead, 3)), len(b) > 0, in, s, fmt.Sprintf("CB58Enc %s %s", coqBytes(b), coqStrZ(s)))
	case "b58_dec":
		b, err := mrbase58.Decode(*in.S)
		tag := "ok"
		if err != nil {
			tag = "err"
		}
		co.add(kind, tag, len(*in.S) > 0, in, hx(b), fmt.Sprintf("CB58Dec %s %s", coqStrZ(*in.S), coqOptBytes(b, err == nil)))
	case "check_enc":
		b := unhx(in.Bytes)
		s := base58.CheckEncode(bytes.Clone(b))
		co.add(kind, "ok", len(b) > 0, in, s, fmt.Sprintf("CCheckEnc %s %s", coqBytes(b), coqStrZ(s)))
	case "check_dec":
		b, err := base58.CheckDecode(*in.S)
		tag := "ok"
		if err != nil {
			tag = "err"
		}
		co.add(kind, tag, len(*in.S) > 0, in, hx(b), fmt.Sprintf("CCheckDec %s %s", coqStrZ(*in.S), coqOptBytes(b, err == nil)))
	case "addr_enc":
		u, _ := util.Uint160DecodeBytesBE(unhx(in.Bytes))
		old := address.Prefix
		address.Prefix = byte(in.Prefix)
		s := address.Uint160ToString(u)
		address.Prefix = old
		co.add(kind, "ok", true, in, s, fmt.Sprintf("CAddrEnc %d %s %s", in.Prefix, coqBytes(u.BytesBE()), coqStrZ(s)))
	case "addr_dec":
		old := address.Prefix
		address.Prefix = byte(in.Prefix)
		var u util.Uint160
		var err error
		pn := catch(func() { u, err = address.StringToUint160(*in.S) })
		address.Prefix = old
		if pn != "" {
			co.violation(kind, "address.StringToUint160 panics on a valid Base58Check string whose payload is not 21 bytes", in, pn)
			return
		}
		tag := "ok"
		if err != nil {
			tag = "err"
		}
		co.add(kind, tag, true, in, u.StringBE(), fmt.Sprintf("CAddrDec %d %s %s", in.Prefix, coqStrZ(*in.S), coqOptBytes(u.BytesBE(), err == nil)))
	case "fixed_tostr":
		if c18xFixedStuck {
			return
		}
		z, _ := new(big.Int).SetString(in.Z, 10)
		var s string
		if !c18xWithin(3*time.Second, func() { s = fixedn.ToString(new(big.Int).Set(z), in.Prec) }) {
			c18xFixedStuck = true
			co.violation(kind, "fixedn.ToString does not return within 3 s (further fixed-point cases of this run are skipped)", in, nil)
			return
		}
		if len(s) > 400 {
			co.violation(kind, "fixedn.ToString returns an absurdly long string for a value below 2^129", in, len(s))
			return
		}
		tag := "int"
		if strings.Contains(s, ".") {
			tag = "frac"
		}
		if z.Sign() < 0 {
			tag = "neg-" + tag
		}
		co.add(kind, tag, tag != "int", in, s, fmt.Sprintf("CFixedToStr %s %d %s", coqZ(z), in.Prec, coqStrZ(s)))
	case "fixed_fromstr":
		if c18xFixedStuck {
			return
		}
		var z *big.Int
		var err error
		if !c18xWithin(3*time.Second, func() { z, err = fixedn.FromString(*in.S, in.Prec) }) {
			c18xFixedStuck = true
			co.violation(kind, "fixedn.FromString does not return within 3 s (further fixed-point cases of this run are skipped)", in, nil)
			return
		}
		if err == nil && z.BitLen() > 4096 {
			co.violation(kind, "fixedn.FromString returns an absurdly large integer for a short decimal string", in, z.BitLen())
			return
		}
		impl, tag := "None", "err"
		if err == nil {
			impl, tag = "(Some "+coqZ(z)+")", "ok"
		}
		co.add(kind, tag, len(*in.S) > 1, in, fmt.Sprint(z), fmt.Sprintf("CFixedFromStr %s %d %s", coqStrZ(*in.S), in.Prec, impl))
	case "fixed8_str":
		z, _ := new(big.Int).SetString(in.Z, 10)
		s := fixedn.Fixed8(z.Int64()).String()
		j, _ := json.Marshal(fixedn.Fixed8(z.Int64()))
		var back fixedn.Fixed8
		if err := json.Unmarshal(j, &back); err != nil || int64(back) != z.Int64() {
			co.violation(kind, "Fixed8 JSON round trip changes the value", in, map[string]any{"json": string(j), "back": int64(back), "err": fmt.Sprint(err)})
		}
		co.add(kind, "ok", z.Sign() != 0, in, s, fmt.Sprintf("CFixed8Str %s %s", coqZ(z), coqStrZ(s)))
	case "fixed8_fromstr":
		f, err := fixedn.Fixed8FromString(*in.S)
		impl, tag := "None", "err"
		if err == nil {
			impl, tag = "(Some "+coqZi(int64(f))+")", "ok"
		}
		co.add(kind, tag, len(*in.S) > 1, in, int64(f), fmt.Sprintf("CFixed8FromStr %s %s", coqStrZ(*in.S), impl))
	case "uint_str":
		b := unhx(in.Bytes)
		var be, le, js string
		var back []byte
		if len(b) == 20 {
			u, _ := util.Uint160DecodeBytesBE(b)
			be, le = u.StringBE(), u.StringLE()
			j, _ := json.Marshal(u)
			js = strings.Trim(string(j), `"`)
			if !bytes.Equal(u.BytesLE(), c18Rev(b)) || u.Reverse().Reverse() != u || !bytes.Equal(u.Reverse().BytesBE(), u.BytesLE()) {
				co.violation(kind, "Uint160: BytesLE/Reverse are not the reversal of BytesBE", in, nil)
			}
			var u2 util.Uint160
			if err := json.Unmarshal(j, &u2); err != nil || u2 != u {
				co.violation(kind, "Uint160: JSON round trip changes the value", in, nil)
			}
			u3, err := util.Uint160DecodeBytesLE(u.BytesLE())
			if err != nil || u3 != u {
				co.violation(kind, "Uint160: DecodeBytesLE(BytesLE) differs", in, nil)
			}
			back = u.BytesBE()
		} else {
			u, _ := util.Uint256DecodeBytesBE(b)
			be, le = u.StringBE(), u.StringLE()
			j, _ := json.Marshal(u)
			js = strings.Trim(string(j), `"`)
			if !bytes.Equal(u.BytesLE(), c18Rev(b)) || u.Reverse().Reverse() != u {
				co.violation(kind, "Uint256: BytesLE/Reverse are not the reversal of BytesBE", in, nil)
			}
			var u2 util.Uint256
			if err := json.Unmarshal(j, &u2); err != nil || u2 != u {
				co.violation(kind, "Uint256: JSON round trip changes the value", in, nil)
			}
			back = u.BytesBE()
		}
		co.add(kind, fmt.Sprintf("len%d", len(b)), true, in, map[string]string{"be": be, "le": le, "json": js},
			fmt.Sprintf("CUintStr %s %s %s %s", coqBytes(back), coqStrZ(be), coqStrZ(le), coqStrZ(js)))
	case "uint_dec":
		var out []byte
		var err error
		s := *in.S
		switch {
		case in.N == 20 && in.Mode == 0:
			var u util.Uint160
			u, err = util.Uint160DecodeStringBE(s)
			out = u.BytesBE()
		case in.N == 20 && in.Mode == 1:
			var u util.Uint160
			u, err = util.Uint160DecodeStringLE(s)
			out = u.BytesBE()
		case in.N == 20:
			var u util.Uint160
			j, _ := json.Marshal(s)
			err = json.Unmarshal(j, &u)
			out = u.BytesBE()
		case in.Mode == 0:
			var u util.Uint256
			u, err = util.Uint256DecodeStringBE(s)
			out = u.BytesBE()
		case in.Mode == 1:
			var u util.Uint256
			u, err = util.Uint256DecodeStringLE(s)
			out = u.BytesBE()
		default:
			var u util.Uint256
			j, _ := json.Marshal(s)
			err = json.Unmarshal(j, &u)
			out = u.BytesBE()
		}
		tag := "ok"
		if err != nil {
			tag = "err"
		}
		co.add(kind, tag, true, in, hx(out), fmt.Sprintf("CUintDec %d %d %s %s", in.N, in.Mode, coqStrZ(s), coqOptBytes(out, err == nil)))
	case "merkle":
		var hs []util.Uint256
		var terms []string
		for _, h := range in.Hashes {
			u, _ := util.Uint256DecodeBytesBE(unhx(h))
			hs = append(hs, u)
			terms = append(terms, coqBytes(u.BytesBE()))
		}
		orig := append([]util.Uint256{}, hs...)
		calc := hash.CalcMerkleRoot(append([]util.Uint256{}, hs...))
		tree := "None"
		t, err := hash.NewMerkleTree(append([]util.Uint256{}, hs...))
		if err == nil {
			tree = "(Some " + coqBytes(t.Root().BytesBE()) + ")"
			if t.Root() != calc {
				co.violation(kind, "NewMerkleTree(..).Root() differs from CalcMerkleRoot", in, nil)
			}
		} else if len(hs) != 0 {
			co.violation(kind, "NewMerkleTree fails on a non-empty list", in, err.Error())
		}
		for i := range hs {
			if hs[i] != orig[i] {
				co.violation(kind, "NewMerkleTree changed its argument", in, nil)
			}
		}
		co.add(kind, fmt.Sprintf("len%d", len(hs)), len(hs) > 1, in, hx(calc.BytesBE()), fmt.Sprintf("CMerkle %s %s %s", coqList(terms), coqBytes(calc.BytesBE()), tree))
	case "multisig":
		c18Multisig(co, in)
	case "ecdsa":
		c18Ecdsa(co, in)
	case "keycurve":
		c18KeyCurve(co, in)
	case "nep2":
		c18Nep2(co, in)
	case "nep2vec":
		c18Nep2Vector(co, in)
	case "nep2frame":
		c18Nep2Frame(co, in)
	case "strsweep":
		c18StrSweep(co, in)
	case "emitint":
		c18EmitInt(co, in)
	case "intenc":
		c18IntEnc(co, in)
	case "compconst":
		c18CompConst(co, in)
	case "conc":
		c18Conc(co, in)
	default:
		panic("unknown kind " + kind)
	}
}

func c18Rev(b []byte) []byte {
	o := make([]byte, len(b))
	for i := range b {
		o[len(b)-1-i] = b[i]
	}
	return o
}

// ---- multi-signature check on the real VM (System.Crypto.CheckMultisig handler -> vm.CheckMultisigPar) ----

func c18MultisigOnce(pubs, sigs [][]byte, tx *transaction.Transaction) string {
	ic := &interop.Context{Network: 42, Container: tx}
	v := vm.New()
	v.SetGasLimit(-1)
	v.SyscallHandler = func(v *vm.VM, id uint32) error {
		ic.VM = v
		return icrypto.ECDSASecp256r1CheckMultisig(ic)
	}
	w := io.NewBufBinWriter()
	// standard layout: signatures (invocation script), then m? no: the handler takes counts or arrays; counts are used here
	for _, s := range sigs {
		emit.Bytes(w.BinWriter, s)
	}
	emit.Int(w.BinWriter, int64(len(sigs)))
	for _, k := range pubs {
		emit.Bytes(w.BinWriter, k)
	}
	emit.Int(w.BinWriter, int64(len(pubs)))
	emit.Opcodes(w.BinWriter, opcode.SYSCALL, 0, 0, 0, 0)
	v.Load(w.Bytes())
	if err := v.Run(); err != nil {
		msg := err.Error()
		if i := strings.LastIndex(msg, ": "); i >= 0 && len(msg)-i < 80 {
			msg = msg[i+2:]
		}
		return "fault"
	}
	if v.Estack().Len() != 1 {
		return "fault"
	}
	if v.Estack().Pop().Bool() {
		return "true"
	}
	return "false"
}

// reference: the sequential in-order matcher over key/signature identities
func c18SeqMatch(keys, sigs []int) bool {
	i, j := 0, 0
	for i < len(sigs) && j < len(keys) {
		if sigs[i] >= 0 && keys[j] == sigs[i] {
			i++
		}
		j++
		if len(sigs)-i > len(keys)-j {
			return false
		}
	}
	return i == len(sigs)
}

func c18Multisig(co *caseOut, in c18xInput) {
	privs := c17PrivPool()
	tx := transaction.New([]byte{0x51}, 1)
	tx.Nonce = uint32(in.Seed)
	tx.Signers = []transaction.Signer{{Account: util.Uint160{1}}}
	other := transaction.New([]byte{0x52}, 2)
	other.Nonce = 7
	other.Signers = tx.Signers
	r := newRng(in.Seed + 17)
	hasBad := false
	// the handler pops keys first: element 0 is the item pushed LAST; build the lists as the checker sees them
	pubs := make([][]byte, len(in.Keys))
	for i, k := range in.Keys {
		if k < 0 {
			hasBad = true
			pubs[i] = append([]byte{0x02}, bytes.Repeat([]byte{0xff}, 32)...)
		} else {
			pubs[i] = privs[k].PublicKey().Bytes()
		}
	}
	sigs := make([][]byte, len(in.Sigs))
	for i, s := range in.Sigs {
		switch {
		case s >= 0:
			sigs[i] = privs[s].SignHashable(42, tx)
		case s == -2:
			sigs[i] = privs[0].SignHashable(42, other)
		default:
			sigs[i] = r.bytes(64)
		}
	}
	rev := func(x [][]byte) [][]byte {
		o := make([][]byte, len(x))
		for i := range x {
			o[len(x)-1-i] = x[i]
		}
		return o
	}
	outcomes := map[string]int{}
	old := runtime.GOMAXPROCS(0)
	g0 := runtime.NumGoroutine()
	reps := 3
	if hasBad {
		reps = 12
	}
	for _, procs := range []int{1, 2, 4, 8} {
		runtime.GOMAXPROCS(procs)
		for k := 0; k < reps; k++ {
			// emitted in reverse so that the checker sees keys and signatures in the order of the input
			outcomes[c18MultisigOnce(rev(pubs), rev(sigs), tx)]++
			if k%2 == 1 {
				runtime.Gosched()
			}
		}
	}
	runtime.GOMAXPROCS(old)
	leaked := runtime.NumGoroutine() - g0
	var names []string
	for k := range outcomes {
		names = append(names, k)
	}
	sort.Strings(names)
	if len(outcomes) > 1 {
		note := "CHECKMULTISIG outcome depends on scheduling"
		if hasBad {
			note += " (a malformed public key is decoded only on some schedules)"
		}
		co.violation("multisig", note, in, map[string]any{"outcomes": outcomes, "goroutines_left_behind": leaked})
		return
	}
	if hasBad { // no boolean to compare: a deterministic fault is acceptable
		co.hist["multisig/badkey-"+names[0]]++
		return
	}
	if len(in.Sigs) > len(in.Keys) || len(in.Sigs) == 0 {
		if names[0] != "fault" {
			co.violation("multisig", "more signatures than keys (or none) must fault", in, outcomes)
		}
		co.hist["multisig/fault"]++
		return
	}
	if names[0] == "fault" {
		co.violation("multisig", "CHECKMULTISIG faults on well-formed keys and signatures", in, outcomes)
		return
	}
	impl := names[0] == "true"
	if impl != c18SeqMatch(in.Keys, in.Sigs) {
		co.violation("multisig", "CHECKMULTISIG disagrees with the sequential in-order matcher", in, map[string]any{"outcomes": outcomes, "sequential": !impl})
	}
	var ks, ss []string
	for _, k := range in.Keys {
		ks = append(ks, fmt.Sprint(k))
	}
	for _, s := range in.Sigs {
		ss = append(ss, coqZi(int64(min(s, 0)+max(s, 0))))
	}
	// invalid signatures (-1, -2) verify under no key: they are written as ids that no key has
	for i, s := range in.Sigs {
		if s < 0 {
			ss[i] = coqZi(int64(100 + i))
		}
	}
	tag := fmt.Sprintf("%dof%d/%v", len(in.Sigs), len(in.Keys), impl)
	co.add("multisig", tag, len(in.Sigs) >= 2, in, outcomes, fmt.Sprintf("CMultisig %s %s %s", coqList(ks), coqList(ss), coqBool(impl)))
}

// ---- ECDSA, RFC 6979, WIF, NEP-2, public keys, script builders/parsers: algebraic laws checked directly ----

func c18Ecdsa(co *caseOut, in c18xInput) {
	r := newRng(in.Seed)
	bad := func(note string, impl any) { co.violation("ecdsa", note, in, impl) }
	kb := r.bytes(32)
	switch r.intn(6) {
	case 0:
		kb = append(make([]byte, 31), 1) // scalar 1
	case 1:
		kb[0] = 0 // leading zero byte
	}
	priv, err := keys.NewPrivateKeyFromBytes(kb)
	if err != nil {
		co.hist["ecdsa/badscalar"]++
		return
	}
	if !bytes.Equal(priv.Bytes(), kb) {
		bad("PrivateKey.Bytes differs from the scalar it was made from", hx(priv.Bytes()))
	}
	pub := priv.PublicKey()
	other, _ := keys.NewPrivateKeyFromBytes(r.bytes(32))
	msg := r.bytes(pick(r, []int{0, 1, 32, 100}))
	sig := priv.Sign(msg)
	if len(sig) != 64 {
		bad("signature is not 64 bytes", len(sig))
	}
	if !bytes.Equal(sig, priv.Sign(msg)) {
		bad("RFC 6979: signing twice gives different signatures", nil)
	}
	d := hash.Sha256(msg)
	if !pub.Verify(sig, d.BytesBE()) {
		bad("a signature does not verify under its own key", nil)
	}
	if other != nil && other.PublicKey().Verify(sig, d.BytesBE()) {
		bad("a signature verifies under another key", nil)
	}
	if pub.Verify(sig, hash.Sha256(append(msg, 1)).BytesBE()) {
		bad("a signature verifies for another message", nil)
	}
	alt := bytes.Clone(sig)
	alt[r.intn(64)] ^= 1 << uint(r.intn(8))
	if pub.Verify(alt, d.BytesBE()) {
		bad("an altered signature verifies", hx(alt))
	}
	if pub.Verify(sig[:63], d.BytesBE()) || pub.Verify(append(bytes.Clone(sig), 0), d.BytesBE()) {
		bad("a signature of the wrong length verifies", nil)
	}
	// public key forms
	for _, enc := range [][]byte{pub.Bytes(), pub.UncompressedBytes()} {
		p2, err := keys.NewPublicKeyFromBytes(enc, elliptic.P256())
		if err != nil || !p2.Equal(pub) || !bytes.Equal(p2.Bytes(), pub.Bytes()) {
			bad("public key does not decode back from its own encoding", hx(enc))
		}
	}
	if p3, err := keys.NewPublicKeyFromString(pub.StringCompressed()); err != nil || !p3.Equal(pub) {
		bad("public key does not decode back from its hex string", nil)
	}
	if j, err := json.Marshal(pub); err == nil {
		p4 := new(keys.PublicKey)
		if err := json.Unmarshal(j, p4); err != nil || !p4.Equal(pub) {
			bad("public key JSON round trip fails", string(j))
		}
	}
	// WIF
	w := priv.WIF()
	if p5, err := keys.NewPrivateKeyFromWIF(w); err != nil || !bytes.Equal(p5.Bytes(), priv.Bytes()) {
		bad("WIF does not decode back to the key", w)
	}
	for _, comp := range []bool{true, false} {
		ver := byte(r.next())
		ws, err := keys.WIFEncode(priv.Bytes(), ver, comp)
		if err != nil {
			bad("WIFEncode fails", err.Error())
			continue
		}
		wd, err := keys.WIFDecode(ws, ver)
		wantVer := ver
		if wantVer == 0 { // documented alias: version 0 means the default WIFVersion on both sides
			wantVer = keys.WIFVersion
		}
		if err != nil || !bytes.Equal(wd.PrivateKey.Bytes(), priv.Bytes()) || wd.Compressed != comp || wd.Version != wantVer {
			bad("WIFDecode(WIFEncode(k)) differs", ws)
		}
		if _, err := keys.WIFDecode(ws, ver+1); err == nil {
			bad("WIFDecode accepts another version byte", ws)
		}
	}
	// NEP-2 (cheap scrypt parameters; one case in sixteen uses the standard ones)
	params := keys.ScryptParams{N: 2, R: 1, P: 1}
	if r.intn(16) == 0 {
		params = keys.NEP2ScryptParams()
	}
	pass := pick(r, []string{"", "a", "pass phrase", "пароль", strings.Repeat("x", 70)})
	enc, err := keys.NEP2Encrypt(priv, pass, params)
	if err != nil {
		bad("NEP2Encrypt fails", err.Error())
	} else {
		if p6, err := keys.NEP2Decrypt(enc, pass, params); err != nil || !bytes.Equal(p6.Bytes(), priv.Bytes()) {
			bad("NEP-2: the right passphrase does not give the key back", enc)
		}
		if p7, err := keys.NEP2Decrypt(enc, pass+"x", params); err == nil {
			bad("NEP-2: a wrong passphrase is accepted", hx(p7.Bytes()))
		}
		if len(enc) != 58 {
			bad("NEP-2 string is not 58 characters", enc)
		}
	}
	// address / script hash
	sh := pub.GetScriptHash()
	if sh != hash.Hash160(pub.GetVerificationScript()) {
		bad("script hash is not Hash160 of the verification script", nil)
	}
	if u, err := address.StringToUint160(pub.Address()); err != nil || u != sh {
		bad("address does not decode back to the script hash", pub.Address())
	}
	// builders and parsers
	if kbytes, ok := scparser.ParseSignatureContract(pub.GetVerificationScript()); !ok || !bytes.Equal(kbytes, pub.Bytes()) {
		bad("signature contract does not parse back to its key", nil)
	}
	pool := c17Keys()
	n := 1 + r.intn(len(pool))
	m := 1 + r.intn(n)
	pks := make(keys.PublicKeys, n)
	copy(pks, pool[:n])
	script, err := smartcontract.CreateMultiSigRedeemScript(m, pks)
	if err != nil {
		bad("CreateMultiSigRedeemScript fails", err.Error())
	} else {
		pm, pkeys, ok := scparser.ParseMultiSigContract(script)
		if !ok || pm != m || len(pkeys) != n {
			bad("multisig contract does not parse back", nil)
		} else {
			sorted := make(keys.PublicKeys, n)
			copy(sorted, pool[:n])
			sort.Sort(sorted)
			for i := range pkeys {
				if !bytes.Equal(pkeys[i], sorted[i].Bytes()) {
					bad("multisig contract parses back to other keys", nil)
					break
				}
			}
		}
	}
	co.add("ecdsa", "laws", true, in, nil, fmt.Sprintf("CBigEnc %d %s", 0, "[]")) // the laws are direct; the term is a placeholder that always agrees
}

// ---- generation ----

func c18xGenerate(co *caseOut, r *rng, cf *commonFlags) {
	n := cf.n
	// Merkle roots: every length 0..40, random and repeated hashes. (Each costs many SHA-256 inside Coq: the cases are
	// spread over the run, between the cheap ones, so that they do not end up in one shard of the parallel evaluation.)
	var merkleQ []c18xInput
	for l := 0; l <= 40; l++ {
		var hs []string
		for i := 0; i < l; i++ {
			if i > 0 && r.chance(15) {
				hs = append(hs, hs[r.intn(i)])
			} else {
				hs = append(hs, hx(r.bytes(32)))
			}
		}
		if cf.tier == "quick" && l > 9 && l != 16 && l != 17 && l != 31 && l != 32 && l != 33 && l != int(21+cf.seed%19) {
			continue // the quick tier keeps every length up to 9, the power-of-two boundaries and one more length chosen by the seed
		}
		merkleQ = append(merkleQ, c18xInput{Hashes: hs})
	}
	popMerkle := func() {
		if len(merkleQ) > 0 {
			c18xRun(co, "merkle", merkleQ[len(merkleQ)-1])
			merkleQ = merkleQ[:len(merkleQ)-1]
		}
	}
	// Base58 / Base58Check
	for i := 0; i < n/3+12; i++ {
		if i%3 == 0 {
			popMerkle()
		}
		l := pick(r, []int{0, 1, 2, 5, 20, 21, 25, 33, 38, 45})
		b := r.bytes(l)
		for j, z := 0, pick(r, []int{0, 0, 1, 2, 5, l}); j < z && j < l; j++ {
			b[j] = 0
		}
		if l > 0 && r.chance(10) {
			for j := range b {
				b[j] = 0xff
			}
		}
		c18xRun(co, "b58_enc", c18xInput{Bytes: hx(b)})
		s := mrbase58.Encode(b)
		c18xRun(co, "b58_dec", c18xInput{S: sp(s)})
		if len(b) > 0 {
			c18xRun(co, "check_enc", c18xInput{Bytes: hx(b)})
			c18xRun(co, "check_dec", c18xInput{S: sp(base58.CheckEncode(bytes.Clone(b)))})
		}
		if r.chance(40) && len(s) > 0 {
			ms := []byte(s)
			switch r.intn(4) {
			case 0:
				ms[r.intn(len(ms))] = pick(r, []byte{'0', 'O', 'I', 'l', ' ', '1', 'z', 0x80, '+'})
			case 1:
				ms = append([]byte{'1'}, ms...)
			case 2:
				ms = ms[:len(ms)-1]
			default:
				ms[r.intn(len(ms))] = "123456789ABCDEFGHJKLMNPQRSTUVWXYZabcdefghijkmnopqrstuvwxyz"[r.intn(58)]
			}
			c18xRun(co, "b58_dec", c18xInput{S: sp(string(ms))})
			c18xRun(co, "check_dec", c18xInput{S: sp(string(ms))})
		}
	}
	// (the Base58Check form of the empty payload: four checksum bytes only, "missing checksum" for CheckDecode)
	for _, s := range []string{"", "1", "11", "111", "2", "z", "1z", "zzzzzzzzzzz", "3yQ", "0", "Il", base58.CheckEncode(nil), base58.CheckEncode([]byte{0}), base58.CheckEncode([]byte{0, 0})} {
		c18xRun(co, "b58_dec", c18xInput{S: sp(s)})
		c18xRun(co, "check_dec", c18xInput{S: sp(s)})
	}
	// addresses: right and wrong payload lengths, right and wrong prefixes
	for i := 0; i < n/6+8; i++ {
		u := unhx(c17GenHash(r, 20))
		prefix := int(pick(r, []byte{address.NEO3Prefix, address.NEO2Prefix, 0, 0xff}))
		c18xRun(co, "addr_enc", c18xInput{Prefix: prefix, Bytes: hx(u)})
		plen := pick(r, []int{20, 20, 0, 1, 3, 12, 18, 19, 21, 30})
		pfx := byte(prefix)
		if r.chance(20) {
			pfx++
		}
		payload := append([]byte{pfx}, r.bytes(plen)...)
		c18xRun(co, "addr_dec", c18xInput{Prefix: prefix, S: sp(base58.CheckEncode(payload))})
	}
	// fixed-point decimals
	vals := []int64{0, 1, -1, 9, 10, 99999999, 100000000, 100000001, -99999999, -100000000, -100000001, -50000000, 50000000, -1, 12345678900, -12345678900,
		math.MaxInt64, math.MinInt64 + 1, math.MinInt64, 1000000000000000000}
	for i := 0; i < n/8; i++ {
		vals = append(vals, int64(r.next())>>uint(r.intn(64)))
	}
	for vi, v := range vals {
		if vi%3 == 0 {
			popMerkle()
		}
		c18xRun(co, "fixed8_str", c18xInput{Z: fmt.Sprint(v)})
		c18xRun(co, "fixed8_fromstr", c18xInput{S: sp(fixedn.Fixed8(v).String())})
		for _, prec := range []int{0, 1, 8, 16, 18} {
			if r.chance(50) {
				continue
			}
			c18xRun(co, "fixed_tostr", c18xInput{Z: fmt.Sprint(v), Prec: prec})
			if !c18xFixedStuck {
				var str string
				if c18xWithin(3*time.Second, func() { str = fixedn.ToString(big.NewInt(v), prec) }) && len(str) < 400 {
					c18xRun(co, "fixed_fromstr", c18xInput{S: sp(str), Prec: prec})
				}
			}
		}
	}
	// (precision stays <= 18: fixedn.ToString takes the fraction through Uint64, see notes/C18.md)
	// (2^63, 2^64, 2^255 and their neighbours: where int64 / uint64 / the VM range end)
	for _, z := range []string{"340282366920938463463374607431768211456", "-340282366920938463463374607431768211457", "-5", "-15", "5",
		"9223372036854775807", "9223372036854775808", "-9223372036854775808", "-9223372036854775809", "18446744073709551615", "18446744073709551616", "-18446744073709551616",
		"57896044618658097711785492504343953926634992332820282019728792003956564819967", "57896044618658097711785492504343953926634992332820282019728792003956564819968",
		"-57896044618658097711785492504343953926634992332820282019728792003956564819968", "-57896044618658097711785492504343953926634992332820282019728792003956564819969"} {
		for _, prec := range []int{1, 8, 18} {
			c18xRun(co, "fixed_tostr", c18xInput{Z: z, Prec: prec})
		}
	}
	for _, s := range []string{"", ".", "-", "+", "0", "-0", "+0", "-0.5", "+0.5", "0.5", ".5", "5.", "1.50", "1.5.0", "1e5", "1.123456789", "1.12345678", "-1.12345678", "1.+5", "1.-5", "-1.-5",
		"00012.5", "0x10", "1_000", " 1", "1 ", "92233720368.54775807", "92233720368.54775808", "-92233720368.54775808", "-92233720368.54775809", "184467440737.09551616", "--92233720368",
		"9223372036854775808", "-9223372036854775809", "18446744073709551616", "57896044618658097711785492504343953926634992332820282019728792003956564819968", "-57896044618658097711785492504343953926634992332820282019728792003956564819969", "578960446186580977117854925043439539266349923328202820197287920039565648.19968"} {
		c18xRun(co, "fixed8_fromstr", c18xInput{S: sp(s)})
		c18xRun(co, "fixed_fromstr", c18xInput{S: sp(s), Prec: pick(r, []int{0, 1, 8})})
	}
	// Uint160 / Uint256
	for i := 0; i < n/6+6; i++ {
		l := pick(r, []int{20, 32})
		b := unhx(c17GenHash(r, l))
		c18xRun(co, "uint_str", c18xInput{Bytes: hx(b)})
		s := hx(b)
		switch r.intn(6) {
		case 0:
			s = strings.ToUpper(s)
		case 1:
			s = "0x" + s
		case 2:
			s = s[:len(s)-1]
		case 3:
			s = s[:len(s)-2] + "zz"
		case 4:
			s = "0x0x" + s
		}
		c18xRun(co, "uint_dec", c18xInput{N: l, Mode: r.intn(3), S: sp(s)})
	}
	for len(merkleQ) > 0 {
		popMerkle()
	}
	// multi-signature configurations: repeated keys, invalid signatures, every m <= n <= 7, plus malformed keys
	nm := n/3 + 20
	for i := 0; i < nm; i++ {
		nk := 1 + r.intn(7)
		keysIdx := make([]int, nk)
		for j := range keysIdx {
			keysIdx[j] = r.intn(5) // few identities: repeats are frequent
		}
		ms := 1 + r.intn(nk)
		var sigs []int
		switch r.intn(4) {
		case 0: // a sub-sequence of the keys in order (accepted)
			idx := r.intn(nk - ms + 1)
			for j := 0; j < ms; j++ {
				sigs = append(sigs, keysIdx[idx+j])
			}
		case 1: // the same with one signature invalid or out of order
			for j := 0; j < ms; j++ {
				sigs = append(sigs, keysIdx[j*nk/ms])
			}
			k := r.intn(ms)
			sigs[k] = pick(r, []int{-1, -2, sigs[(k+1)%ms], 6})
		default:
			for j := 0; j < ms; j++ {
				sigs = append(sigs, pick(r, []int{r.intn(5), r.intn(5), -1}))
			}
		}
		c18xRun(co, "multisig", c18xInput{Keys: keysIdx, Sigs: sigs, Seed: uint64(i)})
	}
	for i := 0; i < 6; i++ { // a malformed key somewhere in the middle of a satisfiable configuration
		c18xRun(co, "multisig", c18xInput{Keys: []int{0, -1, 1, 2}, Sigs: []int{0, 1, 2}, Seed: uint64(100 + i)})
		c18xRun(co, "multisig", c18xInput{Keys: []int{0, 1, -1, 2, 3}, Sigs: []int{0, 1, 2, 3}, Seed: uint64(200 + i)})
	}
	c18xRun(co, "multisig", c18xInput{Keys: []int{0, 1}, Sigs: []int{0, 1, 1}, Seed: 1})
	// public-key decoding per curve, through the LRU cache keyed by the encoded bytes, in every order
	for i := 0; i < n/10+6; i++ {
		c18xRun(co, "keycurve", c18xInput{Seed: cf.seed*104729 + uint64(i), Mode: i % 4})
	}
	// ECDSA / WIF / NEP-2 / key laws
	for i := 0; i < n/4+6; i++ {
		c18xRun(co, "ecdsa", c18xInput{Seed: cf.seed*7919 + uint64(i)})
	}
	// text beyond ASCII: NEP-2 passphrases, NEP-2 envelopes, look-alikes of valid strings into every decoder
	c18Nep2Generate(co, r, cf)
	// the pure functions of the property (and the hot paths of C17) from 8 goroutines at once
	c18ConcGenerate(co, cf)
}

// ---- public keys of both curves: decoding is per requested curve and must not depend on what was decoded before ----

var c18Curves = []struct {
	name  string
	curve elliptic.Curve
	id    int64 // CryptoLib NamedCurveHash with SHA-256
}{{"secp256r1", elliptic.P256(), 23}, {"secp256k1", secp256k1.S256(), 22}}

// deterministic private key on either curve (keys.NewSecp256k1PrivateKey draws from crypto/rand)
func c18PrivOn(ci int, scalar []byte) *keys.PrivateKey {
	c := c18Curves[ci].curve
	x, y := c.ScalarBaseMult(scalar) // nolint: staticcheck
	return &keys.PrivateKey{PrivateKey: ecdsa.PrivateKey{PublicKey: ecdsa.PublicKey{Curve: c, X: x, Y: y}, D: new(big.Int).SetBytes(scalar)}}
}

// reference decoding: a fresh PublicKey with the curve set, DecodeBytes (no cache involved)
func c18RefDecode(b []byte, ci int) *keys.PublicKey {
	p := &keys.PublicKey{Curve: c18Curves[ci].curve}
	if p.DecodeBytes(b) != nil {
		return nil
	}
	return p
}

var c18VerifyNative func(args []stackitem.Item) stackitem.Item

func c18NativeVerify(msg, pub, sig []byte, curveID int64) (res string) {
	if c18VerifyNative == nil {
		latest := config.HFLatestKnown
		for _, n := range native.NewDefaultContracts(config.ProtocolConfiguration{}) {
			md := n.Metadata()
			if md.Name != "CryptoLib" {
				continue
			}
			for _, m := range md.HFSpecificContractMD(&latest).Methods {
				if m.MD.Name == "verifyWithECDsa" {
					f := m.Func
					c18VerifyNative = func(args []stackitem.Item) stackitem.Item { return f(nil, args) }
				}
			}
		}
		if c18VerifyNative == nil {
			panic("CryptoLib.verifyWithECDsa not found")
		}
	}
	defer func() {
		if e := recover(); e != nil {
			res = "fault"
		}
	}()
	it := c18VerifyNative([]stackitem.Item{stackitem.NewByteArray(msg), stackitem.NewByteArray(pub), stackitem.NewByteArray(sig), stackitem.Make(curveID)})
	b, _ := it.TryBool()
	return fmt.Sprint(b)
}

func c18KeyCurve(co *caseOut, in c18xInput) {
	r := newRng(in.Seed)
	bad := func(note string, impl any) { co.violation("keycurve", note, in, impl) }
	// material: a key of each curve, and for each curve an encoding that is ALSO a valid key on the other curve
	type enc struct {
		b      []byte
		origin int // curve of the key that was encoded
		key    *keys.PrivateKey
	}
	var encs []enc
	for ci := range c18Curves {
		encs = append(encs, enc{origin: ci, key: c18PrivOn(ci, r.bytes(32))})
		for tries := 0; tries < 64; tries++ { // about half of all compressed encodings are points of both curves
			k := c18PrivOn(ci, r.bytes(32))
			if c18RefDecode(k.PublicKey().Bytes(), 1-ci) != nil {
				encs = append(encs, enc{origin: ci, key: k})
				break
			}
		}
	}
	for i := range encs {
		encs[i].b = encs[i].key.PublicKey().Bytes()
		if r.chance(25) {
			encs[i].b = encs[i].key.PublicKey().UncompressedBytes() // valid on its own curve only
		}
	}
	both := 0
	decodeCheck := func(e enc, ci int, when string) {
		ref := c18RefDecode(e.b, ci)
		got, err := keys.NewPublicKeyFromBytes(e.b, c18Curves[ci].curve)
		ctx := map[string]any{"encoding": hx(e.b), "encoded_on": c18Curves[e.origin].name, "requested": c18Curves[ci].name, "when": when}
		if (ref == nil) != (err != nil) {
			ctx["err"] = fmt.Sprint(err)
			bad("NewPublicKeyFromBytes accepts/rejects differently from a fresh DecodeBytes on the requested curve", ctx)
			return
		}
		if ref == nil {
			return
		}
		if got.Curve == nil || got.Curve.Params().Name != c18Curves[ci].curve.Params().Name {
			ctx["got_curve"] = got.Curve.Params().Name
			bad("decoded key is on another curve than the one requested (decoding depends on what was decoded before)", ctx)
			return
		}
		if got.X.Cmp(ref.X) != 0 || got.Y.Cmp(ref.Y) != 0 || !c18Curves[ci].curve.IsOnCurve(got.X, got.Y) { // nolint: staticcheck
			bad("decoded point differs from the point of the requested curve", ctx)
			return
		}
		if ci == e.origin && (got.X.Cmp(e.key.PublicKey().X) != 0 || got.Y.Cmp(e.key.PublicKey().Y) != 0) {
			bad("decode . encode is not the identity on the key's own curve", ctx)
		}
		if len(e.b) == 33 && !bytes.Equal(got.Bytes(), e.b) {
			bad("re-encoding of the decoded key differs from the input", ctx)
		}
	}
	cycle := func() { // push everything out of the 1024-entry cache
		for i := 0; i < 1100; i++ {
			sc := r.bytes(32)
			k := c18PrivOn(i%2, sc)
			_, _ = keys.NewPublicKeyFromBytes(k.PublicKey().Bytes(), c18Curves[i%2].curve)
		}
	}
	msg := r.bytes(40)
	verifyCheck := func(e enc, ci int, when string) {
		// signature by the key's own private key; expected answer = verification under the reference decoding
		sig := e.key.SignHash(hash.Sha256(msg))
		ref := c18RefDecode(e.b, ci)
		want := "fault"
		if ref != nil {
			want = fmt.Sprint(ref.Verify(sig, hash.Sha256(msg).BytesBE()))
		}
		if got := c18NativeVerify(msg, e.b, sig, c18Curves[ci].id); got != want {
			bad("CryptoLib.verifyWithECDsa answers differently depending on what was decoded before",
				map[string]any{"encoding": hx(e.b), "signed_on": c18Curves[e.origin].name, "curve": c18Curves[ci].name, "got": got, "want": want, "when": when})
		}
		if ref != nil && ci == e.origin && want != "true" {
			bad("a signature does not verify under its own key and curve", hx(e.b))
		}
	}
	for _, e := range encs {
		if c18RefDecode(e.b, 0) != nil && c18RefDecode(e.b, 1) != nil {
			both++
		}
		a, b := e.origin, 1-e.origin
		if in.Mode&1 == 1 {
			a, b = b, a
		}
		decodeCheck(e, a, "first")
		decodeCheck(e, b, "after the other curve")
		decodeCheck(e, a, "again after the other curve")
		verifyCheck(e, b, "after decoding on the other curve")
		verifyCheck(e, a, "after verifying on the other curve")
		decodeCheck(e, b, "after verification")
		// PublicKey.DecodeBytes with the curve preset, and the default (nil curve = secp256r1)
		for ci := range c18Curves {
			p := &keys.PublicKey{Curve: c18Curves[ci].curve}
			err := p.DecodeBytes(e.b)
			if ref := c18RefDecode(e.b, ci); (ref == nil) != (err != nil) || (ref != nil && (p.X.Cmp(ref.X) != 0 || p.Y.Cmp(ref.Y) != 0)) {
				bad("PublicKey.DecodeBytes is not a function of (bytes, curve)", hx(e.b))
			}
		}
	}
	if in.Mode&2 == 2 {
		cycle()
		for _, e := range encs {
			decodeCheck(e, 1-e.origin, "after cycling the cache")
			decodeCheck(e, e.origin, "after cycling the cache, own curve")
			verifyCheck(e, e.origin, "after cycling the cache")
		}
	}
	// interleaved: all encodings under curve 0, then all under curve 1, then alternating
	for pass := 0; pass < 3; pass++ {
		for i, e := range encs {
			ci := pass
			if pass == 2 {
				ci = i % 2
			}
			decodeCheck(e, ci, fmt.Sprintf("interleaved pass %d", pass))
		}
	}
	co.hist[fmt.Sprintf("keycurve/both-curves-%d", both)]++
	co.add("keycurve", fmt.Sprintf("both%d", min(both, 2)), both > 0, in, nil, "CBigEnc 0 []") // direct laws; the term is a placeholder that always agrees
}

// c18xFixedStuck is set when a fixed-point conversion did not return in time: the remaining fixed-point cases are skipped
// (a runaway computation must end in a reported violation, not in a check that never finishes).
var c18xFixedStuck bool

// c18xWithin runs f and reports whether it finished within d (the goroutine is abandoned otherwise).
func c18xWithin(d time.Duration, f func()) bool {
	done := make(chan struct{})
	go func() { defer func() { recover(); close(done) }(); f() }()
	select {
	case <-done:
		return true
	case <-time.After(d):
		return false
	}
}
