package main

// C05 — native token supply and governance accounting are conserved.
// Random neotest histories (NEO/GAS transfers incl. self/zero/over-balance and transfers to contracts with and
// without onNEP17Payment, votes, candidate (un)registration, GAS claims, fee burning, committee rewards across
// epochs, notary deposits/withdrawals, faulting transactions, committee-only settings); after EVERY block the
// NEO/GAS/Notary/Policy contract storage is dumped and (1) every invariant of the property is evaluated directly
// on the dump and the emitted Transfer events, (2) the dump is compared with the Gallina model run on the same
// operation list (Harness/C05.v).

import (
	"encoding/json"
	"fmt"
	"math/big"
	"os"
	"sort"
	"strings"

	"github.com/nspcc-dev/neo-go/pkg/core/block"
	"github.com/nspcc-dev/neo-go/pkg/core/transaction"
	"github.com/nspcc-dev/neo-go/pkg/neotest"
	"github.com/nspcc-dev/neo-go/pkg/smartcontract/trigger"
	"github.com/nspcc-dev/neo-go/pkg/vm/stackitem"
	"github.com/nspcc-dev/neo-go/pkg/vm/vmstate"
)

func init() { register("c05", runC05) }

type c05TxRec struct {
	Op     int        `json:"op"` // index into the ops list
	Sender int        `json:"sender"`
	Fee    int64      `json:"fee"`
	Halt   bool       `json:"halt"`
	Res    int        `json:"res"` // 1 true, 0 false, -1 anything else
	Events []c05Event `json:"events,omitempty"`
	Viol   []string   `json:"violated,omitempty"` // clauses evaluated on this execution alone ("lim" operations, c05lim.go)
}

type c05BlockRec struct {
	Index   uint32     `json:"index"`
	Pre     []c05Event `json:"pre,omitempty"` // OnPersist
	Txs     []c05TxRec `json:"txs,omitempty"`
	Post    []c05Event `json:"post,omitempty"` // PostPersist
	Skipped []int      `json:"skipped,omitempty"`
	Dump    *c05Dump   `json:"dump"`
	blk     *block.Block
	csigs   map[int][]int // op index -> committee key ids a committee-only operation was co-signed with
}

type c05Runner struct {
	c       *c05Chain
	pending []*transaction.Transaction
	pendOps []int
	skipped []int
	blocks  []*c05BlockRec
	nops    int
	csigs   map[int][]int
	lims    map[int]c05Op      // the "lim" operations by index
	onBlock func(*c05BlockRec) // called after every block
}

// c05NewRunner starts a history: block 1 deploys the three callback contracts (operation index -1).
func c05NewRunner(c *c05Chain, onBlock func(*c05BlockRec)) (*c05Runner, error) {
	r := &c05Runner{c: c, onBlock: onBlock, csigs: map[int][]int{}, lims: map[int]c05Op{}}
	cs := c05Compile(c.t, c.u.hashes[c05AValidators])
	for _, ct := range []*neotest.Contract{cs.acceptor, cs.nocb, cs.rejector, cs.notifier, cs.aborter, cs.looper} {
		mb, _ := json.Marshal(ct.Manifest)
		nb, _ := ct.NEF.Bytes()
		tx, err := c.mkTx(c.mgmtH, "deploy", []any{nb, mb, nil}, 20_0000_0000, nil, c05AValidators)
		if err != nil {
			return nil, err
		}
		if err := c.bc.PoolTx(tx); err != nil {
			return nil, err
		}
		r.pending = append(r.pending, tx)
		r.pendOps = append(r.pendOps, -1)
	}
	if err := r.flush(); err != nil {
		return nil, err
	}
	for _, t := range r.blocks[0].Txs {
		if !t.Halt {
			return nil, fmt.Errorf("prelude deploy failed")
		}
	}
	return r, nil
}

// submit builds the transaction of one operation and offers it to the real memory pool: what the pool refuses
// (fees not covered, blocked signer, ...) is not part of the history.
func (r *c05Runner) submit(op c05Op) error {
	i := r.nops
	r.nops++
	if op.T == "blk" {
		return r.flush()
	}
	tx, err := r.c.c05BuildTx(op)
	if err != nil || tx == nil {
		r.skipped = append(r.skipped, i)
		return nil
	}
	if err := r.c.bc.PoolTx(tx); err != nil {
		if os.Getenv("VERIF_DEBUG") != "" {
			fmt.Fprintf(os.Stderr, "skip %+v: %v\n", op, err)
		}
		r.skipped = append(r.skipped, i)
		return nil
	}
	if c05IsCommitteeOp(op.T) {
		var ks []int
		if pubs, err := r.c.bc.GetCommittee(); err == nil {
			for _, p := range pubs {
				ks = append(ks, r.c.u.key(p.Bytes()))
			}
		}
		r.csigs[i] = ks
	}
	if op.T == "lim" {
		r.lims[i] = op
	}
	r.pending = append(r.pending, tx)
	r.pendOps = append(r.pendOps, i)
	return nil
}

func (r *c05Runner) flush() error {
	c := r.c
	b, err := c.addBlock(r.pending)
	if err != nil {
		return err
	}
	rec := &c05BlockRec{Index: b.Index, Skipped: r.skipped, blk: b, csigs: r.csigs}
	baers, err := c.bc.GetAppExecResults(b.Hash(), trigger.All)
	if err != nil || len(baers) != 2 {
		return fmt.Errorf("block %d: %d block-level execution results (%v)", b.Index, len(baers), err)
	}
	rec.Pre = c.transferEvents(&baers[0])
	rec.Post = c.transferEvents(&baers[1])
	for j, tx := range b.Transactions {
		aers, err := c.bc.GetAppExecResults(tx.Hash(), trigger.Application)
		if err != nil || len(aers) != 1 {
			return fmt.Errorf("tx %s: no execution result", tx.Hash().StringLE())
		}
		a := &aers[0]
		tr := c05TxRec{Op: r.pendOps[j], Sender: c.u.acct(tx.Sender()), Fee: tx.SystemFee + tx.NetworkFee, Halt: a.VMState == vmstate.Halt, Res: -1}
		if os.Getenv("VERIF_DEBUG") != "" {
			fmt.Fprintf(os.Stderr, "aer op=%d halt=%v stack=%d fault=%q\n", r.pendOps[j], tr.Halt, len(a.Stack), a.FaultException)
		}
		if tr.Halt && len(a.Stack) == 1 {
			if bi, ok := a.Stack[0].(stackitem.Bool); ok {
				if bool(bi) {
					tr.Res = 1
				} else {
					tr.Res = 0
				}
			}
		}
		tr.Events = c.transferEvents(a)
		if lop, ok := r.lims[r.pendOps[j]]; ok {
			tr.Viol = c.c05LimCheck(lop, a, &tr)
		}
		rec.Txs = append(rec.Txs, tr)
	}
	rec.Dump = c05DumpChain(c.bc, c.u)
	r.blocks = append(r.blocks, rec)
	r.pending, r.pendOps, r.skipped = nil, nil, nil
	if r.onBlock != nil {
		r.onBlock(rec)
	}
	return nil
}

// ---------- direct evaluation of the property on the real dump ----------

func c05Big(s string) *big.Int {
	z, ok := new(big.Int).SetString(s, 10)
	if !ok {
		return big.NewInt(-1 << 62)
	}
	return z
}

// c05Invariants returns the list of violated clauses of the property on one block boundary.
func c05Invariants(prev, cur *c05Dump, rec *c05BlockRec) []string {
	var bad []string
	f := func(s string, a ...any) { bad = append(bad, fmt.Sprintf(s, a...)) }
	for _, b := range cur.Bad {
		f("undecodable storage item: %s", b)
	}
	for _, t := range rec.Txs {
		bad = append(bad, t.Viol...)
	}
	neoSum, gasSum, voters := new(big.Int), new(big.Int), new(big.Int)
	votesFor := map[int]*big.Int{}
	for _, a := range cur.Neo {
		b := c05Big(a.Bal)
		if b.Sign() < 0 {
			f("no_negative: NEO balance of account %d is %s", a.A, a.Bal)
		}
		neoSum.Add(neoSum, b)
		if a.Vote >= 0 {
			voters.Add(voters, b)
			if votesFor[a.Vote] == nil {
				votesFor[a.Vote] = new(big.Int)
			}
			votesFor[a.Vote].Add(votesFor[a.Vote], b)
		}
	}
	var notaryGas = new(big.Int)
	for _, a := range cur.Gas {
		b := c05Big(a.Bal)
		if b.Sign() < 0 {
			f("no_negative: GAS balance of account %d is %s", a.A, a.Bal)
		}
		gasSum.Add(gasSum, b)
		if a.A == c05ANotary {
			notaryGas = b
		}
	}
	if cur.NeoTotal != "100000000" || neoSum.String() != cur.NeoTotal {
		f("neo_supply: total supply %s, sum of balances %s", cur.NeoTotal, neoSum)
	}
	if gasSum.String() != cur.GasTotal {
		f("gas_supply: total supply %s, sum of balances %s", cur.GasTotal, gasSum)
	}
	if voters.String() != cur.VotersCount {
		f("voters_count: stored %s, NEO held by voting accounts %s", cur.VotersCount, voters)
	}
	seen := map[int]bool{}
	for _, cd := range cur.Cands {
		seen[cd.K] = true
		exp := votesFor[cd.K]
		if exp == nil {
			exp = new(big.Int)
		}
		if c05Big(cd.Votes).Sign() < 0 {
			f("no_negative: candidate %d has %s votes", cd.K, cd.Votes)
		}
		if exp.String() != cd.Votes {
			f("candidate_votes: candidate %d has %s votes, its voters hold %s NEO", cd.K, cd.Votes, exp)
		}
	}
	for k, v := range votesFor {
		if !seen[k] && v.Sign() != 0 {
			f("candidate_votes: %s NEO vote for key %d which has no candidate record", v, k)
		}
	}
	depSum := new(big.Int)
	for _, d := range cur.Deposits {
		b := c05Big(d.Amount)
		if b.Sign() <= 0 {
			f("no_negative: deposit of account %d is %s", d.A, d.Amount)
		}
		depSum.Add(depSum, b)
	}
	if depSum.Cmp(notaryGas) != 0 {
		f("notary_backing: Notary contract holds %s GAS, deposits sum to %s", notaryGas, depSum)
	}
	// events_match_deltas (and supply tracking: delta of total supply = minted - burnt)
	if prev != nil {
		type key struct{ tok, a int }
		delta := map[key]*big.Int{}
		add := func(k key, z *big.Int) {
			if delta[k] == nil {
				delta[k] = new(big.Int)
			}
			delta[k].Add(delta[k], z)
		}
		var evs []c05Event
		evs = append(evs, rec.Pre...)
		for _, t := range rec.Txs {
			evs = append(evs, t.Events...)
		}
		evs = append(evs, rec.Post...)
		supply := [2]*big.Int{new(big.Int), new(big.Int)}
		for _, e := range evs {
			z := c05Big(e.Amt)
			if z.Sign() < 0 {
				f("no_negative: Transfer event with amount %s", e.Amt)
			}
			if e.From >= 0 {
				add(key{e.Tok, e.From}, new(big.Int).Neg(z))
			} else {
				supply[e.Tok].Add(supply[e.Tok], z)
			}
			if e.To >= 0 {
				add(key{e.Tok, e.To}, z)
			} else {
				supply[e.Tok].Sub(supply[e.Tok], z)
			}
		}
		bal := func(d *c05Dump) map[key]*big.Int {
			m := map[key]*big.Int{}
			for _, a := range d.Neo {
				m[key{0, a.A}] = c05Big(a.Bal)
			}
			for _, a := range d.Gas {
				m[key{1, a.A}] = c05Big(a.Bal)
			}
			return m
		}
		pb, cb := bal(prev), bal(cur)
		keys := map[key]bool{}
		for k := range pb {
			keys[k] = true
		}
		for k := range cb {
			keys[k] = true
		}
		for k := range delta {
			keys[k] = true
		}
		get := func(m map[key]*big.Int, k key) *big.Int {
			if m[k] == nil {
				return new(big.Int)
			}
			return m[k]
		}
		for k := range keys {
			d := new(big.Int).Sub(get(cb, k), get(pb, k))
			if d.Cmp(get(delta, k)) != 0 {
				f("events_match_deltas: token %d account %d balance changed by %s, Transfer events of the block net to %s", k.tok, k.a, d, get(delta, k))
			}
		}
		if new(big.Int).Sub(c05Big(cur.NeoTotal), c05Big(prev.NeoTotal)).Cmp(supply[0]) != 0 {
			f("neo_supply: total supply changed by other than minted - burnt")
		}
		if new(big.Int).Sub(c05Big(cur.GasTotal), c05Big(prev.GasTotal)).Cmp(supply[1]) != 0 {
			f("gas_supply: total supply changed by %s, minted - burnt in events %s", new(big.Int).Sub(c05Big(cur.GasTotal), c05Big(prev.GasTotal)), supply[1])
		}
	}
	sort.Strings(bad)
	return bad
}

// ---------- generator ----------

type c05Gen struct {
	r      *rng
	c      *c05Chain
	run    *c05Runner
	ops    []c05Op
	snap   *c05Dump // storage at the last block boundary: steers the choice of operands (never the outcome)
	notary bool     // the history designates P2PNotary nodes and sends transactions with the NotaryAssisted attribute
}

func (g *c05Gen) emit(op c05Op) error {
	g.ops = append(g.ops, op)
	err := g.run.submit(op)
	if op.T == "blk" || g.snap == nil {
		g.snap = c05DumpChain(g.c.bc, g.c.u)
	}
	return err
}

// registered candidate keys / blocked accounts / accounts with a deposit (expired or not) at the last boundary
func (g *c05Gen) registered() []int {
	var l []int
	for _, cd := range g.snap.Cands {
		if cd.Reg && cd.K < len(g.c.u.keys) {
			l = append(l, cd.K)
		}
	}
	return l
}
func (g *c05Gen) depositors(expired bool) []int {
	var l []int
	for _, d := range g.snap.Deposits {
		if d.A >= 1 && d.A <= 14 && (!expired || d.Till <= g.snap.Height) {
			l = append(l, d.A)
		}
	}
	return l
}

func (g *c05Gen) neoBal(a int) int64 {
	b, _ := g.c.bc.GetGoverningTokenBalance(g.c.u.hashes[a])
	return b.Int64()
}
func (g *c05Gen) gasBal(a int) int64 {
	return g.c.bc.GetUtilityTokenBalance(g.c.u.hashes[a], g.c.u.hashes[a]).Int64()
}

var c05Signers = []int{1, 2, 3, 4, 5, 6, 7, 8, 9, 10, 11, 12, 13, 14}

// receivers: plain accounts (weighted), the three callback contracts, natives, an address nobody controls
func (g *c05Gen) receiver() int {
	switch x := g.r.intn(20); {
	case x < 11:
		return pick(g.r, c05Signers)
	case x < 13:
		return c05AAcceptor
	case x == 13:
		return c05ANoCb
	case x == 14:
		return c05ARejector
	case x == 15:
		return c05ANone
	case x == 16:
		return c05AValidators
	case x == 17:
		return pick(g.r, []int{c05ANeo, c05AGas, c05APolicy, c05ANotary})
	default:
		return pick(g.r, c05Signers[:4])
	}
}

func (g *c05Gen) amount(bal int64) int64 {
	switch x := g.r.intn(12); {
	case x == 0:
		return 0
	case x == 1:
		return bal // everything
	case x == 2:
		return bal + 1 + int64(g.r.intn(3)) // over-balance
	case x == 3:
		return 1
	default:
		if bal <= 0 {
			return int64(g.r.intn(3))
		}
		return int64(g.r.next() % uint64(bal+1))
	}
}

// funding prelude (ordinary operations, part of the shrinkable list)
func (g *c05Gen) fund(rich bool) error {
	for _, a := range c05Signers {
		if err := g.emit(c05Op{T: "gt", F: 0, To: a, A: 30000_0000_0000 + int64(g.r.intn(1000))}); err != nil {
			return err
		}
	}
	if err := g.emit(c05Op{T: "blk"}); err != nil {
		return err
	}
	for _, a := range c05Signers {
		var n int64
		switch {
		case g.r.chance(15):
			n = 0
		case rich && g.r.chance(50):
			n = 1_000_000 + int64(g.r.intn(6_000_000)) // enough for a 20% turnout with a few voters
		default:
			n = int64(g.r.intn(5000))
		}
		if n > 0 {
			if err := g.emit(c05Op{T: "nt", F: 0, To: a, A: n}); err != nil {
				return err
			}
		}
	}
	return g.emit(c05Op{T: "blk"})
}

func (g *c05Gen) randomOp() c05Op {
	r := g.r
	a := pick(r, c05Signers)
	if r.chance(6) {
		a = c05AValidators
	}
	cand := func() int { // mostly registered candidates
		if reg := g.registered(); len(reg) > 0 && r.chance(75) {
			return pick(r, reg)
		}
		if r.chance(30) {
			return r.intn(len(g.c.u.keys))
		}
		return g.c.u.keyOfAcct[pick(r, c05Signers[:10])]
	}
	if g.notary && r.chance(16) {
		switch y := r.intn(100); {
		case y < 12: // other notary nodes from the next block on
			return c05Op{T: "role", A: 2, K: r.intn(len(g.c.u.keys)), N: r.intn(3)}
		case y < 22: // the fee per key changes (0 = the service is free: nothing is minted to the nodes)
			return c05Op{T: "setattr", N: 0x22, A: pick(r, []int64{0, 300_0000, 1000_0000, 2500_0000})}
		default:
			if l := g.depositors(false); len(l) > 0 && r.chance(85) {
				a = pick(r, l)
			}
			if a == c05AValidators {
				a = 1
			}
			op := c05Op{T: "na", F: a, To: g.receiver(), A: int64(r.intn(3_0000_0000)), N: r.intn(5)}
			if r.chance(25) {
				op.K = 1 // the payer is the sender, Notary a further signer
			} else if r.chance(15) {
				op.W = 1 // the fees take the whole deposit: its record is removed
			}
			return op
		}
	}
	switch x := r.intn(100); {
	case x < 22:
		to := g.receiver()
		if r.chance(12) {
			to = a // self-transfer (a GAS claim for NEO)
		}
		return c05Op{T: "nt", F: a, To: to, A: g.amount(g.neoBal(a))}
	case x < 36:
		to := g.receiver()
		if r.chance(12) {
			to = a
		}
		bal := g.gasBal(a)
		amt := g.amount(bal)
		if r.chance(70) && amt > 100_0000_0000 {
			amt = int64(r.intn(100_0000_0000))
		}
		return c05Op{T: "gt", F: a, To: to, A: amt}
	case x < 52:
		k := cand()
		if r.chance(25) {
			k = -1
		}
		return c05Op{T: "vote", F: a, K: k}
	case x < 62:
		if a == c05AValidators {
			a = 1
		}
		if r.chance(25) {
			price := c05Big(c05DumpChain(g.c.bc, g.c.u).RegPrice).Int64()
			if r.chance(20) {
				price++ // wrong amount: the payment is refused
			}
			return c05Op{T: "regpay", F: a, A: price}
		}
		if r.chance(15) {
			return c05Op{T: "reg", F: a, To: pick(r, c05Signers)} // somebody else's key: no witness is asked for (Echidna)
		}
		return c05Op{T: "reg", F: a}
	case x < 68:
		if a == c05AValidators {
			a = 1
		}
		return c05Op{T: "unreg", F: a}
	case x < 75:
		h := int(g.c.bc.BlockHeight())
		till := h + 2 + r.intn(4)
		if r.chance(10) {
			till = h + r.intn(2) // too early: refused
		}
		to := 0
		if r.chance(30) {
			to = pick(r, c05Signers)
		}
		amt := int64(2000_0000 + r.intn(5_0000_0000))
		if r.chance(10) {
			amt = int64(r.intn(2000_0000)) // below the minimum first deposit
		} else if g.notary && r.chance(60) {
			amt += 10_0000_0000 // enough to pay for a few assisted transactions
		}
		return c05Op{T: "dep", F: a, To: to, A: amt, N: till}
	case x < 82:
		to := 0
		if r.chance(40) {
			to = g.receiver()
		}
		if l := g.depositors(true); len(l) > 0 && r.chance(70) {
			a = pick(r, l)
		} else if l := g.depositors(false); len(l) > 0 && r.chance(50) {
			a = pick(r, l)
		}
		op := c05Op{T: "wd", F: a, To: to}
		if r.chance(10) {
			op.W = pick(r, c05Signers) // somebody else's deposit: not witnessed
		}
		return op
	case x < 84:
		if l := g.depositors(false); len(l) > 0 && r.chance(70) {
			a = pick(r, l)
		}
		return c05Op{T: "lock", F: a, N: int(g.c.bc.BlockHeight()) + r.intn(8)}
	case x < 88:
		return c05Op{T: "fault", F: a, To: g.receiver(), A: g.amount(g.neoBal(a))}
	case x < 90:
		return c05Op{T: "oog", F: a, To: g.receiver(), A: 1}
	case x < 93: // not witnessed: moves somebody else's funds
		w := pick(r, c05Signers)
		return c05Op{T: pick(r, []string{"nt", "gt", "vote"}), F: a, W: w, To: g.receiver(), A: 1 + int64(r.intn(5)), K: cand()}
	case x < 95:
		return c05Op{T: "setgpb", A: int64(r.intn(11)) * 1_0000_0000}
	case x < 96:
		return c05Op{T: "setreg", A: int64(1+r.intn(3)) * 500_0000_0000}
	case x < 98:
		return c05Op{T: "block", To: pick(r, c05Signers)}
	default:
		if len(g.snap.Blocked) > 0 && r.chance(80) {
			return c05Op{T: "unblock", To: pick(r, g.snap.Blocked)}
		}
		return c05Op{T: "unblock", To: pick(r, c05Signers)}
	}
}

// governance push: six or more candidates registered and voted by holders of >= 20% of the supply, so that the
// committee is elected (voter rewards, committee changes at epoch boundaries)
func (g *c05Gen) push() error {
	r := g.r
	cands := append([]int{}, c05Signers...)
	for i := len(cands) - 1; i > 0; i-- {
		j := r.intn(i + 1)
		cands[i], cands[j] = cands[j], cands[i]
	}
	n := 6 + r.intn(3)
	for i := 0; i < n; i++ {
		if err := g.emit(c05Op{T: "nt", F: 0, To: 1 + i, A: int64(n-i)*1_000_000 + int64(r.intn(1000))}); err != nil {
			return err
		}
		if err := g.emit(c05Op{T: "reg", F: cands[i]}); err != nil {
			return err
		}
	}
	if err := g.emit(c05Op{T: "blk"}); err != nil {
		return err
	}
	for i := 0; i < n; i++ {
		if err := g.emit(c05Op{T: "vote", F: 1 + i, To: cands[i]}); err != nil {
			return err
		}
	}
	return g.emit(c05Op{T: "blk"})
}

// c05Generate runs one random history on a fresh chain and returns the operations it consisted of.
func c05Generate(r *rng, c *c05Chain, run *c05Runner, nblocks int) ([]c05Op, error) {
	g := &c05Gen{r: r, c: c, run: run}
	if err := g.fund(r.chance(60)); err != nil {
		return g.ops, err
	}
	if r.chance(50) {
		if err := g.push(); err != nil {
			return g.ops, err
		}
	}
	if r.chance(65) {
		// notary service: nodes designated (effective from the next block), a few deposits
		g.notary = true
		if err := g.emit(c05Op{T: "role", A: 2, K: r.intn(len(c.u.keys)), N: r.intn(3)}); err != nil {
			return g.ops, err
		}
		for i := 0; i < 2+r.intn(3); i++ {
			if err := g.emit(c05Op{T: "dep", F: pick(r, c05Signers), A: int64(5_0000_0000 + r.intn(20_0000_0000)), N: int(c.bc.BlockHeight()) + 10 + r.intn(30)}); err != nil {
				return g.ops, err
			}
		}
		if err := g.emit(c05Op{T: "blk"}); err != nil {
			return g.ops, err
		}
	}
	for b := 0; b < nblocks; b++ {
		if r.chance(10) && b+3 < nblocks {
			// a setting updated several times in one block, read and used in the two following blocks (see c01MultiUpdate)
			ups, reads := c01MultiUpdate(g, map[int]bool{}, false, []int{0, 0, 0, 1, 1, 2, 5}) // not the execution / storage prices: "oog" relies on them
			for _, blk := range [][]c05Op{ups, reads(), reads()} {
				for _, op := range blk {
					if err := g.emit(op); err != nil {
						return g.ops, err
					}
				}
				if err := g.emit(c05Op{T: "blk"}); err != nil {
					return g.ops, err
				}
			}
			b += 2
			continue
		}
		n := r.intn(6)
		if r.chance(15) {
			n = 0
		}
		if r.chance(22) {
			// executions at the notification limit around a native token movement (c05lim.go)
			for _, op := range g.c05LimOps() {
				if err := g.emit(op); err != nil {
					return g.ops, err
				}
			}
		}
		for i := 0; i < n; i++ {
			if err := g.emit(g.randomOp()); err != nil {
				return g.ops, err
			}
		}
		if err := g.emit(c05Op{T: "blk"}); err != nil {
			return g.ops, err
		}
	}
	return g.ops, nil
}

// ---------- case ----------

type c05Input struct {
	HF  string  `json:"hf"` // hard-fork set of the chain
	Ops []c05Op `json:"ops"`
	// evaluated on the real chain only (contract code the model does not follow / a chain without Echidna): Coq case CDirect
	Direct bool `json:"direct,omitempty"`
}

type c05Impl struct {
	Blocks []*c05BlockRec `json:"blocks"`
}

func c05RunCase(co *caseOut, in c05Input, gen func(c *c05Chain, run *c05Runner) ([]c05Op, error)) error {
	t := &c05TB{}
	c, err := c05Setup(t, in.HF, nil)
	if err != nil {
		t.done()
		return err
	}
	defer c.close()
	var prev = c05DumpChain(c.bc, c.u)
	var viol []string
	var violAt uint32
	run, err := c05NewRunner(c, func(rec *c05BlockRec) {
		if bad := c05Invariants(prev, rec.Dump, rec); len(bad) > 0 && viol == nil {
			viol, violAt = bad, rec.Index
		}
		prev = rec.Dump
	})
	if err != nil {
		return err
	}
	if gen != nil {
		in.Ops, err = gen(c, run)
	} else {
		for _, op := range in.Ops {
			if err = run.submit(op); err != nil {
				break
			}
		}
	}
	if err == nil && len(run.pending) > 0 {
		err = run.flush()
	}
	if err != nil {
		// the chain refused a block built from pool-accepted transactions, or an execution result is missing
		co.violation("history", "history could not be executed: "+err.Error(), in, nil)
		return nil
	}
	if viol != nil {
		// the violated clauses first: reports are grouped by the beginning of the note
		var clauses []string
		seen := map[string]bool{}
		for _, v := range viol {
			c, _, _ := strings.Cut(v, ":")
			if !seen[c] {
				seen[c] = true
				clauses = append(clauses, c)
			}
		}
		co.violation("history", fmt.Sprintf("%-40s| block %d: %s", strings.Join(clauses, ","), violAt, strings.Join(viol, "; ")), in, c05Summary(run.blocks, violAt))
	}
	tag, nontrivial := c05Tag(in.Ops, run.blocks)
	if in.Direct {
		co.add("history", "direct/"+tag, nontrivial, in, c05Summary(run.blocks, 0), fmt.Sprintf("CDirect %d", len(in.Ops)))
		return nil
	}
	co.add("history", tag, nontrivial, in, c05Summary(run.blocks, 0), c05CoqCase(c, in, run.blocks))
	return nil
}

// c05Summary keeps the evidence small: per block the transaction outcomes, and the full dump of one block.
func c05Summary(blocks []*c05BlockRec, at uint32) any {
	type bs struct {
		Index uint32     `json:"index"`
		Txs   []c05TxRec `json:"txs,omitempty"`
		Dump  *c05Dump   `json:"dump,omitempty"`
	}
	var out []bs
	for i, b := range blocks {
		x := bs{Index: b.Index, Txs: b.Txs}
		if b.Index == at || (at == 0 && i == len(blocks)-1) {
			x.Dump = b.Dump
		}
		out = append(out, x)
	}
	return out
}

// c05Tag: histogram tag and non-triviality rule: a history is non-trivial when at least one vote, one candidate
// change, one transfer that returned false or faulted, and one committee epoch boundary occurred in it.
func c05Tag(ops []c05Op, blocks []*c05BlockRec) (string, bool) {
	var votes, cands, failed, notary int
	for _, b := range blocks {
		for _, t := range b.Txs {
			if t.Op < 0 {
				continue
			}
			op := ops[t.Op]
			switch op.T {
			case "vote":
				if t.Res == 1 {
					votes++
				}
			case "reg", "unreg", "regpay":
				if t.Halt && t.Res != 0 {
					cands++
				}
			case "dep", "wd":
				if t.Halt && t.Res != 0 {
					notary++
				}
			}
			if !t.Halt || t.Res == 0 {
				failed++
			}
		}
	}
	epochs := 0
	if len(blocks) > 0 {
		epochs = int(blocks[len(blocks)-1].Index) / 6
	}
	cls := func(n int) string {
		switch {
		case n == 0:
			return "0"
		case n < 4:
			return "few"
		}
		return "many"
	}
	return fmt.Sprintf("votes-%s/cands-%s/notary-%s/failed-%s/epochs-%d", cls(votes), cls(cands), cls(notary), cls(failed), min(epochs, 6)),
		votes > 0 && cands > 0 && failed > 0 && epochs > 0
}

func runC05(args []string) error {
	cf, fs := parseCommon("c05", args)
	fs.Parse(args)
	co := newCaseOut(cf.out, "Harness.C05", "Z",
		"random block histories on a real neotest chain (6-member committee, 4 validators, Notary active): NEO/GAS transfers incl. self, zero, over-balance, "+
			"to contracts with/without/refusing onNEP17Payment and to natives, votes/unvotes, candidate (un)registration incl. by GAS payment, claims, fee burning, "+
			"committee rewards across epochs, notary deposits/withdrawals, P2PNotary designations and NotaryAssisted transactions (sent by the Notary contract and paid from a deposit, or by the payer), faulting and unwitnessed transactions, committee settings, Policy block/unblock; "+
			"one case = one history (up to 30 blocks in quick), every block boundary is evaluated; non-trivial = at least one successful vote, one candidate change, "+
			"one failed/faulted transaction and one epoch boundary; distinct by Coq term")
	co.shard = 4
	if cf.replay != "" {
		cases, err := readReplay(cf.replay)
		if err != nil {
			return err
		}
		for _, cs := range cases {
			var x struct {
				Kind  string   `json:"kind"`
				Input c05Input `json:"input"`
			}
			if err := json.Unmarshal(cs, &x); err != nil {
				return err
			}
			if err := c05RunCase(co, x.Input, nil); err != nil {
				return err
			}
		}
		return co.finish()
	}
	r := newRng(cf.seed)
	hfs := []string{"gorgon", "all", "gorgon", "echidna"}
	// the other side of Echidna: no notification limit (evaluated in Go, c05lim.go)
	for i := 0; i < 1+cf.n/40; i++ {
		in, viol, err := c05PreEchidna(newRng(r.next()))
		if err != nil {
			return err
		}
		if len(viol) > 0 {
			co.violation("pre-echidna", strings.Join(viol, "; "), in, nil)
		}
		co.add("pre-echidna", "no-notification-limit", true, in, map[string]any{"ops": len(in.Ops)}, fmt.Sprintf("CDirect %d", len(in.Ops)))
	}
	// payment callbacks that re-enter the native contract in progress (c05reent.go); evaluated on the real chain only
	for i := 0; i < 1+cf.n/8; i++ {
		sub := newRng(r.next())
		nb := 8 + sub.intn(8)
		in := c05Input{HF: hfs[i%len(hfs)], Direct: true}
		if err := c05RunCase(co, in, func(c *c05Chain, run *c05Runner) ([]c05Op, error) { return c05Reentrant(sub, c, run, nb) }); err != nil {
			return err
		}
	}
	for i := 0; i < cf.n; i++ {
		nb := 12 + r.intn(19)
		if cf.tier == "thorough" && r.chance(30) {
			nb = 30 + r.intn(50)
		}
		sub := newRng(r.next())
		in := c05Input{HF: hfs[i%len(hfs)]}
		if err := c05RunCase(co, in, func(c *c05Chain, run *c05Runner) ([]c05Op, error) { return c05Generate(sub, c, run, nb) }); err != nil {
			return err
		}
	}
	return co.finish()
}
