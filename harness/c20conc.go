package main

// C20 (iv): the REAL ledger under concurrent producers (sub-command c20conc).  Several goroutines call Blockchain.AddBlock /
// AddHeaders (directly, as the consensus service does, and through the real bqueue.Queue's drainer) with FORCED
// interleavings: the harness holds one of the ledger's locks through a verif hook —
//   "add":   the block-addition lock (VerifAddLock): every AddBlock caller parks where it takes it, after everything it does
//            before that point;
//   "state": the state lock for reading (VerifRLock): the caller that is storing a block parks inside storeBlock where it
//            takes that lock for writing, after verification and execution; the others park at the addition lock behind it;
//   "event": nothing is read from the block subscription, so the dispatcher halts with the first block's event and the caller
//            that applies the next block parks where storeBlock sends its event, inside the critical section —
// starts the callers one by one, waits until each is parked (goroutine dump, two identical observations; no sleep as
// synchronisation) or has returned, and releases the lock.  Afterwards: every index applied exactly once (post-block
// callbacks counted inside storeBlock, block events drained from a subscription), every result is nil / ErrAlreadyExists /
// ErrInvalidBlockIndex with exactly one nil per applied index, and state root, validator GAS balance at every height equal
// the reference node's.

import (
	"encoding/json"
	"errors"
	"fmt"
	"os"
	"runtime"
	"strconv"
	"strings"
	"sync"
	"time"

	"github.com/nspcc-dev/neo-go/pkg/core"
	"github.com/nspcc-dev/neo-go/pkg/core/block"
	"github.com/nspcc-dev/neo-go/pkg/core/mempool"
	"github.com/nspcc-dev/neo-go/pkg/core/storage"
	"github.com/nspcc-dev/neo-go/pkg/core/transaction"
	"github.com/nspcc-dev/neo-go/pkg/neotest/chain"
	"github.com/nspcc-dev/neo-go/pkg/network/bqueue"
	"github.com/nspcc-dev/neo-go/pkg/util"
	"go.uber.org/zap"
)

type c20cCall struct {
	Via string `json:"via"` // blk (AddBlock) | hdr (AddHeaders) | queue (Put into the real block queue, its drainer calls AddBlock)
	D   int    `json:"d"`   // index relative to the next block: 0 = next, 1 = the one after, -1 = the tip (stale)
}

type c20cStep struct {
	Hold  string     `json:"hold"` // add | state | none
	Calls []c20cCall `json:"calls"`
}

type c20cInput struct {
	Src c20SrcParams `json:"src"`
	Ops []c20cStep   `json:"ops"`
}

type c20cRes struct {
	Via string `json:"via"`
	Idx uint32 `json:"idx"`
	Err string `json:"err"` // "" | exists | index | other: ...
}

type c20cStepOut struct {
	Height  uint32    `json:"height_before"`
	Results []c20cRes `json:"results"`
	Applied []uint32  `json:"applied"` // post-block callbacks during the step, in order
	Parked  int       `json:"parked"`
}

type c20cAdapter struct {
	bc  *core.Blockchain
	res chan c20cRes
}

func (a c20cAdapter) AddItem(b *block.Block) error {
	err := c20cWorker(a.bc, "queue", b)
	a.res <- c20cRes{Via: "queue", Idx: b.Index, Err: c20cErr(err)}
	return err
}
func (a c20cAdapter) AddItems(bs ...*block.Block) error {
	for _, b := range bs {
		if err := a.AddItem(b); err != nil {
			return err
		}
	}
	return nil
}
func (a c20cAdapter) Height() uint32 { return a.bc.BlockHeight() }

func c20cErr(err error) string {
	switch {
	case err == nil:
		return ""
	case errors.Is(err, core.ErrAlreadyExists):
		return "exists"
	case errors.Is(err, core.ErrInvalidBlockIndex):
		return "index"
	}
	return "other: " + err.Error()
}

//go:noinline
func c20cWorker(bc *core.Blockchain, via string, b *block.Block) error {
	if via == "hdr" {
		return bc.AddHeaders(&b.Header)
	}
	return bc.AddBlock(b)
}

var c20cBuf = make([]byte, 8<<20)

// one look at all goroutines: direct callers parked at one of the ledger's locks, whether the queue's drainer is at rest
// (parked at such a lock inside AddBlock, or waiting for work), and a fingerprint of the parked ones
func c20cRest() (direct int, drainerAtRest bool, fp string) {
	n := runtime.Stack(c20cBuf, true)
	var b strings.Builder
	drainerSeen := false
	for _, gr := range strings.Split(string(c20cBuf[:n]), "\n\n") {
		hdr, body, _ := strings.Cut(gr, "\n")
		first, _, _ := strings.Cut(body, "\n")
		isDrainer := strings.Contains(body, "bqueue.(*Queue") && strings.Contains(body, ".Run(")
		if isDrainer {
			drainerSeen = true
		}
		atLock := (strings.Contains(hdr, "[sync.Mutex.Lock") || strings.Contains(hdr, "[sync.RWMutex.Lock") || strings.Contains(hdr, "[chan send")) &&
			strings.Contains(body, "main.c20cWorker") && c20cAtLedgerLock(body)
		switch {
		case strings.Contains(body, "main.c20cWorker") && atLock:
			if isDrainer {
				drainerAtRest = true
			} else {
				direct++
			}
			b.WriteString(hdr[strings.Index(hdr, "["):] + first + ";")
		case isDrainer && strings.Contains(hdr, "[chan receive") && strings.Contains(first, "bqueue.(*Queue") && strings.Contains(first, ".Run("):
			drainerAtRest = true
			b.WriteString("idle;")
		}
	}
	if !drainerSeen { // not started yet (shows as a wrapper until it runs)
		drainerAtRest = false
	}
	return direct, drainerAtRest, b.String()
}

var c20cAtCache = map[string]bool{}

// A caller is at rest only where it takes one of the ledger's two locks or sends the block event (storeBlock also hands data
// to its own helper goroutines over channels and takes other locks, for a moment): the statement at the file:line of the
// innermost Blockchain frame is looked up in the source the harness was built against.
func c20cAtLedgerLock(body string) bool {
	lines := strings.Split(body, "\n")
	for i := 0; i+1 < len(lines); i += 2 {
		if !strings.Contains(lines[i], "core.(*Blockchain).") {
			continue
		}
		at := strings.TrimSpace(lines[i+1])
		if k := strings.Index(at, " "); k > 0 {
			at = at[:k]
		}
		if v, ok := c20cAtCache[at]; ok {
			return v
		}
		v := true // source not readable: every park counts
		if k := strings.LastIndex(at, ":"); k > 0 {
			if src, err := os.ReadFile(at[:k]); err == nil {
				ls := strings.Split(string(src), "\n")
				if n, err := strconv.Atoi(at[k+1:]); err == nil && n >= 1 && n <= len(ls) {
					l := ls[n-1]
					v = strings.Contains(l, "bc.events <-") || strings.Contains(l, "bc.addLock.Lock()") || strings.Contains(l, "bc.lock.Lock()")
				}
			}
		}
		c20cAtCache[at] = v
		return v
	}
	return false
}

// c20cSettle waits until every direct caller that has not returned is parked at a lock and the drainer is at rest, seen twice
// in the same places (idle: nobody is inside the ledger any more and the drainer waits for work).  No sleeping: the
// goroutine yields between the looks.
func c20cSettle(unreturned func() int, deadline time.Time, idle bool) (int, error) {
	last := "-"
	for {
		want := unreturned()
		n, rest, fp := c20cRest()
		if n == want && rest && want == unreturned() && (!idle || fp == "idle;") {
			if fp == last {
				return n, nil
			}
			last = fp
		} else {
			last = "-"
		}
		if time.Now().After(deadline) {
			return n, fmt.Errorf("callers do not come to rest (%d parked, %d expected, drainer at rest %v)", n, want, rest)
		}
		runtime.Gosched()
	}
}

func c20RunConcCase(co *caseOut, raw json.RawMessage) error {
	var in c20cInput
	if err := json.Unmarshal(raw, &in); err != nil {
		return err
	}
	src := c20GetSource(in.Src)
	tb := &c20TB{}
	defer tb.done()
	bc, _ := chain.NewSingleWithOptions(tb, &chain.Options{Logger: c20Logger(), BlockchainConfigHook: c20Cfg, Store: storage.NewMemoryStore()})
	var amu sync.Mutex
	var appliedLog []uint32
	bc.RegisterPostBlock(func(_ func(*transaction.Transaction, *mempool.Pool, bool) bool, _ *mempool.Pool, b *block.Block) {
		amu.Lock()
		appliedLog = append(appliedLog, b.Index) // inside storeBlock, under the ledger's state lock
		amu.Unlock()
	})
	appliedNow := func() []uint32 { amu.Lock(); defer amu.Unlock(); return append([]uint32{}, appliedLog...) }
	// block events: an unbuffered subscription read by a pump that the harness can pause, so that the dispatcher — and with it
	// the next caller's event send inside storeBlock — comes to a halt (hold "event")
	events := make(chan *block.Block)
	evq := make(chan *block.Block, 1024)
	pause := make(chan chan struct{})
	pumpStop := make(chan struct{})
	pumpDone := make(chan struct{})
	go func() {
		defer close(pumpDone)
		for {
			select {
			case resume := <-pause:
				<-resume
			case b := <-events:
				evq <- b
			case <-pumpStop:
				return
			}
		}
	}()
	bc.SubscribeForBlocks(events)
	defer func() { bc.UnsubscribeFromBlocks(events); close(pumpStop); <-pumpDone }()
	qres := make(chan c20cRes, 64)
	q := bqueue.New[*block.Block](c20cAdapter{bc, qres}, zap.NewNop(), nil, 16, nil, bqueue.NonBlocking)
	qdone := make(chan struct{})
	go func() { q.Run(); close(qdone) }()
	defer func() { q.Discard(); <-qdone }()
	var outs []c20cStepOut
	var viol []string
	violate := func(f string, a ...any) {
		if len(viol) == 0 { // the first thing that is wrong in a case; what follows from it is in the output
			viol = append(viol, fmt.Sprintf(f, a...))
		}
	}
	var evIdx []uint32
	release := func() {} // whatever the harness holds at the moment; also on the error returns, before anything is closed
	defer func() { release() }()
	for _, st := range in.Ops {
		h := bc.BlockHeight()
		if h+2 > src.height {
			break
		}
		out := c20cStepOut{Height: h}
		before := len(appliedNow())
		switch st.Hold {
		case "add":
			bc.VerifAddLock()
			release = bc.VerifAddUnlock
		case "state":
			bc.VerifRLock()
			release = bc.VerifRUnlock
		case "event":
			resume := make(chan struct{})
			pause <- resume
			release = func() { close(resume) }
		}
		res := make(chan c20cRes, len(st.Calls))
		started, returned := 0, 0
		var got []c20cRes
		unreturned := func() int {
			for {
				select {
				case r := <-res:
					got = append(got, r)
					returned++
					continue
				default:
				}
				return started - returned
			}
		}
		deadline := time.Now().Add(90 * time.Second)
		for _, c := range st.Calls {
			idx := int64(h) + 1 + int64(c.D)
			if idx < 1 || idx > int64(src.height) {
				continue
			}
			b := src.block(uint32(idx))
			cp := *b // every producer hands over its own copy, as the network layer does
			switch c.Via {
			case "queue":
				_ = q.Put(&cp)
			default:
				started++
				go func(via string, b *block.Block) {
					res <- c20cRes{Via: via, Idx: b.Index, Err: c20cErr(c20cWorker(bc, via, b))}
				}(c.Via, &cp)
			}
			if st.Hold == "none" {
				continue
			}
			n, err := c20cSettle(unreturned, deadline, false)
			if err != nil {
				return fmt.Errorf("concurrent ledger case %s: %v", string(raw), err)
			}
			_, dr, fp := c20cRest()
			if dr && !strings.Contains(fp, "idle;") {
				n++
			}
			if os.Getenv("C20DEBUG") != "" {
				fmt.Fprintf(os.Stderr, "step hold=%s after call %+v: parked %d, applied %v, at %s\n", st.Hold, c, n, appliedNow(), fp)
			}
			out.Parked = max(out.Parked, n)
		}
		if st.Hold == "event" {
			// the event is part of the critical section: with the dispatcher halted, one block's event is with the
			// dispatcher, the next block's sender waits for the dispatcher INSIDE the section, nobody else gets in
			if k := len(appliedNow()) - before; k > 2 {
				violate("concurrent producers: further blocks are applied while an earlier block's event is still being sent (the event is sent outside the block-addition critical section): %d applied, dispatcher halted after the first", k)
			}
		}
		release()
		release = func() {}
		for started > returned {
			select {
			case r := <-res:
				got = append(got, r)
				returned++
			case <-time.After(120 * time.Second):
				return fmt.Errorf("concurrent ledger case %s: a caller does not return", string(raw))
			}
		}
		if _, err := c20cSettle(func() int { return 0 }, time.Now().Add(120*time.Second), true); err != nil { // the drainer has nothing left to do
			return fmt.Errorf("concurrent ledger case %s: %v", string(raw), err)
		}
		out.Results = got
	drainq:
		for {
			select {
			case r := <-qres:
				out.Results = append(out.Results, r)
			default:
				break drainq
			}
		}
		all := appliedNow()
		out.Applied = all[before:]
		outs = append(outs, out)
		// only benign errors; each index applied at most once, in index order; exactly one nil per applied index
		nils := map[uint32]int{}
		for _, r := range out.Results {
			switch {
			case r.Err == "" && r.Via != "hdr":
				nils[r.Idx]++
			case r.Err == "" || r.Err == "exists" || r.Err == "index":
			default:
				violate("concurrent producers: a call returns an error that is neither 'already exists' nor 'invalid index': %s block %d: %s", r.Via, r.Idx, r.Err)
			}
		}
		cnt := map[uint32]int{}
		for i, x := range out.Applied {
			cnt[x]++
			if x != h+1+uint32(i) {
				violate("concurrent producers: a block is applied more than once or out of order: post-block callbacks for %v on top of height %d", out.Applied, h)
			}
		}
		for x, k := range nils {
			if cnt[x] != k {
				violate("concurrent producers: callers told 'added' and applications differ: block %d: %d caller(s) got nil, applied %d time(s)", x, k, cnt[x])
			}
		}
		for x, k := range cnt {
			if nils[x] != k {
				violate("concurrent producers: callers told 'added' and applications differ: block %d: %d caller(s) got nil, applied %d time(s)", x, nils[x], k)
			}
		}
		if bc.BlockHeight() != h+uint32(len(out.Applied)) {
			violate("concurrent producers: height and applications differ: height %d after %d applications on top of %d", bc.BlockHeight(), len(out.Applied), h)
		}
		// block events: one per applied block, the same blocks in the same order
		for len(evIdx) < len(all) {
			select {
			case b := <-evq:
				evIdx = append(evIdx, b.Index)
			case <-time.After(60 * time.Second):
				violate("concurrent producers: block event for an applied block never arrives")
				evIdx = append(evIdx, 0)
			}
		}
		for i, x := range evIdx {
			if x != all[i] {
				violate("concurrent producers: block events and applied blocks differ: events %v, applied %v", evIdx, all)
				break
			}
		}
		if len(viol) > 0 {
			break
		}
	}
	// the reference node
	for i := uint32(1); i <= bc.BlockHeight() && len(viol) == 0; i++ {
		r, err := bc.GetStateModule().GetStateRoot(i)
		if err != nil || r.Root != src.root(i) {
			violate("concurrent producers: state root at height %d differs from the reference node's (block applied twice?)", i)
		}
	}
	if len(viol) == 0 {
		// the rest of the chain one block after the other, then everything the contracts store — GAS balances and supply
		// among it — against the reference node
		for i := bc.BlockHeight() + 1; i <= src.height; i++ {
			cp := *src.block(i)
			if err := bc.AddBlock(&cp); err != nil {
				violate("concurrent producers: afterwards block %d is not accepted: %v", i, err)
				break
			}
			<-evq
		}
		acc := src.e.Validator.ScriptHash()
		if a, b := bc.GetUtilityTokenBalance(acc, util.Uint160{}), src.bc.GetUtilityTokenBalance(acc, util.Uint160{}); len(viol) == 0 && a.Cmp(b) != 0 {
			violate("concurrent producers: validator GAS balance differs from the reference node's: %s, reference %s", a, b)
		}
		if ok, why := c20KVEqual(c20Dump(src.bc), c20Dump(bc)); len(viol) == 0 && !ok {
			violate("concurrent producers: contract storage differs from the reference node's at the top: %s", why)
		}
	}
	for _, v := range viol {
		co.violation("conc", v, in, outs)
	}
	var steps []string
	maxParked := 0
	for i, o := range outs {
		var rs, ap []string
		for _, r := range o.Results {
			code := map[string]int{"": 0, "exists": 1, "index": 2}[r.Err]
			if strings.HasPrefix(r.Err, "other") {
				code = 3
			}
			via := map[string]int{"blk": 0, "hdr": 1, "queue": 2}[r.Via]
			rs = append(rs, fmt.Sprintf("(%d,%d,%d)", via, r.Idx, code))
		}
		for _, x := range o.Applied {
			ap = append(ap, fmt.Sprint(x))
		}
		hold := map[string]int{"none": 0, "add": 1, "state": 2, "event": 3}[in.Ops[i].Hold]
		steps = append(steps, fmt.Sprintf("(%d,%d,%s,%s)", hold, o.Height, coqList(rs), coqList(ap)))
		maxParked = max(maxParked, o.Parked)
	}
	co.add("conc", fmt.Sprintf("steps%d/parked%d", min(len(outs)/3*3, 9), min(maxParked, 3)), maxParked >= 2, in, outs, fmt.Sprintf("CConc %s", coqList(steps)))
	return nil
}

func init() { register("c20conc", runC20Conc) }

const c20ConcRule = "conc: the real ledger fed with the source chain's blocks by 2-3 concurrent callers per step (AddBlock, AddHeaders, the real block " +
	"queue's drainer), the ledger's addition lock or state lock held by the harness (or the event dispatcher halted) while the callers are started one by one and park: same block " +
	"twice/thrice, next and next-but-one reversed, direct call while the queue drains the same block, block and its header in both orders, stale tip " +
	"beside the next block, the next two or three blocks from different callers; non-trivial when at least two callers were parked at a lock at the same time"

var c20cDeck []c20cStep

func c20GenConc(r *rng, src c20SrcParams) c20cInput {
	in := c20cInput{Src: src}
	shapes := [][]c20cCall{
		{{"blk", 0}, {"blk", 0}},
		{{"blk", 0}, {"blk", 0}, {"blk", 0}},
		{{"blk", 1}, {"blk", 0}},
		{{"queue", 0}, {"blk", 0}},
		{{"blk", 0}, {"queue", 0}},
		{{"hdr", 0}, {"blk", 0}},
		{{"blk", 0}, {"hdr", 0}, {"blk", 0}},
		{{"blk", -1}, {"blk", 0}},
		{{"blk", 0}, {"blk", -1}, {"blk", 1}},
		{{"queue", 0}, {"queue", 1}, {"blk", 0}},
		{{"blk", 0}, {"blk", 1}},
		{{"blk", 0}, {"blk", 1}, {"blk", 2}},
		{{"blk", 0}, {"queue", 1}, {"blk", 2}},
	}
	// every (lock held, shape) pair comes up: a deck of all pairs, shuffled, dealt over the cases
	for i := 0; i < src.Height-2; i++ {
		if len(c20cDeck) == 0 {
			for _, h := range []string{"add", "state", "event"} { // "none" (callers released at once, not forced) is accepted in replays only: its outcome depends on timing
				for _, sh := range shapes {
					c20cDeck = append(c20cDeck, c20cStep{Hold: h, Calls: append([]c20cCall{}, sh...)})
				}
			}
			for j := len(c20cDeck) - 1; j > 0; j-- {
				k := r.intn(j + 1)
				c20cDeck[j], c20cDeck[k] = c20cDeck[k], c20cDeck[j]
			}
		}
		in.Ops = append(in.Ops, c20cDeck[len(c20cDeck)-1])
		c20cDeck = c20cDeck[:len(c20cDeck)-1]
	}
	return in
}

func runC20Conc(args []string) error {
	cf, fs := parseCommon("c20conc", args)
	fs.Parse(args)
	co := newCaseOut(cf.out, "Harness.C20", "N", c20ConcRule)
	defer func() {
		for _, s := range c20Sources {
			s.close()
		}
	}()
	if cf.replay != "" {
		cases, err := readReplay(cf.replay)
		if err != nil {
			return err
		}
		for _, c := range cases {
			var x c20QCase
			if err := json.Unmarshal(c, &x); err != nil {
				return err
			}
			if err := c20RunConcCase(co, x.Input); err != nil {
				return err
			}
		}
		return co.finish()
	}
	r := newRng(cf.seed)
	for i := 0; i < cf.n; i++ {
		in := c20GenConc(r, c20SrcParams{Seed: cf.seed*1000 + uint64(i%2), Height: 14, PerBlock: 2})
		raw, _ := json.Marshal(in)
		if err := c20RunConcCase(co, raw); err != nil {
			return err
		}
	}
	return co.finish()
}
