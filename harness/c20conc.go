package main

// C20 (iv): the REAL ledger under concurrent producers (sub-command c20conc).  Several goroutines call Blockchain.AddBlock /
// AddHeaders (directly, as the consensus service does, and through the real bqueue.Queue's drainer) with FORCED
// interleavings: the harness holds one of the ledger's locks through a verif hook —
//   "add":   the block-addition lock (VerifAddLock): every AddBlock caller parks where it takes it, after everything it does
//            before that point;
//   "state": the state lock for reading (VerifRLock): the caller that is storing a block parks inside storeBlock where it
//            takes that lock for writing, after verification and execution; the others park at the addition lock behind it —
// starts the callers one by one, waits until each is parked (goroutine dump, two identical observations; no sleep as
// synchronisation) or has returned, and releases the lock.  Afterwards: every index applied exactly once (post-block
// callbacks counted inside storeBlock, block events drained from a subscription), every result is nil / ErrAlreadyExists /
// ErrInvalidBlockIndex with exactly one nil per applied index, and state root, validator GAS balance at every height equal
// the reference node's.

import (
	"encoding/json"
	"errors"
	"fmt"
	"runtime"
	"strings"
	"time"

	"github.com/nspcc-dev/neo-go/pkg/core"
	"github.com/nspcc-dev/neo-go/pkg/core/block"
	"github.com/nspcc-dev/neo-go/pkg/core/mempool"
	"github.com/nspcc-dev/neo-go/pkg/core/storage"
	"github.com/nspcc-dev/neo-go/pkg/core/transaction"
	"github.com/nspcc-dev/neo-go/pkg/neotest/chain"
	"github.com/nspcc-dev/neo-go/pkg/network/bqueue"
	"go.uber.org/zap"
)

type c20cCall struct {
	Via string `json:"via"` // blk (AddBlock) | hdr (AddHeaders) | queue (Put into the real block queue, its drainer calls AddBlock)
	D   int    `json:"d"`   // index relative to the next block: 0 = next, 1 = the one after, -1 = the tip (stale)
}

type c20cStep struct {
	Hold  string     `json:"hold"` // add | state | none
	Calls []c20cCall `json:"calls"`
}

type c20cInput struct {
	Src c20SrcParams `json:"src"`
	Ops []c20cStep   `json:"ops"`
}

type c20cRes struct {
	Via string `json:"via"`
	Idx uint32 `json:"idx"`
	Err string `json:"err"` // "" | exists | index | other: ...
}

type c20cStepOut struct {
	Height  uint32    `json:"height_before"`
	Results []c20cRes `json:"results"`
	Applied []uint32  `json:"applied"` // post-block callbacks during the step, in order
	Parked  int       `json:"parked"`
}

type c20cAdapter struct {
	bc  *core.Blockchain
	res chan c20cRes
}

func (a c20cAdapter) AddItem(b *block.Block) error {
	err := c20cWorker(a.bc, "queue", b)
	a.res <- c20cRes{Via: "queue", Idx: b.Index, Err: c20cErr(err)}
	return err
}
func (a c20cAdapter) AddItems(bs ...*block.Block) error {
	for _, b := range bs {
		if err := a.AddItem(b); err != nil {
			return err
		}
	}
	return nil
}
func (a c20cAdapter) Height() uint32 { return a.bc.BlockHeight() }

func c20cErr(err error) string {
	switch {
	case err == nil:
		return ""
	case errors.Is(err, core.ErrAlreadyExists):
		return "exists"
	case errors.Is(err, core.ErrInvalidBlockIndex):
		return "index"
	}
	return "other: " + err.Error()
}

//go:noinline
func c20cWorker(bc *core.Blockchain, via string, b *block.Block) error {
	if via == "hdr" {
		return bc.AddHeaders(&b.Header)
	}
	return bc.AddBlock(b)
}

var c20cBuf = make([]byte, 8<<20)

// number of callers parked at one of the ledger's locks, and a fingerprint of where
func c20cParked() (int, string) {
	n := runtime.Stack(c20cBuf, true)
	cnt := 0
	var fp strings.Builder
	for _, gr := range strings.Split(string(c20cBuf[:n]), "\n\n") {
		hdr, body, _ := strings.Cut(gr, "\n")
		if !strings.Contains(body, "main.c20cWorker") {
			continue
		}
		if strings.Contains(hdr, "[sync.Mutex.Lock") || strings.Contains(hdr, "[sync.RWMutex.Lock") {
			cnt++
			first, _, _ := strings.Cut(body, "\n")
			fp.WriteString(hdr[strings.Index(hdr, "["):] + first + ";")
		}
	}
	return cnt, fp.String()
}

func c20RunConcCase(co *caseOut, raw json.RawMessage) error {
	var in c20cInput
	if err := json.Unmarshal(raw, &in); err != nil {
		return err
	}
	src := c20GetSource(in.Src)
	tb := &c20TB{}
	defer tb.done()
	bc, _ := chain.NewSingleWithOptions(tb, &chain.Options{Logger: c20Logger(), BlockchainConfigHook: c20Cfg, Store: storage.NewMemoryStore()})
	var applied []uint32
	bc.RegisterPostBlock(func(_ func(*transaction.Transaction, *mempool.Pool, bool) bool, _ *mempool.Pool, b *block.Block) {
		applied = append(applied, b.Index) // inside storeBlock, under the ledger's lock
	})
	events := make(chan *block.Block, 256)
	bc.SubscribeForBlocks(events)
	qres := make(chan c20cRes, 64)
	q := bqueue.New[*block.Block](c20cAdapter{bc, qres}, zap.NewNop(), nil, 16, nil, bqueue.NonBlocking)
	go q.Run()
	defer q.Discard()
	var outs []c20cStepOut
	var viol []string
	violate := func(f string, a ...any) { viol = append(viol, fmt.Sprintf(f, a...)) }
	nEvents := 0
	var evIdx []uint32
	for _, st := range in.Ops {
		h := bc.BlockHeight()
		if h+2 > src.height {
			break
		}
		out := c20cStepOut{Height: h}
		before := len(applied)
		switch st.Hold {
		case "add":
			bc.VerifAddLock()
		case "state":
			bc.VerifRLock()
		}
		res := make(chan c20cRes, len(st.Calls))
		pending := 0
		deadline := time.Now().Add(60 * time.Second)
		for _, c := range st.Calls {
			idx := int64(h) + 1 + int64(c.D)
			if idx < 1 || idx > int64(src.height) {
				continue
			}
			b := src.block(uint32(idx))
			cp := *b // every producer hands over its own copy, as the network layer does
			pending++
			switch c.Via {
			case "queue":
				_ = q.Put(&cp)
			default:
				go func(via string, b *block.Block) {
					res <- c20cRes{Via: via, Idx: b.Index, Err: c20cErr(c20cWorker(bc, via, b))}
				}(c.Via, &cp)
			}
			if st.Hold == "none" {
				continue
			}
			// wait until the call has returned or its goroutine is parked at a lock (stable over two observations)
			want := pending - len(res) - len(qres)
			last := ""
			for {
				want = pending - len(res) - len(qres)
				n, fp := c20cParked()
				if n == want && fp == last {
					break
				}
				last = fp
				if n != want {
					last = ""
				}
				if time.Now().After(deadline) {
					return fmt.Errorf("concurrent ledger case %s: callers do not come to rest (%d parked, %d expected)", string(raw), n, want)
				}
				runtime.Gosched()
			}
		}
		out.Parked, _ = c20cParked()
		switch st.Hold {
		case "add":
			bc.VerifAddUnlock()
		case "state":
			bc.VerifRUnlock()
		}
		for i := 0; i < pending; i++ {
			select {
			case r := <-res:
				out.Results = append(out.Results, r)
			case r := <-qres:
				out.Results = append(out.Results, r)
			case <-time.After(120 * time.Second):
				return fmt.Errorf("concurrent ledger case %s: a caller does not return", string(raw))
			}
		}
		// a block the queue's drainer found stale is dropped without an AddItem call: nothing to wait for beyond the results
		out.Applied = append([]uint32{}, applied[before:]...)
		outs = append(outs, out)
		// each index applied at most once, in order; exactly one nil per applied index; only benign errors
		nils := map[uint32]int{}
		for _, r := range out.Results {
			switch {
			case r.Err == "" && r.Via != "hdr":
				nils[r.Idx]++
			case r.Err == "" || r.Err == "exists" || r.Err == "index":
			default:
				violate("concurrent producers: a call returns an error that is neither 'already exists' nor 'invalid index': %s block %d: %s", r.Via, r.Idx, r.Err)
			}
		}
		for i, x := range out.Applied {
			if x != h+1+uint32(i) {
				violate("concurrent producers: blocks applied %v on top of height %d (every block at most once, in index order)", out.Applied, h)
				break
			}
		}
		for _, x := range out.Applied {
			if nils[x] != 1 {
				violate("concurrent producers: block %d was applied once and %d callers were told it was added by them", x, nils[x])
			}
			delete(nils, x)
		}
		for x, k := range nils {
			violate("concurrent producers: %d caller(s) got nil for block %d, which was applied %d times in this step", k, x, 0)
		}
		if bc.BlockHeight() != h+uint32(len(out.Applied)) {
			violate("concurrent producers: height %d after %d applications on top of %d", bc.BlockHeight(), len(out.Applied), h)
		}
		// block events: one per applied block, in order
		for nEvents < len(applied) {
			select {
			case b := <-events:
				evIdx = append(evIdx, b.Index)
				nEvents++
			case <-time.After(60 * time.Second):
				violate("concurrent producers: block event for an applied block never arrives")
				nEvents = len(applied)
			}
		}
		if len(viol) > 0 {
			break
		}
	}
	for i, x := range evIdx {
		if i < len(applied) && x != applied[i] {
			violate("block events %v do not match the applied blocks %v", evIdx, applied)
			break
		}
	}
	// the reference node
	for i := uint32(1); i <= bc.BlockHeight() && len(viol) == 0; i++ {
		r, err := bc.GetStateModule().GetStateRoot(i)
		if err != nil || r.Root != src.root(i) {
			violate("concurrent producers: state root at height %d differs from the reference node's (block applied twice?)", i)
		}
	}
	if len(viol) == 0 {
		acc := src.e.Validator.ScriptHash()
		if a, b := bc.GetUtilityTokenBalance(acc), src.bc.GetUtilityTokenBalance(acc); bc.BlockHeight() == src.bc.BlockHeight() && a.Cmp(b) != 0 {
			violate("concurrent producers: validator GAS balance %s, reference node %s", a, b)
		}
	}
	bc.UnsubscribeFromBlocks(events)
	for _, v := range viol {
		co.violation("conc", v, in, outs)
	}
	var steps []string
	maxParked := 0
	for i, o := range outs {
		var rs, ap []string
		for _, r := range o.Results {
			code := map[string]int{"": 0, "exists": 1, "index": 2}[r.Err]
			if strings.HasPrefix(r.Err, "other") {
				code = 3
			}
			via := map[string]int{"blk": 0, "hdr": 1, "queue": 2}[r.Via]
			rs = append(rs, fmt.Sprintf("(%d,%d,%d)", via, r.Idx, code))
		}
		for _, x := range o.Applied {
			ap = append(ap, fmt.Sprint(x))
		}
		hold := map[string]int{"none": 0, "add": 1, "state": 2}[in.Ops[i].Hold]
		steps = append(steps, fmt.Sprintf("(%d,%d,%s,%s)", hold, o.Height, coqList(rs), coqList(ap)))
		maxParked = max(maxParked, o.Parked)
	}
	co.add("conc", fmt.Sprintf("steps%d/parked%d", min(len(outs)/3*3, 9), min(maxParked, 3)), maxParked >= 2, in, outs, fmt.Sprintf("CConc %s", coqList(steps)))
	return nil
}

func init() { register("c20conc", runC20Conc) }

const c20ConcRule = "conc: the real ledger fed with the source chain's blocks by 2-3 concurrent callers per step (AddBlock, AddHeaders, the real block " +
	"queue's drainer), the ledger's addition lock or state lock held by the harness while the callers are started one by one and park: same block " +
	"twice/thrice, next and next-but-one reversed, direct call while the queue drains the same block, block and its header in both orders, stale tip " +
	"beside the next block; non-trivial when at least two callers were parked at a lock at the same time"

func c20GenConc(r *rng, src c20SrcParams) c20cInput {
	in := c20cInput{Src: src}
	shapes := [][]c20cCall{
		{{"blk", 0}, {"blk", 0}},
		{{"blk", 0}, {"blk", 0}, {"blk", 0}},
		{{"blk", 1}, {"blk", 0}},
		{{"queue", 0}, {"blk", 0}},
		{{"blk", 0}, {"queue", 0}},
		{{"hdr", 0}, {"blk", 0}},
		{{"blk", 0}, {"hdr", 0}, {"blk", 0}},
		{{"blk", -1}, {"blk", 0}},
		{{"blk", 0}, {"blk", -1}, {"blk", 1}},
		{{"queue", 0}, {"queue", 1}, {"blk", 0}},
	}
	for i := 0; i < src.Height-2; i++ {
		st := c20cStep{Hold: pick(r, []string{"add", "add", "state", "state", "none"}), Calls: append([]c20cCall{}, pick(r, shapes)...)}
		in.Ops = append(in.Ops, st)
	}
	return in
}

func runC20Conc(args []string) error {
	cf, fs := parseCommon("c20conc", args)
	fs.Parse(args)
	co := newCaseOut(cf.out, "Harness.C20", "N", c20ConcRule)
	defer func() {
		for _, s := range c20Sources {
			s.close()
		}
	}()
	if cf.replay != "" {
		cases, err := readReplay(cf.replay)
		if err != nil {
			return err
		}
		for _, c := range cases {
			var x c20QCase
			if err := json.Unmarshal(c, &x); err != nil {
				return err
			}
			if err := c20RunConcCase(co, x.Input); err != nil {
				return err
			}
		}
		return co.finish()
	}
	r := newRng(cf.seed)
	for i := 0; i < cf.n; i++ {
		in := c20GenConc(r, c20SrcParams{Seed: cf.seed*1000 + uint64(i%2), Height: 14, PerBlock: 2})
		raw, _ := json.Marshal(in)
		if err := c20RunConcCase(co, raw); err != nil {
			return err
		}
	}
	return co.finish()
}
