package main

// C06, on-chain Conflicts backed by ANY signer (kind "confl").
//
// A block carrying T with signers [S (sender), X, ...] must be refused when a transaction A that is already on chain,
// inside the MaxTraceableBlocks window, names hash(T) in a Conflicts attribute and is signed by one of T's signers -
// whichever position that signer has in T. Signed by none of them, or outside the window, A does not matter and the
// block must be accepted.
//
//   op = "cms<k>p<pos>d<dist>/<pooled|fresh>/verify"
//        k    number of signers of T (2 or 3)
//        pos  position in T's signer list of the account that signs A (0 = T's sender), or "n": an account that
//             does not sign T (control)
//        dist (height of the block offering T) - (height of the block carrying A): 1, MTB (last block of the
//             window), MTB+1 (first block outside)
//        pooled: T is in the victim's mempool when the block with A is stored (the refresh must evict it);
//        fresh:  T reaches the victim only inside the offered block
//
// MaxTraceableBlocks is c06MTB (3). The builder replica produces T, A, the block with A, dist-1 empty blocks and the
// block with T (a validly linked and signed block whatever T's status).

import (
	"fmt"
	"strconv"
	"strings"

	"github.com/nspcc-dev/neo-go/pkg/core/block"
	"github.com/nspcc-dev/neo-go/pkg/core/native/nativenames"
	"github.com/nspcc-dev/neo-go/pkg/core/transaction"
	"github.com/nspcc-dev/neo-go/pkg/neotest"
)

const c06MTB = 3

type c06CmsOp struct {
	K, Pos, D int // Pos -1 = none
	Pooled    bool
}

func c06ParseCms(op string) (c06CmsOp, error) {
	var o c06CmsOp
	parts := strings.Split(op, "/")
	if len(parts) != 3 || !strings.HasPrefix(parts[0], "cms") {
		return o, fmt.Errorf("bad conflict op %q", op)
	}
	f := parts[0][3:]
	ip, id := strings.IndexByte(f, 'p'), strings.IndexByte(f, 'd')
	if ip < 0 || id < ip {
		return o, fmt.Errorf("bad conflict op %q", op)
	}
	var err error
	if o.K, err = strconv.Atoi(f[:ip]); err != nil || o.K < 1 || o.K > c02NAcc-1 {
		return o, fmt.Errorf("bad conflict op %q", op)
	}
	if ps := f[ip+1 : id]; ps == "n" {
		o.Pos = -1
	} else if o.Pos, err = strconv.Atoi(ps); err != nil || o.Pos < 0 || o.Pos >= o.K {
		return o, fmt.Errorf("bad conflict op %q", op)
	}
	if o.D, err = strconv.Atoi(f[id+1:]); err != nil || o.D < 1 || o.D > c06MTB+2 {
		return o, fmt.Errorf("bad conflict op %q", op)
	}
	o.Pooled = parts[1] == "pooled"
	return o, nil
}

func c06CmsOps() []string {
	var ops []string
	for _, k := range []int{2, 3} {
		for pos := -1; pos < k; pos++ {
			ps := "n"
			if pos >= 0 {
				ps = strconv.Itoa(pos)
			}
			for _, d := range []int{1, c06MTB, c06MTB + 1} {
				ops = append(ops, fmt.Sprintf("cms%dp%sd%d/fresh/verify", k, ps, d))
				if d == 1 {
					ops = append(ops, fmt.Sprintf("cms%dp%sd%d/pooled/verify", k, ps, d))
				}
			}
		}
	}
	return ops
}

func c06RunConfl(co *caseOut, in c06StaleIn) error {
	in.Cfg.MTB = c06MTB
	in.Cfg.GC = false
	b, err := c02Build(c02History{Cfg: in.Cfg, Blocks: in.Blocks})
	if err != nil {
		return err
	}
	defer b.close()
	H := uint32(len(b.Blocks) - 1)
	snap := b.Snaps[H].Dump
	kind := "confl"
	for _, op := range in.Ops {
		o, err := c06ParseCms(op)
		if err != nil {
			return err
		}
		vin := in
		vin.Ops = []string{op}
		viol := func(class, note string) {
			co.violation(kind, fmt.Sprintf("%s/%s op=%s: %s", kind, class, op, note), vin, map[string]any{"op": op, "class": class})
		}
		// ---- builder replica ----
		rb, _, vs, fail := c06Fork(in.Cfg, snap)
		if fail != "" {
			return fmt.Errorf("fork: %s", fail)
		}
		t := &c02T{}
		e := neotest.NewExecutor(t, rb, vs, vs)
		accs := c02Accounts()
		gas := e.NativeHash(t, nativenames.Gas)
		// T's signers: accounts 0..K-1 rotated by the state's height so that every account takes every role over the
		// states; the account that signs A: T's signer at Pos, or the one account left over
		rot := int(H) % c02NAcc
		acc := func(i int) neotest.Signer { return accs[(i+rot)%c02NAcc] }
		var tsig []neotest.Signer
		var tids []string
		for i := 0; i < o.K; i++ {
			tsig = append(tsig, acc(i))
			tids = append(tids, strconv.Itoa((i+rot)%c02NAcc))
		}
		asg, aid := acc(c02NAcc-1), (c02NAcc-1+rot)%c02NAcc
		if o.Pos >= 0 {
			asg, aid = acc(o.Pos), (o.Pos+rot)%c02NAcc
		}
		var T, A *transaction.Transaction
		var chain []*block.Block // block with A, fillers
		var b2 *block.Block
		var freshErr error
		fail = c02Try(func() {
			T = e.NewUnsignedTx(t, gas, "transfer", tsig[0].ScriptHash(), accs[(rot+c02NAcc-1)%c02NAcc].ScriptHash(), 1, nil)
			T.ValidUntilBlock = H + uint32(o.D) + 2
			if o.Pooled {
				T.ValidUntilBlock = H + 3
			}
			T = e.SignTx(t, T, 1_0000_0000, tsig...)
			A = e.NewUnsignedTx(t, gas, "transfer", asg.ScriptHash(), tsig[0].ScriptHash(), 1, nil)
			A.ValidUntilBlock = H + 2
			A.Attributes = []transaction.Attribute{{Type: transaction.ConflictsT, Value: &transaction.Conflicts{Hash: T.Hash()}}}
			A = e.SignTx(t, A, 1_0000_0000, asg)
			for i := 0; i < o.D; i++ {
				var nb *block.Block
				if i == 0 {
					nb = e.NewUnsignedBlock(t, A)
				} else {
					nb = e.NewUnsignedBlock(t)
				}
				e.SignBlock(nb)
				if err := rb.AddBlock(nb); err != nil {
					panic(fmt.Sprintf("preparation block %d refused: %v", nb.Index, err))
				}
				chain = append(chain, nb)
			}
			freshErr = rb.VerifyTx(T)
			b2 = e.NewUnsignedBlock(t, T)
			e.SignBlock(b2)
		})
		rb.Close()
		if fail != "" {
			viol("setup", c02Short(fail))
			continue
		}
		freshOK := freshErr == nil
		a, cur := H+1, H+uint32(o.D)
		inWindow := a+c06MTB > cur
		expectOK := !(o.Pos >= 0 && inWindow)
		// ---- the victim ----
		v, store, _, fail := c06Fork(in.Cfg, snap)
		if fail != "" {
			return fmt.Errorf("fork: %s", fail)
		}
		func() {
			defer v.Close()
			if o.Pooled {
				if err := v.PoolTx(T); err != nil {
					viol("setup-pool", err.Error())
					return
				}
			}
			kept := false
			for i, pb := range chain {
				if err := v.AddBlock(pb); err != nil {
					viol("setup-chain", err.Error())
					return
				}
				if i == 0 {
					kept = v.GetMemPool().ContainsKey(T.Hash())
				}
			}
			if o.Pooled && kept && o.Pos >= 0 {
				viol("conflicting-tx-kept", fmt.Sprintf("block %d carries a transaction signed by signer #%d of the pooled transaction and naming it in Conflicts; the pooled transaction survived the refresh", a, o.Pos))
			}
			// (a pooled transaction named by a block transaction that shares NO signer with it is evicted all the same:
			// IsTxStillRelevant asks the per-block pool, whose HasConflicts ignores signers. The transaction stays valid
			// and is accepted inside a block afterwards - recorded in impl as "evicted_though_valid", not a violation of
			// this property.)
			v.VerifPersist()
			n, hh := v.BlockHeight(), v.HeaderHeight()
			before := c02NormDump(c02Dump(store))
			poolBefore := c06PoolHashes(v)
			tip, root := v.CurrentBlockHash(), v.GetStateModule().CurrentLocalStateRoot()
			var err error
			if m := c02Try(func() { err = v.AddBlock(b2) }); m != "" {
				viol("panic", c02Short(m))
				return
			}
			verdict := c06Class(err)
			accepted := err == nil
			if accepted && !expectOK {
				viol("signer-backed-conflict-accepted", fmt.Sprintf("block %d was accepted although its transaction (signers %v) is named in the Conflicts attribute of an on-chain transaction of block %d (%d blocks back, MaxTraceableBlocks %d) signed by its signer #%d", cur+1, tids, a, cur+1-a, c06MTB, o.Pos))
			}
			if !accepted && expectOK {
				viol("valid-refused", fmt.Sprintf("block %d refused (%v) although no on-chain transaction inside the window that shares a signer with its transaction names it (position %d, distance %d, MaxTraceableBlocks %d)", cur+1, err, o.Pos, o.D, c06MTB))
			}
			if freshOK != expectOK {
				viol("fresh-verification", fmt.Sprintf("a node that never pooled the transaction answers %v at height %d; expected admitted=%v", freshErr, cur, expectOK))
			}
			v.VerifPersist()
			if !accepted {
				if v.BlockHeight() != n || v.CurrentBlockHash() != tip || v.GetStateModule().CurrentLocalStateRoot() != root {
					viol("ledger-changed", "rejected ("+verdict+") but height / tip / state root changed")
				}
				hdrRecorded := v.HeaderHeight() == hh+1
				allowed := func(k string, va, vb []byte) bool {
					if !hdrRecorded {
						return false
					}
					c := c02Class(k, va)
					if va == nil {
						c = c02Class(k, vb)
					}
					return c == "curheader" || (c == "blk" && va == nil)
				}
				after := c02NormDump(c02Dump(store))
				if nd, ex := c02DiffDumps(before, after, allowed); nd > 0 {
					viol("db-changed", fmt.Sprintf("rejected (%s) but the database changed in %d keys, classes=%s: %v", verdict, nd, c02DiffClasses(before, after, allowed), ex))
				}
				if pa := c06PoolHashes(v); strings.Join(pa, ",") != strings.Join(poolBefore, ",") {
					viol("mempool-changed", fmt.Sprintf("rejected (%s) but the mempool changed: %d -> %d transactions", verdict, len(poolBefore), len(pa)))
				}
			} else {
				if v.BlockHeight() != n+1 {
					viol("accept-height", fmt.Sprintf("accepted but height is %d", v.BlockHeight()))
				}
				if _, hgt, gerr := v.GetTransaction(T.Hash()); gerr != nil || hgt != n+1 {
					viol("accepted-tx-not-on-ledger", fmt.Sprintf("block %d accepted but its transaction cannot be read back (%v)", n+1, gerr))
				}
			}
			pos := "none"
			if o.Pos >= 0 {
				pos = fmt.Sprintf("pos%d", o.Pos)
			}
			co.add(kind, fmt.Sprintf("k%d/%s/d%d/%s/%s", o.K, pos, o.D, map[bool]string{true: "pooled", false: "fresh"}[o.Pooled], verdict), o.Pos >= 0, vin,
				map[string]any{"kept": kept, "evicted_though_valid": o.Pooled && !kept && o.Pos < 0, "fresh_ok": freshOK, "fresh_err": fmt.Sprint(freshErr), "verdict": verdict, "tsigners": tids, "asigner": aid, "a": a, "cur": cur},
				fmt.Sprintf("CConfl %d %d %d [%d] %s %s %s %s %s", c06MTB, a, cur, aid, coqList(tids), coqBool(o.Pooled), coqBool(kept), coqBool(freshOK), coqBool(accepted)))
		}()
	}
	return nil
}
