package main

import (
	"encoding/json"
	"fmt"
	"math/big"
	"strings"

	"github.com/nspcc-dev/neo-go/pkg/encoding/bigint"
)

func init() { register("c18", runC18) }

// boundary lattice of integers: 0, ±1, ±2^k, ±2^k±1 around byte and sign-bit boundaries, random widths
func latticeInts(r *rng, nrand int) []*big.Int {
	var out []*big.Int
	add := func(z *big.Int) { out = append(out, new(big.Int).Set(z), new(big.Int).Neg(z)) }
	add(big.NewInt(0))
	add(big.NewInt(1))
	for k := 1; k <= 264; k++ {
		if k > 72 && k%8 > 1 && k%8 < 7 && (k < 250 || k > 258) {
			continue
		}
		p := new(big.Int).Lsh(big.NewInt(1), uint(k))
		add(p)
		add(new(big.Int).Add(p, big.NewInt(1)))
		add(new(big.Int).Sub(p, big.NewInt(1)))
	}
	for i := 0; i < nrand; i++ {
		w := 1 + r.intn(34)
		b := r.bytes(w)
		switch r.intn(4) {
		case 0:
			b[0] |= 0x80
		case 1:
			b[0] = 0xff
		case 2:
			b[0] = 0
		}
		add(new(big.Int).SetBytes(b))
	}
	return out
}

type c18Input struct {
	Z     string `json:"z,omitempty"`
	Bytes string `json:"bytes,omitempty"`
}

func c18Run(co *caseOut, kind string, in c18Input) {
	switch kind {
	case "bigint_enc":
		z, _ := new(big.Int).SetString(in.Z, 10)
		zc := new(big.Int).Set(z)
		var bs []byte
		if p := catch(func() { bs = bigint.ToBytes(zc) }); p != "" {
			co.violation(kind, "panic: "+p, in, nil)
			return
		}
		// the argument must come back unchanged (ToBytes works on the magnitude words in place for
		// negative values); a corrupted big.Int may be denormalised, so every access is guarded
		changed := false
		if p := catch(func() { changed = zc.Cmp(z) != 0 || len(zc.Bits()) != len(z.Bits()) }); p != "" {
			changed = true
		}
		if changed {
			after := "(not printable: denormalised)"
			catch(func() { after = zc.String() })
			co.violation(kind, "ToBytes changed its argument", in, after)
		}
		tag := fmt.Sprintf("len%d", len(bs))
		co.add(kind, tag, len(bs) > 0, in, hx(bs), fmt.Sprintf("CBigEnc %s %s", coqZ(z), coqBytes(bs)))
	case "bigint_dec":
		bs := unhx(in.Bytes)
		if bs == nil {
			bs = []byte{}
		}
		var z *big.Int
		if p := catch(func() { z = bigint.FromBytes(bs) }); p != "" {
			co.violation(kind, "panic: "+p, in, nil)
			return
		}
		tag := "min"
		if len(bs) > 0 && len(bigint.ToBytes(z)) != len(bs) {
			tag = "padded"
		}
		co.add(kind, tag, len(bs) > 0, in, z.String(), fmt.Sprintf("CBigDec %s %s", coqBytes(bs), coqZ(z)))
	default:
		panic("unknown kind " + kind)
	}
}

func runC18(args []string) error {
	cf, fs := parseCommon("c18", args)
	fs.Parse(args)
	co := newCaseOut(cf.out, "Harness.C18", "Z",
		"integers from the boundary lattice (0, ±1, ±2^k, ±2^k±1 for k up to 264, random widths up to 34 bytes) through ToBytes; "+
			"byte strings (minimal, sign-padded, random up to 40 bytes) through FromBytes; Base58/Base58Check/address strings (leading zeros, wrong characters, wrong payload lengths and prefixes); "+
			"fixed-point decimals at the int64 edges, negative fractions and malformed texts; Uint160/256 forms; Merkle roots of lists of length 0..40 with repeated hashes; "+
			"m-of-n multi-signature configurations (repeated keys, invalid signatures, malformed keys) on the real VM under GOMAXPROCS 1/2/4/8; ECDSA/WIF/NEP-2/key laws (direct); "+
			"the same lattice through emit.BigInt/Int/Any/StackItem/Array (script against the emitter and PUSHINT* models, run on the real VM), ToPreallocatedBytes, Parameter, compiler literals; "+
			"NEP-2 with passphrases outside ASCII (pairs that are identical / NFC-equal in another spelling / NFKC-equal only / different; empty, long, NUL, invalid UTF-8), damaged NEP-2 envelopes, look-alikes outside ASCII of valid addresses, WIFs, keys, hashes and decimals into every text decoder; "+
			"non-trivial: non-empty byte string / fractional or negative decimal / list of two or more hashes / two or more signatures / two passphrases that differ in bytes and are NFC- or NFKC-equal; distinct by Coq term")
	co.shard = 120
	if cf.replay != "" {
		cases, err := readReplay(cf.replay)
		if err != nil {
			return err
		}
		for _, c := range cases {
			var x struct {
				Kind  string          `json:"kind"`
				Input json.RawMessage `json:"input"`
			}
			if err := json.Unmarshal(c, &x); err != nil {
				return err
			}
			if strings.HasPrefix(x.Kind, "bigint_") {
				var in c18Input
				if err := json.Unmarshal(x.Input, &in); err != nil {
					return err
				}
				c18Run(co, x.Kind, in)
			} else {
				var in c18xInput
				if err := json.Unmarshal(x.Input, &in); err != nil {
					return err
				}
				c18xRun(co, x.Kind, in)
			}
		}
		return co.finish()
	}
	r := newRng(cf.seed)
	ints := latticeInts(r, cf.n)
	for _, z := range ints {
		c18Run(co, "bigint_enc", c18Input{Z: z.String()})
	}
	// decoding: minimal forms, sign-extended forms, random strings
	for i, z := range ints {
		bs := bigint.ToBytes(z)
		if i%3 == 0 || len(bs) == 0 {
			c18Run(co, "bigint_dec", c18Input{Bytes: hx(bs)})
		}
		if i%3 == 1 {
			pad := byte(0)
			if z.Sign() < 0 {
				pad = 0xff
			}
			k := 1 + r.intn(4)
			p := append([]byte{}, bs...)
			for j := 0; j < k; j++ {
				p = append(p, pad)
			}
			c18Run(co, "bigint_dec", c18Input{Bytes: hx(p)})
		}
	}
	for i := 0; i < cf.n; i++ {
		b := r.bytes(r.intn(41))
		if len(b) > 0 && r.chance(40) {
			b[len(b)-1] = pick(r, []byte{0, 0xff, 0x80, 0x7f})
		}
		if len(b) > 1 && r.chance(30) {
			b[len(b)-2] = pick(r, []byte{0, 0xff, 0x80, 0x7f})
		}
		c18Run(co, "bigint_dec", c18Input{Bytes: hx(b)})
	}
	c18EmitGenerate(co, r, cf, ints)
	c18xGenerate(co, r, cf)
	return co.finish()
}
