package main

// C04 harness, part 5: SEVERAL exception handlers in ONE caller frame, in different states, at the moment of a call.
// ContractHasTryBlock has to answer "will handleException stop somewhere in this contract invocation?": handlers in
// their finally block (or in a catch block without finally) are skipped, an enclosing one still in try (or in catch
// with a finally block) stops the exception.  Two placements: in the ENTRY script (compiled straight-line: all handlers
// sit on one context's try stack) and inside a test contract (the interpreter keeps one handler per internal context
// of the same contract invocation: the walk has to cross contexts).  Calls stand in every region of every level: try
// body, catch body, finally body entered by normal completion and by an exception; callees write, notify and then
// return / throw / abort.

func c04NestCallee(r *rng) *c04Node {
	body := []*c04Node{
		{Op: "put", K: r.intn(c04NKeys), V: 1 + r.intn(9)},
		{Op: "notify", V: r.intn(10)},
	}
	if r.chance(25) {
		body = append(body, &c04Node{Op: "setfee", V: 900 + 50*r.intn(6)})
	}
	if r.chance(20) { // the callee has a handler of its own that is dead when it calls on
		body = append(body, &c04Node{Op: "try", Body: &c04Node{Op: "notify", V: 3},
			Fin: &c04Node{Op: "call", C: r.intn(c04NContracts), Flags: 15, Body: &c04Node{Op: "put", K: r.intn(c04NKeys), V: 1 + r.intn(9)}}})
	}
	switch x := r.intn(100); {
	case x < 45:
	case x < 93:
		body = append(body, &c04Node{Op: "throw"})
	default:
		body = append(body, &c04Node{Op: "abort", V: r.intn(3)})
	}
	return &c04Node{Op: "call", C: r.intn(c04NContracts), Flags: pick(r, []int{15, 15, 15, 15, 11, 7}), Body: c04SeqOf(body)}
}

func c04NestRegion(r *rng, entry bool, callPct int) []*c04Node {
	var ops []*c04Node
	if !entry && r.chance(50) {
		if r.bool() {
			ops = append(ops, &c04Node{Op: "put", K: r.intn(c04NKeys), V: 1 + r.intn(9)})
		} else {
			ops = append(ops, &c04Node{Op: "notify", V: r.intn(10)})
		}
	}
	if r.chance(callPct) {
		ops = append(ops, c04NestCallee(r))
	}
	if r.chance(22) {
		ops = append(ops, &c04Node{Op: "throw"})
	}
	return ops
}

// levels nested try blocks in one frame
func c04NestTry(r *rng, levels int, entry bool) *c04Node {
	t := &c04Node{Op: "try"}
	body := c04NestRegion(r, entry, 55)
	if levels > 1 {
		body = append(body, c04NestTry(r, levels-1, entry))
	}
	body = append(body, c04NestRegion(r, entry, 45)...)
	t.Body = c04SeqOf(body)
	shape := r.intn(4) // 0,1: catch+finally; 2: catch; 3: finally
	if shape <= 2 {
		c := c04NestRegion(r, entry, 70)
		if levels > 1 && r.chance(25) {
			c = append(c, c04NestTry(r, 1, entry))
		}
		t.Catch = c04SeqOf(c)
	}
	if shape != 2 {
		f := c04NestRegion(r, entry, 75)
		if levels > 1 && r.chance(20) {
			f = append(f, c04NestTry(r, 1, entry))
		}
		t.Fin = c04SeqOf(f)
	}
	return t
}

// the shapes named in the third mutation round, with random keys: an inner handler already in its finally block (entered
// normally / by an exception of its own try) under an outer handler still in try; an inner handler in try under an outer
// one that is already in its catch block; a handler in catch-with-finally under a dead outer one
func c04NestTemplates(r *rng) []*c04Node {
	callee := func(end string) *c04Node {
		b := []*c04Node{{Op: "put", K: r.intn(c04NKeys), V: 1 + r.intn(9)}, {Op: "notify", V: r.intn(10)}}
		if end != "" {
			b = append(b, &c04Node{Op: end})
		}
		return &c04Node{Op: "call", C: r.intn(c04NContracts), Flags: 15, Body: c04SeqOf(b)}
	}
	skip := &c04Node{Op: "skip"}
	return []*c04Node{
		// try { try { ok } finally { call B throws } } catch {}
		{Op: "try", Body: &c04Node{Op: "try", Body: callee(""), Fin: callee("throw")}, Catch: skip},
		// ... the inner finally entered by an exception of its own try (F40 territory when B returns)
		{Op: "try", Body: &c04Node{Op: "try", Body: &c04Node{Op: "throw"}, Fin: callee("throw")}, Catch: skip},
		{Op: "try", Body: &c04Node{Op: "try", Body: &c04Node{Op: "throw"}, Fin: callee("")}, Catch: skip},
		// outer handler dead (catch without finally), inner one in try
		{Op: "try", Body: &c04Node{Op: "throw"}, Catch: &c04Node{Op: "try", Body: callee("throw"), Catch: callee("")}},
		// outer in try, middle in finally, inner in catch without finally: three levels
		{Op: "try", Body: &c04Node{Op: "try", Body: skip, Fin: &c04Node{Op: "try", Body: &c04Node{Op: "throw"}, Catch: callee("throw")}}, Catch: callee("")},
		// outer dead (finally), inner catch-with-finally (F13's handler) under it
		{Op: "try", Body: skip, Fin: &c04Node{Op: "try", Body: &c04Node{Op: "throw"}, Catch: callee("throw"), Fin: &c04Node{Op: "skip"}}},
		// all dead: a call from a finally block with nothing live around it, the exception leaves the frame
		{Op: "try", Body: skip, Fin: &c04Node{Op: "try", Body: skip, Fin: callee("throw")}},
	}
}

// place a one-frame nest in the entry script or inside a test contract (optionally under a caller that catches)
func c04NestPlace(r *rng, nest *c04Node, entry bool) []*c04Node {
	if entry {
		return []*c04Node{nest}
	}
	in := &c04Node{Op: "call", C: r.intn(c04NContracts), Flags: 15, Body: c04SeqOf([]*c04Node{{Op: "put", K: r.intn(c04NKeys), V: 1 + r.intn(9)}, nest, {Op: "notifyval", K: r.intn(c04NKeys)}})}
	if r.chance(60) {
		return []*c04Node{{Op: "try", Body: in, Catch: &c04Node{Op: "skip"}}}
	}
	return []*c04Node{in}
}
