package main

// Shared by c12 and c13: running a script on the real VM with a price getter and a gas limit, and the canonical
// serialisation of its evaluation stack (the Go twin of coq/VM/Obs.v).

import (
	"fmt"
	"math/big"
	"strings"

	"github.com/nspcc-dev/neo-go/pkg/core/fee"
	"github.com/nspcc-dev/neo-go/pkg/vm"
	"github.com/nspcc-dev/neo-go/pkg/vm/opcode"
	"github.com/nspcc-dev/neo-go/pkg/vm/stackitem"
)

// c13Ser serialises items (top of stack first) keeping sharing: tags as in VM/Obs.v.
type c13Ser struct {
	sb   strings.Builder
	seen map[any]int
	n    int
}

func newC13Ser() *c13Ser { return &c13Ser{seen: map[any]int{}} }

func (s *c13Ser) num(z int64) {
	if s.n > 0 {
		s.sb.WriteByte(';')
	}
	s.n++
	if z < 0 {
		fmt.Fprintf(&s.sb, "(%d)", z)
	} else {
		fmt.Fprintf(&s.sb, "%d", z)
	}
}
func (s *c13Ser) big(z *big.Int) {
	if s.n > 0 {
		s.sb.WriteByte(';')
	}
	s.n++
	s.sb.WriteString(coqZ(z))
}
func (s *c13Ser) bytes(tag int64, b []byte) {
	s.num(tag)
	s.num(int64(len(b)))
	for _, x := range b {
		s.num(int64(x))
	}
}
func (s *c13Ser) ref(p any) bool {
	if k, ok := s.seen[p]; ok {
		s.num(9)
		s.num(int64(k))
		return true
	}
	s.seen[p] = len(s.seen)
	return false
}

func (s *c13Ser) item(it stackitem.Item) {
	switch t := it.(type) {
	case nil:
		s.num(0)
	case stackitem.Null:
		s.num(0)
	case stackitem.Bool:
		s.num(1)
		if bool(t) {
			s.num(1)
		} else {
			s.num(0)
		}
	case *stackitem.BigInteger:
		s.num(2)
		s.big(t.Big())
	case *stackitem.ByteArray:
		s.bytes(3, t.Value().([]byte))
	case *stackitem.Buffer:
		if !s.ref(t) {
			s.bytes(4, t.Value().([]byte))
		}
	case *stackitem.Array:
		if !s.ref(t) {
			a := t.Value().([]stackitem.Item)
			s.num(5)
			s.num(int64(len(a)))
			for _, e := range a {
				s.item(e)
			}
		}
	case *stackitem.Struct:
		if !s.ref(t) {
			a := t.Value().([]stackitem.Item)
			s.num(6)
			s.num(int64(len(a)))
			for _, e := range a {
				s.item(e)
			}
		}
	case *stackitem.Map:
		if !s.ref(t) {
			m := t.Value().([]stackitem.MapElement)
			s.num(7)
			s.num(int64(len(m)))
			for _, e := range m {
				s.item(e.Key)
				s.item(e.Value)
			}
		}
	case *stackitem.Pointer:
		s.num(8)
		s.num(int64(t.Position()))
	default:
		s.num(10)
	}
}

// c13SerStack: "[n; items...]" of the evaluation stack, top first.
func c13SerStack(st *vm.Stack) string {
	s := newC13Ser()
	s.num(int64(st.Len()))
	st.Iter(func(e vm.Element) { s.item(e.Item()) })
	return "[" + s.sb.String() + "]"
}

type c13Result struct {
	Halt   bool   `json:"halt"`
	Gas    int64  `json:"gas"`
	Stack  string `json:"stack,omitempty"`
	Steps  int    `json:"steps"`
	Panic  string `json:"panic,omitempty"`
	ErrStr string `json:"err,omitempty"`
	Trace  uint64 `json:"trace,omitempty"` // hash of (offset, opcode, refs, gas pico, stack and invocation depth, try depth) before every instruction
	Refs   []int  `json:"-"`               // VM.refs before each of the first instructions
}

// c13NewVM: vm.New() with the ledger's price getter (fee.Opcode(base, op)) and a gas limit in datoshi.
func c13NewVM(base int64, limitDatoshi int64) *vm.VM {
	v := vm.New()
	v.SetPriceGetter(func(op opcode.Opcode, _ []byte) int64 { return fee.Opcode(base, op) })
	v.SetGasLimit(limitDatoshi)
	return v
}

// c13Exec runs one script to completion on a fresh VM.
func c13Exec(script []byte, base, limitDatoshi int64) c13Result {
	return c13ExecOn(c13NewVM(base, limitDatoshi), script)
}

func (r c13Result) coq() string {
	if r.Halt {
		return fmt.Sprintf("(OHalt %d %s)", r.Gas, r.Stack)
	}
	return fmt.Sprintf("(OFault %d)", r.Gas)
}
