package main

// C20 (ii), infrastructure: a source chain built with neotest (single validator, state root in header,
// P2P state exchange on) carrying a hand-assembled storage contract, and the syncing node ("bolt")
// on LevelDB so that it can be closed and reopened.

import (
	"bytes"
	"encoding/binary"
	"fmt"
	"os"
	"sort"
	"testing"

	"github.com/nspcc-dev/neo-go/pkg/config"
	"github.com/nspcc-dev/neo-go/pkg/core"
	"github.com/nspcc-dev/neo-go/pkg/core/block"
	"github.com/nspcc-dev/neo-go/pkg/core/mpt"
	"github.com/nspcc-dev/neo-go/pkg/core/state"
	"github.com/nspcc-dev/neo-go/pkg/core/storage"
	"github.com/nspcc-dev/neo-go/pkg/core/storage/dbconfig"
	"github.com/nspcc-dev/neo-go/pkg/core/transaction"
	"github.com/nspcc-dev/neo-go/pkg/crypto/hash"
	"github.com/nspcc-dev/neo-go/pkg/io"
	"github.com/nspcc-dev/neo-go/pkg/neotest"
	"github.com/nspcc-dev/neo-go/pkg/neotest/chain"
	"github.com/nspcc-dev/neo-go/pkg/smartcontract"
	"github.com/nspcc-dev/neo-go/pkg/smartcontract/callflag"
	"github.com/nspcc-dev/neo-go/pkg/smartcontract/manifest"
	"github.com/nspcc-dev/neo-go/pkg/smartcontract/nef"
	"github.com/nspcc-dev/neo-go/pkg/util"
	"github.com/nspcc-dev/neo-go/pkg/vm/emit"
	"github.com/nspcc-dev/neo-go/pkg/vm/opcode"
	"go.uber.org/zap"
	"go.uber.org/zap/zapcore"
)

// c20TB is the testing.TB handed to neotest outside `go test`: failures panic with c20Fail
// (caught per case), clean-ups are run by done().
type c20TB struct {
	testing.TB
	cleanups []func()
	msgs     []string
	dirs     []string
}
type c20Fail struct{ msg string }

func (t *c20TB) Helper()                   {}
func (t *c20TB) Name() string              { return "c20" }
func (t *c20TB) Logf(string, ...any)       {}
func (t *c20TB) Log(...any)                {}
func (t *c20TB) Errorf(f string, a ...any) { t.msgs = append(t.msgs, fmt.Sprintf(f, a...)) }
func (t *c20TB) Error(a ...any)            { t.msgs = append(t.msgs, fmt.Sprint(a...)) }
func (t *c20TB) Fatalf(f string, a ...any) { t.Errorf(f, a...); t.FailNow() }
func (t *c20TB) Fatal(a ...any)            { t.Error(a...); t.FailNow() }
func (t *c20TB) Fail()                     { t.msgs = append(t.msgs, "Fail") }
func (t *c20TB) Failed() bool              { return len(t.msgs) > 0 }
func (t *c20TB) FailNow() {
	m := "neotest assertion failed"
	if len(t.msgs) > 0 {
		m = t.msgs[len(t.msgs)-1]
	}
	panic(c20Fail{m})
}
func (t *c20TB) Cleanup(f func()) { t.cleanups = append(t.cleanups, f) }
func (t *c20TB) TempDir() string {
	d, err := os.MkdirTemp("", "c20-")
	if err != nil {
		panic(err)
	}
	t.dirs = append(t.dirs, d)
	return d
}
func (t *c20TB) done() {
	for i := len(t.cleanups) - 1; i >= 0; i-- {
		t.cleanups[i]()
	}
	t.cleanups = nil
	for _, d := range t.dirs {
		os.RemoveAll(d)
	}
	t.dirs = nil
}

const (
	c20Interval  = 4 // StateSyncInterval
	c20Traceable = 6 // MaxTraceableBlocks
)

func c20Cfg(c *config.Blockchain) {
	c.StateRootInHeader = true
	c.P2PStateExchangeExtensions = true
	c.StateSyncInterval = c20Interval
	c.MaxTraceableBlocks = c20Traceable
	c.MaxValidUntilBlockIncrement = c20Traceable / 2
	c.Hardforks = map[string]uint32{}
	for _, hf := range config.Hardforks {
		c.Hardforks[hf.String()] = 0
	}
}

// storage contract, hand-assembled:  put(key, value)  /  del(key)
func c20Contract(sender util.Uint160) *neotest.Contract {
	w := io.NewBufBinWriter()
	// put: stack on entry (top first) key, value -> ctx, key, value
	emit.Syscall(w.BinWriter, "System.Storage.GetContext")
	emit.Syscall(w.BinWriter, "System.Storage.Put")
	emit.Opcodes(w.BinWriter, opcode.RET)
	delOff := w.Len()
	emit.Syscall(w.BinWriter, "System.Storage.GetContext")
	emit.Syscall(w.BinWriter, "System.Storage.Delete")
	emit.Opcodes(w.BinWriter, opcode.RET)
	ne, err := nef.NewFile(w.Bytes())
	if err != nil {
		panic(err)
	}
	m := manifest.NewManifest("c20store")
	m.ABI.Methods = []manifest.Method{
		{Name: "put", Offset: 0, ReturnType: smartcontract.VoidType, Parameters: []manifest.Parameter{
			manifest.NewParameter("key", smartcontract.ByteArrayType), manifest.NewParameter("value", smartcontract.ByteArrayType)}},
		{Name: "del", Offset: delOff, ReturnType: smartcontract.VoidType, Parameters: []manifest.Parameter{
			manifest.NewParameter("key", smartcontract.ByteArrayType)}},
	}
	return &neotest.Contract{Hash: state.CreateContractHash(sender, ne.Checksum, m.Name), NEF: ne, Manifest: m}
}

// c20Source is a finished source chain with everything a syncing node may ask for.
type c20Source struct {
	tb     *c20TB
	bc     *core.Blockchain
	e      *neotest.Executor
	ctr    *neotest.Contract
	height uint32
}

type c20KV struct{ k, v []byte }

// keys: clustered on purpose (shared prefixes of varying length, keys that are prefixes of other keys,
// keys differing in the last nibble only) with values from a small set so that leaves and whole
// subtrees are shared between paths.
func c20GenKV(r *rng, n int) []c20KV {
	var out []c20KV
	prefixes := [][]byte{{0x10}, {0x10, 0x22}, {0x10, 0x22, 0x33, 0x44}, {0xab}, {0xab, 0xcd, 0xef}, {}}
	vals := [][]byte{[]byte("v"), []byte("w"), []byte("value-2"), {0}, {1, 2, 3}}
	for i := 0; i < n; i++ {
		k := append([]byte{}, pick(r, prefixes)...)
		switch r.intn(4) {
		case 0: // last nibble differs
			k = append(k, byte(0x50+r.intn(4)))
		case 1:
			k = append(k, byte(r.intn(256)), byte(r.intn(4)))
		case 2:
			k = append(k, r.bytes(1+r.intn(3))...)
		default: // the prefix itself (key that is a prefix of other keys)
			if len(k) == 0 {
				k = []byte{byte(r.intn(256))}
			}
		}
		v := pick(r, vals)
		if r.chance(25) {
			v = r.bytes(1 + r.intn(6))
		}
		out = append(out, c20KV{k, append([]byte{}, v...)})
	}
	return out
}

// c20GenTwins: one family of keys whose subtrees coincide
func c20GenTwins(r *rng) []c20KV {
	var out []c20KV
	prefix := pick(r, [][]byte{{0x77}, {0x77, 0x01}, {0x10, 0x22}, {}, {0xab, 0xcd, 0xef, 0x01}})
	val := pick(r, [][]byte{[]byte("twin"), {7}, []byte("v")})
	x := byte(r.intn(256))
	var variants []byte
	switch r.intn(3) {
	case 0: // differ in the high nibble
		variants = []byte{x, x ^ 0x10, x ^ 0x30}
	case 1: // differ in the low nibble
		variants = []byte{x, x ^ 0x01, x ^ 0x03}
	default:
		variants = []byte{x, x ^ 0x40}
	}
	variants = variants[:2+r.intn(len(variants)-1)]
	var tails [][]byte
	switch r.intn(3) {
	case 0: // extension + leaf below the differing nibble
		tails = [][]byte{{0x31, 0x32}}
	case 1: // a branch subtree below it
		tails = [][]byte{{0x31, 0x40}, {0x31, 0x50}, {0x32}}
	default:
		tails = [][]byte{{0x05}, {0x05, 0x06}}
	}
	for _, v := range variants {
		for _, t := range tails {
			k := append(append(append([]byte{}, prefix...), v), t...)
			out = append(out, c20KV{k, val})
		}
	}
	return out
}

func c20NewSource(r *rng, height int, perBlock int) *c20Source {
	tb := &c20TB{}
	bc, acc := chain.NewSingleWithOptions(tb, &chain.Options{Logger: zap.NewNop(), BlockchainConfigHook: c20Cfg})
	e := neotest.NewExecutor(tb, bc, acc, acc)
	s := &c20Source{tb: tb, bc: bc, e: e}
	s.ctr = c20Contract(e.Validator.ScriptHash())
	e.DeployContract(tb, s.ctr, nil)
	var live []c20KV
	fr := newRng(r.s ^ 0x5eed)
	for int(bc.BlockHeight()) < height {
		w := io.NewBufBinWriter()
		n := 0
		if r.chance(85) {
			n = 1 + r.intn(perBlock)
		}
		for _, kv := range c20GenKV(r, n) {
			emit.AppCall(w.BinWriter, s.ctr.Hash, "put", callflag.All, kv.k, kv.v)
			live = append(live, kv)
		}
		if len(live) > 4 && r.chance(40) { // deletions restructure the trie as well
			for j := 0; j < 1+r.intn(3); j++ {
				i := r.intn(len(live))
				emit.AppCall(w.BinWriter, s.ctr.Hash, "del", callflag.All, live[i].k)
			}
		}
		// shared INTERIOR nodes: groups of keys that differ in exactly one nibble and have identical tails and values
		// (shared extension+leaf, shared branch subtrees), at several depths; own PRNG stream, never deleted
		if bc.BlockHeight() < 7 || fr.chance(25) {
			for _, kv := range c20GenTwins(fr) {
				emit.AppCall(w.BinWriter, s.ctr.Hash, "put", callflag.All, kv.k, kv.v)
			}
		}
		if w.Len() == 0 {
			e.AddNewBlock(tb)
			continue
		}
		tx := e.PrepareInvocation(tb, w.Bytes(), []neotest.Signer{e.Validator})
		txs := []*transaction.Transaction{tx}
		// further small transactions so that blocks of the window carry several (own PRNG: the storage history is
		// the one the main stream produces)
		for k := fr.intn(3); k > 0; k-- {
			txs = append(txs, e.PrepareInvocation(tb, []byte{byte(opcode.PUSH1) + byte(fr.intn(8)), byte(opcode.RET)}, []neotest.Signer{e.Validator}))
		}
		e.AddNewBlock(tb, txs...)
		e.CheckHalt(tb, tx.Hash())
	}
	s.height = bc.BlockHeight()
	return s
}

func (s *c20Source) close() { s.tb.done() }

func (s *c20Source) header(i uint32) *block.Header {
	h, err := s.bc.GetHeader(s.bc.GetHeaderHash(i))
	if err != nil {
		panic(err)
	}
	return h
}
func (s *c20Source) block(i uint32) *block.Block {
	b, err := s.bc.GetBlock(s.bc.GetHeaderHash(i))
	if err != nil {
		panic(err)
	}
	return b
}
func (s *c20Source) root(i uint32) util.Uint256 {
	r, err := s.bc.GetStateModule().GetStateRoot(i)
	if err != nil {
		panic(err)
	}
	return r.Root
}

// c20Node is one node of the source trie at the sync point, in canonical encoding.
type c20Node struct {
	h      util.Uint256
	bytes  []byte
	kids   []util.Uint256 // hash children in the order Billet.traverse visits them (value child first)
	labels [][]byte       // path segment leading to each child (nibbles)
	leaf   bool
}

// nodes of the trie with the given root in first-visit pre-order (ids are stable under changes of values)
func (s *c20Source) nodes(root util.Uint256) []c20Node {
	seen := map[util.Uint256]bool{}
	var out []c20Node
	err := s.bc.GetStateSyncModule().Traverse(root, func(n mpt.Node, nb []byte) bool {
		if seen[n.Hash()] {
			return false
		}
		seen[n.Hash()] = true
		cn := c20Node{h: n.Hash(), bytes: bytes.Clone(n.Bytes())}
		switch x := n.(type) {
		case *mpt.BranchNode:
			order := append([]int{16}, 0, 1, 2, 3, 4, 5, 6, 7, 8, 9, 10, 11, 12, 13, 14, 15)
			for _, i := range order {
				c := x.Children[i]
				if c.Type() == mpt.HashT {
					cn.kids = append(cn.kids, c.Hash())
					if i == 16 {
						cn.labels = append(cn.labels, []byte{})
					} else {
						cn.labels = append(cn.labels, []byte{byte(i)})
					}
				} else if c.Type() != mpt.EmptyT {
					panic("source trie node with an inline child")
				}
			}
		case *mpt.ExtensionNode:
			for h, ps := range mpt.GetChildrenPaths(nil, x) {
				cn.kids = append(cn.kids, h)
				cn.labels = append(cn.labels, bytes.Clone(ps[0]))
			}
		case *mpt.LeafNode:
			cn.leaf = true
		}
		out = append(out, cn)
		return false
	})
	if err != nil {
		panic(err)
	}
	for _, n := range out {
		if hash.DoubleSha256(n.bytes) != n.h {
			panic("source node bytes are not canonical")
		}
	}
	return out
}

// storage content of the trie with the given root: sorted "id(4 LE) ++ key" -> value
func (s *c20Source) content(root util.Uint256) []c20KV {
	var out []c20KV
	s.bc.GetStateModule().SeekStates(root, nil, func(k, v []byte) bool {
		out = append(out, c20KV{bytes.Clone(k), bytes.Clone(v)})
		return true
	})
	sort.Slice(out, func(i, j int) bool { return bytes.Compare(out[i].k, out[j].k) < 0 })
	return out
}

// ---- the syncing node ----

type c20Bolt struct {
	dir string
	bc  *core.Blockchain
	tb  *c20TB
	st  storage.Store // the LevelDB handle under the node's write cache
}

func c20BoltCfg(c *config.Blockchain) {
	c20Cfg(c)
	c.KeepOnlyLatestState = true
	c.RemoveUntraceableBlocks = true
}

func c20OpenBolt(dir string) (*c20Bolt, error) {
	st, err := storage.NewLevelDBStore(dbconfig.LevelDBOptions{DataDirectoryPath: dir})
	if err != nil {
		return nil, err
	}
	tb := &c20TB{}
	var bc *core.Blockchain
	var perr any
	func() {
		defer func() { perr = recover() }()
		bc, _ = chain.NewSingleWithOptions(tb, &chain.Options{Logger: c20Logger(), BlockchainConfigHook: c20BoltCfg, Store: st, SkipRun: true})
	}()
	if perr != nil {
		st.Close()
		return nil, fmt.Errorf("blockchain does not open: %v", perr)
	}
	go bc.Run() // Close() hands over to the Run loop, which flushes and closes the database
	return &c20Bolt{dir: dir, bc: bc, tb: tb, st: st}, nil
}

func (b *c20Bolt) close() { b.bc.Close() }

// a silent logger whose Fatal panics (caught per operation) instead of exiting the process
func c20Logger() *zap.Logger {
	return zap.New(zapcore.NewNopCore(), zap.WithFatalHook(zapcore.WriteThenPanic))
}

func (b *c20Bolt) reopen() error {
	b.close()
	nb, err := c20OpenBolt(b.dir)
	if err != nil {
		return err
	}
	b.bc, b.tb, b.st = nb.bc, nb.tb, nb.st
	return nil
}

// full contract storage of the node through the public ledger API: "id(4 LE) ++ key" -> value
func c20Dump(bc *core.Blockchain) []c20KV {
	var out []c20KV
	for id := int32(-24); id <= 8; id++ {
		bc.SeekStorage(id, nil, func(k, v []byte) bool {
			key := make([]byte, 4, 4+len(k))
			binary.LittleEndian.PutUint32(key, uint32(id))
			out = append(out, c20KV{append(key, k...), bytes.Clone(v)})
			return true
		})
	}
	sort.Slice(out, func(i, j int) bool { return bytes.Compare(out[i].k, out[j].k) < 0 })
	return out
}

func c20KVEqual(a, b []c20KV) (bool, string) {
	am := map[string]string{}
	for _, x := range a {
		am[string(x.k)] = string(x.v)
	}
	bm := map[string]string{}
	for _, x := range b {
		bm[string(x.k)] = string(x.v)
	}
	for k, v := range am {
		if w, ok := bm[k]; !ok {
			return false, fmt.Sprintf("key %x missing", k)
		} else if w != v {
			return false, fmt.Sprintf("key %x: value %x, expected %x", k, w, v)
		}
	}
	for k := range bm {
		if _, ok := am[k]; !ok {
			return false, fmt.Sprintf("extra key %x", k)
		}
	}
	return true, ""
}
