package main

// C02, slow-store mode (kind "resetord"): the ORDER in which the writes of two goroutines reach the database.
//
// Reset hands its stage batches to a helper goroutine (resetStateInternal: persistCh) and also works on the persistent
// store directly (SeekGC over the old contract storage prefix). With a fast store the order at the store equals the
// program order. Here the recording store holds every write at a gate; the harness lets a write through only when
// the system is QUIESCENT: every goroutine that runs node code is parked (channel, mutex, ...) or waits at the gate
// itself. So the writer that is not being served has had every chance to run ahead, as with a slow disk, and when two
// writes wait at the same time BOTH orders are possible on a real store: the harness takes them in turn (a schedule
// = the choice made at every such conflict; all schedules are enumerated, depth first).
//
// No sleep is used as synchronisation: quiescence is read off runtime.Stack (goroutine wait states, two consecutive
// identical observations), polling every 50us, with a generous bound (c02GateWait) after which the run is reported
// as an infrastructure failure, never as a violation.

import (
	"bytes"
	"fmt"
	"runtime"
	"strconv"
	"strings"
	"sync"
	"time"

	"github.com/nspcc-dev/neo-go/pkg/core/storage"
)

const c02GateWait = 120 * time.Second

type c02Pend struct {
	who  string // "D": the goroutine that runs the operation under test; "B": any other
	kind string // put | gc
	gid  uint64
	goCh chan struct{}
	fin  chan struct{}
}

type c02Conflict struct {
	Pending []string `json:"pending"` // e.g. ["B:put","D:gc"]
	Taken   int      `json:"taken"`
}

type c02Gate struct {
	mu        sync.Mutex
	mainID    uint64
	choices   []int
	pending   []*c02Pend
	Trace     []string      // order in which the writes were let through ("B:put", "D:gc", ...)
	Conflicts []c02Conflict // one per point with two writes waiting
	wake      chan struct{}
	stop      chan struct{}
	done      chan struct{}
	err       string
}

func c02GoID() uint64 {
	var buf [64]byte
	n := runtime.Stack(buf[:], false)
	f := bytes.Fields(buf[:n])
	if len(f) < 2 {
		return 0
	}
	id, _ := strconv.ParseUint(string(f[1]), 10, 64)
	return id
}

// c02NewGate: the calling goroutine is the one whose store calls count as direct ("D").
func c02NewGate(choices []int) *c02Gate {
	g := &c02Gate{mainID: c02GoID(), choices: choices, wake: make(chan struct{}, 1), stop: make(chan struct{}), done: make(chan struct{})}
	go g.loop()
	return g
}

func (g *c02Gate) close() {
	close(g.stop)
	<-g.done
}

func (g *c02Gate) enter(kind string) (string, func()) {
	p := &c02Pend{kind: kind, gid: c02GoID(), goCh: make(chan struct{}), fin: make(chan struct{})}
	p.who = "B"
	if p.gid == g.mainID {
		p.who = "D"
	}
	select {
	case <-g.stop: // not scheduled any more
		return p.who, func() {}
	default:
	}
	g.mu.Lock()
	g.pending = append(g.pending, p)
	g.mu.Unlock()
	select {
	case g.wake <- struct{}{}:
	default:
	}
	select {
	case <-p.goCh:
	case <-g.done: // the scheduler is gone (run over): pass
		return p.who, func() {}
	}
	return p.who, func() { close(p.fin) }
}

var c02StackBuf = make([]byte, 4<<20)

// c02Settled: a signature of the goroutines that run node code (and of goroutine mainID, whatever it runs), whether
// all of them are parked, and where a goroutine inside storeBlock is parked ("" if none is there)
func c02Settled(mainID uint64) (sig string, all bool, storeBlockAt string) {
	n := runtime.Stack(c02StackBuf, true)
	all = true
	var sb strings.Builder
	for _, gr := range strings.Split(string(c02StackBuf[:n]), "\n\n") {
		hdr, body, _ := strings.Cut(gr, "\n")
		if !strings.HasPrefix(hdr, "goroutine ") {
			continue
		}
		rest := hdr[len("goroutine "):]
		idS, st, _ := strings.Cut(rest, " [")
		id, _ := strconv.ParseUint(idS, 10, 64)
		if id != mainID && !strings.Contains(body, "neo-go/pkg/") {
			continue // not node code (harness infrastructure, runtime)
		}
		if strings.Contains(body, "main.(*c02Gate).loop") || strings.Contains(body, "main.c02Settled") {
			continue
		}
		st = strings.TrimSuffix(st, "]:")
		if i := strings.IndexByte(st, ','); i >= 0 {
			st = st[:i]
		}
		parked := false
		for _, p := range []string{"chan send", "chan receive", "select", "sync.", "semacquire"} {
			if strings.HasPrefix(st, p) {
				parked = true
			}
		}
		if !parked {
			all = false
		}
		if strings.Contains(body, ".storeBlock(") {
			storeBlockAt = st
		}
		sb.WriteString(idS)
		sb.WriteByte(':')
		sb.WriteString(st)
		sb.WriteByte(';')
	}
	return sb.String(), all, storeBlockAt
}

func (g *c02Gate) settled() (string, bool) {
	sig, all, _ := c02Settled(g.mainID)
	return sig, all
}

func (g *c02Gate) loop() {
	defer close(g.done)
	for {
		select {
		case <-g.stop:
			// let whatever still waits through
			g.mu.Lock()
			for _, p := range g.pending {
				close(p.goCh)
			}
			g.pending = nil
			g.mu.Unlock()
			return
		case <-g.wake:
		}
		for {
			g.mu.Lock()
			np := len(g.pending)
			g.mu.Unlock()
			if np == 0 {
				break
			}
			// quiescence: two consecutive identical observations with every node goroutine parked
			deadline := time.Now().Add(c02GateWait)
			last, stable := "", 0
			for stable < 2 {
				sig, all := g.settled()
				g.mu.Lock()
				sig = fmt.Sprint(len(g.pending), "|", sig)
				g.mu.Unlock()
				if all && sig == last {
					stable++
				} else if all {
					stable = 1
				} else {
					stable = 0
				}
				last = sig
				if time.Now().After(deadline) {
					g.err = "slow-store gate: the node did not become quiescent within " + c02GateWait.String()
					break
				}
				if stable < 2 {
					runtime.Gosched()
					time.Sleep(50 * time.Microsecond) // polling interval only; the observed states decide
				}
			}
			g.mu.Lock()
			// background writes first, then direct ones (stable order of arrival inside each class)
			var ord []*c02Pend
			for _, w := range []string{"B", "D"} {
				for _, p := range g.pending {
					if p.who == w {
						ord = append(ord, p)
					}
				}
			}
			pick := 0
			if len(ord) > 1 {
				ci := len(g.Conflicts)
				if ci < len(g.choices) && g.choices[ci] < len(ord) {
					pick = g.choices[ci]
				}
				var names []string
				for _, p := range ord {
					names = append(names, p.who+":"+p.kind)
				}
				g.Conflicts = append(g.Conflicts, c02Conflict{Pending: names, Taken: pick})
			}
			p := ord[pick]
			for i, q := range g.pending {
				if q == p {
					g.pending = append(g.pending[:i:i], g.pending[i+1:]...)
					break
				}
			}
			g.Trace = append(g.Trace, p.who+":"+p.kind)
			g.mu.Unlock()
			close(p.goCh)
			select {
			case <-p.fin:
			case <-time.After(c02GateWait):
				g.err = "slow-store gate: a released write did not complete within " + c02GateWait.String()
			}
		}
	}
}

// c02NextChoices: depth-first successor of a schedule, given the conflicts seen when running it; nil = exhausted
func c02NextChoices(cs []c02Conflict) []int {
	for i := len(cs) - 1; i >= 0; i-- {
		if cs[i].Taken+1 < len(cs[i].Pending) {
			var out []int
			for j := 0; j < i; j++ {
				out = append(out, cs[j].Taken)
			}
			return append(out, cs[i].Taken+1)
		}
	}
	return nil
}

// ---------------------------------------------------------------------------------------------
// scenario: Reset on a slow store, every admissible order, every prefix

const c02MaxSchedules = 12

type c02OrdRun struct {
	Choices   []int         `json:"choices"`
	Trace     []string      `json:"trace"`
	Conflicts []c02Conflict `json:"conflicts,omitempty"`
	Stages    []string      `json:"stages"`
	Recovered []c02Recovered `json:"recovered"`
}

func c02RunResetOrd(co *caseOut, in c02Input) error {
	c02srih = in.Cfg.SRIH
	in.Cfg.Backend = "mem" // the gate decides the timing; a backend with goroutines of its own would blur quiescence
	b, err := c02Build(c02History{Cfg: in.Cfg, Blocks: in.Blocks})
	if err != nil {
		return err
	}
	defer b.close()
	ix := c02MakeIndex(b)
	kind := "resetord"
	rec0, base0, _, fail := c02Drive(b, in)
	if base0 != nil {
		defer base0.destroy()
	}
	if fail != "" {
		co.violation(kind, "resetord/victim-run: "+c02Short(fail), in, nil)
		return nil
	}
	pre := rec0.batches
	preDump := c02NormDump(c02Dump(base0.st))
	stageKey := string([]byte{byte(storage.SYSStateChangeStage)})
	pfx := c02VersionPrefix(b.Snaps[0].Dump[string([]byte{byte(storage.SYSVersion)})]) == byte(storage.STTempStorage)

	choices := in.Sched
	one := in.One
	in.Sched, in.One = nil, false
	for run := 0; run < c02MaxSchedules; run++ {
		var stages []string
		sched := append([]int{}, choices...)
		viol := func(class, note string, k int) {
			vin := in
			vin.At = &k
			vin.Sched, vin.One = sched, true
			stage := "?"
			if k >= 1 && k-1 < len(stages) {
				stage = stages[k-1]
			} else if k == 0 {
				stage = "none"
			}
			co.violation(kind, fmt.Sprintf("%s/%s stage=%s schedule=%v: after write %d of the reset: %s", kind, class, stage, sched, k, note), vin, map[string]any{"k": k, "class": class, "stage": stage, "schedule": sched})
		}
		base, err := c02NewStore("mem")
		if err != nil {
			return err
		}
		c02Apply(base.st, pre)
		rec := &c02Rec{base: base.st}
		bc, _, f := c02Open(rec, in.Cfg, nil)
		if f != "" {
			base.destroy()
			viol("open-for-reset", c02Short(f), 0)
			return nil
		}
		c0, hh0 := bc.BlockHeight(), bc.HeaderHeight()
		target := min(in.Reset, c0)
		rec.node = func() (uint32, uint32) { return bc.BlockHeight(), bc.HeaderHeight() }
		g := c02NewGate(choices)
		rec.gate = g
		var rerr error
		m := c02Try(func() { rerr = bc.Reset(target) })
		g.close()
		rec.gate = nil
		if g.err != "" {
			base.destroy()
			return fmt.Errorf("%s (schedule %v, trace %v)", g.err, sched, g.Trace)
		}
		if m != "" || rerr != nil {
			base.destroy()
			viol("reset-fails", c02Short(fmt.Sprint(m, rerr)), 0)
			return nil
		}
		rb := rec.batches
		for _, x := range rb {
			stages = append(stages, c02StageOf(x))
		}
		final := c02NormDump(c02Dump(base.st))
		base.destroy()
		if len(rb) == 0 {
			return nil // nothing to reset
		}
		ref := c02NormDump(b.Snaps[target].Dump)
		if n, ex := c02DiffDumps(final, ref, func(k string, va, vb []byte) bool {
			return k[0] == byte(storage.DataMPT) && vb == nil
		}); n > 0 {
			viol("not-indistinguishable", fmt.Sprintf("after Reset(%d) the database differs from a node that only synchronised to %d in %d keys (trie garbage aside): %v", target, target, n, ex), len(rb))
		}
		// the invariant of the order: at every prefix the reset marker is on disk, or the database is still the
		// complete pre-reset one, or the reset is complete
		var flags []string
		{
			st, err := c02NewStore("mem")
			if err != nil {
				return err
			}
			c02Apply(st.st, pre)
			for k := 0; k <= len(rb); k++ {
				if k > 0 {
					c02Apply(st.st, rb[k-1:k])
				}
				_, gerr := st.st.Get([]byte(stageKey))
				marker := gerr == nil
				intact := false
				if !marker {
					n, _ := c02DiffDumps(c02NormDump(c02Dump(st.st)), preDump, nil)
					intact = n == 0
				}
				flags = append(flags, fmt.Sprintf("(%s,%s)", coqBool(marker), coqBool(intact)))
				if !marker && !intact && k < len(rb) {
					viol("direct-op-before-marker", fmt.Sprintf("no reset marker on disk, yet the database is no longer the pre-reset one (write %d was %s by %s)", k, rb[k-1].Kind, map[string]string{"B": "the persisting goroutine", "D": "Reset itself, directly on the store"}[rb[k-1].Who]), k)
				}
			}
			st.destroy()
		}
		recov, err := c02ResetPrefixes(b, in, pre, rb, c0, target, final, viol)
		if err != nil {
			return err
		}
		keep := false
		for i, x := range rb {
			if stages[i] == "88" {
				ws, _ := c02Abstract(ix, x)
				for _, w := range ws {
					if strings.HasPrefix(w.Key, "(KExec") && w.Val == "(Some AHdr)" {
						keep = true
					}
				}
			}
		}
		initOK := true
		for _, r := range recov {
			if r.Res == "broken" {
				initOK = false
			}
		}
		var who []string
		for _, x := range rb {
			who = append(who, coqBool(x.Who == "D"))
		}
		cin := in
		cin.Sched, cin.One = sched, true
		term := fmt.Sprintf("CResetOrd %s %s %s %d %d %d %s %s %s %s %s", coqBool(keep), coqBool(initOK), c02CoqNtx(ix), c0, hh0, target, coqBool(pfx),
			c02CoqBatches(ix, rb, viol), coqList(who), coqList(flags), c02CoqRecov(recov))
		dpos := -1
		for i, x := range rb {
			if x.Who == "D" {
				dpos = i
				break
			}
		}
		tag := fmt.Sprintf("direct-write-at-%d-of-%d", dpos, len(rb))
		co.add(kind, tag, len(rb) >= 7 && target < c0 && len(g.Conflicts) > 0, cin,
			c02OrdRun{Choices: sched, Trace: g.Trace, Conflicts: g.Conflicts, Stages: stages, Recovered: recov}, term)
		choices = c02NextChoices(g.Conflicts)
		if choices == nil || one {
			break
		}
	}
	return nil
}

func c02GenResetOrd(r *rng) c02Input {
	cfg := c02Cfg{SRIH: r.bool(), Backend: "mem"}
	nb := 7 + r.intn(4)
	h := c02GenHistory(r, cfg, nb)
	ahead, nadd := 0, nb
	if r.chance(40) {
		ahead = 1 + r.intn(2)
		nadd = nb - ahead
	}
	return c02Input{Cfg: cfg, Blocks: h.Blocks, Ops: c02GenOps(r, nadd, false, ahead), Reset: uint32(1 + r.intn(nadd-2))}
}
