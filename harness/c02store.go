package main

// C02, contract-storage-based state synchronisation (NeoFSStateSyncExtensions): the light node receives raw
// contract storage key/values of the state sync point in batches (statesync.Module.AddContractStorageItems),
// applies each batch to a local trie, writes a checkpoint (last key, intermediate root) and flushes; a restart
// resumes from the checkpoint.  Every batch boundary of the whole synchronisation is a crash point.

import (
	"bytes"
	"fmt"
	"runtime"
	"sort"

	"github.com/nspcc-dev/neo-go/pkg/config"
	"github.com/nspcc-dev/neo-go/pkg/core"
	"github.com/nspcc-dev/neo-go/pkg/core/block"
	"github.com/nspcc-dev/neo-go/pkg/core/state"
	"github.com/nspcc-dev/neo-go/pkg/core/storage"
)

type c02ItemSrc struct {
	b     *c02Built
	top   uint32
	p     uint32
	items []storage.KeyValue // contract storage of the state at P, in key order
}

func c02NewItemSrc(b *c02Built) *c02ItemSrc {
	s := &c02ItemSrc{b: b, top: uint32(len(b.Blocks) - 1)}
	s.p = c02SyncPoint(s.top)
	b.src.GetStateModule().SeekStates(b.Snaps[s.p].Root, nil, func(k, v []byte) bool {
		s.items = append(s.items, storage.KeyValue{Key: bytes.Clone(k), Value: bytes.Clone(v)})
		return true
	})
	sort.Slice(s.items, func(i, j int) bool { return bytes.Compare(s.items[i].Key, s.items[j].Key) < 0 })
	return s
}

// drive continues (or starts) the synchronisation of bc: what the module asks for is delivered; item batches
// have the sizes sizes[0], sizes[1], ... (the last one repeated).  after(step) runs after every delivery.
func (s *c02ItemSrc) drive(bc *core.Blockchain, sizes []int, after func(step int) error) error {
	m := bc.GetStateSyncModule()
	if err := m.Init(s.top); err != nil {
		return fmt.Errorf("statesync Init: %w", err)
	}
	step, nb := 0, 0
	inited := false
	for guard := 0; m.IsActive() && guard < 100000; guard++ {
		switch {
		case m.NeedHeaders():
			var hs []*block.Header
			for i := max(bc.HeaderHeight()+1, bc.GetConfig().TrustedHeader.Index); i <= s.top; i++ {
				hs = append(hs, &s.b.Blocks[i].Header)
			}
			if len(hs) == 0 {
				return fmt.Errorf("headers requested but none left (header height %d)", bc.HeaderHeight())
			}
			if err := m.AddHeaders(hs...); err != nil {
				return fmt.Errorf("statesync AddHeaders: %w", err)
			}
		case m.NeedStorageData():
			if !inited {
				if err := m.InitContractStorageSync(state.MPTRoot{Index: s.p, Root: s.b.Snaps[s.p].Root}); err != nil {
					return fmt.Errorf("InitContractStorageSync: %w", err)
				}
				inited = true
			}
			last := m.GetLastStoredKey()
			from := 0
			if last != nil {
				from = sort.Search(len(s.items), func(i int) bool { return bytes.Compare(s.items[i].Key, last) > 0 })
			}
			if from >= len(s.items) {
				return fmt.Errorf("storage items requested, but everything after the last stored key was delivered")
			}
			sz := 7
			if len(sizes) > 0 {
				sz = sizes[min(nb, len(sizes)-1)]
			}
			nb++
			to := min(len(s.items), from+max(1, sz))
			if err := m.AddContractStorageItems(s.items[from:to]); err != nil {
				return fmt.Errorf("statesync AddContractStorageItems [%d:%d]: %w", from, to, err)
			}
		case m.NeedBlocks():
			i := m.BlockHeight() + 1
			if i > s.top {
				return fmt.Errorf("block %d requested", i)
			}
			if err := m.AddBlock(s.b.Blocks[i]); err != nil {
				return fmt.Errorf("statesync AddBlock %d: %w", i, err)
			}
		default:
			return fmt.Errorf("active module needs nothing")
		}
		step++
		if after != nil {
			if err := after(step); err != nil {
				return err
			}
		}
	}
	return nil
}

func c02RunStorageSync(co *caseOut, in c02Input) error {
	c02srih = true
	srcCfg := c02Cfg{SRIH: true, Backend: "mem", P2PSX: true}
	b, err := c02Build(c02History{Cfg: srcCfg, Blocks: in.Blocks})
	if err != nil {
		return err
	}
	defer b.close()
	ix := c02MakeIndex(b)
	_ = ix
	kind := "storagesync"
	var stages []string
	viol := func(class, note string, k int) {
		vin := in
		vin.At = &k
		co.violation(kind, fmt.Sprintf("%s/%s: after batch %d: %s", kind, class, k, note), vin, map[string]any{"k": k, "class": class})
	}
	src := c02NewItemSrc(b)
	if src.top <= src.p || src.p < 2*c02MTB+2 {
		return nil
	}
	cfg := in.Cfg
	cfg.SRIH, cfg.NeoFS, cfg.GC, cfg.P2PSX = true, true, true, false
	cfg.Trusted = src.p - 2*c02MTB + 2
	trust := func(c *config.Blockchain) {
		c.TrustedHeader = config.HashIndex{Hash: b.Blocks[cfg.Trusted].Hash(), Index: cfg.Trusted}
	}
	base, err := c02NewStore(cfg.Backend)
	if err != nil {
		return err
	}
	defer base.destroy()
	rec := &c02Rec{base: base.st}
	bc, _, fail := c02Open(rec, cfg, trust)
	if fail != "" {
		viol("victim-open", c02Short(fail), -1)
		return nil
	}
	rec.node = func() (uint32, uint32) { return bc.BlockHeight(), bc.HeaderHeight() }
	go bc.Run()
	var sizes []int
	flushAt := map[int]bool{}
	for _, o := range in.Ops {
		switch o.K {
		case "items":
			sizes = append(sizes, o.N)
		case "flush":
			flushAt[o.N] = true
		}
	}
	stopRace, raceDone := make(chan struct{}), make(chan struct{})
	if cfg.Race {
		go func() {
			defer close(raceDone)
			for {
				select {
				case <-stopRace:
					return
				default:
				}
				bc.VerifPersist()
				runtime.Gosched()
			}
		}()
	} else {
		close(raceDone)
	}
	var gate *c02Gate
	if cfg.Race && cfg.Slow {
		gate = c02NewGate(nil)
		rec.gate = gate
	}
	var derr error
	m := c02Try(func() {
		derr = src.drive(bc, sizes, func(step int) error {
			if flushAt[step] {
				_, err := bc.VerifPersist()
				return err
			}
			return nil
		})
	})
	if gate != nil {
		gate.close()
		if gate.err != "" {
			return fmt.Errorf("%s", gate.err)
		}
	}
	close(stopRace)
	<-raceDone
	if m != "" || derr != nil {
		bc.Close()
		viol("victim-sync", c02Short(fmt.Sprint(m, derr)), -1)
		return nil
	}
	if bc.BlockHeight() != src.p {
		bc.Close()
		viol("victim-sync", fmt.Sprintf("after synchronisation the node is at %d, state sync point is %d", bc.BlockHeight(), src.p), -1)
		return nil
	}
	for i := src.p + 1; i <= src.top; i++ {
		if err := bc.AddBlock(b.Blocks[i]); err != nil {
			viol("victim-after-jump", fmt.Sprintf("block %d after the jump: %v", i, err), len(rec.batches))
			break
		}
	}
	bc.Close()
	bs := rec.batches
	c02ReportTorn(rec, viol, nil)
	nItemBatches := 0
	for _, x := range bs {
		stages = append(stages, c02StageOf(x))
		if _, ok := x.Mem[string([]byte{byte(storage.SYSStateSyncCheckpoint)})]; ok {
			nItemBatches++
		}
	}
	var recov []c02Recovered
	for k := 0; k <= len(bs); k++ {
		res := c02Recovered{K: k, Res: "ok"}
		st, err := c02NewStore(cfg.Backend)
		if err != nil {
			return err
		}
		c02Apply(st.st, bs[:k])
		bc2, _, fail := c02Open(c02NoClose{st.st}, cfg, trust)
		if fail != "" {
			res.Res, res.Err = "fail", c02Short(fail)
			viol("reopen-fails", c02Short(fail), k)
		} else {
			go bc2.Run()
			var derr error
			m := c02Try(func() { derr = src.drive(bc2, []int{5}, nil) })
			switch {
			case m != "" || derr != nil:
				res.Res = "broken"
				viol("resumed-sync-fails", c02Short(fmt.Sprint(m, derr)), k)
			case bc2.BlockHeight() < src.p:
				res.Res, res.Height = "stuck", bc2.BlockHeight()
				viol("stuck-below-sync-point", fmt.Sprintf("the synchronisation module is inactive but the node is at height %d, below the state sync point %d", bc2.BlockHeight(), src.p), k)
			default:
				c02CheckNode(b, bc2, st.st, cfg, k, src.top, -1, &res, viol)
			}
			bc2.Close()
		}
		st.destroy()
		recov = append(recov, res)
	}
	// for the model: per batch, does it carry a checkpoint / storage items / trie nodes / a jump marker
	var obs []string
	for i, x := range bs {
		if stages[i] != "-" {
			break // the jump has started: its batches are compared by the jump scenario
		}
		ck := x.Mem[string([]byte{byte(storage.SYSStateSyncCheckpoint)})] != nil
		items, nodes := false, false
		for _, v := range x.Stor {
			if v != nil {
				items = true
				break
			}
		}
		for k, v := range x.Mem {
			if k[0] == byte(storage.DataMPT) && v != nil {
				nodes = true
				break
			}
		}
		obs = append(obs, fmt.Sprintf("(%s, %s, %s)", coqBool(ck), coqBool(items), coqBool(nodes)))
	}
	term := fmt.Sprintf("CStorageSync %s %s %s", coqBool(cfg.Race), coqList(obs), c02CoqRecov(recov))
	tag := fmt.Sprintf("%s/kols=%v/race=%v/itembatches%d", cfg.Backend, cfg.KOLS, cfg.Race, min(nItemBatches/2*2, 12))
	co.add(kind, tag, nItemBatches >= 4, in, map[string]any{"p": src.p, "top": src.top, "items": len(src.items), "item_batches": nItemBatches, "recovered": recov}, term)
	return nil
}

func c02GenStorageSync(r *rng, i int, race bool) c02Input {
	backends := []string{"mem", "leveldb", "bolt"}
	cfg := c02Cfg{Backend: backends[i%3], KOLS: i%2 == 0, Race: race, Slow: race && i%2 == 1}
	nb := 21 + r.intn(3)
	h := c02GenHistory(r, c02Cfg{SRIH: true, P2PSX: true}, nb)
	var ops []c02Op
	for j := 0; j < 12; j++ {
		ops = append(ops, c02Op{K: "items", N: 1 + r.intn(12)})
	}
	for s := 1; s < 40; s++ {
		if r.chance(30) {
			ops = append(ops, c02Op{K: "flush", N: s})
		}
	}
	return c02Input{Cfg: cfg, Blocks: h.Blocks, Ops: ops}
}
