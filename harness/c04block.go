package main

// C04 harness, part 4: block position.  storeBlock runs all transactions of a block on ONE reused VM; what an
// earlier transaction leaves in it (pending exception, invocation/try stacks, DAO pointers, notification counters,
// native caches) must not change how a later transaction's frames are committed or rolled back.
// A block case = 2..4 generated transactions in one block of chain A; earlier ones end in every way (HALT, uncaught
// throw, ABORT / ASSERT false / ABORTMSG, fault in a callee, fault or swallowed exception inside a finally block,
// out of gas), the last one is a tree with calls from inside try bodies, from catch blocks and after a caught failure.
// Expected: every transaction behaves as the model says for that transaction ALONE on the state left by the halted
// ones before it (Coq: block_mech / block_ideal).  Direct: replica B gets the same transactions one per block.

import (
	"fmt"
	"reflect"
	"strings"

	"github.com/nspcc-dev/neo-go/pkg/core/transaction"
	"github.com/nspcc-dev/neo-go/pkg/vm/vmstate"
)

type c04TxSpec struct {
	Ops []*c04Node `json:"ops"`
	Gas int64      `json:"gas,omitempty"` // system fee override (small = the transaction runs out of gas)
	Snd int        `json:"snd,omitempty"` // who pays: 0 the committee account, 1 / 2 account 5 / 6
	End string     `json:"end,omitempty"` // what the generator meant this transaction to be (informative)
}

type c04BlockInput struct {
	Pre c04State    `json:"pre"`
	Ops []c04TxSpec `json:"ops"` // the transactions of the block, in order ("ops" so that ./check can drop some)
}

type c04TxImpl struct {
	Halt   bool       `json:"halt"`
	OOG    bool       `json:"oog,omitempty"`
	Fault  string     `json:"fault,omitempty"`
	Events []c04Event `json:"events"`
}

type c04BlockImpl struct {
	Txs  []c04TxImpl `json:"txs"`
	Post c04State    `json:"post"`
}

func n04(op string, kw ...any) *c04Node {
	n := &c04Node{Op: op}
	for i := 0; i+1 < len(kw); i += 2 {
		switch kw[i].(string) {
		case "k":
			n.K = kw[i+1].(int)
		case "v":
			n.V = kw[i+1].(int)
		case "c":
			n.C = kw[i+1].(int)
		case "flags":
			n.Flags = kw[i+1].(int)
		case "body":
			n.Body = kw[i+1].(*c04Node)
		case "catch":
			n.Catch = kw[i+1].(*c04Node)
		case "fin":
			n.Fin = kw[i+1].(*c04Node)
		case "ops":
			n.Ops = kw[i+1].([]*c04Node)
		}
	}
	return n
}

// an earlier transaction of the block, ending in a chosen way
func c04GenEnder(r *rng) c04TxSpec {
	ct := func() int { return r.intn(c04NContracts) }
	put := func() *c04Node { return n04("put", "k", r.intn(c04NKeys), "v", 1+r.intn(9)) }
	ntf := func() *c04Node { return n04("notify", "v", r.intn(10)) }
	call := func(c int, body ...*c04Node) *c04Node { return n04("call", "c", c, "flags", 15, "body", c04SeqOf(body)) }
	abort := func() *c04Node { return n04("abort", "v", r.intn(3)) }
	switch r.intn(12) {
	case 0:
		g := &c04Gen{r: r, guarded: true, fail: 0, noNeo: true}
		return c04TxSpec{Ops: g.entry(2), End: "random-nofail"}
	case 1: // uncaught throw at entry level after effects
		return c04TxSpec{Ops: []*c04Node{call(ct(), put(), ntf()), n04("throw")}, End: "throw-entry"}
	case 2: // uncaught throw two frames down, from inside a try body of the middle frame's caller? no: nobody catches
		return c04TxSpec{Ops: []*c04Node{call(ct(), put(), call(ct(), put(), ntf(), n04("throw")))}, End: "throw-callee"}
	case 3:
		return c04TxSpec{Ops: []*c04Node{call(ct(), put(), ntf()), abort()}, End: "abort-entry"}
	case 4: // fault in a layered callee (inside a try body: a layer is on the DAO stack when the VM stops)
		return c04TxSpec{Ops: []*c04Node{call(ct(), put(), n04("try", "body", call(ct(), put(), n04("setfee", "v", 900+50*r.intn(5)), abort()), "catch", n04("skip")))}, End: "abort-layered-callee"}
	case 5: // fault by missing call flags in a callee
		return c04TxSpec{Ops: []*c04Node{call(ct(), ntf(), n04("call", "c", ct(), "flags", 5, "body", put()))}, End: "flags-callee"}
	case 6: // fault inside a finally block entered by an exception: the exception is pending when the VM stops
		return c04TxSpec{Ops: []*c04Node{call(ct(), put(), n04("try", "body", c04SeqOf([]*c04Node{ntf(), n04("throw")}), "fin", c04SeqOf([]*c04Node{put(), abort()})))}, End: "abort-in-finally"}
	case 7: // swallowed exception: ENDFINALLY jumps to EndOffset = -1
		return c04TxSpec{Ops: []*c04Node{call(ct(), put(), n04("try", "body", n04("throw"), "fin", n04("try", "body", n04("throw"), "catch", ntf())))}, End: "swallowed-in-finally"}
	case 8: // exception pending while a callee of the finally block faults (entry level try/finally)
		return c04TxSpec{Ops: []*c04Node{n04("try", "body", call(ct(), put(), n04("throw")), "fin", n04("abort", "v", r.intn(3)))}, End: "entry-finally-abort"}
	case 9: // out of gas somewhere in the middle
		g := &c04Gen{r: r, guarded: true, fail: 0, noNeo: true}
		return c04TxSpec{Ops: append([]*c04Node{call(ct(), put(), ntf())}, g.entry(2)...), Gas: int64(150_0000 + r.intn(8)*60_0000), End: "out-of-gas"}
	case 10: // halts after catching a failure (the register has been set and cleared; layers pushed and dropped)
		return c04TxSpec{Ops: []*c04Node{call(ct(), put(), n04("try", "body", call(ct(), put(), ntf(), n04("throw")), "catch", put()), ntf())}, End: "halt-after-catch"}
	}
	g := &c04Gen{r: r, guarded: true, fail: 10 + r.intn(10), noNeo: true}
	return c04TxSpec{Ops: g.entry(2 + r.intn(2)), End: "random"}
}

// the later transaction: calls from inside try bodies, from a catch block, after a caught failure, natives
func c04GenLater(r *rng) c04TxSpec {
	ct := func() int { return r.intn(c04NContracts) }
	put := func() *c04Node { return n04("put", "k", r.intn(c04NKeys), "v", 1+r.intn(9)) }
	ntf := func() *c04Node { return n04("notify", "v", r.intn(10)) }
	call := func(c int, body ...*c04Node) *c04Node { return n04("call", "c", c, "flags", 15, "body", c04SeqOf(body)) }
	if r.chance(25) {
		g := &c04Gen{r: r, guarded: true, fail: 8 + r.intn(8), noNeo: true}
		return c04TxSpec{Ops: g.entry(2 + r.intn(2)), End: "later-random"}
	}
	body := []*c04Node{put(), ntf(),
		n04("try", "body", call(ct(), put(), ntf()), "catch", n04("skip")),                                   // layered callee that returns
		n04("try", "body", call(ct(), put(), ntf(), n04("throw")), "catch", c04SeqOf([]*c04Node{put(), call(ct(), put())})), // caught failure, call from the catch block
		call(ct(), ntf(), put()),                                                                                 // un-layered callee after a caught failure
	}
	if r.bool() {
		body = append(body, n04("try", "body", n04("setfee", "v", 900+50*r.intn(5)), "catch", n04("skip")))
	}
	if r.bool() {
		body = append(body, n04("try", "body", n04("move", "c", r.intn(c04NAcc), "v", pick(r, c04Amounts), "body", put()), "fin", ntf()))
	}
	// a value another transaction of this block may have written: read, derive a Buffer, scribble
	body = append(body, n04("mut", "k", r.intn(c04NKeys), "v", r.intn(c04NHow)),
		n04("try", "body", call(ct(), n04("mut", "k", r.intn(c04NKeys), "v", r.intn(c04NHow)), n04("throw")), "catch", n04("skip")))
	body = append(body, n04("notifyval", "k", r.intn(c04NKeys)), n04("notifyfee"))
	ops := []*c04Node{call(ct(), body...)}
	if r.bool() { // the same under an entry-level try body
		ops = []*c04Node{n04("try", "body", ops[0], "catch", n04("skip"))}
	}
	return c04TxSpec{Ops: ops, End: "later-probe"}
}

func (p *c04Pair) runBlock(co *caseOut, in c04BlockInput) {
	const kind = "block"
	for _, t := range in.Ops {
		root := c04SeqOf(t.Ops)
		if !root.entryOK() {
			panic("c04: entry-level tree uses an operation that needs a contract")
		}
		if k, _ := c04Class(root); k != "tree" {
			panic("c04: block cases carry guarded trees only")
		}
		if root.any(func(x *c04Node) bool { return x.tag() == c04MoveNeo }) {
			panic("c04: block cases carry no NEO transfers (claims depend on the block height)")
		}
	}
	cur := p.a.observe()
	if !cur.samePre(in.Pre) {
		if err := p.setup(cur, in.Pre); err != nil {
			panic(fmt.Sprintf("c04 setup: %v", err))
		}
		cur = p.a.observe()
		if !cur.samePre(in.Pre) {
			panic(fmt.Sprintf("c04 setup did not reach the pre-state: %+v vs %+v", cur, in.Pre))
		}
	}
	in.Pre.Claim = cur.Claim
	if len(in.Ops) == 0 {
		return
	}
	var txs []*transaction.Transaction
	for _, t := range in.Ops {
		fee := int64(c04SysFee)
		if t.Gas > 0 {
			fee = t.Gas
		}
		txs = append(txs, p.a.newTxFrom(t.Snd-1, p.a.env.entryScript(c04SeqOf(t.Ops)), fee, uint32(len(in.Ops))+2))
	}
	// chain A: all in one block; chain B: one per block; then A is padded to the same height
	if err := p.a.addBlock(txs...); err != nil {
		panic("chain A refused the block of the case: " + c04Short(err.Error()))
	}
	for _, tx := range txs {
		if err := p.b.addBlock(tx); err != nil {
			panic("replica B refused a transaction of the case in a block of its own: " + c04Short(err.Error()))
		}
	}
	for i := 1; i < len(txs); i++ {
		if err := p.a.addBlock(); err != nil {
			panic("chain A refused an empty block: " + c04Short(err.Error()))
		}
	}
	impl := c04BlockImpl{Post: p.a.observe()}
	var ends []string
	for i, tx := range txs {
		ra := p.a.e.GetTxExecResult(p.a.t, tx.Hash())
		rb := p.b.e.GetTxExecResult(p.b.t, tx.Hash())
		ti := c04TxImpl{Halt: ra.VMState == vmstate.Halt, Fault: ra.FaultException, Events: p.a.decodeEvents(ra.Events)}
		ti.OOG = !ti.Halt && strings.Contains(ra.FaultException, "GAS limit exceeded")
		impl.Txs = append(impl.Txs, ti)
		switch {
		case ti.Halt:
			ends = append(ends, "halt")
		case ti.OOG:
			ends = append(ends, "oog")
		case strings.Contains(ra.FaultException, "unhandled exception"):
			ends = append(ends, "throw")
		default:
			ends = append(ends, "fault")
		}
		if ra.VMState != rb.VMState || !reflect.DeepEqual(ti.Events, p.b.decodeEvents(rb.Events)) {
			co.violation(kind, fmt.Sprintf("transaction %d of the block behaves differently from the same transaction in a block of its own (%s vs %s, %d vs %d notifications)",
				i, ra.VMState, rb.VMState, len(ra.Events), len(rb.Events)), in, impl)
		}
	}
	if pb := p.b.observe(); !impl.Post.same(pb) {
		co.violation(kind, "final storage / balances / Policy setting differ from the same transactions spread one per block", in, impl)
	} else if ra, rb := p.a.stateRoot(), p.b.stateRoot(); ra != rb {
		co.violation(kind, "state root differs from the same transactions spread one per block: "+strings.Join(c04SameMap(p.a.dumpAll(), p.b.dumpAll()), "; "), in, impl)
	}
	if impl.Post.FeeCache != impl.Post.FeeStore {
		co.violation(kind, "Policy fee: native cache and contract storage disagree after the block", in, impl)
	}
	// Coq case
	var ts []string
	for i, t := range in.Ops {
		ti := impl.Txs[i]
		evs := make([]string, len(ti.Events))
		for j, e := range ti.Events {
			evs[j] = e.coq()
		}
		ts = append(ts, fmt.Sprintf("(%s, %d, %d, %s, %s, %s)", coqBool(ti.OOG), c04SenderN(t.Snd), txs[i].SystemFee+txs[i].NetworkFee,
			c04SeqOf(t.Ops).coq(), coqBool(ti.Halt), coqList(evs)))
	}
	term := fmt.Sprintf("CBlock %s %d 0 %s %s %d %d %d", in.Pre.coqEntries(true), in.Pre.FeeCache,
		coqList(ts), impl.Post.coqEntries(false), max(impl.Post.FeeCache, 0), max(impl.Post.FeeStore, 0), c04CoqB(impl.Post.VC))
	nontriv := false
	for i := 0; i+1 < len(impl.Txs); i++ {
		if !impl.Txs[i].Halt {
			nontriv = true
		}
	}
	tag := fmt.Sprintf("k%d/%s", len(txs), strings.Join(ends, "-"))
	for _, t := range in.Ops {
		if c04SeqOf(t.Ops).any(func(x *c04Node) bool { return x.T }) {
			tag += "/callt"
			break
		}
	}
	co.add(kind, tag, nontriv, in, impl, term)
}
