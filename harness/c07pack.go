package main

import (
	"fmt"
	"strings"

	"github.com/nspcc-dev/neo-go/pkg/core/transaction"
	"github.com/nspcc-dev/neo-go/pkg/io"
	"github.com/nspcc-dev/neo-go/pkg/neotest"
	"github.com/nspcc-dev/neo-go/pkg/util"
	"github.com/nspcc-dev/neo-go/pkg/vm/opcode"
)

type c07PackIn struct {
	Seed   uint64 `json:"seed"`
	Cfg    c07Cfg `json:"cfg"`
	NTx    int    `json:"ntx"`
	Rounds int    `json:"rounds"`
	Many   int    `json:"many,omitempty"`   // that many tiny transactions of equal priority (pool order = submission order)
	Cosign bool   `json:"cosign,omitempty"` // two-signer transactions, Conflicts against transactions paid by someone else, balances that bind
}

func c07GenPack(r *rng, thorough bool) c07PackIn {
	in := c07PackIn{Seed: r.next(), NTx: 6 + r.intn(18), Rounds: 1 + r.intn(3)}
	if thorough {
		in.NTx = 6 + r.intn(40)
	}
	in.Cfg.MaxTx = uint16(2 + r.intn(12))
	in.Cfg.MaxSize = uint32(900 + r.intn(5000))
	in.Cfg.MaxSysFee = int64(3000_0000 + r.intn(8)*2500_0000)
	in.Cfg.SRH = r.chance(35)
	in.Cosign = r.chance(45)
	if in.Cosign {
		in.NTx = 5 + r.intn(8)
		in.Cfg.MaxSysFee = 0 // default: the balances are what binds here
		in.Cfg.MaxTx = uint16(4 + r.intn(10))
	}
	switch x := r.intn(100); {
	case x < 20:
		in.Cfg.MaxSize = 0 // default, never binds
	case x < 65:
		in.Cfg.MaxSize = c07TightSize(r, in)
	}
	return in
}

// c07PackSetup builds the chain and fills its memory pool; everything derives from the seed, the block
// size limit plays no part in it.
func c07PackSetup(in c07PackIn) *c07Chain {
	r := newRng(in.Seed)
	c := c07NewChain(in.Cfg)
	if in.Cosign {
		c07PackCosign(c, r, in)
		return c
	}
	if in.Many > 0 {
		c07PackMany(c, r, in)
		return c
	}
	accts := []*c07Acct{c07MakeAcct(r, 0, 0), c07MakeAcct(r, 0, 0), c07MakeAcct(r, 0, 0), c07MakeAcct(r, 2, 3)}
	c.fund(30_0000_0000, accts...)
	fpb := c.bc.FeePerByte()
	var made []*transaction.Transaction
	for i := 0; i < in.NTx; i++ {
		k := pick(r, []int{0, 0, 10, 100, 300, 600, 900})
		if r.chance(30) {
			k += r.intn(64)
		}
		script := make([]byte, k+1)
		for j := range script {
			script[j] = byte(opcode.NOP)
		}
		script[k] = byte(opcode.PUSH1)
		a := pick(r, accts)
		extra := int64(r.intn(4)) * 100_0000
		spec := c07TxSpec{signers: []*c07Acct{a}, script: script, sysfee: int64(1+r.intn(4)) * 500_0000,
			vub:    c.bc.BlockHeight() + 1 + uint32(r.intn(3)),
			netfee: func(size int, calc int64) int64 { return int64(size)*fpb + calc + extra }}
		if len(made) > 0 && r.chance(12) {
			// replaces an earlier transaction of the same sender through Conflicts (must out-bid it)
			var cands []*transaction.Transaction
			for _, p := range made {
				if p.Sender() == a.hash() {
					cands = append(cands, p)
				}
			}
			if len(cands) > 0 {
				v := pick(r, cands)
				spec.attrs = []transaction.Attribute{{Type: transaction.ConflictsT, Value: &transaction.Conflicts{Hash: v.Hash()}}}
				spec.scope = transaction.CalledByEntry
				spec.netfee = func(size int, calc int64) int64 { return int64(size)*fpb + calc + v.NetworkFee }
			}
		}
		tx, _ := c.build(spec)
		if err := c.bc.PoolTx(tx); err == nil {
			made = append(made, tx)
		}
		c.notePool()
	}
	return c
}

// notePool evaluates, on the node's real pool, what a packed prefix inherits (the premise of
// C07_pack_inherits_pool_invariant): no pooled transaction names a pooled one, and every sender's pooled
// system + network fees are covered by its GAS balance on chain. The first failure is kept.
func (c *c07Chain) notePool() {
	if c.poolNote != "" {
		return
	}
	pool := c.bc.GetMemPool().GetVerifiedTransactions()
	sums := map[util.Uint160]int64{}
	in := map[util.Uint256]bool{}
	for _, tx := range pool {
		sums[tx.Sender()] += tx.SystemFee + tx.NetworkFee
		in[tx.Hash()] = true
	}
	for _, tx := range pool {
		for _, a := range tx.GetAttributes(transaction.ConflictsT) {
			if in[a.Value.(*transaction.Conflicts).Hash] {
				c.poolNote = "the pool holds a transaction and one that names it in Conflicts"
				return
			}
		}
		if bal := c.bc.GetUtilityTokenBalance(tx.Sender(), util.Uint160{}); bal.IsInt64() && sums[tx.Sender()] > bal.Int64() {
			c.poolNote = fmt.Sprintf("admitted although its sender cannot cover all of its pooled transactions: pooled fees %d, GAS balance %d", sums[tx.Sender()], bal.Int64())
			return
		}
	}
}

// c07PackCosign: who signs vs who pays on the chain. Three accounts; most transactions carry a co-signer;
// Conflicts aim at an earlier transaction that shares a signer with the newcomer but is paid by someone else
// and is out-bid; the transactions are made first, then every sender is funded with an amount that binds
// (the first sender A: fees(tx0)+fees(tx2)-fees(tx1) <= balance < fees(tx0)+fees(tx2) for tx0 = A's own,
// tx1 = paid by B and co-signed by A, tx2 = A's with Conflicts{tx1}).
func c07PackCosign(c *c07Chain, r *rng, in c07PackIn) {
	accts := []*c07Acct{c07MakeAcct(r, 0, 0), c07MakeAcct(r, 0, 0), c07MakeAcct(r, 0, 0)}
	fpb := c.bc.FeePerByte()
	h0 := c.bc.BlockHeight()
	type planned struct {
		tx     *transaction.Transaction
		sender int
	}
	var plan []planned
	mk := func(sender, cosigner int, target *transaction.Transaction, extra int64) {
		sg := []*c07Acct{accts[sender]}
		if cosigner >= 0 && cosigner != sender {
			sg = append(sg, accts[cosigner])
		}
		spec := c07TxSpec{signers: sg, script: c07PushOne, sysfee: int64(1+r.intn(3)) * 500_0000, scope: transaction.CalledByEntry,
			vub: h0 + 6 + uint32(r.intn(3)), netfee: func(size int, calc int64) int64 { return int64(size)*fpb + calc + extra }}
		if target != nil {
			spec.attrs = []transaction.Attribute{{Type: transaction.ConflictsT, Value: &transaction.Conflicts{Hash: target.Hash()}}}
			spec.netfee = func(size int, calc int64) int64 { return int64(size)*fpb + calc + target.NetworkFee + extra }
		}
		tx, _ := c.build(spec)
		plan = append(plan, planned{tx, sender})
	}
	// the directed opening, then random ones
	mk(0, pick(r, []int{-1, 1, 2}), nil, int64(r.intn(3))*100_0000)
	mk(1, 0, nil, int64(r.intn(2))*100_0000)
	mk(0, pick(r, []int{-1, -1, 2}), plan[1].tx, 100_0000)
	for len(plan) < in.NTx {
		s := r.intn(3)
		co := -1
		if r.chance(60) {
			co = r.intn(3)
		}
		var target *transaction.Transaction
		if r.chance(50) {
			var cands []*transaction.Transaction
			for _, p := range plan {
				if p.sender == s {
					continue // paid by the newcomer's own sender
				}
				for _, sg := range p.tx.Signers {
					if sg.Account == accts[s].hash() || co >= 0 && sg.Account == accts[co].hash() {
						cands = append(cands, p.tx)
						break
					}
				}
			}
			if len(cands) > 0 {
				target = pick(r, cands)
			}
		}
		mk(s, co, target, int64(r.intn(3))*100_0000)
	}
	fees := func(tx *transaction.Transaction) int64 { return tx.SystemFee + tx.NetworkFee }
	total := map[int]int64{}
	maxOne := map[int]int64{}
	for _, p := range plan {
		total[p.sender] += fees(p.tx)
		maxOne[p.sender] = max(maxOne[p.sender], fees(p.tx))
	}
	var funding []*transaction.Transaction
	for i, a := range accts {
		amount := maxOne[i] + int64(r.intn(int(total[i]-maxOne[i])+1))
		if i == 0 {
			f0, f1, f2 := fees(plan[0].tx), fees(plan[1].tx), fees(plan[2].tx)
			amount = f0 + f2 - 1 - int64(r.intn(int(min(f1, f2))))
		}
		if total[i] == 0 {
			amount = 1000_0000
		}
		funding = append(funding, c.e.NewTx(c.t, []neotest.Signer{c.val}, c.gas, "transfer", c.val.ScriptHash(), a.hash(), amount, nil))
	}
	c.addBlock(funding...)
	for _, p := range plan {
		_ = c.bc.PoolTx(p.tx)
		c.notePool()
	}
}

// c07PackMany: more than 252 pooled transactions, so that the transaction count of the packed block needs a
// three-byte var-uint. Two rich senders, minimal scripts, the exact network fee: all of equal priority.
func c07PackMany(c *c07Chain, r *rng, in c07PackIn) {
	accts := []*c07Acct{c07MakeAcct(r, 0, 0), c07MakeAcct(r, 0, 0)}
	c.fund(5000_0000_0000, accts...)
	fpb := c.bc.FeePerByte()
	h := c.bc.BlockHeight()
	for i := 0; i < in.Many; i++ {
		tx, _ := c.build(c07TxSpec{signers: []*c07Acct{accts[i%2]}, script: c07PushOne, sysfee: 100_0000, vub: h + 2,
			netfee: func(size int, calc int64) int64 { return int64(size)*fpb + calc }})
		_ = c.bc.PoolTx(tx)
	}
	c.notePool()
}

// c07GenPackMany: the block size limit is put within +-2 bytes of the exact size of the block holding the first
// 252, 253 or 254 pool transactions (a dry run with the same seed learns the sizes).
func c07GenPackMany(r *rng) c07PackIn {
	in := c07PackIn{Seed: r.next(), Rounds: 1, Many: 256 + r.intn(10)}
	in.Cfg.MaxTx = uint16(300 + r.intn(100))
	if r.chance(25) {
		in.Cfg.MaxTx = uint16(253 + r.intn(2)) // the count cut itself sits at the boundary
	}
	in.Cfg.SRH = r.chance(50)
	dry := in
	dry.Cfg.noReplica = true
	func() {
		defer func() { recover() }()
		c := c07PackSetup(dry)
		defer c.close()
		pool := c.bc.GetMemPool().GetVerifiedTransactions()
		j := 252 + r.intn(3)
		if j > len(pool) {
			return
		}
		b := c.e.NewUnsignedBlock(c.t, pool[:j]...)
		c.e.SignBlock(b)
		in.Cfg.MaxSize = uint32(b.GetExpectedBlockSize() - 2 + r.intn(5))
	}()
	return in
}

// c07TightSize picks a block size limit within +-40 bytes of an exact fit of some prefix of the pool.
func c07TightSize(r *rng, in c07PackIn) (size uint32) {
	defer func() {
		if recover() != nil {
			size = 0
		}
	}()
	dry := in
	dry.Cfg.MaxSize = 0
	dry.Cfg.noReplica = true
	c := c07PackSetup(dry)
	defer c.close()
	pool := c.bc.GetMemPool().GetVerifiedTransactions()
	if len(pool) == 0 {
		return 0
	}
	n1 := len(pool)
	if in.Cfg.MaxTx != 0 && n1 > int(in.Cfg.MaxTx) {
		n1 = int(in.Cfg.MaxTx)
	}
	b := c.e.NewUnsignedBlock(c.t)
	c.e.SignBlock(b)
	total := b.GetExpectedBlockSizeWithoutTransactions(n1)
	j := 1 + r.intn(n1)
	for _, tx := range pool[:j] {
		total += tx.Size()
	}
	return uint32(total - 40 + r.intn(81))
}

func c07RunPack(co *caseOut, in c07PackIn) {
	c := c07PackSetup(in)
	defer c.close()
	for round := 0; round < in.Rounds; round++ {
		if _, ok := c07PackOnce(co, c, "pack", in, round, in.Cosign, in.Many, in.Cfg.SRH); !ok {
			break
		}
	}
}

// c07PackOnce: one round: pack a block from the pool (ApplyPolicyToTxSet), check it against the limits, record the
// CPack case, hand it to the replica as bytes and to the node itself; false = nothing (more) to pack or a violation.
func c07PackOnce(co *caseOut, c *c07Chain, kind string, in any, round int, cosign bool, many int, srh bool) ([]*transaction.Transaction, bool) {
	cfg := c.bc.GetConfig()
	mp := c.bc.GetMemPool()
	{
		pool := mp.GetVerifiedTransactions()
		if len(pool) == 0 {
			return nil, false
		}
		sel := c.bc.ApplyPolicyToTxSet(pool)
		b := c.e.NewUnsignedBlock(c.t, sel...)
		c.e.SignBlock(b)
		w := io.NewBufBinWriter()
		b.EncodeBinary(w.BinWriter)
		encoded := len(w.Bytes())
		var txBytes int
		var sysfee int64
		for _, tx := range sel {
			txBytes += tx.Size()
			sysfee += tx.SystemFee
		}
		n1 := len(pool)
		if cfg.MaxTransactionsPerBlock != 0 && n1 > int(cfg.MaxTransactionsPerBlock) {
			n1 = int(cfg.MaxTransactionsPerBlock)
		}
		hdr := b.GetExpectedBlockSizeWithoutTransactions(n1)
		// the pool as the model sees it: ids = positions, account numbers in order of appearance
		acct := map[util.Uint160]int{}
		pos := map[util.Uint256]int{}
		for i, tx := range pool {
			pos[tx.Hash()] = i
		}
		var recs, bals []string
		var sizes, fees []int64
		for i, tx := range pool {
			var sg []int
			for _, sn := range tx.Signers {
				if _, ok := acct[sn.Account]; !ok {
					acct[sn.Account] = 2 + len(acct)
				}
				sg = append(sg, acct[sn.Account])
			}
			var cf []int
			for k, a := range tx.GetAttributes(transaction.ConflictsT) {
				if p, ok := pos[a.Value.(*transaction.Conflicts).Hash]; ok {
					cf = append(cf, p)
				} else {
					cf = append(cf, 1000+100*i+k)
				}
			}
			recs = append(recs, fmt.Sprintf("mkTx %d %s %d %d %d false %s None", i, c08Ints(sg), tx.SystemFee, tx.NetworkFee, tx.Size(), c08Ints(cf)))
			sizes = append(sizes, int64(tx.Size()))
			fees = append(fees, tx.SystemFee)
		}
		seenS := map[util.Uint160]bool{}
		for _, tx := range pool {
			if !seenS[tx.Sender()] {
				seenS[tx.Sender()] = true
				bals = append(bals, fmt.Sprintf("((%d,0),%s)", acct[tx.Sender()], c.bc.GetUtilityTokenBalance(tx.Sender(), util.Uint160{}).String()))
			}
		}
		// sel must be a prefix of the pool order
		prefix := len(sel) <= len(pool)
		for i := range sel {
			prefix = prefix && i < len(pool) && sel[i] == pool[i]
		}
		impl := map[string]any{"round": round, "pool": len(pool), "selected": len(sel), "encoded_block": encoded, "expected_block": b.GetExpectedBlockSize(),
			"tx_bytes": txBytes, "sysfee": sysfee, "sizes": sizes, "sysfees": fees, "srh": srh}
		cut := "all"
		if len(sel) < len(pool) {
			cut = "cut"
		}
		tag := cut
		if cosign {
			tag += "/cosign"
		}
		if many > 0 {
			tag += fmt.Sprintf("/many%d", len(sel))
		}
		if srh {
			tag += "/srh"
		}
		note := ""
		switch {
		case round == 0 && c.poolNote != "":
			note = c.poolNote
		case !prefix:
			note = "ApplyPolicyToTxSet did not return a prefix of the pool order"
		case len(sel) > 0 && uint32(encoded) > cfg.MaxBlockSize:
			note = fmt.Sprintf("the packed block is %d bytes, MaxBlockSize is %d: exceeds by %d bytes (StateRootInHeader=%v)", encoded, cfg.MaxBlockSize, encoded-int(cfg.MaxBlockSize), srh)
		case len(sel) > 0 && b.GetExpectedBlockSize() > int(cfg.MaxBlockSize):
			note = fmt.Sprintf("the packed block's expected size %d exceeds MaxBlockSize %d: consensus backups refuse the proposal (StateRootInHeader=%v)", b.GetExpectedBlockSize(), cfg.MaxBlockSize, srh)
		case sysfee > cfg.MaxBlockSystemFee:
			note = fmt.Sprintf("the packed block's system fee %d exceeds MaxBlockSystemFee %d", sysfee, cfg.MaxBlockSystemFee)
		case cfg.MaxTransactionsPerBlock != 0 && len(sel) > int(cfg.MaxTransactionsPerBlock):
			note = "more transactions than MaxTransactionsPerBlock"
		}
		if note != "" {
			impl["diag"] = note
			tag = "violation"
		}
		co.add(kind, tag, len(sel) < len(pool), in, impl,
			fmt.Sprintf("CPack %d%%nat %d %d %d %d [%s] [%s] %d%%nat", cfg.MaxTransactionsPerBlock, cfg.MaxBlockSize, cfg.MaxBlockSystemFee,
				hdr, encoded-txBytes, strings.Join(recs, ";"), strings.Join(bals, ";"), len(sel)))
		if note != "" {
			co.violation(kind, note, in, impl)
		}
		// the way peers receive it
		if err := c.relay(b); err != nil {
			co.violation(kind, "the packed block, serialised and parsed again, is refused by the replica: "+err.Error(), in, impl)
			return nil, false
		}
		if err := c.bc.AddBlock(b); err != nil {
			co.violation(kind, "the packed block is refused by the node that packed it: "+err.Error(), in, impl)
			return nil, false
		}
		if c.poolNote == "" {
			c.notePool()
			if c.poolNote != "" {
				co.violation(kind, "after the block: "+c.poolNote, in, impl)
			}
		}
		return sel, true
	}
}
