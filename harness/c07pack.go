package main

import (
	"fmt"
	"strings"

	"github.com/nspcc-dev/neo-go/pkg/core/transaction"
	"github.com/nspcc-dev/neo-go/pkg/io"
	"github.com/nspcc-dev/neo-go/pkg/vm/opcode"
)

type c07PackIn struct {
	Seed   uint64 `json:"seed"`
	Cfg    c07Cfg `json:"cfg"`
	NTx    int    `json:"ntx"`
	Rounds int    `json:"rounds"`
}

func c07GenPack(r *rng, thorough bool) c07PackIn {
	in := c07PackIn{Seed: r.next(), NTx: 6 + r.intn(18), Rounds: 1 + r.intn(3)}
	if thorough {
		in.NTx = 6 + r.intn(40)
	}
	in.Cfg.MaxTx = uint16(2 + r.intn(12))
	in.Cfg.MaxSize = uint32(900 + r.intn(5000))
	in.Cfg.MaxSysFee = int64(3000_0000 + r.intn(8)*2500_0000)
	in.Cfg.SRH = r.chance(35)
	switch x := r.intn(100); {
	case x < 20:
		in.Cfg.MaxSize = 0 // default, never binds
	case x < 65:
		in.Cfg.MaxSize = c07TightSize(r, in)
	}
	return in
}

// c07PackSetup builds the chain and fills its memory pool; everything derives from the seed, the block
// size limit plays no part in it.
func c07PackSetup(in c07PackIn) *c07Chain {
	r := newRng(in.Seed)
	c := c07NewChain(in.Cfg)
	accts := []*c07Acct{c07MakeAcct(r, 0, 0), c07MakeAcct(r, 0, 0), c07MakeAcct(r, 0, 0), c07MakeAcct(r, 2, 3)}
	c.fund(30_0000_0000, accts...)
	fpb := c.bc.FeePerByte()
	var made []*transaction.Transaction
	for i := 0; i < in.NTx; i++ {
		k := pick(r, []int{0, 0, 10, 100, 300, 600, 900})
		if r.chance(30) {
			k += r.intn(64)
		}
		script := make([]byte, k+1)
		for j := range script {
			script[j] = byte(opcode.NOP)
		}
		script[k] = byte(opcode.PUSH1)
		a := pick(r, accts)
		extra := int64(r.intn(4)) * 100_0000
		spec := c07TxSpec{signers: []*c07Acct{a}, script: script, sysfee: int64(1+r.intn(4)) * 500_0000,
			vub: c.bc.BlockHeight() + 1 + uint32(r.intn(3)),
			netfee: func(size int, calc int64) int64 { return int64(size)*fpb + calc + extra }}
		if len(made) > 0 && r.chance(12) {
			// replaces an earlier transaction of the same sender through Conflicts (must out-bid it)
			var cands []*transaction.Transaction
			for _, p := range made {
				if p.Sender() == a.hash() {
					cands = append(cands, p)
				}
			}
			if len(cands) > 0 {
				v := pick(r, cands)
				spec.attrs = []transaction.Attribute{{Type: transaction.ConflictsT, Value: &transaction.Conflicts{Hash: v.Hash()}}}
				spec.scope = transaction.CalledByEntry
				spec.netfee = func(size int, calc int64) int64 { return int64(size)*fpb + calc + v.NetworkFee }
			}
		}
		tx, _ := c.build(spec)
		if err := c.bc.PoolTx(tx); err == nil {
			made = append(made, tx)
		}
	}
	return c
}

// c07TightSize picks a block size limit within +-40 bytes of an exact fit of some prefix of the pool.
func c07TightSize(r *rng, in c07PackIn) (size uint32) {
	defer func() {
		if recover() != nil {
			size = 0
		}
	}()
	dry := in
	dry.Cfg.MaxSize = 0
	dry.Cfg.noReplica = true
	c := c07PackSetup(dry)
	defer c.close()
	pool := c.bc.GetMemPool().GetVerifiedTransactions()
	if len(pool) == 0 {
		return 0
	}
	n1 := len(pool)
	if in.Cfg.MaxTx != 0 && n1 > int(in.Cfg.MaxTx) {
		n1 = int(in.Cfg.MaxTx)
	}
	b := c.e.NewUnsignedBlock(c.t)
	c.e.SignBlock(b)
	total := b.GetExpectedBlockSizeWithoutTransactions(n1)
	j := 1 + r.intn(n1)
	for _, tx := range pool[:j] {
		total += tx.Size()
	}
	return uint32(total - 40 + r.intn(81))
}

func c07RunPack(co *caseOut, in c07PackIn) {
	c := c07PackSetup(in)
	defer c.close()
	cfg := c.bc.GetConfig()
	mp := c.bc.GetMemPool()
	for round := 0; round < in.Rounds; round++ {
		pool := mp.GetVerifiedTransactions()
		if len(pool) == 0 {
			break
		}
		sel := c.bc.ApplyPolicyToTxSet(pool)
		b := c.e.NewUnsignedBlock(c.t, sel...)
		c.e.SignBlock(b)
		w := io.NewBufBinWriter()
		b.EncodeBinary(w.BinWriter)
		encoded := len(w.Bytes())
		var txBytes int
		var sysfee int64
		for _, tx := range sel {
			txBytes += tx.Size()
			sysfee += tx.SystemFee
		}
		n1 := len(pool)
		if cfg.MaxTransactionsPerBlock != 0 && n1 > int(cfg.MaxTransactionsPerBlock) {
			n1 = int(cfg.MaxTransactionsPerBlock)
		}
		hdr := b.GetExpectedBlockSizeWithoutTransactions(n1)
		var pairs []string
		var sizes, fees []int64
		for _, tx := range pool {
			pairs = append(pairs, fmt.Sprintf("(%d,%d)", tx.Size(), tx.SystemFee))
			sizes = append(sizes, int64(tx.Size()))
			fees = append(fees, tx.SystemFee)
		}
		// sel must be a prefix of the pool order
		prefix := len(sel) <= len(pool)
		for i := range sel {
			prefix = prefix && i < len(pool) && sel[i] == pool[i]
		}
		impl := map[string]any{"round": round, "pool": len(pool), "selected": len(sel), "encoded_block": encoded, "expected_block": b.GetExpectedBlockSize(),
			"tx_bytes": txBytes, "sysfee": sysfee, "sizes": sizes, "sysfees": fees, "srh": in.Cfg.SRH}
		cut := "all"
		if len(sel) < len(pool) {
			cut = "cut"
		}
		tag := cut
		if in.Cfg.SRH {
			tag += "/srh"
		}
		note := ""
		switch {
		case !prefix:
			note = "ApplyPolicyToTxSet did not return a prefix of the pool order"
		case len(sel) > 0 && uint32(encoded) > cfg.MaxBlockSize:
			note = fmt.Sprintf("the packed block is %d bytes, MaxBlockSize is %d: exceeds by %d bytes (StateRootInHeader=%v)", encoded, cfg.MaxBlockSize, encoded-int(cfg.MaxBlockSize), in.Cfg.SRH)
		case len(sel) > 0 && b.GetExpectedBlockSize() > int(cfg.MaxBlockSize):
			note = fmt.Sprintf("the packed block's expected size %d exceeds MaxBlockSize %d: consensus backups refuse the proposal (StateRootInHeader=%v)", b.GetExpectedBlockSize(), cfg.MaxBlockSize, in.Cfg.SRH)
		case sysfee > cfg.MaxBlockSystemFee:
			note = fmt.Sprintf("the packed block's system fee %d exceeds MaxBlockSystemFee %d", sysfee, cfg.MaxBlockSystemFee)
		case cfg.MaxTransactionsPerBlock != 0 && len(sel) > int(cfg.MaxTransactionsPerBlock):
			note = "more transactions than MaxTransactionsPerBlock"
		}
		if note != "" {
			impl["diag"] = note
			tag = "violation"
		}
		co.add("pack", tag, len(sel) < len(pool), in, impl,
			fmt.Sprintf("CPack %d%%nat %d %d %d %d [%s] %d%%nat", cfg.MaxTransactionsPerBlock, cfg.MaxBlockSize, cfg.MaxBlockSystemFee,
				hdr, encoded-txBytes, strings.Join(pairs, ";"), len(sel)))
		if note != "" {
			co.violation("pack", note, in, impl)
		}
		// the way peers receive it
		if err := c.relay(b); err != nil {
			co.violation("pack", "the packed block, serialised and parsed again, is refused by the replica: "+err.Error(), in, impl)
			return
		}
		if err := c.bc.AddBlock(b); err != nil {
			co.violation("pack", "the packed block is refused by the node that packed it: "+err.Error(), in, impl)
			return
		}
	}
}
