package main

import (
	"fmt"
	"strings"

	"github.com/nspcc-dev/neo-go/pkg/core/mempool"
	"github.com/nspcc-dev/neo-go/pkg/core/transaction"
	"github.com/nspcc-dev/neo-go/pkg/neotest"
	"github.com/nspcc-dev/neo-go/pkg/util"
)

// chist: the DAO's conflict records over time. On-chain transactions (paid by the validator, co-signed by the
// later submitter S and/or a stranger O) name the hash H of a prepared transaction T in several blocks; T (signed
// by S) is submitted later. It must be refused with ErrHasConflicts exactly when some on-chain transaction naming H
// and co-signed by S lies within the last MaxTraceableBlocks blocks.

type c07HistEv struct {
	Gap int    `json:"gap"` // the naming transaction goes into the Gap-th block after the previous event (>= 1)
	By  string `json:"by"`  // co-signers: "s", "o", "so"
}

type c07HistIn struct {
	Seed   uint64      `json:"seed"`
	MTB    uint32      `json:"mtb"`
	Events []c07HistEv `json:"events"`
	Final  int         `json:"final"` // empty blocks between the last event and the submission
}

func c07GenHist(r *rng) c07HistIn {
	in := c07HistIn{Seed: r.next(), MTB: uint32(6 + r.intn(7))}
	m := int(in.MTB)
	gaps := []int{1, 1, 2, 3, m - 1, m, m + 1, m + 2}
	finals := []int{0, 0, 1, 2, m - 3, m - 2, m - 1, m, m + 1}
	if r.chance(30) {
		// the same hash named twice by the submitter's co-signed transactions more than MaxTraceableBlocks apart
		in.Events = []c07HistEv{{Gap: 1 + r.intn(2), By: pick(r, []string{"s", "so"})}, {Gap: m + 1 + r.intn(2), By: pick(r, []string{"s", "s", "so", "o"})}}
		in.Final = r.intn(m + 2)
		return in
	}
	n := 1 + r.intn(3)
	for i := 0; i < n; i++ {
		by := "s"
		switch x := r.intn(100); {
		case x < 25:
			by = "o"
		case x < 45:
			by = "so"
		}
		in.Events = append(in.Events, c07HistEv{Gap: pick(r, gaps), By: by})
	}
	in.Final = pick(r, finals)
	return in
}

func c07RunHist(co *caseOut, in c07HistIn) {
	r := newRng(in.Seed)
	c := c07NewChain(c07Cfg{MTB: in.MTB})
	defer c.close()
	t := c.t
	if got := c.bc.GetMaxTraceableBlocks(); got != in.MTB {
		panic(c07Fail{fmt.Sprintf("MaxTraceableBlocks is %d, wanted %d", got, in.MTB)})
	}
	S := c07MakeAcct(r, 0, 0)
	O := c07MakeAcct(r, 0, 0)
	c.fund(1000_0000_0000, S, O)
	fpb := c.bc.FeePerByte()
	base := c.bc.GetBaseExecFee()
	// plan the heights
	h := c.bc.BlockHeight()
	var idx []uint32
	for _, e := range in.Events {
		g := e.Gap
		if g < 1 {
			g = 1
		}
		h += uint32(g)
		idx = append(idx, h)
	}
	fin := in.Final
	if fin < 0 {
		fin = 0
	}
	hSubmit := h + uint32(fin)
	T, _ := c.build(c07TxSpec{signers: []*c07Acct{S}, script: c07PushOne, sysfee: 100_0000, vub: hSubmit + 1,
		netfee: func(size int, calc int64) int64 { return int64(size)*fpb + calc }})
	H := T.Hash()
	var evT []string
	for k, e := range in.Events {
		for c.bc.BlockHeight()+1 < idx[k] {
			c.addBlock()
		}
		x := c.e.NewUnsignedTx(t, c.gas, "symbol")
		x.Attributes = []transaction.Attribute{{Type: transaction.ConflictsT, Value: &transaction.Conflicts{Hash: H}}}
		signers := []neotest.Signer{c.val}
		ids := []int{9}
		if strings.Contains(e.By, "s") {
			signers = append(signers, S.signer)
			ids = append(ids, 2)
		}
		if strings.Contains(e.By, "o") {
			signers = append(signers, O.signer)
			ids = append(ids, 3)
		}
		x = c.e.SignTx(t, x, 1000_0000, signers...)
		b := c.addBlock(x)
		if b.Index != idx[k] {
			panic(c07Fail{"planned block index missed"})
		}
		evT = append(evT, fmt.Sprintf("(%d,%s,[0])", b.Index, c08Ints(ids)))
	}
	for c.bc.BlockHeight() < hSubmit {
		c.addBlock()
	}
	mp := mempool.New(50, false, nil)
	err := c.bc.PoolTx(T, mp)
	cls, name := c07Class(err)
	cur := c.bc.BlockHeight()
	// the meaning, directly: some naming transaction co-signed by S within the window
	want := false
	for k, e := range in.Events {
		if strings.Contains(e.By, "s") && idx[k]+in.MTB > cur {
			want = true
		}
	}
	bal := c.bc.GetUtilityTokenBalance(S.hash(), util.Uint160{})
	chainT := fmt.Sprintf("(mkChain %d %d %d %d %d)", cur, c.bc.GetMaxValidUntilBlockIncrement(), fpb,
		c.bc.GetConfig().MaxBlockSystemFee, c.bc.GetMaxVerificationGAS())
	factsT := fmt.Sprintf("(mkFacts true %d %d %d %d 0 true false false [] true)", T.ValidUntilBlock, T.Size(), T.SystemFee, T.NetworkFee)
	implT := "None"
	if err != nil {
		implT = fmt.Sprintf("(Some %d)", cls)
	}
	term := fmt.Sprintf("CHist %d %s %d %s 0 [2] %s [(%s,true,true)] (mkTx 0 [2] %d %d %d false [] None) [((2,0),%s)] %s",
		base, chainT, in.MTB, coqList(evT), factsT, S.coqShape(), T.SystemFee, T.NetworkFee, T.Size(), bal.String(), implT)
	impl := map[string]any{"class": name, "height": cur, "event_blocks": idx, "mtb": in.MTB, "conflict_expected": want}
	tag := "clear"
	if want {
		tag = "conflict"
	}
	if len(in.Events) > 1 {
		tag += "/multi"
	}
	if cls == 99 {
		co.violation("chist", "PoolTx returned an error outside the modelled classes: "+name, in, impl)
		return
	}
	co.add("chist", tag, len(in.Events) > 1 || want, in, impl, term)
	switch {
	case want && cls != 7:
		co.violation("chist", fmt.Sprintf("a transaction named as a conflict by an on-chain transaction of its signer within the last %d blocks was not refused with ErrHasConflicts (%s)", in.MTB, name), in, impl)
	case !want && err != nil:
		co.violation("chist", "no traceable on-chain transaction of its signer names it, yet the transaction was refused: "+err.Error(), in, impl)
	}
}
