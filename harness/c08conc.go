package main

// C08, the pool under CONCURRENT callers (kind "conc"). After a sequential prefix, 2-3 operations are issued by one
// goroutine each and the interleaving of their lock regions is FORCED, without sleeps:
//
//   gate "w": the harness holds the pool's lock for writing (hook Pool.VerifLock) while the goroutines are started in
//             a chosen order; each runs whatever it runs before its first lock acquisition and parks there (observed
//             in the goroutine dump: wait reason sync.RWMutex.*). On release every goroutine parked in RLock holds the
//             read lock at once (sync.RWMutex.Unlock admits all queued readers before any writer), so every
//             "check under the read lock" region runs before any write region; goroutines parked in Lock are served
//             in the order they parked.
//   gate "r": the same with the lock held for reading: read-locked first regions run at once, each goroutine parks at
//             its first write acquisition.
//   callbacks: every goroutine has its own Feer; its callbacks (and the pool's metrics callback) are rendezvous
//             points INSIDE a lock region. While a goroutine is held there, the harness starts a reader that parks in
//             RLock behind it; when the region ends the reader holds the lock before the next writer can enter: it
//             sees the pool exactly as that region left it (listed transactions and map keys in ONE read region, hook
//             Pool.VerifSnapshot). A second region of the same operation cannot slip in before it.
//   hold:     (read-only operations) every goroutine is kept in its first Feer callback until all have arrived: they
//             are inside the pool at the same time; the fee table (hook Pool.VerifFeeTable) must not change while only
//             read locks are held.
//
// Checked directly: the invariant of the property text on every observation and on the final getters; the outcome
// (every goroutine's result, the observations in order, the final pool) equals the outcome of the REAL pool run
// sequentially in SOME order of the same operations (all <= 6 orders are run). In Coq (CConc): the same against the
// model, plus the prefix as in CSeq. Every wait is on an observable condition; 20 s without progress = "stuck".

import (
	"fmt"
	"math/big"
	"runtime"
	"sort"
	"strings"
	"sync"
	"sync/atomic"
	"time"

	"github.com/nspcc-dev/neo-go/pkg/core/mempool"
	"github.com/nspcc-dev/neo-go/pkg/core/native/nativehashes"
	"github.com/nspcc-dev/neo-go/pkg/core/transaction"
	"github.com/nspcc-dev/neo-go/pkg/util"
)

type c08ConcIn struct {
	Cap   int      `json:"cap"`
	Txs   []c08Tx  `json:"txs"`
	Bal   []c08Bal `json:"bal"`
	Ops   []c08Op  `json:"ops"`   // sequential prefix
	Conc  []c08Op  `json:"conc"`  // one goroutine each
	Order []int    `json:"order"` // the order in which the goroutines are started (and park)
	Gate  string   `json:"gate"`  // "w", "r" or ""
	Hold  bool     `json:"hold,omitempty"`
}

type c08Obs struct {
	Flipped bool   `json:"flipped"` // the balances of the concurrent RemoveStale were in force
	Ids     []int  `json:"ids"`
	Keys    []int  `json:"keys"`
	Lock    int    `json:"lock"` // how the lock was held when the reader was started (2 writer, 1 readers, 0 free)
	At      string `json:"at"`   // the callback during which it was started
}

type c08ConcImpl struct {
	Diag    string    `json:"diag,omitempty"`
	Prefix  []c08Step `json:"prefix"`
	Results []string  `json:"results"`
	Obs     []c08Obs  `json:"obs"`
	Ids     []int     `json:"ids"`
	Keys    []int     `json:"keys"`
	Overlap bool      `json:"overlap,omitempty"` // hold: all goroutines were inside the pool at the same time
	Orders  []string  `json:"sequential_orders,omitempty"`
}

// ---- the world the per-goroutine Feers read ----

type c08World struct {
	mu      sync.Mutex
	bal     map[[2]util.Uint160]int64
	fpb     int64
	height  uint32
	flipped bool
}

func (w *c08World) set(b []c08Bal) {
	w.bal = map[[2]util.Uint160]int64{}
	for _, x := range b {
		w.bal[[2]util.Uint160{c08Account(x.P), c08Account(x.S)}] = x.V
	}
}

type c08GFeer struct {
	g    int
	w    *c08World
	sc   *c08Sched
	flip *c08Op // the RemoveStale goroutine: its first FeePerByte (first thing inside the region) puts the new answers in force
}

func (f *c08GFeer) FeePerByte() int64 {
	if f.flip != nil {
		f.w.mu.Lock()
		if !f.w.flipped {
			f.w.flipped = true
			f.w.set(f.flip.Bal)
			f.w.fpb = f.flip.Fpb
			if f.flip.H > f.w.height {
				f.w.height = f.flip.H
			}
		}
		f.w.mu.Unlock()
	}
	f.sc.callback(f.g, "fpb")
	f.w.mu.Lock()
	defer f.w.mu.Unlock()
	return f.w.fpb
}
func (f *c08GFeer) GetUtilityTokenBalance(p, s util.Uint160) *big.Int {
	f.sc.callback(f.g, "balance")
	f.w.mu.Lock()
	defer f.w.mu.Unlock()
	if p.Equals(nativehashes.Notary) && !s.Equals(util.Uint160{}) {
		return big.NewInt(f.w.bal[[2]util.Uint160{p, s}])
	}
	return big.NewInt(f.w.bal[[2]util.Uint160{p, {}}])
}
func (f *c08GFeer) BlockHeight() uint32 {
	f.w.mu.Lock()
	defer f.w.mu.Unlock()
	return f.w.height
}

// ---- scheduler ----

type c08Ev struct {
	g    int
	kind string
}

type c08Sched struct {
	pass   atomic.Bool
	ev     chan c08Ev
	resume []chan struct{} // per goroutine; the last one is the metrics callback's
	ncb    []int32
}

func (sc *c08Sched) callback(g int, kind string) {
	if sc.pass.Load() {
		return
	}
	if atomic.AddInt32(&sc.ncb[g], 1) > 3 {
		return
	}
	sc.ev <- c08Ev{g, kind}
	<-sc.resume[g]
}

//go:noinline
func c08ConcG0(f func()) { f() }

//go:noinline
func c08ConcG1(f func()) { f() }

//go:noinline
func c08ConcG2(f func()) { f() }

//go:noinline
func c08ConcG3(f func()) { f() }

//go:noinline
func c08ConcObs(f func()) { f() }

var c08ConcWrappers = []func(func()){c08ConcG0, c08ConcG1, c08ConcG2, c08ConcG3}

var c08StackBuf = make([]byte, 1<<20)

// c08Parked: is the goroutine running fn parked in a lock acquisition?
func c08Parked(fn string) bool {
	n := runtime.Stack(c08StackBuf, true)
	for _, g := range strings.Split(string(c08StackBuf[:n]), "\n\n") {
		hdr, _, _ := strings.Cut(g, "\n")
		if strings.Contains(g, fn+"(") && strings.Contains(g, "sync.(*RWMutex).") && (strings.Contains(hdr, "[sync.") || strings.Contains(hdr, "[semacquire")) {
			return true
		}
	}
	return false
}

const c08ConcTimeout = 20 * time.Second

type c08ConcRun struct {
	results     []string
	obs         []c08Obs
	overlap     bool
	feesChanged string
	stuck       string
	panicked    string
}

// c08ConcExec runs the concurrent part on the session's pool.
func c08ConcExec(s *c08Sess, in *c08ConcIn, sc *c08Sched, w *c08World) c08ConcRun {
	n := len(in.Conc)
	mp := s.mp
	out := c08ConcRun{results: make([]string, n)}
	done := make([]atomic.Bool, n)
	var obsMu sync.Mutex
	var obsPending *atomic.Bool
	started := make([]bool, n)

	toIdx := func(txs []*transaction.Transaction, keys []util.Uint256) ([]int, []int) {
		ids, ks := []int{}, []int{}
		for _, t := range txs {
			i, ok := s.byHash[t.Hash()]
			if !ok {
				i = -1
			}
			ids = append(ids, i)
		}
		for _, h := range keys {
			i, ok := s.byHash[h]
			if !ok {
				i = -1
			}
			ks = append(ks, i)
		}
		sort.Ints(ks)
		return ids, ks
	}
	injectObserver := func(at string) {
		obsMu.Lock()
		nobs := len(out.obs)
		obsMu.Unlock()
		if nobs >= 6 || (obsPending != nil && !obsPending.Load()) {
			return
		}
		fin := &atomic.Bool{}
		obsPending = fin
		lockState := mp.VerifLockState()
		go c08ConcObs(func() {
			mp.VerifRLock()
			txs, keys := mp.VerifSnapshot()
			w.mu.Lock()
			fl := w.flipped
			w.mu.Unlock()
			mp.VerifRUnlock()
			ids, ks := toIdx(txs, keys)
			obsMu.Lock()
			out.obs = append(out.obs, c08Obs{Flipped: fl, Ids: ids, Keys: ks, Lock: lockState, At: at})
			obsMu.Unlock()
			fin.Store(true)
		})
		deadline := time.Now().Add(c08ConcTimeout)
		for !fin.Load() && !c08Parked("main.c08ConcObs") {
			if time.Now().After(deadline) {
				out.stuck = "a reader neither got the lock nor parked"
				return
			}
			runtime.Gosched()
		}
	}
	feeTable := func() string {
		mp.VerifRLock()
		ft := mp.VerifFeeTable()
		mp.VerifRUnlock()
		var rows []string
		for _, e := range ft {
			rows = append(rows, fmt.Sprintf("%s/%s:%s:%s", e.Primary.StringBE()[:6], e.Secondary.StringBE()[:6], e.Balance, e.FeeSum))
		}
		sort.Strings(rows)
		return strings.Join(rows, " ")
	}

	start := func(g int) {
		op := in.Conc[g]
		feer := &c08GFeer{g: g, w: w, sc: sc}
		started[g] = true
		go c08ConcWrappers[g](func() {
			var res string
			pan := catch(func() {
				switch op.Op {
				case "add":
					res = c08ErrName(mp.Add(s.txs[op.I], feer, op.I))
				case "remove":
					h := c08ForeignHash(op.I)
					if op.I < 1000 {
						h = s.txs[op.I].Hash()
					}
					mp.Remove(h)
					res = "ok"
				case "verify":
					res = fmt.Sprint(mp.Verify(s.txs[op.I], feer))
				case "has":
					res = fmt.Sprint(mp.HasConflicts(s.txs[op.I], feer))
				case "stale":
					stale := map[util.Uint256]bool{}
					for _, x := range op.Stale {
						stale[s.txs[x].Hash()] = true
					}
					feer.flip = &op
					first := true
					mp.RemoveStale(func(t *transaction.Transaction) bool {
						if first {
							first = false
							sc.callback(g, "isok")
						}
						return !stale[t.Hash()]
					}, feer)
					res = "resent"
				}
			})
			if pan != "" {
				res = "panic: " + pan
			}
			out.results[g] = res
			done[g].Store(true)
			sc.ev <- c08Ev{g, "done"}
		})
	}

	nDone := 0
	held := map[int]string{} // hold mode: goroutines kept in their first callback
	released := false
	var fees0 string
	handle := func(e c08Ev) {
		switch {
		case e.kind == "done":
			nDone++
			if strings.HasPrefix(out.results[e.g], "panic") {
				out.panicked = fmt.Sprintf("goroutine %d (%s): %s", e.g, in.Conc[e.g].Op, out.results[e.g])
			}
		case in.Hold && !released && e.g < n && held[e.g] == "":
			held[e.g] = e.kind // kept there until every goroutine has been started
		default:
			at := fmt.Sprintf("%s callback of goroutine %d", e.kind, e.g)
			if e.g >= n {
				at = "pool's metrics callback (end of an Add/Remove region)"
			}
			injectObserver(at)
			sc.resume[e.g] <- struct{}{}
		}
	}
	wait := func(cond func() bool) bool {
		deadline := time.Now().Add(c08ConcTimeout)
		for !cond() {
			select {
			case e := <-sc.ev:
				handle(e)
				deadline = time.Now().Add(c08ConcTimeout)
			default:
				if out.stuck != "" || out.panicked != "" {
					return false
				}
				if time.Now().After(deadline) {
					var st []string
					for g := 0; g < n; g++ {
						if started[g] && !done[g].Load() {
							st = append(st, fmt.Sprintf("%d (%s)", g, in.Conc[g].Op))
						}
					}
					out.stuck = fmt.Sprintf("no progress for %v: goroutines %s have not returned, lock state %d", c08ConcTimeout, strings.Join(st, ", "), mp.VerifLockState())
					return false
				}
				runtime.Gosched()
			}
		}
		return true
	}

	sc.pass.Store(false)
	switch in.Gate {
	case "w":
		mp.VerifLock()
	case "r":
		mp.VerifRLock()
	}
	ok := true
	for _, g := range in.Order {
		start(g)
		fn := fmt.Sprintf("main.c08ConcG%d", g)
		// settled: returned, parked at a lock, or (hold mode) kept in its callback
		if !wait(func() bool { return done[g].Load() || held[g] != "" || c08Parked(fn) }) {
			ok = false
			break
		}
	}
	if ok && in.Hold {
		// those that were kept are inside the pool at the same time now
		released = true
		if len(held) >= 2 {
			out.overlap = true
			if mp.VerifLockState() != 2 {
				fees0 = feeTable()
			}
		}
		for _, g := range in.Order {
			if held[g] != "" {
				sc.resume[g] <- struct{}{}
			}
		}
	}
	switch in.Gate {
	case "w":
		mp.VerifUnlock()
	case "r":
		mp.VerifRUnlock()
	}
	if ok {
		ok = wait(func() bool { return nDone == n })
	}
	if ok && obsPending != nil {
		wait(func() bool { return obsPending.Load() })
	}
	// let anything still blocked in a callback run on (it can only park at the lock of a broken pool)
	sc.pass.Store(true)
	for i := range sc.resume {
		select {
		case sc.resume[i] <- struct{}{}:
		default:
		}
	}
	if ok && in.Hold && out.overlap && fees0 != "" {
		if f1 := feeTable(); f1 != fees0 {
			out.feesChanged = fmt.Sprintf("fee table before: [%s], after: [%s]", fees0, f1)
		}
	}
	return out
}

func c08ConcOpCoq(s *c08Sess, op c08Op, height uint32) string {
	switch op.Op {
	case "add":
		return fmt.Sprintf("HAdd %d%%nat", op.I)
	case "remove":
		return fmt.Sprintf("HRemove %d", op.I)
	case "verify":
		return fmt.Sprintf("HVerify %d%%nat", op.I)
	case "has":
		return fmt.Sprintf("HHas %d%%nat", op.I)
	case "stale":
		return fmt.Sprintf("HStale %s %s %d %d", c08Ints(op.Stale), c08CoqBal(op.Bal), op.Fpb, max(height, op.H))
	}
	return ""
}

func c08ConcValid(in *c08ConcIn) error {
	n := len(in.Conc)
	if n < 1 || n > 4 || len(in.Order) != n {
		return fmt.Errorf("1..4 concurrent operations and an order of the same length")
	}
	seen := map[int]bool{}
	for _, g := range in.Order {
		if g < 0 || g >= n || seen[g] {
			return fmt.Errorf("order is not a permutation")
		}
		seen[g] = true
	}
	nstale := 0
	for _, op := range in.Conc {
		switch op.Op {
		case "add", "verify", "has":
			if op.I < 0 || op.I >= len(in.Txs) {
				return fmt.Errorf("operation on an unknown transaction")
			}
		case "remove":
			if op.I < 0 || op.I >= len(in.Txs) && op.I < 1000 {
				return fmt.Errorf("operation on an unknown transaction")
			}
		case "stale":
			nstale++
			for _, x := range op.Stale {
				if x < 0 || x >= len(in.Txs) {
					return fmt.Errorf("stale list names an unknown transaction")
				}
			}
		default:
			return fmt.Errorf("unknown concurrent operation %q", op.Op)
		}
	}
	if nstale > 1 {
		return fmt.Errorf("at most one concurrent RemoveStale")
	}
	for _, op := range in.Ops {
		if op.Op == "resend" {
			return fmt.Errorf("no resend threshold in concurrent cases")
		}
	}
	return nil
}

// c08SeqOutcome: the real pool, the same prefix, then the operations one after another in the given order.
type c08SeqOutcome struct {
	results []string
	states  [][2][]int // ids, keys after the prefix and after each operation
	flipped []bool
}

func c08SeqRun(in *c08ConcIn, order []int) (c08SeqOutcome, bool) {
	base := c08Input{Cap: in.Cap, Txs: in.Txs, Bal: in.Bal, Ops: in.Ops}
	s, err := c08NewSess(&base, nil)
	var o c08SeqOutcome
	if err != nil {
		return o, false
	}
	for _, op := range in.Ops {
		if !s.do(op) {
			return o, false
		}
	}
	o.results = make([]string, len(in.Conc))
	o.states = append(o.states, [2][]int{s.prev, s.prevKeys})
	o.flipped = append(o.flipped, false)
	fl := false
	for _, g := range order {
		op := in.Conc[g]
		nsteps := len(s.impl.Steps)
		okStep := s.do(op)
		if len(s.impl.Steps) == nsteps {
			return o, false
		}
		st := s.impl.Steps[len(s.impl.Steps)-1]
		o.results[g] = st.Res
		if !okStep {
			// a sequential violation: not the concurrency's matter; the state is still what the pool shows
			ids, keys, _ := s.observe()
			st.Ids, st.Keys = ids, keys
			s.prev, s.prevKeys = ids, keys
			s.diag = ""
		}
		fl = fl || op.Op == "stale"
		o.states = append(o.states, [2][]int{st.Ids, st.Keys})
		o.flipped = append(o.flipped, fl)
	}
	return o, true
}

func c08Perms(n int) [][]int {
	if n == 0 {
		return [][]int{{}}
	}
	var out [][]int
	for _, p := range c08Perms(n - 1) {
		for i := 0; i <= len(p); i++ {
			q := append(append(append([]int{}, p[:i]...), n-1), p[i:]...)
			out = append(out, q)
		}
	}
	return out
}

func c08RunConc(co *caseOut, in c08ConcIn) {
	kind := "conc"
	if err := c08ConcValid(&in); err != nil {
		co.add(kind, "malformed", false, in, err.Error(), "CSeq 0%nat [] [] []")
		return
	}
	n := len(in.Conc)
	sc := &c08Sched{ev: make(chan c08Ev, 64), ncb: make([]int32, n+1)}
	for i := 0; i <= n; i++ {
		sc.resume = append(sc.resume, make(chan struct{}))
	}
	sc.pass.Store(true)
	base := c08Input{Cap: in.Cap, Txs: in.Txs, Bal: in.Bal, Ops: in.Ops}
	s, err := c08NewSess(&base, func(int) { sc.callback(n, "metrics") })
	if err != nil {
		co.add(kind, "malformed", false, in, err.Error(), "CSeq 0%nat [] [] []")
		return
	}
	for _, op := range in.Ops {
		if !s.do(op) {
			break
		}
	}
	impl := c08ConcImpl{Prefix: s.impl.Steps}
	if s.diag != "" {
		// the prefix alone already fails: report it as the sequence it is
		impl.Diag = s.diag
		term := fmt.Sprintf("CSeq %d%%nat %s %s %s", in.Cap, s.coqUniverse(), c08CoqBal(in.Bal), coqList(s.coqSteps))
		co.add(kind, "violation", true, in, impl, term)
		co.violation(kind, "in the sequential prefix: "+s.diag, in, impl)
		return
	}
	w := &c08World{fpb: s.feer.fpb, height: s.feer.height}
	w.bal = map[[2]util.Uint160]int64{}
	for k, v := range s.feer.bal {
		w.bal[k] = v
	}
	balPre := s.bal
	var staleOp *c08Op
	for i := range in.Conc {
		if in.Conc[i].Op == "stale" {
			staleOp = &in.Conc[i]
		}
	}
	balPost := balPre
	if staleOp != nil {
		balPost = map[[2]int]int64{}
		for _, x := range staleOp.Bal {
			balPost[[2]int{x.P, x.S}] = x.V
		}
	}
	run := c08ConcExec(s, &in, sc, w)
	impl.Results, impl.Obs, impl.Overlap = run.results, run.obs, run.overlap
	diag := ""
	switch {
	case run.panicked != "":
		diag = "panic in a concurrent operation: " + run.panicked
	case run.stuck != "":
		diag = "stuck: " + run.stuck
	}
	if diag != "" {
		impl.Diag = diag
		// nothing more can be observed (the lock may be held for ever)
		term := fmt.Sprintf("CConc %d%%nat %s %s %s [(HRemove 0, HPanic)] [] [] []", in.Cap, s.coqUniverse(), c08CoqBal(in.Bal), coqList(s.coqSteps))
		co.add(kind, "violation", true, in, impl, term)
		co.violation(kind, diag, in, impl)
		return
	}
	ids, keys, unknown := s.observe()
	impl.Ids, impl.Keys = ids, keys
	// ---- the property text on every observation ----
	balAt := func(fl bool) map[[2]int]int64 {
		if fl {
			return balPost
		}
		return balPre
	}
	for k, o := range run.obs {
		bad := false
		for _, x := range append(append([]int{}, o.Ids...), o.Keys...) {
			bad = bad || x < 0
		}
		if bad {
			diag = fmt.Sprintf("observation %d lists a transaction that was never added", k)
			break
		}
		if d := c08Inv(&base, s.sizes, balAt(o.Flipped), o.Ids); d != "" {
			diag = fmt.Sprintf("a reader that got the lock right after a write region (started during the %s) saw the invariant broken: %s; listed %v", o.At, d, o.Ids)
			break
		}
		sk := append([]int{}, o.Ids...)
		sort.Ints(sk)
		if !c08EqInts(sk, o.Keys) {
			diag = fmt.Sprintf("a reader that got the lock right after a write region (started during the %s) saw slice and map disagree: listed %v, map keys %v", o.At, o.Ids, o.Keys)
			break
		}
	}
	if diag == "" {
		switch {
		case unknown:
			diag = "the pool lists a transaction that was never added"
		case s.mp.Count() != len(ids):
			diag = fmt.Sprintf("Count() = %d but %d transactions are listed", s.mp.Count(), len(ids))
		default:
			diag = c08Inv(&base, s.sizes, balAt(staleOp != nil), ids)
			if diag == "" {
				sk := append([]int{}, ids...)
				sort.Ints(sk)
				if !c08EqInts(sk, keys) {
					diag = fmt.Sprintf("slice and map disagree: listed %v, ContainsKey holds for %v", ids, keys)
				}
			}
		}
		if diag != "" {
			diag = "after the concurrent operations " + c08ConcDescribe(&in, run.results) + ": " + diag
		}
	}
	if diag == "" && run.feesChanged != "" {
		diag = "operations that hold the lock for READING only were inside the pool at the same time and the fee table changed: a write under the read lock (two of them race on the map: fatal error: concurrent map read and map write). " + run.feesChanged
	}
	// ---- linearizability against the real pool run sequentially ----
	if diag == "" {
		matched := false
		for _, order := range c08Perms(n) {
			so, ok := c08SeqRun(&in, order)
			if !ok {
				continue
			}
			desc := fmt.Sprintf("%v: results %v, final %v", order, so.results, so.states[len(so.states)-1][0])
			impl.Orders = append(impl.Orders, desc)
			good := true
			for g := 0; g < n; g++ {
				good = good && so.results[g] == run.results[g]
			}
			last := so.states[len(so.states)-1]
			good = good && c08EqInts(last[0], ids) && c08EqInts(last[1], keys)
			pos := 0
			for _, o := range run.obs {
				for pos < len(so.states) && !(c08EqInts(so.states[pos][0], o.Ids) && c08EqInts(so.states[pos][1], o.Keys) && so.flipped[pos] == o.Flipped) {
					pos++
				}
				if pos == len(so.states) {
					good = false
					break
				}
			}
			if good {
				matched = true
				break
			}
		}
		if !matched {
			var os []string
			for _, o := range run.obs {
				os = append(os, fmt.Sprint(o.Ids))
			}
			diag = fmt.Sprintf("not linearizable: the concurrent operations %s, with readers seeing %s in between and %v at the end, have an outcome that no sequential order of the same operations on the real pool gives (%s)",
				c08ConcDescribe(&in, run.results), strings.Join(os, " "), ids, strings.Join(impl.Orders, "; "))
		}
	}
	impl.Diag = diag
	// ---- Coq term ----
	var cops, cobs []string
	for g, op := range in.Conc {
		r := c08CoqRes(run.results[g])
		if run.results[g] == "resent" {
			r = "HResent []"
		}
		cops = append(cops, fmt.Sprintf("(%s, %s)", c08ConcOpCoq(s, op, s.feer.height), r))
	}
	for _, o := range run.obs {
		cobs = append(cobs, fmt.Sprintf("(%s, %s, %s)", coqBool(o.Flipped), c08Ints(o.Ids), c08Ints(o.Keys)))
	}
	term := fmt.Sprintf("CConc %d%%nat %s %s %s %s %s %s %s", in.Cap, s.coqUniverse(), c08CoqBal(in.Bal), coqList(s.coqSteps),
		coqList(cops), coqList(cobs), c08Ints(ids), c08Ints(keys))
	// tag: the kinds of operations that met
	var kinds []string
	for _, op := range in.Conc {
		kinds = append(kinds, op.Op)
	}
	sort.Strings(kinds)
	tag := strings.Join(kinds, "+") + "/" + in.Gate
	if in.Hold {
		tag += "/hold"
	}
	if diag != "" {
		tag = "violation"
	}
	// non-trivial: the operations interfere (some result or the final pool depends on the order)
	nontrivial := len(impl.Orders) > 1 || len(run.obs) > 0
	co.add(kind, tag, nontrivial, in, impl, term)
	c08EventCount["conc:"+strings.Join(kinds, "+")]++
	if diag != "" {
		co.violation(kind, diag, in, impl)
	}
}

func c08ConcDescribe(in *c08ConcIn, results []string) string {
	var ds []string
	for g, op := range in.Conc {
		d := op.Op
		if op.Op != "stale" {
			d += fmt.Sprintf("(%d)", op.I)
		}
		ds = append(ds, fmt.Sprintf("%s -> %s", d, results[g]))
	}
	return "[" + strings.Join(ds, ", ") + "] (started in the order " + fmt.Sprint(in.Order) + ", gate " + fmt.Sprintf("%q", in.Gate) + ")"
}

var _ = mempool.ErrDup

// ---------- generation ----------

// c08GenConc makes one scenario (universe, balances, sequential prefix, the operations that meet) and returns it under
// every start order with the write gate, once with the read gate, and - for read-only operations - with the
// goroutines kept inside the pool together.
func c08GenConc(r *rng) []c08ConcIn {
	g := c08Gen(r, false)
	in := c08ConcIn{Cap: g.Cap, Txs: g.Txs, Bal: g.Bal}
	np := r.intn(10)
	for _, op := range g.Ops {
		if len(in.Ops) >= np {
			break
		}
		if op.Op != "resend" {
			in.Ops = append(in.Ops, op)
		}
	}
	ntx := len(in.Txs)
	scenario := r.intn(100)
	// what the pool holds after the prefix
	var pooled []int
	inPool := map[int]bool{}
	for round := 0; round < 2; round++ {
		base := c08Input{Cap: in.Cap, Txs: in.Txs, Bal: in.Bal, Ops: in.Ops}
		s, err := c08NewSess(&base, nil)
		if err != nil {
			break
		}
		for _, op := range in.Ops {
			if !s.do(op) {
				break
			}
		}
		pooled = s.prev
		if scenario >= 82 && round == 0 && in.Cap != len(pooled)+1 {
			in.Cap = len(pooled) + 1 // the last slot: one free place (the prefix is run again with this capacity)
			continue
		}
		break
	}
	for _, x := range pooled {
		inPool[x] = true
	}
	for _, op := range in.Ops { // the balances the last prefix RemoveStale put in force
		if op.Op == "stale" {
			g.Bal = op.Bal
		}
	}
	var outside []int
	for i := 0; i < ntx; i++ {
		if !inPool[i] {
			outside = append(outside, i)
		}
	}
	if len(outside) == 0 {
		outside = []int{r.intn(ntx)}
	}
	lowered := func() []c08Bal {
		var b []c08Bal
		for _, x := range g.Bal {
			switch r.intn(4) {
			case 0:
				x.V = pick(r, []int64{0, 100, 150, 300})
			case 1:
				x.V = x.V / 2
			}
			b = append(b, x)
		}
		return b
	}
	staleOp := func() c08Op {
		op := c08Op{Op: "stale", Bal: lowered(), H: 50}
		for _, x := range pooled {
			if r.chance(20) {
				op.Stale = append(op.Stale, x)
			}
		}
		if r.chance(20) {
			op.Fpb = int64(r.intn(4))
		}
		return op
	}
	related := func(i int) []int { // transactions in conflict with i, or sharing its payer
		var out []int
		for j := 0; j < ntx; j++ {
			if j != i && (c08Names(in.Txs, i, j) || c08Names(in.Txs, j, i) || c08Payer(in.Txs[i]) == c08Payer(in.Txs[j])) {
				out = append(out, j)
			}
		}
		return out
	}
	hold := false
	switch x := scenario; {
	case x < 20: // the same transaction from two peers (and something else)
		i := pick(r, outside)
		in.Conc = []c08Op{{Op: "add", I: i}, {Op: "add", I: i}}
		if r.chance(40) {
			in.Conc = append(in.Conc, pick(r, []c08Op{{Op: "add", I: r.intn(ntx)}, {Op: "remove", I: i}, {Op: "add", I: i}}))
		}
	case x < 38: // transactions in conflict / of one payer
		i := pick(r, outside)
		rel := related(i)
		j := r.intn(ntx)
		if len(rel) > 0 {
			j = pick(r, rel)
		}
		in.Conc = []c08Op{{Op: "add", I: i}, {Op: "add", I: j}}
		if r.chance(35) {
			in.Conc = append(in.Conc, c08Op{Op: "add", I: pick(r, outside)})
		}
	case x < 50: // Add against Remove
		i := pick(r, outside)
		j := i
		if len(pooled) > 0 && r.chance(60) {
			j = pick(r, pooled)
		}
		in.Conc = []c08Op{{Op: "add", I: i}, {Op: "remove", I: j}}
		if r.chance(35) {
			in.Conc = append(in.Conc, c08Op{Op: "add", I: pick(r, outside)})
		}
	case x < 70: // Add against the refresh after a block
		in.Conc = []c08Op{{Op: "add", I: pick(r, outside)}, staleOp()}
		if r.chance(50) {
			in.Conc = append(in.Conc, pick(r, []c08Op{{Op: "add", I: pick(r, outside)}, {Op: "remove", I: r.intn(ntx)}, {Op: "verify", I: r.intn(ntx)}}))
		}
	case x < 82: // readers together
		hold = true
		in.Conc = []c08Op{{Op: "verify", I: r.intn(ntx)}, {Op: "verify", I: r.intn(ntx)}}
		if r.chance(40) {
			in.Conc = append(in.Conc, c08Op{Op: pick(r, []string{"verify", "has"}), I: r.intn(ntx)})
		}
	default: // two or three Adds for the last slot
		in.Conc = []c08Op{{Op: "add", I: pick(r, outside)}, {Op: "add", I: pick(r, outside)}}
		if r.chance(50) {
			in.Conc = append(in.Conc, c08Op{Op: "add", I: r.intn(ntx)})
		}
	}
	var out []c08ConcIn
	for _, order := range c08Perms(len(in.Conc)) {
		c := in
		c.Order = order
		c.Gate = "w"
		out = append(out, c)
	}
	c := in
	c.Order = c08Perms(len(in.Conc))[r.intn(len(c08Perms(len(in.Conc))))]
	c.Gate = "r"
	out = append(out, c)
	if hold {
		c := in
		c.Order = c08Perms(len(in.Conc))[0]
		c.Gate = ""
		c.Hold = true
		out = append(out, c)
	}
	return out
}
