package main

// C04 harness, part 3: generation of call trees (random, and systematic fault/throw injection at every node),
// execution on two replica chains kept in lockstep (B gets the same blocks as A except that a transaction that
// FAULTed on A is replaced by a twin with the same fees whose script is a bare ABORT), direct checks, Coq cases.

import (
	"encoding/json"
	"fmt"
	"reflect"
	"strings"

	"github.com/nspcc-dev/neo-go/pkg/core/transaction"
	"github.com/nspcc-dev/neo-go/pkg/vm/opcode"
	"github.com/nspcc-dev/neo-go/pkg/vm/vmstate"
)

func init() { register("c04", runC04) }

const c04SysFee = 20_0000_0000 // 20 GAS per case transaction

const c04SenderGas = 30000_0000_0000 // what the paying accounts 5, 6 start with

type c04Input struct {
	Pre c04State   `json:"pre"`
	Ops []*c04Node `json:"ops"` // the entry script: these nodes in sequence
	Snd int        `json:"snd"` // who pays: 0 the committee account, 1 / 2 account 5 / 6 (the committee co-signs)
	FB  int        `json:"fb"`  // read-only filler transactions before the case transaction in the same block
	FA  int        `json:"fa"`  // ... and after it
}

type c04Impl struct {
	Halt   bool       `json:"halt"`
	Fault  string     `json:"fault,omitempty"`
	Post   c04State   `json:"post"`
	Events []c04Event `json:"events"`
}

// ---- syntactic classes (the guards of the Coq theorems) ----

func (n *c04Node) any(f func(*c04Node) bool) bool {
	if n == nil {
		return false
	}
	if f(n) {
		return true
	}
	for _, o := range n.Ops {
		if o.any(f) {
			return true
		}
	}
	return n.Body.any(f) || n.Catch.any(f) || n.Fin.any(f)
}

func (n *c04Node) isCall() bool {
	switch n.tag() {
	case c04Call, c04Move, c04MoveNeo, c04SetFee, c04NotifyFee, c04CallMut, c04Dyn:
		return true
	}
	return false
}

// bareFree: every Call of this contract invocation stands inside a try body
func (n *c04Node) bareFree() bool {
	if n == nil {
		return true
	}
	switch n.tag() {
	case c04Call, c04CallMut, c04Dyn:
		return false
	case c04Seq:
		for _, o := range n.Ops {
			if !o.bareFree() {
				return false
			}
		}
		return true
	case c04Try:
		return n.Catch.bareFree() && n.Fin.bareFree()
	}
	return true
}

// g2: no finally block contains a contract call; g1: a catch block followed by a finally block makes no un-layered call
func (n *c04Node) g2() bool {
	return !n.any(func(x *c04Node) bool {
		return x.tag() == c04Try && x.Fin != nil && x.Fin.any(func(y *c04Node) bool { return y.isCall() })
	})
}
func (n *c04Node) g1() bool {
	return !n.any(func(x *c04Node) bool {
		return x.tag() == c04Try && x.Fin != nil && x.Catch != nil && !x.Catch.bareFree()
	})
}

func c04Class(root *c04Node) (kind, cls string) {
	a, b := root.g1(), root.g2()
	switch {
	case a && b:
		return "tree", "guarded"
	case b:
		return "tree_x", "g1"
	case a:
		return "tree_x", "g2"
	}
	return "tree_x", "g1g2"
}

// ---- generator ----

var c04NeoAmounts = []int{0, 1, 500000, 2000000, 4000000, 30000000}

type c04Gen struct {
	noNeo   bool // block cases: claims depend on the block height, the replica runs one transaction per block
	r       *rng
	noCalls bool // inside a finally block (guarded mode)
	noBare  bool // inside a catch block that has a finally (guarded mode): calls only inside nested try bodies
	inTry   bool
	guarded bool
	fail    int // percent of failure leaves
}

var c04FlagChoices = []int{15, 15, 15, 15, 15, 15, 15, 15, 15, 15, 15, 15, 15, 15, 15, 15, 15, 15, 7, 11, 5, 3, 13, 1, 0, 14}
var c04Amounts = []int{0, 1, 40, 500, 999, 1200, 900000000, 4000000000}

func (g *c04Gen) leaf() *c04Node {
	r := g.r
	switch x := r.intn(100); {
	case x < 30:
		return &c04Node{Op: "put", K: r.intn(c04NKeys), V: 1 + r.intn(9)}
	case x < 40:
		return &c04Node{Op: "del", K: r.intn(c04NKeys)}
	case x < 55:
		return &c04Node{Op: "notify", V: r.intn(10)}
	case x < 63:
		return &c04Node{Op: "notifyval", K: r.intn(c04NKeys)}
	case x < 70: // read a stored value, make a Buffer of it, scribble on the Buffer
		if !g.noCalls && (!g.noBare || g.inTry) && r.chance(35) {
			return &c04Node{Op: "callmut", K: r.intn(c04NKeys), C: r.intn(c04NContracts), V: r.intn(c04HowFind)}
		}
		return &c04Node{Op: "mut", K: r.intn(c04NKeys), V: r.intn(c04NHow)}
	case x < 75 && !g.noCalls:
		return &c04Node{Op: "notifyfee"}
	case x < 80 && !g.noCalls:
		return &c04Node{Op: "setfee", V: 900 + r.intn(6)*50}
	case x < 80+g.fail:
		if r.chance(88) {
			return &c04Node{Op: "throw"}
		}
		return &c04Node{Op: "abort"}
	}
	return &c04Node{Op: "put", K: r.intn(c04NKeys), V: 1 + r.intn(9)}
}

func (g *c04Gen) prog(d int) *c04Node {
	r := g.r
	if d <= 0 {
		return g.leaf()
	}
	callsOK := !g.noCalls && (!g.noBare || g.inTry)
	switch x := r.intn(100); {
	case x < 28:
		n := 2 + r.intn(3)
		ops := make([]*c04Node, n)
		for i := range ops {
			ops[i] = g.prog(d - 1)
		}
		return c04SeqOf(ops)
	case x < 33 && callsOK: // a dynamic script between this frame and the callees
		sub := *g
		sub.noBare, sub.inTry = false, false
		return &c04Node{Op: "dyn", Flags: pick(r, []int{0, 1, 4, 8, 5, 15}), Body: c04SeqOf(c04DynBody(r, &sub, d-1))}
	case x < 48 && callsOK:
		sub := *g
		sub.noBare, sub.inTry = false, false
		return &c04Node{Op: "call", C: r.intn(c04NContracts), Flags: pick(r, c04FlagChoices), Body: sub.prog(d - 1)}
	case x < 56 && !g.noCalls:
		n := &c04Node{Op: "move", C: r.intn(c04NAcc), V: pick(r, c04Amounts)}
		if !g.noNeo && r.chance(45) {
			n = &c04Node{Op: "moveneo", C: r.intn(c04NNeo), V: pick(r, c04NeoAmounts)}
		}
		if r.chance(60) {
			sub := *g
			sub.noBare, sub.inTry = false, false
			n.Body = sub.prog(d - 1)
		}
		return n
	case x < 88:
		n := &c04Node{Op: "try"}
		shape := r.intn(10) // catch only (5), catch+finally (3), finally only (2)
		hasC, hasF := shape < 8, shape >= 5
		tb := *g
		tb.inTry = true
		n.Body = tb.prog(d - 1)
		if !g.guarded && r.chance(50) {
			hasC, hasF = true, true
		}
		if hasC {
			cb := *g
			if g.guarded && hasF {
				cb.noBare, cb.inTry = true, false
			}
			n.Catch = cb.prog(d - 1)
			if !g.guarded && hasF && r.chance(70) { // an un-layered callee that changes something and throws
				sub := *g
				sub.inTry = false
				n.Catch = c04SeqOf([]*c04Node{n.Catch, {Op: "call", C: r.intn(c04NContracts), Flags: 15,
					Body: c04SeqOf([]*c04Node{sub.prog(d - 2), {Op: "throw"}})}})
			}
		}
		if hasF {
			fb := *g
			if g.guarded {
				fb.noCalls = true
			}
			n.Fin = fb.prog(d - 2)
			if !g.guarded && r.chance(70) {
				n.Fin = c04SeqOf([]*c04Node{n.Fin, fb.prog(d - 1)})
			}
		}
		return n
	}
	return g.leaf()
}

// entry-level list: calls into the contracts, optionally under entry-level try blocks
func (g *c04Gen) entry(d int) []*c04Node {
	r := g.r
	var ops []*c04Node
	for i, n := 0, 1+r.intn(3); i < n; i++ {
		call := func() *c04Node {
			return &c04Node{Op: "call", C: r.intn(c04NContracts), Flags: pick(r, c04FlagChoices[:20]), Body: g.prog(d)}
		}
		switch x := r.intn(100); {
		case x < 40:
			ops = append(ops, call())
		case x < 94:
			t := &c04Node{Op: "try", Body: call()}
			shape := r.intn(10)
			if shape < 8 {
				t.Catch = &c04Node{Op: "skip"}
				if !g.guarded && r.chance(30) || r.chance(20) && shape >= 5 {
					t.Catch = &c04Node{Op: "throw"}
				}
			}
			if shape >= 5 {
				t.Fin = &c04Node{Op: "skip"}
				if !g.guarded && r.chance(50) {
					t.Fin = call()
				}
			}
			ops = append(ops, t)
		case x < 98:
			ops = append(ops, &c04Node{Op: "throw"})
		default:
			ops = append(ops, &c04Node{Op: "abort"})
		}
	}
	return ops
}

// tokenize: every call below the entry level (the entry script has no method tokens; its callees are the trampolines)
// becomes a CALLT through a method token with probability pct
func c04Tokenize(r *rng, n *c04Node, inContract bool, pct int) {
	if n == nil {
		return
	}
	switch n.tag() {
	case c04Call:
		if inContract && n.C < c04NContracts && n.Flags <= 15 && r.chance(pct) {
			n.T = true
		}
		c04Tokenize(r, n.Body, true, pct)
		return
	case c04Move, c04MoveNeo:
		c04Tokenize(r, n.Body, true, pct)
		return
	case c04Dyn: // a dynamic script has no method tokens
		c04Tokenize(r, n.Body, false, pct)
		return
	}
	for _, o := range n.Ops {
		c04Tokenize(r, o, inContract, pct)
	}
	c04Tokenize(r, n.Body, inContract, pct)
	c04Tokenize(r, n.Catch, inContract, pct)
	c04Tokenize(r, n.Fin, inContract, pct)
}

// the body of a dynamic script: control flow and calls only (it has no storage context and no manifest)
func c04DynBody(r *rng, g *c04Gen, d int) []*c04Node {
	var ops []*c04Node
	for i, n := 0, 1+r.intn(2); i < n; i++ {
		call := &c04Node{Op: "call", C: r.intn(c04NContracts), Flags: pick(r, c04FlagChoices), Body: g.prog(max(d, 0))}
		switch x := r.intn(100); {
		case x < 55 || (i == 0 && x >= 80): // the first thing a dynamic script does is a call
			ops = append(ops, call)
		case x < 80:
			ops = append(ops, &c04Node{Op: "try", Body: call, Catch: &c04Node{Op: "skip"}})
		case x < 92:
			ops = append(ops, &c04Node{Op: "throw"})
		default:
			ops = append(ops, &c04Node{Op: "skip"})
		}
	}
	return ops
}

// clone via JSON
func (n *c04Node) clone() *c04Node {
	b, _ := json.Marshal(n)
	var m c04Node
	_ = json.Unmarshal(b, &m)
	return &m
}

// positions: every node in pre-order
func (n *c04Node) nodes(acc *[]*c04Node) {
	if n == nil {
		return
	}
	*acc = append(*acc, n)
	for _, o := range n.Ops {
		o.nodes(acc)
	}
	n.Body.nodes(acc)
	n.Catch.nodes(acc)
	n.Fin.nodes(acc)
}

// inject: variants of the tree with a throw / an abort placed after (or instead of) node i
func c04Inject(root *c04Node, i int, what string, instead bool) *c04Node {
	c := root.clone()
	var all []*c04Node
	c.nodes(&all)
	t := all[i]
	if instead && t != c {
		*t = c04Node{Op: what}
		return c
	}
	old := *t
	*t = c04Node{Op: "seq", Ops: []*c04Node{&old, {Op: what}}}
	return c
}

// ---- the two replica chains ----

type c04Pair struct {
	a, b *c04Chain
}

func c04NewPair() *c04Pair {
	p := &c04Pair{a: c04NewChain(), b: c04NewChain()}
	for i := range p.a.env.contracts {
		if p.a.env.contracts[i] != p.b.env.contracts[i] {
			panic("c04: replicas deployed different contracts")
		}
	}
	return p
}
func (p *c04Pair) close() { p.a.close(); p.b.close() }

// both chains get the same block
func (p *c04Pair) both(txs ...*transaction.Transaction) error {
	if err := p.a.addBlock(txs...); err != nil {
		return fmt.Errorf("chain A: %w", err)
	}
	if err := p.b.addBlock(txs...); err != nil {
		return fmt.Errorf("chain B: %w", err)
	}
	return nil
}

// setup: bring the observable state from cur to want with halting transactions: storage, fee, NEO balances (upwards)
// and votes first, then (after looking again: NEO operations mint GAS) GAS balances upwards
func (p *c04Pair) setup(cur, want c04State) error { return p.setupMode(cur, want, true) }

// exact = false: balances in want are minimums (topping up)
func (p *c04Pair) setupMode(cur, want c04State, exact bool) error {
	var ops []*c04Node
	have := map[[2]int]int{}
	for _, kv := range cur.Store {
		have[[2]int{kv.C, kv.K}] = kv.V
	}
	wantm := map[[2]int]int{}
	for _, kv := range want.Store {
		wantm[[2]int{kv.C, kv.K}] = kv.V
	}
	var txs []*transaction.Transaction
	for i := range want.Neo {
		c := int64(0)
		if i < len(cur.Neo) {
			c = cur.Neo[i]
		}
		if want.Neo[i] > c {
			txs = append(txs, p.a.newTx(c04TokenTransferScript(p.a, p.a.env.neo, p.a.env.account(i), want.Neo[i]-c), 1_0000_0000))
		} else if want.Neo[i] < c {
			return fmt.Errorf("setup cannot lower the NEO balance of account %d from %d to %d", i, c, want.Neo[i])
		}
	}
	for c := 0; c < c04NContracts; c++ {
		var body []*c04Node
		for k := 0; k < c04NKeys; k++ {
			h, hok := have[[2]int{c, k}]
			w, wok := wantm[[2]int{c, k}]
			if wok && (!hok || h != w) {
				body = append(body, &c04Node{Op: "put", K: k, V: w})
			} else if hok && !wok {
				body = append(body, &c04Node{Op: "del", K: k})
			}
		}
		if c == 0 && cur.FeeCache != want.FeeCache {
			body = append(body, &c04Node{Op: "setfee", V: int(want.FeeCache)})
		}
		if c < len(want.Vote) && (c >= len(cur.Vote) || cur.Vote[c] != want.Vote[c]) {
			body = append(body, &c04Node{Op: "vote", V: want.Vote[c]})
		}
		if len(body) > 0 {
			ops = append(ops, &c04Node{Op: "call", C: c, Flags: 15, Body: c04SeqOf(body)})
		}
	}
	for i := c04NContracts; i < len(want.Vote); i++ {
		if want.Vote[i] != 0 {
			return fmt.Errorf("setup cannot make the plain account %d vote", i)
		}
	}
	if len(ops) > 0 {
		txs = append(txs, p.a.newTx(p.a.env.entryScript(c04SeqOf(ops)), c04SysFee))
	}
	run := func(txs []*transaction.Transaction) error {
		if len(txs) == 0 {
			return nil
		}
		if err := p.both(txs...); err != nil {
			return err
		}
		for _, tx := range txs {
			if aer := p.a.e.GetTxExecResult(p.a.t, tx.Hash()); aer.VMState != vmstate.Halt {
				return fmt.Errorf("setup transaction failed: %s", aer.FaultException)
			}
		}
		return nil
	}
	if err := run(txs); err != nil {
		return err
	}
	if len(txs) > 0 {
		cur = p.a.observe()
	}
	txs = nil
	for i := range want.Bal {
		c := int64(0)
		if i < len(cur.Bal) {
			c = cur.Bal[i]
		}
		if want.Bal[i] > c {
			txs = append(txs, p.a.newTx(c04TransferScript(p.a, p.a.env.account(i), want.Bal[i]-c), 1_0000_0000))
		} else if want.Bal[i] < c && exact {
			return fmt.Errorf("setup cannot lower the balance of account %d from %d to %d", i, c, want.Bal[i])
		}
	}
	return run(txs)
}

// filler: a transaction that only reads the observable state (events carry what it saw)
func (p *c04Pair) filler(i int) *transaction.Transaction {
	var body []*c04Node
	for k := 0; k < c04NKeys; k++ {
		body = append(body, &c04Node{Op: "notifyval", K: k})
	}
	body = append(body, &c04Node{Op: "notifyfee"})
	n := &c04Node{Op: "call", C: i % c04NContracts, Flags: 15, Body: c04SeqOf(body)}
	return p.a.newTx(p.a.env.entryScript(n), 5_0000_0000)
}

func c04Short(s string) string {
	if i := strings.Index(s, "Error:"); i >= 0 {
		s = s[i:]
	}
	s = strings.Join(strings.Fields(s), " ")
	if len(s) > 300 {
		s = s[:300]
	}
	return s
}

// all storage namespaces of the model as (namespace, key, value) entries; claims only for a pre-state
func (st c04State) coqEntries(withClaims bool) string {
	var xs []string
	add := func(ns, k int, v int64) {
		if v == 0 {
			return
		}
		if v < 0 {
			v = 999999999999
		}
		if k < 0 {
			k = 9999
		}
		xs = append(xs, fmt.Sprintf("(%d,%d,%d)", ns, k, v))
	}
	for _, kv := range st.Store {
		v := int64(kv.V)
		if v == 0 {
			v = 999999999999 // an empty value is not something the trees write
		}
		add(kv.C, kv.K, v)
	}
	for a, b := range st.Bal {
		add(100, a, b)
	}
	for a, b := range st.Neo {
		add(102, a, b)
	}
	if withClaims {
		for a, b := range st.Claim {
			add(102, 10+a, b)
		}
	}
	for a, b := range st.Vote {
		add(102, 20+a, int64(b))
	}
	add(102, 30, st.Cand)
	add(102, 31, st.Voters)
	return coqList(xs)
}

func c04CoqB(b bool) int {
	if b {
		return 1
	}
	return 0
}

// the model's name of a payer: accounts 5, 6, or 9 for the committee account (outside the observed universe)
func c04SenderN(snd int) int {
	if snd >= 1 && snd <= c04NSenders {
		return c04NContracts + c04NPlain + snd - 1
	}
	return 9
}

// what a state must be after a transaction that changed nothing but took its fee
func (st c04State) minusFee(snd int, fee int64) c04State {
	o := st
	o.Bal = append([]int64{}, st.Bal...)
	if snd >= 1 && snd <= c04NSenders {
		o.Bal[c04NContracts+c04NPlain+snd-1] -= fee
	}
	o.VC = false
	return o
}

func (n *c04Node) hasFailure() bool {
	return n.any(func(x *c04Node) bool { t := x.tag(); return t == c04Throw || t == c04Abort })
}

// runCase executes one case on the pair and records it.
func (p *c04Pair) runCase(co *caseOut, in c04Input) {
	root := c04SeqOf(in.Ops)
	kind, cls := c04Class(root)
	if !root.entryOK() {
		panic("c04: entry-level tree uses an operation that needs a contract")
	}
	cur := p.a.observe()
	if !cur.samePre(in.Pre) {
		if err := p.setup(cur, in.Pre); err != nil {
			panic(fmt.Sprintf("c04 setup: %v", err))
		}
		cur = p.a.observe()
		if !cur.samePre(in.Pre) {
			panic(fmt.Sprintf("c04 setup did not reach the pre-state: %+v vs %+v", cur, in.Pre))
		}
	}
	in.Pre.Claim = cur.Claim
	if cur.FeeCache != cur.FeeStore {
		co.violation(kind, "Policy fee: native cache and contract storage disagree before the case", in, cur)
	}
	var before, after []*transaction.Transaction
	for i := 0; i < in.FB; i++ {
		before = append(before, p.filler(i))
	}
	tx := p.a.newTxFrom(in.Snd-1, p.a.env.entryScript(root), c04SysFee, 1)
	fee := tx.SystemFee + tx.NetworkFee
	for i := 0; i < in.FA; i++ {
		after = append(after, p.filler(i+1))
	}
	blockA := append(append(append([]*transaction.Transaction{}, before...), tx), after...)
	if err := p.a.addBlock(blockA...); err != nil {
		panic("chain A refused the block with the case transaction: " + c04Short(err.Error()))
	}
	aer := p.a.e.GetTxExecResult(p.a.t, tx.Hash())
	impl := c04Impl{Halt: aer.VMState == vmstate.Halt, Fault: aer.FaultException, Post: p.a.observe(), Events: p.a.decodeEvents(aer.Events)}
	// replica: same block, a faulted transaction replaced by its fee twin
	txB := tx
	if !impl.Halt {
		twin := transaction.New([]byte{byte(opcode.ABORT)}, tx.SystemFee)
		twin.Nonce = tx.Nonce
		twin.ValidUntilBlock = tx.ValidUntilBlock
		twin.Signers = tx.Signers
		twin.NetworkFee = tx.NetworkFee
		p.a.resign(twin)
		txB = twin
	}
	blockB := append(append(append([]*transaction.Transaction{}, before...), txB), after...)
	if err := p.b.addBlock(blockB...); err != nil {
		panic("replica B refused the block: " + c04Short(err.Error()))
	}
	// ---- direct checks ----
	if ra, rb := p.a.stateRoot(), p.b.stateRoot(); ra != rb {
		what := "after a HALTed transaction the two replicas differ (non-determinism)"
		if !impl.Halt {
			what = "state root after a FAULTed transaction differs from the same block with a no-op transaction of the same fees"
		}
		co.violation(kind, what+": "+strings.Join(c04SameMap(p.a.dumpAll(), p.b.dumpAll()), "; "), in, impl)
	} else if d := c04SameMap(p.a.dumpAll(), p.b.dumpAll()); len(d) > 0 {
		co.violation(kind, "storage dumps differ although state roots agree: "+strings.Join(d, "; "), in, impl)
	}
	if !impl.Halt && !impl.Post.same(in.Pre.minusFee(in.Snd, fee)) {
		co.violation(kind, "a FAULTed transaction changed storage / balances (its fee aside) / NEO accounts, votes / Policy or NEO cache", in, impl)
	}
	if impl.Post.FeeCache != impl.Post.FeeStore {
		co.violation(kind, "Policy fee: native cache and contract storage disagree after the block", in, impl)
	}
	for i := 0; i <= c04NAcc; i++ {
		acc := p.a.owner.ScriptHash()
		if i < c04NAcc {
			acc = p.a.env.account(i)
		}
		if ta, tb := p.a.transfers(acc), p.b.transfers(acc); !reflect.DeepEqual(ta, tb) {
			co.violation(kind, fmt.Sprintf("token transfer log of account %d differs between the replicas: %d vs %d entries", i, len(ta), len(tb)), in, impl)
			break
		}
	}
	for i, f := range append(append([]*transaction.Transaction{}, before...), after...) {
		ea := p.a.decodeEvents(p.a.e.GetTxExecResult(p.a.t, f.Hash()).Events)
		eb := p.b.decodeEvents(p.b.e.GetTxExecResult(p.b.t, f.Hash()).Events)
		if !reflect.DeepEqual(ea, eb) {
			co.violation(kind, fmt.Sprintf("reader transaction %d in the same block saw different state on the replicas", i), in, impl)
			break
		}
	}
	// ---- Coq case ----
	evs := make([]string, len(impl.Events))
	for i, e := range impl.Events {
		evs[i] = e.coq()
	}
	clsN := 0
	if kind != "tree" {
		clsN = 1
	}
	// votesChanged is reset by NEO.OnPersist at the start of every block of this one-member committee: 0 when the transaction starts
	term := fmt.Sprintf("CTree %d %s %d 0 %d %d %s %s %s %d %d %d %s", clsN, in.Pre.coqEntries(true), in.Pre.FeeCache,
		c04SenderN(in.Snd), fee, root.coq(), coqBool(impl.Halt), impl.Post.coqEntries(false),
		max(impl.Post.FeeCache, 0), max(impl.Post.FeeStore, 0), c04CoqB(impl.Post.VC), coqList(evs))
	out := "fault"
	if impl.Halt {
		out = "halt"
	}
	tag := cls + "/" + out
	if root.any(func(x *c04Node) bool { return x.tag() == c04Try && x.Catch != nil }) {
		tag += "/catch"
	}
	if root.any(func(x *c04Node) bool { return x.tag() == c04Move }) {
		tag += "/move"
	}
	if root.any(func(x *c04Node) bool { return x.tag() == c04SetFee }) {
		tag += "/setfee"
	}
	if root.any(func(x *c04Node) bool { return x.tag() == c04MoveNeo }) {
		tag += "/neo"
	}
	if root.any(func(x *c04Node) bool { return x.T }) {
		tag += "/callt"
	}
	if root.any(func(x *c04Node) bool { return x.tag() == c04Dyn }) {
		tag += "/dyn"
	}
	if root.any(func(x *c04Node) bool { return x.tag() == c04Mut || x.tag() == c04CallMut }) {
		tag += "/mut"
	}
	co.add(kind, tag, root.hasFailure(), in, impl, term)
}

// topUp: accounts that ran low get more, so that transfers keep succeeding and failing in a mix
func c04TopUp(cur c04State) (c04State, bool) {
	top := cur
	top.Bal = append([]int64{}, cur.Bal...)
	top.Neo = append([]int64{}, cur.Neo...)
	need := false
	for i := 0; i < c04NContracts; i++ {
		if top.Bal[i] < 300 {
			top.Bal[i] += 1000
			need = true
		}
		if top.Neo[i] < 1000000 {
			top.Neo[i] += 5000000
			need = true
		}
	}
	for i := c04NContracts + c04NPlain; i < c04NAcc; i++ {
		if top.Bal[i] < 200_0000_0000 {
			top.Bal[i] += c04SenderGas
			need = true
		}
	}
	return top, need
}

func runC04(args []string) error {
	cf, fs := parseCommon("c04", args)
	fs.Parse(args)
	co := newCaseOut(cf.out, "Harness.C04", "N",
		"call trees (random; plus a throw and an abort injected at every node of fault-free base trees) compiled to an entry script and "+
			"to arguments of three deployed NeoVM interpreter contracts, run as one transaction in a block (with read-only transactions before/after) "+
			"on two replica chains from the observed pre-state; block cases: 2-4 transactions in one block (earlier ones ending in HALT / uncaught throw / "+
			"ABORT / ASSERT / fault in a callee / fault or swallowed exception in a finally block / out of gas, the last one with layered calls), the same "+
			"transactions one per block on the replica; nests: 2-3 try/catch/finally nested in one frame (entry script or test contract) with calls in every region;  non-trivial = the tree contains a throw or an abort, for a block case: some transaction before the last did not halt; distinct by Coq term")
	co.shard = 60
	if cf.replay != "" {
		cases, err := readReplay(cf.replay)
		if err != nil {
			return err
		}
		for _, c := range cases {
			var x struct {
				Kind  string          `json:"kind"`
				Input json.RawMessage `json:"input"`
			}
			if err := json.Unmarshal(c, &x); err != nil {
				return err
			}
			p := c04NewPair()
			if x.Kind == "block" {
				var in c04BlockInput
				if err := json.Unmarshal(x.Input, &in); err != nil {
					return err
				}
				p.runBlock(co, in)
			} else {
				var in c04Input
				if err := json.Unmarshal(x.Input, &in); err != nil {
					return err
				}
				p.runCase(co, in)
			}
			p.close()
		}
		return co.finish()
	}
	r := newRng(cf.seed)
	var p *c04Pair
	fresh := func() {
		if p != nil {
			p.close()
		}
		p = c04NewPair()
		st := p.a.observe()
		want := st
		want.Bal = []int64{1000, 1000, 1000, 0, 0, c04SenderGas, c04SenderGas}
		want.Neo = []int64{10000000, 6000000, 3000000, 0, 0}
		want.Vote = []int{1, 1, 0, 0, 0}
		if err := p.setup(st, want); err != nil {
			panic(err)
		}
	}
	fresh()
	defer func() { p.close() }()
	ncase := 0
	broken := false
	runOps := func(ops []*c04Node) {
		if broken {
			return
		}
		// the in-memory store scans all of its keys on every Seek: start over on fresh chains now and then
		if ncase++; ncase%400 == 0 {
			fresh()
		}
		cur := p.a.observe()
		if top, need := c04TopUp(cur); need {
			if err := p.setupMode(cur, top, false); err != nil {
				broken = true
				co.violation("tree", "set-up transaction could not be applied: "+err.Error(), c04Input{Pre: cur, Ops: ops}, nil)
				return
			}
			cur = p.a.observe()
		}
		tokPct := pick(r, []int{0, 40, 40, 100})
		for _, o := range ops {
			c04Tokenize(r, o, false, tokPct)
		}
		in := c04Input{Pre: cur, Ops: ops, Snd: r.intn(1 + c04NSenders)}
		if r.chance(30) {
			in.FB = 1 + r.intn(2)
		}
		if r.chance(40) {
			in.FA = 1 + r.intn(2)
		}
		func() {
			defer func() {
				if x := recover(); x != nil && !broken {
					// the chains can no longer be driven (a replica refused a block, a set-up transaction failed ...):
					// report with this case as replay and stop; what was recorded before stays
					broken = true
					kind, _ := c04Class(c04SeqOf(in.Ops))
					co.violation(kind, fmt.Sprintf("the replica chains could not be driven further: %v", x), in, nil)
				}
			}()
			p.runCase(co, in)
		}()
	}
	n := cf.n
	// 0. call-flag lattice: for each of the 16 requested flag sets, a callee that does exactly what its flags allow
	//    (notify / put / both / nothing) and then returns or throws, caught by the caller inside or outside a try body
	for f := 0; f < 16; f++ {
		for _, fails := range []bool{true, false} {
			for _, inTry := range []bool{true, false} {
				var body []*c04Node
				if f&8 != 0 {
					body = append(body, &c04Node{Op: "notify", V: f % 10})
				}
				if f&3 == 3 {
					body = append(body, &c04Node{Op: "put", K: f % c04NKeys, V: 1 + r.intn(9)})
				}
				if f&9 == 9 && r.bool() {
					body = append(body, &c04Node{Op: "notifyval", K: f % c04NKeys})
				}
				if f&5 == 5 && r.bool() { // a nested call with all flags requested: effective flags stay f
					body = append(body, &c04Node{Op: "call", C: r.intn(c04NContracts), Flags: 15, Body: &c04Node{Op: "skip"}})
				}
				if fails {
					body = append(body, &c04Node{Op: "throw"})
				}
				callee := &c04Node{Op: "call", C: 1 + r.intn(2), Flags: f, Body: c04SeqOf(body)}
				var inner *c04Node
				if inTry {
					inner = &c04Node{Op: "try", Body: callee, Catch: &c04Node{Op: "notify", V: 9}}
				} else {
					inner = callee
				}
				a := &c04Node{Op: "call", C: 0, Flags: 15, Body: c04SeqOf([]*c04Node{{Op: "notify", V: 1}, {Op: "put", K: 0, V: 1 + r.intn(9)}, inner, {Op: "notifyval", K: 0}})}
				runOps([]*c04Node{{Op: "try", Body: a, Catch: &c04Node{Op: "skip"}}})
			}
		}
	}
	// 1. systematic injection into fault-free base trees
	nbase := max(1, n/60)
	for b := 0; b < nbase; b++ {
		g := &c04Gen{r: r, guarded: true, fail: 0}
		ops := g.entry(2 + r.intn(2))
		root := c04SeqOf(ops)
		var all []*c04Node
		root.nodes(&all)
		runOps(root.clone().Ops)
		for i := 1; i < len(all) && i < 40; i++ {
			for _, what := range []string{"throw", "abort"} {
				if what == "abort" && r.chance(50) {
					continue
				}
				v := c04Inject(root, i, what, r.chance(25))
				if !v.entryOK() {
					continue
				}
				runOps(v.Ops)
			}
		}
	}
	// 2. random trees with failures, inside the guards
	for i := 0; i < n/2; i++ {
		g := &c04Gen{r: r, guarded: true, fail: 6 + r.intn(10)}
		runOps(g.entry(2 + r.intn(3)))
	}
	// 3. random trees outside the guards (calls in catch-with-finally and in finally blocks)
	for i := 0; i < n/6; i++ {
		g := &c04Gen{r: r, guarded: false, fail: 12 + r.intn(10)}
		runOps(g.entry(2 + r.intn(2)))
	}
	// 3b. several handlers in one caller frame in different states, calls in every region (entry script: one context;
	//     test contract: one context per handler)
	for i := 0; i < 2 && !broken; i++ {
		for _, t := range c04NestTemplates(r) {
			runOps(c04NestPlace(r, t, i == 0))
		}
	}
	for i := 0; i < n/5; i++ {
		entry := r.chance(45)
		runOps(c04NestPlace(r, c04NestTry(r, 2+r.intn(2), entry), entry))
	}
	// 3c. in-place mutation of Buffers derived from stored values: every bytes->Buffer instruction x the value written by
	//     the caller in this transaction / present before (earlier transaction, earlier block, flushed or not) x the
	//     mutating callee returns / throws (caught) / aborts; and the value passed to another contract that mutates it
	for how := 0; how < c04NHow && !broken; how++ {
		for variant := 0; variant < 6; variant++ {
			k := r.intn(c04NKeys)
			var body []*c04Node
			if variant%2 == 0 {
				body = append(body, &c04Node{Op: "put", K: k, V: 1 + r.intn(9)})
			}
			var m *c04Node
			if how < c04HowFind && r.chance(40) {
				m = &c04Node{Op: "callmut", K: k, C: 1 + r.intn(2), V: how}
			} else {
				m = &c04Node{Op: "mut", K: k, V: how}
			}
			cal := []*c04Node{m}
			switch variant / 2 {
			case 1:
				cal = append(cal, &c04Node{Op: "throw"})
			case 2:
				cal = append(cal, &c04Node{Op: "abort", V: r.intn(3)})
			}
			body = append(body, &c04Node{Op: "try", Body: &c04Node{Op: "call", C: 0, Flags: 15, T: r.bool(), Body: c04SeqOf(cal)}, Catch: &c04Node{Op: "skip"}},
				&c04Node{Op: "notifyval", K: k})
			if ncase%3 == 0 { // the value sits in the persistent store, not only in the node's write cache
				if _, err := p.a.bc.VerifPersist(); err != nil {
					panic(err)
				}
				if _, err := p.b.bc.VerifPersist(); err != nil {
					panic(err)
				}
			}
			runOps([]*c04Node{{Op: "call", C: 0, Flags: 15, Body: c04SeqOf(body)}})
		}
	}
	// 3d. a dynamic script (System.Runtime.LoadScript) between a catching caller and a callee that writes / notifies /
	//     transfers and then returns, throws or aborts: six requested flag sets, under a try body and at top level
	for _, df := range []int{0, 1, 4, 8, 5, 15} {
		for variant := 0; variant < 12 && !broken; variant++ {
			var eff *c04Node
			switch r.intn(4) {
			case 3:
				eff = &c04Node{Op: "skip"} // allowed under any flags: tells a frame that runs from one that must not
			case 0:
				eff = &c04Node{Op: "notify", V: r.intn(10)}
			case 1:
				eff = &c04Node{Op: "put", K: r.intn(c04NKeys), V: 1 + r.intn(9)}
			default:
				eff = &c04Node{Op: "move", C: r.intn(c04NAcc), V: 1}
			}
			cal := []*c04Node{eff}
			switch variant % 3 {
			case 1:
				cal = append(cal, &c04Node{Op: "throw"})
			case 2:
				cal = append(cal, &c04Node{Op: "abort", V: r.intn(3)})
			}
			var dbody *c04Node = &c04Node{Op: "call", C: 1 + r.intn(2), Flags: 15, Body: c04SeqOf(cal)}
			if r.chance(25) {
				dbody = c04SeqOf([]*c04Node{dbody, {Op: "throw"}})
			}
			dyn := &c04Node{Op: "dyn", Flags: df, Body: dbody}
			var inner *c04Node = dyn
			if variant%6 < 3 {
				inner = &c04Node{Op: "try", Body: dyn, Catch: &c04Node{Op: "notify", V: 9}}
			}
			if r.chance(20) { // LoadScript straight from the entry script
				runOps([]*c04Node{{Op: "try", Body: dyn, Catch: &c04Node{Op: "skip"}}})
				continue
			}
			if cf := pick(r, []int{15, 15, 14, 4, 12, 6, 5}); cf != 15 { // the loading frame itself has restricted flags
				runOps([]*c04Node{{Op: "try", Body: &c04Node{Op: "call", C: 0, Flags: cf, Body: inner}, Catch: &c04Node{Op: "skip"}}})
				continue
			}
			runOps([]*c04Node{{Op: "try", Body: &c04Node{Op: "call", C: 0, Flags: 15, Body: c04SeqOf([]*c04Node{{Op: "notify", V: 1}, inner, {Op: "notifyval", K: 0}})}, Catch: &c04Node{Op: "skip"}}})
		}
	}
	// 4. block position: several transactions on the one reused VM, earlier ones ending in every way
	for i := 0; i < n/4 && !broken; i++ {
		if ncase++; ncase%400 == 0 {
			fresh()
		}
		cur := p.a.observe()
		if top, need := c04TopUp(cur); need {
			if err := p.setupMode(cur, top, false); err != nil {
				broken = true
				co.violation("block", "set-up transaction could not be applied: "+err.Error(), c04BlockInput{Pre: cur}, nil)
				break
			}
			cur = p.a.observe()
		}
		in := c04BlockInput{Pre: cur}
		for k, nk := 0, 1+r.intn(3); k < nk; k++ {
			in.Ops = append(in.Ops, c04GenEnder(r))
		}
		in.Ops = append(in.Ops, c04GenLater(r))
		for k := range in.Ops { // two or three different payers in one block; call forms mixed
			in.Ops[k].Snd = r.intn(1 + c04NSenders)
			for _, o := range in.Ops[k].Ops {
				c04Tokenize(r, o, false, pick(r, []int{0, 50, 100}))
			}
		}
		func() {
			defer func() {
				if x := recover(); x != nil && !broken {
					broken = true
					co.violation("block", fmt.Sprintf("the replica chains could not be driven further: %v", x), in, nil)
				}
			}()
			p.runBlock(co, in)
		}()
	}
	return co.finish()
}
