package main

// C03, sub-command "c03drop" (kind "mdrop"): blocks REJECTED after their MPT batch was applied, followed by a DIFFERENT
// block accepted at that height — stateroot.Module driven the way Blockchain.storeBlock drives it (private cache layer
// over the store, MapToMPTBatch of the block's storage changes, AddMPTBatch, then either everything is dropped without
// UpdateCurrentLocal or the layer is persisted and UpdateCurrentLocal called), in every trie mode, on key sets that give
// every shape of in-memory root: a branch, an EXTENSION (all keys share their first nibble, as on a chain with native
// contracts only), a single leaf below an extension, the empty trie, and a hash node (module re-initialised from the
// store, as after a restart).  After every accepted block, for every stored root: root = root of a fresh trie built from
// the flat model of that height, whole content (FindStates, SeekStates), GetState, GetStateProof + VerifyProof for every
// model pair; keys that only rejected blocks wrote must be absent and unprovable.  Coq: CHistory (content recurrence over
// the ACCEPTED blocks only, on what the trie at the stored root holds).

import (
	"bytes"
	"encoding/json"
	"errors"
	"fmt"

	"github.com/nspcc-dev/neo-go/pkg/config"
	"github.com/nspcc-dev/neo-go/pkg/core/mpt"
	"github.com/nspcc-dev/neo-go/pkg/core/stateroot"
	"github.com/nspcc-dev/neo-go/pkg/core/storage"
	"github.com/nspcc-dev/neo-go/pkg/util"
	"go.uber.org/zap"
)

func init() { register("c03drop", runC03Drop) }

type c03DropEv struct {
	T  string      `json:"t"`            // "block" (accepted) | "drop" (batch applied, block refused) | "restart" (module re-initialised from the store)
	KV [][2]string `json:"kv,omitempty"` // [trie key hex (contract id ++ key), value hex | "-"]
}

type c03DropInput struct {
	Mode  string      `json:"mode"`  // "all" | "latest" | "gc"
	Shape string      `json:"shape"` // how the key pool was chosen (tag only)
	Ops   []c03DropEv `json:"ops"`
}

func c03RunDrop(co *caseOut, in c03DropInput) {
	kind := "mdrop"
	failed := false
	viol := func(note string, impl any) {
		if !failed {
			failed = true
			co.violation(kind, note, in, impl)
		}
	}
	cfg := config.Blockchain{}
	switch in.Mode {
	case "all":
	case "latest":
		cfg.KeepOnlyLatestState = true
	case "gc":
		cfg.RemoveUntraceableBlocks = true
	default:
		co.add(kind, "malformed", false, in, nil, "CHistory [] []")
		return
	}
	store := storage.NewMemCachedStore(storage.NewMemoryStore())
	newMod := func(height uint32) (*stateroot.Module, string) {
		m := stateroot.NewModule(cfg, nil, zap.NewNop(), store)
		var err error
		if p := catch(func() { err = m.Init(height) }); p != "" {
			return nil, "panic: " + p
		}
		if err != nil {
			return nil, err.Error()
		}
		return m, ""
	}
	mod, em := newMod(0)
	if em != "" {
		viol("Module.Init: "+em, nil)
		return
	}
	models := []map[string][]byte{{}} // models[h]: contract storage after block h (h = 0: nothing yet)
	roots := []util.Uint256{{}}
	rejectedOnly := map[string]bool{} // keys that only refused blocks wrote
	var coqBlocks []string
	vals := &c03Vals{m: map[string]int{}}
	drops, afterDrop, restarts, windowReads := 0, 0, 0, 0
	pendingDrop := false

	parse := func(kv [][2]string) (batch map[string][]byte, seq [][2][]byte) {
		batch = map[string][]byte{}
		for _, p := range kv {
			k := unhx(p[0])
			if len(k) == 0 {
				continue
			}
			var v []byte
			if p[1] != "-" {
				v = unhx(p[1])
				if v == nil {
					v = []byte{}
				}
			}
			batch[string(append([]byte{byte(storage.STStorage)}, k...))] = v
		}
		for k, v := range batch {
			seq = append(seq, [2][]byte{[]byte(k[1:]), v})
		}
		return
	}
	freshRoot := func(m map[string][]byte) util.Uint256 {
		t := mpt.NewTrie(nil, mpt.ModeAll, storage.NewMemCachedStore(storage.NewMemoryStore()))
		for _, kv := range c03Sorted(m) {
			if err := t.Put(kv.K, kv.V); err != nil {
				panic(err)
			}
		}
		return t.StateRoot()
	}
	// phase "": after a block was finalised; "pending": INSIDE the window between AddMPTBatch(h+1) and UpdateCurrentLocal /
	// the refusal (storeBlock: header state-root check, lock waits, PersistPrivate); "dropped": after a refused block.
	// In every phase the reads at every stored root answer from the contract storage of that height alone; pend = the
	// changes of the batch that is applied but not finalised (its keys are probed as well: changed and deleted ones must
	// read the committed value, added ones must be absent and unprovable).
	check := func(evi int, phase string, pend [][2][]byte) []c03KV {
		n := len(roots) - 1
		var latest []c03KV
		viol := func(note string, impl any) {
			switch phase {
			case "pending":
				note = "while the next block's MPT batch is applied but not finalised: " + note
			case "dropped":
				note = "after a block was refused with its MPT batch applied: " + note
			}
			viol(note, impl)
		}
		windowReads++
		for h := 1; h <= n && !failed; h++ {
			if in.Mode == "latest" && h != n {
				continue
			}
			at := func(m map[string]any) map[string]any {
				m["height"], m["event"], m["latest"] = h, evi, h == n
				if phase != "" {
					m["phase"] = phase
				}
				return m
			}
			want := c03Sorted(models[h])
			if fr := freshRoot(models[h]); !fr.Equals(roots[h]) {
				viol("the state root stored for a height is not the root of the contract storage after that block",
					at(map[string]any{"stored": roots[h].StringLE(), "root_of_storage": fr.StringLE()}))
				break
			}
			if len(want) == 0 {
				continue
			}
			var kvs []storage.KeyValue
			var err error
			if p := catch(func() { kvs, err = mod.FindStates(roots[h], []byte{}, nil, 1<<20) }); p != "" || err != nil {
				viol("reading the trie at a stored root fails", at(map[string]any{"error": fmt.Sprint(p, err)}))
				break
			}
			var got []c03KV
			for _, kv := range kvs {
				got = append(got, c03KV{kv.Key, kv.Value})
			}
			if !c03EqKVs(got, want) {
				viol("the trie at the stored root does not hold exactly the contract storage of that height",
					at(map[string]any{"got": c03ShowKVs(got), "want": c03ShowKVs(want)}))
				break
			}
			if h == n {
				latest = got
			}
			var seek []c03KV
			if p := catch(func() {
				mod.SeekStates(roots[h], []byte{}, func(k, v []byte) bool {
					seek = append(seek, c03KV{bytes.Clone(k), bytes.Clone(v)})
					return true
				})
			}); p != "" || !c03EqKVs(seek, want) {
				viol("SeekStates at the stored root differs from the contract storage of that height", at(map[string]any{"panic": p}))
				break
			}
			for _, kv := range want {
				var v []byte
				var proof [][]byte
				var e1, e2 error
				p := catch(func() {
					v, e1 = mod.GetState(roots[h], kv.K)
					proof, e2 = mod.GetStateProof(roots[h], kv.K)
				})
				if p != "" || e1 != nil || !bytes.Equal(v, kv.V) {
					viol("GetState at the stored root does not return the stored value", at(map[string]any{"key": hx(kv.K), "error": fmt.Sprint(p, e1)}))
					break
				}
				if in.Mode != "latest" || h == n {
					pv, ok := []byte(nil), false
					if e2 == nil {
						if p2 := catch(func() { pv, ok = mpt.VerifyProof(roots[h], kv.K, proof) }); p2 != "" {
							e2 = fmt.Errorf("panic: %s", p2)
						}
					}
					if e2 != nil || !ok || !bytes.Equal(pv, kv.V) {
						viol("a stored key has no proof that verifies to the stored value at the stored root", at(map[string]any{"key": hx(kv.K), "error": fmt.Sprint(e2)}))
						break
					}
				}
			}
			// FindStates with every range shape over the keys of this height and of the pending batch
			var probe [][]byte
			for _, kv := range want {
				probe = append(probe, kv.K)
			}
			for _, c := range pend {
				probe = append(probe, c[0])
			}
			type fq struct {
				prefix, start []byte
				max           int
			}
			var fqs []fq
			for i, k := range probe {
				if len(probe) > 6 && i%(len(probe)/6+1) != 0 && i < len(want) {
					continue
				}
				for pl := 0; pl <= len(k); pl++ {
					fqs = append(fqs, fq{k[:pl], nil, 1000}, fq{k[:pl], []byte{}, 2}, fq{k[:pl], k[pl:], 1000})
					if pl < len(k) {
						s := bytes.Clone(k[pl:])
						s[len(s)-1]--
						fqs = append(fqs, fq{k[:pl], s, 1}, fq{k[:pl], s[:len(s)-1], 3})
					}
				}
			}
			if len(fqs) > 80 {
				fqs = fqs[:80]
			}
			for _, q := range fqs {
				var kvs []storage.KeyValue
				var err error
				if p := catch(func() { kvs, err = mod.FindStates(roots[h], q.prefix, q.start, q.max) }); p != "" || (err != nil && !errors.Is(err, mpt.ErrNotFound)) {
					viol("FindStates fails at a stored root", at(map[string]any{"prefix": hx(q.prefix), "start": hx(q.start), "error": fmt.Sprint(p, err)}))
					break
				}
				var wq, gq []c03KV
				for _, kv := range want {
					if bytes.HasPrefix(kv.K, q.prefix) && (q.start == nil || bytes.Compare(kv.K[len(q.prefix):], q.start) > 0) {
						wq = append(wq, kv)
					}
				}
				if len(wq) > q.max {
					wq = wq[:q.max]
				}
				for _, kv := range kvs {
					gq = append(gq, c03KV{kv.Key, kv.Value})
				}
				if !c03EqKVs(gq, wq) {
					viol("FindStates at a stored root differs from the range query on the contract storage of that height",
						at(map[string]any{"prefix": hx(q.prefix), "start": hx(q.start), "start_nil": q.start == nil, "max": q.max, "got": c03ShowKVs(gq), "want": c03ShowKVs(wq)}))
					break
				}
			}
			absent := map[string]bool{}
			for k := range rejectedOnly {
				absent[k] = true
			}
			for _, c := range pend {
				absent[string(c[0])] = true
			}
			for k := range absent {
				if _, ok := models[h][k]; ok || failed {
					continue
				}
				v, err := mod.GetState(roots[h], []byte(k))
				if err == nil {
					viol("a key that only a refused / not yet finalised block wrote is readable at a stored root", at(map[string]any{"key": hx([]byte(k)), "value": hx(v)}))
					break
				}
				if proof, err := mod.GetStateProof(roots[h], []byte(k)); err == nil {
					if pv, ok := mpt.VerifyProof(roots[h], []byte(k), proof); ok {
						viol("a key that only a refused / not yet finalised block wrote has a verifying proof at a stored root", at(map[string]any{"key": hx([]byte(k)), "value": hx(pv)}))
						break
					}
				}
			}
		}
		return latest
	}

	for evi, ev := range in.Ops {
		if failed {
			break
		}
		n := len(roots) - 1
		switch ev.T {
		case "restart":
			if len(models[n]) == 0 {
				// Module.Init opens an all-zero root as a hash node and the next batch fails with "key not found"; a chain's
				// state is never empty (native contracts), so this corner is observed, not claimed: no restart on an empty trie
				continue
			}
			m2, em := newMod(uint32(n))
			if em != "" {
				viol("the module does not re-initialise from the store: "+em, map[string]any{"height": n})
				break
			}
			mod = m2
			restarts++
			pendingDrop = false
		case "block", "drop":
			batch, seq := parse(ev.KV)
			if len(batch) == 0 {
				continue
			}
			idx := uint32(n + 1)
			var root util.Uint256
			p := catch(func() {
				cache := storage.NewPrivateMemCachedStore(store)
				t2, sr, err := mod.AddMPTBatch(idx, mpt.MapToMPTBatch(batch), cache)
				if err != nil {
					panic("AddMPTBatch failed: " + err.Error())
				}
				root = sr.Root
				// the window: the batch of idx is applied on the private layer, nothing is finalised
				if n >= 1 {
					check(evi, "pending", seq)
				}
				if ev.T == "drop" || failed {
					return
				}
				if _, err := cache.Persist(); err != nil {
					panic(err)
				}
				t2.Store = store
				mod.UpdateCurrentLocal(t2, sr)
			})
			if p != "" {
				note := "applying a block's MPT batch fails"
				if pendingDrop {
					note = "applying the MPT batch of the block that follows a refused block fails"
				}
				viol(note, map[string]any{"event": evi, "height": idx, "panic": p})
				break
			}
			if ev.T == "drop" {
				drops++
				pendingDrop = true
				for _, c := range seq {
					if c[1] != nil {
						if _, ok := models[n][string(c[0])]; !ok {
							rejectedOnly[string(c[0])] = true
						}
					}
				}
				if n >= 1 {
					check(evi, "dropped", seq)
				}
				continue
			}
			if failed {
				break
			}
			next := map[string][]byte{}
			for k, v := range models[n] {
				next[k] = v
			}
			for _, c := range seq {
				if c[1] == nil {
					delete(next, string(c[0]))
				} else {
					next[string(c[0])] = c[1]
					delete(rejectedOnly, string(c[0]))
				}
			}
			models = append(models, next)
			roots = append(roots, root)
			if pendingDrop {
				afterDrop++
				pendingDrop = false
			}
			latest := check(evi, "", nil)
			if failed {
				break
			}
			coqBlocks = append(coqBlocks, fmt.Sprintf("(%s, %s)", c03CoqChanges(vals, seq), c03CoqKVs(vals, latest)))
		}
	}
	tag := in.Mode + "/" + in.Shape
	if restarts > 0 {
		tag += "+restart"
	}
	co.add(kind, tag, afterDrop > 0, in, map[string]any{"blocks": len(roots) - 1, "refused": drops, "accepted_after_refused": afterDrop, "read_batteries": windowReads},
		fmt.Sprintf("CHistory [] %s", coqList(coqBlocks)))
}

func c03GenDrop(r *rng, mode, shape string) c03DropInput {
	in := c03DropInput{Mode: mode, Shape: shape}
	native := [][]byte{{0xfb, 0xff, 0xff, 0xff}, {0xfa, 0xff, 0xff, 0xff}, {0xf5, 0xff, 0xff, 0xff}}
	deployed := [][]byte{{0x01, 0x00, 0x00, 0x00}, {0x02, 0x00, 0x00, 0x00}}
	var ids [][]byte
	switch shape {
	case "ext", "leaf", "empty":
		ids = native // every key starts with nibble F: the root is an extension
	default:
		ids = append(append([][]byte{}, native...), deployed...) // first nibbles 0 and F: the root is a branch
	}
	tails := [][]byte{{0x14}, {0x14, 0x01}, {0x14, 0x02}, {0x0b}, {0x0b, 0xaa, 0xbb}, {0x17}, {}, {0x61, 0x62}}
	key := func() string { return hx(append(bytes.Clone(pick(r, ids)), pick(r, tails)...)) }
	val := func() string { return hx(pick(r, [][]byte{{1}, {2}, []byte("v"), {}, {0xde, 0xad}})) }
	live := map[string]bool{}
	kvs := func(n int, newOnly bool) [][2]string {
		var out [][2]string
		seen := map[string]bool{}
		for i := 0; i < n*3 && len(out) < n; i++ {
			k := key()
			if seen[k] || (newOnly && live[k]) {
				continue
			}
			seen[k] = true
			if live[k] && r.chance(30) {
				out = append(out, [2]string{k, "-"})
			} else {
				out = append(out, [2]string{k, val()})
			}
		}
		return out
	}
	accept := func(kv [][2]string) {
		in.Ops = append(in.Ops, c03DropEv{T: "block", KV: kv})
		for _, p := range kv {
			live[p[0]] = p[1] != "-"
		}
	}
	switch shape {
	case "empty":
		// a refused block on the empty trie comes first
		in.Ops = append(in.Ops, c03DropEv{T: "drop", KV: kvs(1+r.intn(3), false)})
		accept(kvs(1+r.intn(2), false))
	case "leaf":
		accept([][2]string{{key(), val()}}) // one key: an extension above a single leaf
	default:
		accept(kvs(2+r.intn(4), false))
	}
	for b, nb := 0, 3+r.intn(5); b < nb; b++ {
		if r.chance(20) {
			in.Ops = append(in.Ops, c03DropEv{T: "restart"})
		}
		if r.chance(65) {
			// refused blocks write keys the next accepted block does not touch (otherwise re-applying hides the leak)
			for d, nd := 0, 1+r.intn(2); d < nd; d++ {
				in.Ops = append(in.Ops, c03DropEv{T: "drop", KV: kvs(1+r.intn(3), r.chance(70))})
			}
		}
		n := 1 + r.intn(3)
		if shape == "leaf" && r.chance(60) {
			n = 1
		}
		accept(kvs(n, false))
		if shape == "empty" && b == 1 {
			// delete everything, refuse a block on the empty trie again, go on
			var all [][2]string
			for k, ok := range live {
				if ok {
					all = append(all, [2]string{k, "-"})
				}
			}
			if len(all) > 0 {
				accept(all)
				in.Ops = append(in.Ops, c03DropEv{T: "drop", KV: kvs(2, false)})
			}
		}
	}
	return in
}

func runC03Drop(args []string) error {
	cf, fs := parseCommon("c03drop", args)
	fs.Parse(args)
	co := newCaseOut(cf.out, "Harness.C03", "N",
		"stateroot.Module driven as storeBlock drives it, trie modes all/latest/gc, key pools giving a branch root, an extension root (native ids only), "+
			"one leaf below an extension, the empty trie; 4-9 accepted blocks with refused blocks (AddMPTBatch applied, nothing finalised) before 65% of them, writing "+
			"keys the accepted block does not touch, module restarts (hash-node root) in between; non-trivial when a block was accepted right after a refused one; distinct by Coq term")
	co.shard = 150
	if cf.replay != "" {
		cases, err := readReplay(cf.replay)
		if err != nil {
			return err
		}
		for _, c := range cases {
			var x struct {
				Kind  string       `json:"kind"`
				Input c03DropInput `json:"input"`
			}
			if err := json.Unmarshal(c, &x); err != nil {
				return err
			}
			c03RunDrop(co, x.Input)
		}
		return co.finish()
	}
	r := newRng(cf.seed)
	for i := 0; i < cf.n; i++ {
		for _, mode := range []string{"all", "latest", "gc"} {
			for _, shape := range []string{"ext", "branch", "leaf", "empty"} {
				c03RunDrop(co, c03GenDrop(r, mode, shape))
			}
		}
	}
	return co.finish()
}
