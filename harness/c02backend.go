package main

// C02, atomicity of ONE change set INSIDE the persistent backend.  The crash enumeration of the other kinds treats
// every batch handed to the lower store as atomic; here the backends themselves are examined: every durable state a
// BoltDBStore / LevelDBStore goes through while PutChangeSet runs is observed, deterministically:
//
//   bbolt    every read-write transaction reports "Committing transaction N successfully" to the database's logger
//            AFTER the meta page is synced and the writer lock is released, on the committing goroutine itself.  The
//            store copies bbolt.DefaultOptions when it opens, so the harness installs its logger there for the time of
//            the open.  In the callback the file is quiescent (the only writer is inside the callback): the state is
//            classified by point reads and, when it holds a part of the change set, the file is copied - an exact
//            crash image.  Cross-check: the transaction id (VerifDB -> View -> Tx.ID) moves by the number of commits.
//   leveldb  every write (DB.Write, OpenTransaction) needs DB.writeLockC, a channel of capacity one: blocked senders
//            are served in FIFO order.  The harness holds the lock through its own (empty) transaction, the goroutine
//            that runs PutChangeSet parks at its acquisition (runtime.Stack), a second holder is queued BEHIND it, the
//            first holder lets go: the writer runs exactly until it releases the lock, then the queued holder owns it
//            and the writer parks at its next acquisition, if there is one.  Each stop is a durable state between two
//            backend commits.
//
// A state must hold nothing or everything of the change set.  Error path: a PutChangeSet that returns an error must
// leave nothing behind and the store must stay usable (bbolt: a key bbolt refuses, somewhere in a large change set;
// both: a file system without space - a small tmpfs - with space freed afterwards).

import (
	"bytes"
	"encoding/binary"
	"errors"
	"fmt"
	"io"
	"os"
	"os/exec"
	"path/filepath"
	"runtime"
	"sort"
	"strconv"
	"strings"
	"sync"
	"syscall"
	"time"

	"github.com/nspcc-dev/bbolt"
	"github.com/nspcc-dev/neo-go/pkg/core/storage"
	"github.com/nspcc-dev/neo-go/pkg/core/storage/dbconfig"
	"github.com/syndtr/goleveldb/leveldb"
)

// ---------------------------------------------------------------------------------------------
// bbolt: the logger

type c02BoltLog struct {
	mu       sync.Mutex
	onCommit func(txid int)
	onFail   func(msg string)
	seen     int // successful read-write commits seen so far (all of them)
}

const c02BoltCommitFmt = "Committing transaction %d successfully"

func (l *c02BoltLog) Debugf(f string, v ...any) {
	if f != c02BoltCommitFmt || len(v) != 1 {
		return
	}
	id, _ := v[0].(int)
	l.mu.Lock()
	l.seen++
	cb := l.onCommit
	l.mu.Unlock()
	if cb != nil {
		cb(id)
	}
}
func (l *c02BoltLog) Errorf(f string, v ...any) {
	l.mu.Lock()
	cb := l.onFail
	l.mu.Unlock()
	if cb != nil {
		cb(fmt.Sprintf(f, v...))
	}
}
func (l *c02BoltLog) Debug(...any)            {}
func (l *c02BoltLog) Error(...any)            {}
func (l *c02BoltLog) Info(...any)             {}
func (l *c02BoltLog) Infof(string, ...any)    {}
func (l *c02BoltLog) Warning(...any)          {}
func (l *c02BoltLog) Warningf(string, ...any) {}
func (l *c02BoltLog) Fatal(v ...any)          { panic(fmt.Sprint(v...)) }
func (l *c02BoltLog) Fatalf(f string, v ...any) {
	panic(fmt.Sprintf(f, v...))
}
func (l *c02BoltLog) Panic(v ...any)            { panic(fmt.Sprint(v...)) }
func (l *c02BoltLog) Panicf(f string, v ...any) { panic(fmt.Sprintf(f, v...)) }

var (
	c02BoltOpenMu sync.Mutex
	c02BoltLogs   sync.Map // *storage.BoltDBStore -> *c02BoltLog
)

// c02OpenBolt opens a BoltDBStore whose database reports to a logger of the harness.
func c02OpenBolt(path string) (*storage.BoltDBStore, error) {
	c02BoltOpenMu.Lock()
	defer c02BoltOpenMu.Unlock()
	lg := &c02BoltLog{}
	old := bbolt.DefaultOptions.Logger
	bbolt.DefaultOptions.Logger = lg
	st, err := storage.NewBoltDBStore(dbconfig.BoltDBOptions{FilePath: path})
	bbolt.DefaultOptions.Logger = old
	if err != nil {
		return nil, err
	}
	if st.VerifDB().Logger() != bbolt.Logger(lg) {
		st.Close()
		return nil, errors.New("infrastructure: the bbolt database does not use the harness's logger")
	}
	c02BoltLogs.Store(st, lg)
	return st, nil
}

func c02BoltTxID(db *bbolt.DB) int {
	id := -1
	_ = db.View(func(tx *bbolt.Tx) error { id = tx.ID(); return nil })
	return id
}

// ---------------------------------------------------------------------------------------------
// classification of a state against a change set

type c02CS struct {
	Mem, Stor map[string][]byte
	Pre       map[string][]byte // value of every key of the change set before it (nil = absent)
	eff       int               // keys whose value the change set changes
}

func c02NewCS(st storage.Store, mem, stor map[string][]byte) *c02CS {
	cs := &c02CS{Mem: mem, Stor: stor, Pre: make(map[string][]byte, len(mem)+len(stor))}
	for _, m := range []map[string][]byte{mem, stor} {
		for k, nv := range m {
			ov, err := st.Get([]byte(k))
			if err != nil {
				ov = nil
			}
			cs.Pre[k] = ov
			if !c02SameVal(ov, nv) {
				cs.eff++
			}
		}
	}
	return cs
}

// nil and absent are the same thing; an empty value is a value
func c02SameVal(a, b []byte) bool {
	if a == nil || b == nil {
		return a == nil && b == nil
	}
	return bytes.Equal(a, b)
}

type c02CSState struct {
	Applied int    `json:"applied"` // keys that hold the new value
	Pending int    `json:"pending"` // keys that still hold the old value
	Other   int    `json:"other"`   // neither
	Class   string `json:"class"`   // none | all | torn
	Ex      string `json:"ex,omitempty"`
}

func (cs *c02CS) classify(get func(k []byte) ([]byte, error)) c02CSState {
	var r c02CSState
	var exA, exP string
	for _, m := range []map[string][]byte{cs.Mem, cs.Stor} {
		for k, nv := range m {
			ov := cs.Pre[k]
			if c02SameVal(ov, nv) {
				continue
			}
			cur, err := get([]byte(k))
			if err != nil {
				cur = nil
			}
			switch {
			case c02SameVal(cur, nv):
				r.Applied++
				if exA == "" || k < exA {
					exA = k
				}
			case c02SameVal(cur, ov):
				r.Pending++
				if exP == "" || k < exP {
					exP = k
				}
			default:
				r.Other++
			}
		}
	}
	switch {
	case r.Applied == 0 && r.Other == 0:
		r.Class = "none"
	case r.Pending == 0 && r.Other == 0:
		r.Class = "all"
	default:
		r.Class = "torn"
		r.Ex = fmt.Sprintf("applied e.g. %x, not applied e.g. %x", c02Trunc(exA), c02Trunc(exP))
	}
	return r
}

func c02Trunc(s string) string {
	if len(s) > 12 {
		return s[:12]
	}
	return s
}

// ---------------------------------------------------------------------------------------------
// the observed PutChangeSet

// c02Durable: one durable state seen while a PutChangeSet ran (never the state before it).
type c02Durable struct {
	Seq   int        `json:"seq"` // 1, 2, ...: after the Seq-th backend commit
	Last  bool       `json:"last"` // the state PutChangeSet returned with
	State c02CSState `json:"state"`
	// a torn state: the image (bbolt: a copy of the database file; leveldb: the content)
	File string            `json:"-"`
	Dump map[string][]byte `json:"-"`
}

type c02PutObs struct {
	Backend string       `json:"backend"`
	Commits int          `json:"commits"` // backend commits (bbolt: transactions committed; leveldb: acquisitions of the write lock)
	TxDelta int          `json:"txid_delta,omitempty"`
	States  []c02Durable `json:"states"`
	Err     string       `json:"err,omitempty"`
	LockHeld bool        `json:"lock_held,omitempty"` // leveldb: PutChangeSet has returned and the write lock is still taken
}

const c02MaxImages = 3 // torn images kept per PutChangeSet

func (o *c02PutObs) torn() []c02Durable {
	var r []c02Durable
	for _, s := range o.States {
		if s.State.Class == "torn" {
			r = append(r, s)
		}
	}
	return r
}

func (o *c02PutObs) dropImages() {
	for _, s := range o.States {
		if s.File != "" {
			os.Remove(s.File)
		}
	}
}

// c02ObservedPut runs st.PutChangeSet(mem, stor) and reports every durable state it went through.  Stores that are
// not persistent backends are written plainly (obs == nil).
func c02ObservedPut(st storage.Store, mem, stor map[string][]byte) (obs *c02PutObs, err error) {
	switch b := st.(type) {
	case *storage.BoltDBStore:
		return c02ObservedPutBolt(b, mem, stor)
	case *storage.LevelDBStore:
		return c02ObservedPutLevelDB(b, mem, stor)
	}
	return nil, st.PutChangeSet(mem, stor)
}

func c02ObservedPutBolt(st *storage.BoltDBStore, mem, stor map[string][]byte) (*c02PutObs, error) {
	v, ok := c02BoltLogs.Load(st)
	if !ok {
		return nil, st.PutChangeSet(mem, stor)
	}
	lg := v.(*c02BoltLog)
	db := st.VerifDB()
	cs := c02NewCS(st, mem, stor)
	obs := &c02PutObs{Backend: "bolt"}
	id0 := c02BoltTxID(db)
	images := 0
	lg.mu.Lock()
	lg.onCommit = func(txid int) {
		// on the committing goroutine, after the commit is durable and the writer lock is released: nobody writes
		d := c02Durable{Seq: len(obs.States) + 1, State: cs.classify(st.Get)}
		if d.State.Class == "torn" && images < c02MaxImages {
			images++
			f := filepath.Join(filepath.Dir(db.Path()), fmt.Sprintf("image-%d-%d.bolt", txid, d.Seq))
			if c02CopyFile(db.Path(), f) == nil {
				d.File = f
			}
		}
		obs.States = append(obs.States, d)
	}
	lg.mu.Unlock()
	err := st.PutChangeSet(mem, stor)
	lg.mu.Lock()
	lg.onCommit = nil
	lg.mu.Unlock()
	obs.Commits = len(obs.States)
	obs.TxDelta = c02BoltTxID(db) - id0
	if err != nil {
		obs.Err = err.Error()
		// whatever is there now is what the failed call left behind
		obs.States = append(obs.States, c02Durable{Seq: len(obs.States) + 1, Last: true, State: cs.classify(st.Get)})
	} else if n := len(obs.States); n > 0 {
		obs.States[n-1].Last = true
	}
	return obs, err
}

func c02CopyFile(from, to string) error {
	in, err := os.Open(from)
	if err != nil {
		return err
	}
	defer in.Close()
	out, err := os.Create(to)
	if err != nil {
		return err
	}
	if _, err = io.Copy(out, in); err != nil {
		out.Close()
		return err
	}
	return out.Close()
}

// ---------------------------------------------------------------------------------------------
// leveldb: stepping the write lock

//go:noinline
func c02LdbHolder(db *leveldb.DB, got chan *leveldb.Transaction, rel chan struct{}) {
	tr, err := db.OpenTransaction()
	if err != nil {
		got <- nil
		return
	}
	got <- tr
	<-rel
	tr.Discard()
}

//go:noinline
func c02LdbWriter(f func() error, res chan error) { res <- f() }

// c02GoAt: state and innermost frames of the goroutines whose stack contains marker; ok(state, top) selects
func c02GoAt(marker string, ok func(state, top string) bool) (state, top string, found bool) {
	n := runtime.Stack(c02StackBuf, true)
	for _, gr := range strings.Split(string(c02StackBuf[:n]), "\n\n") {
		hdr, body, _ := strings.Cut(gr, "\n")
		if !strings.Contains(body, marker) || strings.Contains(body, "main.c02GoAt") {
			continue
		}
		_, st, _ := strings.Cut(hdr, " [")
		st = strings.TrimSuffix(st, "]:")
		if i := strings.IndexByte(st, ','); i >= 0 {
			st = st[:i]
		}
		lines := strings.SplitN(body, "\n", 7)
		if len(lines) > 6 {
			lines = lines[:6]
		}
		tp := strings.Join(lines, "|")
		if ok == nil || ok(st, tp) {
			return st, tp, true
		}
	}
	return "", "", false
}

func c02ObservedPutLevelDB(st *storage.LevelDBStore, mem, stor map[string][]byte) (*c02PutObs, error) {
	db := st.VerifDB()
	cs := c02NewCS(st, mem, stor)
	obs := &c02PutObs{Backend: "leveldb"}
	deadline := time.Now().Add(c02GateWait)
	poll := func(cond func() bool, what string) error {
		for !cond() {
			if time.Now().After(deadline) {
				return fmt.Errorf("infrastructure: leveldb stepping: %s did not happen within %s", what, c02GateWait)
			}
			runtime.Gosched()
			time.Sleep(50 * time.Microsecond) // polling interval only; the observed states decide
		}
		return nil
	}
	hold := func() (chan *leveldb.Transaction, chan struct{}) {
		got, rel := make(chan *leveldb.Transaction, 1), make(chan struct{})
		go c02LdbHolder(db, got, rel)
		return got, rel
	}
	got, rel := hold()
	var tr *leveldb.Transaction
	select {
	case tr = <-got:
	case <-time.After(c02GateWait):
		return nil, errors.New("infrastructure: leveldb stepping: the write lock could not be taken")
	}
	if tr == nil {
		// the database refuses transactions (closed, persistent error): nothing to step
		close(rel)
		err := st.PutChangeSet(mem, stor)
		if err != nil {
			obs.Err = err.Error()
		}
		obs.States = append(obs.States, c02Durable{Seq: 1, Last: true, State: cs.classify(st.Get)})
		return obs, err
	}
	release := func() { close(rel) }
	res := make(chan error, 1)
	go c02LdbWriter(func() error { return st.PutChangeSet(mem, stor) }, res)
	images := 0
	for k := 0; ; k++ {
		finished := false
		var werr error
		last, stable := "", 0
		if err := poll(func() bool {
			select {
			case werr = <-res:
				finished = true
				return true
			default:
			}
			state, top, found := c02GoAt("main.c02LdbWriter", nil)
			parked := found && (state == "select" || state == "chan send") && strings.Contains(top, "goleveldb/leveldb.(*DB)")
			if parked && top == last {
				stable++
			} else if parked {
				stable = 1
			} else {
				stable = 0
			}
			last = top
			return stable >= 2
		}, "the next acquisition of the write lock (or the end of PutChangeSet)"); err != nil {
			release()
			return obs, err
		}
		if k > 0 || finished {
			d := c02Durable{Seq: len(obs.States) + 1, Last: finished, State: cs.classify(st.Get)}
			if d.State.Class == "torn" && images < c02MaxImages {
				images++
				d.Dump = c02Dump(st)
			}
			obs.States = append(obs.States, d)
		}
		if finished {
			release()
			obs.Commits = k
			if werr != nil {
				obs.Err = werr.Error()
			}
			return obs, werr
		}
		got2, rel2 := hold()
		if err := poll(func() bool {
			_, _, found := c02GoAt("main.c02LdbHolder", func(state, top string) bool {
				return (state == "select" || state == "chan send") && strings.Contains(top, "OpenTransaction")
			})
			return found
		}, "queueing the next holder behind the writer"); err != nil {
			release()
			return obs, err
		}
		release()
		select {
		case tr = <-got2:
		case werr := <-res:
			// PutChangeSet has returned; it released the lock before that, or it never will
			obs.Commits = k + 1
			if werr != nil {
				obs.Err = werr.Error()
			}
			select {
			case tr = <-got2:
				if tr != nil {
					close(rel2)
				}
			case <-time.After(5 * time.Second):
				obs.LockHeld = true // the holder stays queued for ever
			}
			obs.States = append(obs.States, c02Durable{Seq: len(obs.States) + 1, Last: true, State: cs.classify(st.Get)})
			return obs, werr
		case <-time.After(c02GateWait):
			return obs, errors.New("infrastructure: leveldb stepping: the queued holder did not get the write lock")
		}
		if tr == nil {
			// the database broke meanwhile: let the writer finish on its own
			werr := <-res
			obs.Commits = k + 1
			if werr != nil {
				obs.Err = werr.Error()
			}
			obs.States = append(obs.States, c02Durable{Seq: len(obs.States) + 1, Last: true, State: cs.classify(st.Get)})
			return obs, werr
		}
		release = func() { close(rel2) }
	}
}

// ---------------------------------------------------------------------------------------------
// kind "backend": generated change sets on a store with content

type c02BackendIn struct {
	Backend string `json:"backend"` // bolt | leveldb
	Seed    uint64 `json:"seed"`
	Pre     int    `json:"pre"`  // keys in the store before
	Mem     int    `json:"mem"`  // keys of the first map
	Stor    int    `json:"stor"` // keys of the second map
	ValMax  int    `json:"valmax"`
	Fault   string `json:"fault,omitempty"` // "" | badkey (bbolt refuses one key of the change set) | nospace (the file system is full)
}

// c02GenKV: content in the shape of a node's database: trie nodes, blocks, transactions (first map), contract
// storage (second map)
func c02GenCS(r *rng, pre map[string][]byte, nmem, nstor, valmax int) (mem, stor map[string][]byte) {
	mem, stor = make(map[string][]byte, nmem), make(map[string][]byte, nstor)
	var preMem, preStor []string
	for k := range pre {
		if c02IsStor(k) {
			preStor = append(preStor, k)
		} else {
			preMem = append(preMem, k)
		}
	}
	sort.Strings(preMem)
	sort.Strings(preStor)
	gen := func(m map[string][]byte, n int, old []string, mk func() string) {
		for len(m) < n {
			var k string
			c := r.intn(100)
			if c < 30 && len(old) > 0 {
				k = old[r.intn(len(old))]
			} else {
				k = mk()
			}
			if c < 10 || (c >= 30 && c < 33) {
				m[k] = nil // deletion (of an old key, or of a key that is not there)
			} else {
				m[k] = r.bytes(1 + r.intn(valmax))
			}
		}
	}
	gen(mem, nmem, preMem, func() string {
		switch r.intn(4) {
		case 0:
			return string(append([]byte{byte(storage.DataExecutable)}, r.bytes(32)...))
		case 1:
			return string(append([]byte{byte(storage.STNEP17Transfers)}, r.bytes(28)...))
		}
		return string(append([]byte{byte(storage.DataMPT)}, r.bytes(32)...))
	})
	gen(stor, nstor, preStor, func() string {
		id := make([]byte, 4)
		binary.LittleEndian.PutUint32(id, uint32(int32(-1-r.intn(11))))
		return string(append(append([]byte{byte(storage.STStorage)}, id...), r.bytes(1+r.intn(40))...))
	})
	return
}

func c02ApplyCS(d map[string][]byte, mem, stor map[string][]byte) {
	for _, m := range []map[string][]byte{mem, stor} {
		for k, v := range m {
			if v == nil {
				delete(d, k)
			} else {
				d[k] = v
			}
		}
	}
}

// a small tmpfs (fault "nospace")
func c02MountTmpfs(mb int) (dir string, err error) {
	dir, err = os.MkdirTemp("", "nghx-c02-full-")
	if err != nil {
		return "", err
	}
	if out, err := exec.Command("mount", "-t", "tmpfs", "-o", "size="+strconv.Itoa(mb)+"m", "tmpfs", dir).CombinedOutput(); err != nil {
		os.Remove(dir)
		return "", fmt.Errorf("mount tmpfs: %v %s", err, out)
	}
	return dir, nil
}

func c02UmountTmpfs(dir string) {
	done := false
	for i := 0; i < 10 && !done; i++ {
		if exec.Command("umount", dir).Run() == nil {
			done = true
		} else {
			time.Sleep(20 * time.Millisecond)
		}
	}
	if !done {
		// a store that hangs (a finding) keeps its files open: detach the file system, it goes away with the process
		_ = exec.Command("umount", "-l", dir).Run()
	}
	os.RemoveAll(dir)
}

func c02OpenBackend(kind, dir string) (storage.Store, error) {
	switch kind {
	case "bolt":
		return c02OpenBolt(filepath.Join(dir, "db.bolt"))
	case "leveldb":
		return storage.NewLevelDBStore(dbconfig.LevelDBOptions{DataDirectoryPath: filepath.Join(dir, "ldb")})
	}
	return nil, fmt.Errorf("unknown persistent backend %q", kind)
}

// c02WithTimeout: a store call that may hang (that is a finding, not a harness failure)
func c02WithTimeout(d time.Duration, f func() error) (err error, hung bool) {
	res := make(chan error, 1)
	go func() { res <- f() }()
	select {
	case err = <-res:
		return err, false
	case <-time.After(d):
		return nil, true
	}
}

const c02HangWait = 6 * time.Second

func c02RunBackend(co *caseOut, in c02BackendIn) error {
	viol := func(class, note string) {
		co.violation("backend", fmt.Sprintf("backend/%s %s: %s", class, in.Backend, note), in, map[string]any{"class": class})
	}
	r := newRng(in.Seed)
	var dir string
	var err error
	full := in.Fault == "nospace"
	if full {
		if dir, err = c02MountTmpfs(24); err != nil {
			co.add("backend", in.Backend+"/nospace/unavailable", false, in, map[string]any{"skipped": err.Error()}, "")
			return nil
		}
		defer c02UmountTmpfs(dir)
	} else {
		if dir, err = os.MkdirTemp(c02TmpRoot(), "c02-backend-"); err != nil {
			return err
		}
		defer os.RemoveAll(dir)
	}
	st, err := c02OpenBackend(in.Backend, dir)
	if err != nil {
		return err
	}
	closed := false
	defer func() {
		if !closed {
			_ = c02Try(func() { st.Close() })
		}
	}()
	// content before: several change sets of its own
	want := map[string][]byte{}
	for len(want) < in.Pre {
		m, s := c02GenCS(r, want, min(in.Pre/3+1, 4000), min(in.Pre/3+1, 4000), in.ValMax)
		if err := st.PutChangeSet(m, s); err != nil {
			return fmt.Errorf("filling the store: %w", err)
		}
		c02ApplyCS(want, m, s)
	}
	mem, stor := c02GenCS(r, want, in.Mem, in.Stor, in.ValMax)
	bytesCS := 0
	for _, m := range []map[string][]byte{mem, stor} {
		for k, v := range m {
			bytesCS += len(k) + len(v)
		}
	}
	switch in.Fault {
	case "badkey":
		// a key bbolt refuses (longer than its MaxKeySize), among all the others of the first or the second map
		bad := string(append([]byte{byte(storage.DataMPT)}, r.bytes(bbolt.MaxKeySize+8)...))
		if r.bool() {
			mem[bad] = []byte{1}
		} else {
			stor[bad] = []byte{1}
		}
	case "nospace":
		// fill the file system up to a remainder smaller than the change set
		var fs syscallStatfs
		if err := fs.stat(dir); err != nil {
			return err
		}
		leave := int64(bytesCS / 4)
		fill := fs.free - leave
		if fill > 0 {
			f, err := os.Create(filepath.Join(dir, "ballast"))
			if err != nil {
				return err
			}
			buf := bytes.Repeat([]byte{0xa5}, 1<<16)
			for fill > 0 {
				n := int64(len(buf))
				if n > fill {
					n = fill
				}
				if _, err := f.Write(buf[:n]); err != nil {
					break
				}
				fill -= n
			}
			f.Close()
		}
	}
	var obs *c02PutObs
	var perr error
	_, hung := c02WithTimeout(c02GateWait+c02HangWait, func() error {
		obs, perr = c02ObservedPut(st, mem, stor)
		return nil
	})
	if hung {
		viol("put-hangs", "PutChangeSet did not return")
		closed = true // do not touch the store any more
		return nil
	}
	if obs == nil {
		return errors.New("infrastructure: the backend was not observed")
	}
	defer obs.dropImages()
	if perr != nil && strings.HasPrefix(perr.Error(), "infrastructure:") {
		return perr
	}
	impl := map[string]any{"obs": obs, "bytes": bytesCS, "effective": obsEff(mem, stor, want)}
	// every durable state: nothing or everything
	for _, d := range obs.States {
		if d.State.Class == "torn" {
			how := "the content"
			if d.File != "" {
				how = "a copy of the database file"
				// the image is a database of its own: it must open and hold the same torn content
				if img, err := c02OpenBolt(d.File); err == nil {
					cs := &c02CS{Mem: mem, Stor: stor, Pre: map[string][]byte{}}
					for _, m := range []map[string][]byte{mem, stor} {
						for k := range m {
							cs.Pre[k] = want[k]
						}
					}
					s2 := cs.classify(img.Get)
					how += fmt.Sprintf(" (re-opened: %d applied, %d not)", s2.Applied, s2.Pending)
					img.Close()
				}
			}
			viol("torn-change-set", fmt.Sprintf("after backend commit %d of a PutChangeSet of %d+%d keys the database durably holds %d changed keys of the change set and lacks %d (%s); image: %s",
				d.Seq, len(mem), len(stor), d.State.Applied, d.State.Pending, d.State.Ex, how))
			break
		}
	}
	tag := fmt.Sprintf("%s/keys%s", in.Backend, c02SizeClass(len(mem)+len(stor)))
	counts := []string{}
	for _, d := range obs.States {
		counts = append(counts, strconv.Itoa(d.State.Applied))
	}
	eff := obsEff(mem, stor, want)
	if in.Fault == "" {
		if perr != nil {
			viol("put-fails", perr.Error())
			return nil
		}
		if in.Backend == "bolt" && obs.TxDelta != obs.Commits {
			return fmt.Errorf("infrastructure: bbolt transaction id moved by %d, the logger saw %d commits", obs.TxDelta, obs.Commits)
		}
		c02ApplyCS(want, mem, stor)
		if n, ex := c02DiffDumps(c02Dump(st), want, nil); n > 0 {
			viol("wrong-content", fmt.Sprintf("after PutChangeSet the store differs from the expected content in %d keys: %v", n, ex))
		}
		// the state survives closing and re-opening
		st.Close()
		closed = true
		st2, err := c02OpenBackend(in.Backend, dir)
		if err != nil {
			viol("reopen-fails", err.Error())
		} else {
			if n, ex := c02DiffDumps(c02Dump(st2), want, nil); n > 0 {
				viol("wrong-content-reopened", fmt.Sprintf("%d keys: %v", n, ex))
			}
			st2.Close()
		}
		co.add("backend", tag, len(mem)+len(stor) >= 2000, in, impl,
			fmt.Sprintf("CBackend false %d %s", eff, coqList(counts)))
		return nil
	}
	// error path
	tag += "/" + in.Fault
	if perr == nil {
		// the fault did not bite (enough space after all): an ordinary case
		co.add("backend", tag+"/no-error", false, in, impl, fmt.Sprintf("CBackend false %d %s", eff, coqList(counts)))
		return nil
	}
	if in.Fault == "nospace" {
		os.Remove(filepath.Join(dir, "ballast"))
	}
	// nothing of the change set is there (point reads; a full scan follows after the next write)
	lastState := obs.States[len(obs.States)-1].State
	if lastState.Class != "none" {
		viol("failed-put-leaves-data", fmt.Sprintf("PutChangeSet returned %q, yet the database holds %d changed keys of the change set (%s)", c02Short(perr.Error()), lastState.Applied, lastState.Ex))
	}
	// the store stays usable: the next change set goes through
	m2, s2 := c02GenCS(r, want, 40, 40, in.ValMax)
	err2, hung := c02WithTimeout(c02HangWait, func() error { return st.PutChangeSet(m2, s2) })
	switch {
	case hung:
		viol("store-hangs-after-failed-put", fmt.Sprintf("PutChangeSet returned %q; with the cause removed, the next PutChangeSet (80 keys) did not return within %s", c02Short(perr.Error()), c02HangWait))
		closed = true
		impl["next_put"] = "hangs"
		co.add("backend", tag+"/error", true, in, impl, fmt.Sprintf("CBackend true %d %s", eff, coqList(counts)))
		return nil
	case err2 != nil:
		viol("store-broken-after-failed-put", fmt.Sprintf("PutChangeSet returned %q; with the cause removed, the next PutChangeSet fails too: %s", c02Short(perr.Error()), c02Short(err2.Error())))
	default:
		c02ApplyCS(want, m2, s2)
		if n, ex := c02DiffDumps(c02Dump(st), want, nil); n > 0 {
			viol("failed-put-leaves-data", fmt.Sprintf("after the failed PutChangeSet and one more change set the store differs from the expected content in %d keys: %v", n, ex))
		}
		st.Close()
		closed = true
		st2, err := c02OpenBackend(in.Backend, dir)
		if err != nil {
			viol("reopen-fails", err.Error())
		} else {
			if n, ex := c02DiffDumps(c02Dump(st2), want, nil); n > 0 {
				viol("failed-put-leaves-data", fmt.Sprintf("re-opened: %d keys differ: %v", n, ex))
			}
			st2.Close()
		}
	}
	impl["put_error"] = c02Short(perr.Error())
	co.add("backend", tag+"/error", true, in, impl, fmt.Sprintf("CBackend true %d %s", eff, coqList(counts)))
	return nil
}

func obsEff(mem, stor, pre map[string][]byte) int {
	n := 0
	for _, m := range []map[string][]byte{mem, stor} {
		for k, v := range m {
			if !c02SameVal(pre[k], v) {
				n++
			}
		}
	}
	return n
}

func c02SizeClass(n int) string {
	switch {
	case n < 500:
		return "<500"
	case n < 5000:
		return "<5k"
	case n < 20000:
		return "<20k"
	case n < 50000:
		return "<50k"
	}
	return ">=50k"
}

type syscallStatfs struct{ free int64 }

func (s *syscallStatfs) stat(dir string) error {
	var fs syscall.Statfs_t
	if err := syscall.Statfs(dir, &fs); err != nil {
		return err
	}
	s.free = int64(fs.Bavail) * int64(fs.Bsize)
	return nil
}

// c02GenBackend: for both backends a realistic and a LARGE change set (a reset / state jump / fast synchronisation
// flushes tens of thousands of keys at once) and the error paths; thorough: more sizes, larger values
func c02GenBackend(r *rng, thorough bool) []c02BackendIn {
	var out []c02BackendIn
	for _, be := range []string{"bolt", "leveldb"} {
		sizes := [][2]int{{300 + r.intn(3000), 200 + r.intn(2000)}, {12000 + r.intn(14000), 8000 + r.intn(9000)}}
		if thorough {
			sizes = append(sizes, [2]int{1 + r.intn(40), r.intn(40)}, [2]int{40000 + r.intn(30000), 25000 + r.intn(20000)},
				[2]int{5000 + r.intn(5000), 0}, [2]int{0, 5000 + r.intn(5000)})
		}
		for _, sz := range sizes {
			out = append(out, c02BackendIn{Backend: be, Seed: r.next(), Pre: 2000 + r.intn(6000), Mem: sz[0], Stor: sz[1], ValMax: 60 + r.intn(200)})
		}
		if be == "bolt" {
			out = append(out, c02BackendIn{Backend: be, Seed: r.next(), Pre: 3000, Mem: 6000 + r.intn(6000), Stor: 4000 + r.intn(4000), ValMax: 100, Fault: "badkey"})
		}
		// no space: once with a change set larger than leveldb's write buffer (the failure comes while the keys are
		// put), once with a smaller one (it comes at the commit)
		out = append(out, c02BackendIn{Backend: be, Seed: r.next(), Pre: 3000, Mem: 16000, Stor: 12000, ValMax: 400, Fault: "nospace"})
		out = append(out, c02BackendIn{Backend: be, Seed: r.next(), Pre: 3000, Mem: 6000, Stor: 4000, ValMax: 300, Fault: "nospace"})
	}
	return out
}

// ---------------------------------------------------------------------------------------------
// node-level: torn durable states seen while the backend applied a flush of the node

func c02TornNote(t c02TornFlush) string {
	return fmt.Sprintf("while the backend applied the flush that became batch %d it went through a durable state (after its commit %d of %d) that holds %d changed keys of the flush and lacks %d (%s): a power loss there leaves batches [0,%d) and a part of batch %d",
		t.NB, t.Seq, t.Of, t.State.Applied, t.State.Pending, t.State.Ex, t.NB, t.NB)
}

// c02ReportTorn: every such state is a violation by itself; reopen (may be nil) additionally opens a node on the
// image and checks it like a crash prefix
func c02ReportTorn(rec *c02Rec, viol c02Viol, reopen func(t c02TornFlush, vb c02Batch, vv c02Viol)) {
	seen := map[int]bool{}
	for _, t := range rec.torn {
		if seen[t.NB] {
			continue // one image per flush
		}
		seen[t.NB] = true
		viol("torn-flush", c02TornNote(t), t.NB)
		if reopen != nil && t.Dump != nil {
			t := t
			vb := c02Batch{Kind: "put", Mem: t.Dump, Stor: map[string][]byte{}, Height: t.Height}
			reopen(t, vb, func(class, note string, k int) {
				viol("torn-flush-"+class, fmt.Sprintf("a power loss after backend commit %d of %d of the flush that became batch %d: %s", t.Seq, t.Of, t.NB, note), k)
			})
		}
	}
}
