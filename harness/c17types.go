package main

// C17: the explicit table of serialisable types reached by the check: for each a generator of values, a fresh
// decode target, the identity (hash) and the reported size where the type has one, and whether a JSON form exists.

import (
	"bytes"
	"encoding/json"
	"fmt"
	"math/big"
	"net"
	"reflect"
	"strings"
	"time"

	"github.com/nspcc-dev/neo-go/pkg/config/netmode"
	"github.com/nspcc-dev/neo-go/pkg/consensus"
	"github.com/nspcc-dev/neo-go/pkg/core/block"
	"github.com/nspcc-dev/neo-go/pkg/core/mpt"
	"github.com/nspcc-dev/neo-go/pkg/core/state"
	"github.com/nspcc-dev/neo-go/pkg/core/transaction"
	"github.com/nspcc-dev/neo-go/pkg/crypto/keys"
	"github.com/nspcc-dev/neo-go/pkg/encoding/fixedn"
	"github.com/nspcc-dev/neo-go/pkg/io"
	"github.com/nspcc-dev/neo-go/pkg/network"
	"github.com/nspcc-dev/neo-go/pkg/network/capability"
	"github.com/nspcc-dev/neo-go/pkg/network/payload"
	"github.com/nspcc-dev/neo-go/pkg/smartcontract"
	"github.com/nspcc-dev/neo-go/pkg/smartcontract/manifest"
	"github.com/nspcc-dev/neo-go/pkg/smartcontract/nef"
	"github.com/nspcc-dev/neo-go/pkg/smartcontract/trigger"
	"github.com/nspcc-dev/neo-go/pkg/util"
	"github.com/nspcc-dev/neo-go/pkg/vm/stackitem"
	"github.com/nspcc-dev/neo-go/pkg/vm/vmstate"
)

// result of one decoder call on arbitrary bytes
type c17Dec struct {
	OK    bool   `json:"ok"`
	Err   string `json:"err,omitempty"`
	Reenc string `json:"reenc,omitempty"` // hex of the re-encoding of the decoded value
	Hash  string `json:"hash,omitempty"`  // identity, hex BE, if the type has one
	Size  int    `json:"size"`            // reported size, -1 if none
	Note  string `json:"note,omitempty"`  // a property violation observed inside the call (re-encoding not a fixpoint, ...)
}

type c17Type struct {
	name  string
	text  bool                           // text (JSON/string) format
	gen   func(r *rng) []byte            // a valid encoding of a generated value
	dec   func(b []byte) c17Dec          // decode, re-encode, identity
	value func(r *rng) (any, func() any) // optional: value + fresh target, for the direct round-trip checks
}

func c17Enc(s io.Serializable) ([]byte, error) {
	w := io.NewBufBinWriter()
	s.EncodeBinary(w.BinWriter)
	if w.Err != nil {
		return nil, w.Err
	}
	return w.Bytes(), nil
}
func c17MustEnc(s io.Serializable) []byte {
	b, err := c17Enc(s)
	if err != nil {
		panic(err)
	}
	return b
}

// generic binary decoder: decode into fresh(), re-encode, decode the re-encoding and compare re-encodings and identities
func c17BinDec(fresh func() io.Serializable, ident func(io.Serializable) (string, int)) func(b []byte) c17Dec {
	return func(b []byte) c17Dec {
		v := fresh()
		r := io.NewBinReaderFromBuf(b)
		v.DecodeBinary(r)
		if r.Err != nil {
			return c17Dec{Err: r.Err.Error(), Size: -1}
		}
		out := c17Dec{OK: true, Size: -1}
		if ident != nil {
			out.Hash, out.Size = ident(v)
		}
		re, err := c17Enc(v)
		if err != nil {
			out.Note = "decoded value cannot be re-encoded: " + err.Error()
			return out
		}
		out.Reenc = hx(re)
		v2 := fresh()
		r2 := io.NewBinReaderFromBuf(re)
		v2.DecodeBinary(r2)
		if r2.Err != nil {
			out.Note = "re-encoding is rejected by the decoder: " + r2.Err.Error()
			return out
		}
		re2, err := c17Enc(v2)
		if err != nil || !bytes.Equal(re, re2) {
			out.Note = "re-encoding is not a fixpoint of decode;encode"
			return out
		}
		if ident != nil {
			h2, s2 := ident(v2)
			if h2 != out.Hash {
				out.Note = fmt.Sprintf("identity depends on the encoding: hash %s from the received bytes, %s from the re-encoding", out.Hash, h2)
			} else if s2 != out.Size {
				out.Note = fmt.Sprintf("identity depends on the encoding: size %d from the received bytes, %d from the re-encoding", out.Size, s2)
			}
		}
		return out
	}
}

func c17TxFromDesc(r *rng) *transaction.Transaction { return c17GenTx(r).build() }

func c17GenBlock(r *rng, sr bool) *block.Block {
	b := &block.Block{Header: *c17GenHeader(r, sr)}
	n := pick(r, []int{0, 1, 2, 3})
	for i := 0; i < n; i++ {
		b.Transactions = append(b.Transactions, c17TxFromDesc(r))
	}
	if b.Transactions == nil {
		b.Transactions = []*transaction.Transaction{}
	}
	b.RebuildMerkleRoot()
	return b
}

func c17GenStackItem(r *rng) stackitem.Item {
	budget := 30
	return c17GenItem(r, 3, &budget).build()
}

func c17Hashes(r *rng, n int) []util.Uint256 {
	out := make([]util.Uint256, n)
	for i := range out {
		copy(out[i][:], r.bytes(32))
	}
	return out
}

func c17GenManifest(r *rng) *manifest.Manifest {
	m := manifest.DefaultManifest("c" + fmt.Sprint(r.intn(1000)))
	m.ABI.Methods = []manifest.Method{{Name: "m", Offset: r.intn(100), ReturnType: smartcontract.IntegerType,
		Parameters: []manifest.Parameter{{Name: "p", Type: smartcontract.ByteArrayType}}, Safe: r.bool()}}
	if r.bool() {
		m.ABI.Events = []manifest.Event{{Name: "e", Parameters: []manifest.Parameter{{Name: "q", Type: smartcontract.Hash160Type}}}}
	}
	if r.bool() {
		m.SupportedStandards = []string{"NEP-17"}
	}
	if r.bool() {
		k := pick(r, c17Keys())
		m.Groups = []manifest.Group{{PublicKey: k, Signature: r.bytes(64)}}
	}
	if r.bool() {
		p := manifest.NewPermission(manifest.PermissionHash, util.Uint160{1, 2, 3})
		p.Methods.Add("a")
		m.Permissions = append(m.Permissions, *p)
	}
	if r.bool() {
		m.Extra = json.RawMessage(`{"a":1}`)
	}
	return m
}

func c17TxIdent(v io.Serializable) (string, int) {
	t := v.(*transaction.Transaction)
	return hx(t.Hash().BytesBE()), t.Size()
}

var c17TypeTable []c17Type

func c17Types() []c17Type {
	if c17TypeTable != nil {
		return c17TypeTable
	}
	bin := func(name string, gen func(r *rng) io.Serializable, fresh func() io.Serializable, ident func(io.Serializable) (string, int)) c17Type {
		return c17Type{name: name,
			gen:   func(r *rng) []byte { return c17MustEnc(gen(r)) },
			dec:   c17BinDec(fresh, ident),
			value: func(r *rng) (any, func() any) { return gen(r), func() any { return fresh() } }}
	}
	tcp := func(r *rng) *net.TCPAddr {
		if r.bool() {
			return &net.TCPAddr{IP: net.IPv4(byte(r.next()), 2, 3, 4), Port: r.intn(65536)}
		}
		return &net.TCPAddr{IP: net.ParseIP("2001:db8::1"), Port: r.intn(65536)}
	}
	caps := func(r *rng) capability.Capabilities {
		c := capability.Capabilities{{Type: capability.TCPServer, Data: &capability.Server{Port: uint16(r.next())}}}
		if r.bool() {
			c = append(c, capability.Capability{Type: capability.FullNode, Data: &capability.Node{StartHeight: uint32(r.next())}})
		}
		if r.bool() {
			c = append(c, capability.Capability{Type: capability.ArchivalNode, Data: &capability.Archival{}})
		}
		return c
	}
	msgSR := func(r *rng) *network.Message { // what a StateRootInHeader network sends: blocks and headers with the root, consensus payloads
		switch r.intn(4) {
		case 0:
			return network.NewMessage(network.CMDBlock, c17GenBlock(r, true))
		case 1:
			return network.NewMessage(network.CMDHeaders, &payload.Headers{Hdrs: []*block.Header{c17GenHeader(r, true), c17GenHeader(r, true)}, StateRootInHeader: true})
		case 2:
			cm := c17GenCons(r, true, r.intn(9), r.chance(20))
			return network.NewMessage(network.CMDExtensible, cm.envelope(c17Keys()[cm.Validator].GetScriptHash(), r.bytes(66), r.bytes(35)))
		default:
			return network.NewMessage(network.CMDTX, c17TxFromDesc(r))
		}
	}
	msg := func(r *rng) *network.Message {
		switch r.intn(12) {
		case 0:
			return network.NewMessage(network.CMDTX, c17TxFromDesc(r))
		case 1:
			return network.NewMessage(network.CMDBlock, c17GenBlock(r, false))
		case 2:
			return network.NewMessage(network.CMDPing, payload.NewPing(uint32(r.next()), uint32(r.next())))
		case 3:
			return network.NewMessage(network.CMDInv, payload.NewInventory(payload.TXType, c17Hashes(r, 1+r.intn(3))))
		case 4:
			return network.NewMessage(network.CMDHeaders, &payload.Headers{Hdrs: []*block.Header{c17GenHeader(r, false), c17GenHeader(r, false)}})
		case 5:
			return network.NewMessage(network.CMDGetBlockByIndex, payload.NewGetBlockByIndex(uint32(r.next()), int16(r.intn(500))))
		case 6:
			return network.NewMessage(network.CMDMPTData, &payload.MPTData{Nodes: [][]byte{r.bytes(1 + r.intn(40)), r.bytes(3)}})
		case 7:
			return network.NewMessage(network.CMDGetMPTData, payload.NewMPTInventory(c17Hashes(r, 1+r.intn(3))))
		case 8:
			return network.NewMessage(network.CMDVersion, payload.NewVersion(netmode.UnitTestNet, uint32(r.next()), "/neo-go:x/", caps(r)))
		case 9:
			al := payload.NewAddressList(2)
			al.Addrs[0] = payload.NewAddressAndTime(tcp(r), time.Unix(int64(r.intn(1<<31)), 0), caps(r))
			al.Addrs[1] = payload.NewAddressAndTime(tcp(r), time.Unix(int64(r.intn(1<<31)), 0), caps(r))
			return network.NewMessage(network.CMDAddr, al)
		case 10:
			return network.NewMessage(network.CMDMPTData, &payload.MPTData{Nodes: [][]byte{bytes.Repeat([]byte{7}, 3000)}}) // compressible
		default:
			return network.NewMessage(network.CMDGetBlocks, payload.NewGetBlocks(c17Hashes(r, 1)[0], int16(r.intn(500))))
		}
	}
	trimmed := func(name string, sr bool) c17Type {
		return c17Type{name: name, gen: func(r *rng) []byte {
			w := io.NewBufBinWriter()
			c17GenBlock(r, sr).EncodeTrimmed(w.BinWriter)
			return w.Bytes()
		}, dec: func(b []byte) c17Dec {
			blk, err := block.NewTrimmedFromReader(sr, io.NewBinReaderFromBuf(b))
			if err != nil {
				return c17Dec{Err: err.Error(), Size: -1}
			}
			w := io.NewBufBinWriter()
			blk.EncodeTrimmed(w.BinWriter)
			re := w.Bytes()
			out := c17Dec{OK: true, Hash: hx(blk.Hash().BytesBE()), Size: -1, Reenc: hx(re)}
			blk2, err := block.NewTrimmedFromReader(sr, io.NewBinReaderFromBuf(re))
			if err != nil {
				out.Note = "re-encoding is rejected by the decoder: " + err.Error()
			} else if blk2.Hash() != blk.Hash() {
				out.Note = "identity depends on the encoding"
			}
			return out
		}}
	}
	p2p := func(name string, sr bool, msg func(r *rng) *network.Message) c17Type {
		return c17Type{name: name, gen: func(r *rng) []byte {
			m := msg(r)
			var b []byte
			var err error
			if r.bool() {
				b, err = m.BytesCompressed(true)
			} else {
				b, err = m.Bytes()
			}
			if err != nil {
				panic(err)
			}
			return b
		}, dec: func(b []byte) c17Dec {
			m := &network.Message{StateRootInHeader: sr}
			if err := m.Decode(io.NewBinReaderFromBuf(b)); err != nil {
				return c17Dec{Err: err.Error(), Size: -1}
			}
			out := c17Dec{OK: true, Size: -1}
			// the frame is compared in its UNCOMPRESSED form: lz4 block compression is not canonical (the library
			// reuses pooled hash tables, the same payload was seen to compress to 3914 and to 3915 bytes), and the
			// compressed form is not part of any identity; the compressed re-encoding must still decode to the same frame
			re, err := m.BytesCompressed(false)
			if err != nil {
				out.Note = "decoded message cannot be re-encoded: " + err.Error()
				return out
			}
			re = bytes.Clone(re)
			out.Reenc = hx(re)
			m2 := &network.Message{StateRootInHeader: sr}
			if err := m2.Decode(io.NewBinReaderFromBuf(re)); err != nil {
				out.Note = "re-encoding is rejected by the decoder: " + err.Error()
				return out
			}
			re2, err := m2.BytesCompressed(false)
			if err != nil || !bytes.Equal(re, re2) {
				out.Note = "re-encoding is not a fixpoint of decode;encode"
			}
			if rc, err := m.Bytes(); err != nil {
				out.Note = "decoded message cannot be re-encoded with compression: " + err.Error()
			} else {
				m3 := &network.Message{StateRootInHeader: sr}
				if err := m3.Decode(io.NewBinReaderFromBuf(rc)); err != nil {
					out.Note = "re-encoding is rejected by the decoder: " + err.Error()
				} else if re3, err := m3.BytesCompressed(false); err != nil || !bytes.Equal(re, re3) {
					out.Note = "compressed re-encoding decodes to another frame"
				}
			}
			if t1, ok := m.Payload.(*transaction.Transaction); ok {
				if t2 := m2.Payload.(*transaction.Transaction); t1.Hash() != t2.Hash() || t1.Size() != t2.Size() {
					out.Note = fmt.Sprintf("identity depends on the encoding: tx hash/size %s/%d from the received message, %s/%d from the re-encoding", hx(t1.Hash().BytesBE()), t1.Size(), hx(t2.Hash().BytesBE()), t2.Size())
				}
			}
			return out
		}}
	}
	// consensus payloads. Re-encoding writes the RECEIVED data back (Payload keeps it), so the generic laws see the envelope
	// only; on top of them the message is re-encoded FROM ITS FIELDS and must be a fixpoint of decode;encode under the
	// same configuration (for every accepted input; equality with the input holds for well-formed ones: kind cfgwire)
	consType := func(name string, sr bool) c17Type {
		fresh := func() io.Serializable { return consensus.NewPayload(c17Magic, sr) }
		base := c17BinDec(fresh, func(v io.Serializable) (string, int) { return hx(v.(*consensus.Payload).Hash().BytesBE()), -1 })
		return c17Type{name: name, gen: func(r *rng) []byte {
			cm := c17GenCons(r, sr, r.intn(9), r.chance(20))
			return c17MustEnc(cm.envelope(c17Keys()[cm.Validator].GetScriptHash(), r.bytes(66), r.bytes(35)))
		}, dec: func(b []byte) c17Dec {
			out := base(b)
			if !out.OK || out.Note != "" {
				return out
			}
			p, err := c17DecodeCons(b, sr)
			if err != nil {
				out.Note = "second decoding of the same bytes fails: " + err.Error()
				return out
			}
			f1, err := c17ReencodeCons(p)
			if err != nil {
				out.Note = "decoded message cannot be re-encoded from its fields: " + err.Error()
				return out
			}
			p2, err := c17DecodeCons(f1, sr)
			if err != nil {
				out.Note = "the message re-encoded from its fields is rejected by the decoder: " + err.Error()
				return out
			}
			if f2, err := c17ReencodeCons(p2); err != nil || !bytes.Equal(f1, f2) {
				out.Note = "re-encoding the message from its fields is not a fixpoint of decode;encode"
			}
			return out
		}}
	}
	mptNode := func(r *rng) io.Serializable {
		switch r.intn(4) {
		case 0:
			b := mpt.NewBranchNode()
			for i := 0; i < 17; i++ {
				if r.chance(30) {
					b.Children[i] = mpt.NewHashNode(c17Hashes(r, 1)[0])
				}
			}
			return &mpt.NodeObject{Node: b}
		case 1:
			return &mpt.NodeObject{Node: mpt.NewExtensionNode(r.bytes(1 + r.intn(6))[:], mpt.NewHashNode(c17Hashes(r, 1)[0]))}
		case 2:
			return &mpt.NodeObject{Node: mpt.NewLeafNode(r.bytes(r.intn(40)))}
		default:
			return &mpt.NodeObject{Node: mpt.NewHashNode(c17Hashes(r, 1)[0])}
		}
	}
	nibbles := func(b []byte) []byte {
		for i := range b {
			b[i] &= 0x0f
		}
		return b
	}
	_ = nibbles
	t := []c17Type{
		{name: "tx/bytes", gen: func(r *rng) []byte { return c17TxFromDesc(r).Bytes() },
			dec: func(b []byte) c17Dec {
				tx, err := transaction.NewTransactionFromBytes(b)
				if err != nil {
					return c17Dec{Err: err.Error(), Size: -1}
				}
				out := c17Dec{OK: true, Hash: hx(tx.Hash().BytesBE()), Size: tx.Size()}
				re := tx.Bytes()
				out.Reenc = hx(re)
				tx2, err := transaction.NewTransactionFromBytes(re)
				if err != nil {
					out.Note = "re-encoding is rejected by the decoder: " + err.Error()
					return out
				}
				if !bytes.Equal(tx2.Bytes(), re) {
					out.Note = "re-encoding is not a fixpoint of decode;encode"
				} else if tx2.Hash() != tx.Hash() {
					out.Note = "identity depends on the encoding: hash " + out.Hash + " from the received bytes, " + hx(tx2.Hash().BytesBE()) + " from the re-encoding"
				} else if tx2.Size() != tx.Size() {
					out.Note = fmt.Sprintf("identity depends on the encoding: size %d from the received bytes, %d from the re-encoding", tx.Size(), tx2.Size())
				}
				return out
			}},
		bin("tx/stream", func(r *rng) io.Serializable { return c17TxFromDesc(r) }, func() io.Serializable { return &transaction.Transaction{} }, c17TxIdent),
		bin("signer", func(r *rng) io.Serializable { s := c17GenSigner(r, 0).build(); return &s }, func() io.Serializable { return &transaction.Signer{} }, nil),
		bin("witness", func(r *rng) io.Serializable {
			return &transaction.Witness{InvocationScript: r.bytes(pick(r, []int{0, 1, 66, 252, 253, 1024})), VerificationScript: r.bytes(pick(r, []int{0, 35, 1024}))}
		}, func() io.Serializable { return &transaction.Witness{} }, nil),
		bin("rule", func(r *rng) io.Serializable {
			return &transaction.WitnessRule{Action: transaction.WitnessAction(r.intn(2)), Condition: c17GenCond(r, 3).build()}
		}, func() io.Serializable { return &transaction.WitnessRule{} }, nil),
		{name: "cond", gen: func(r *rng) []byte {
			w := io.NewBufBinWriter()
			c17GenCond(r, 3).build().EncodeBinary(w.BinWriter)
			return w.Bytes()
		}, dec: func(b []byte) c17Dec {
			r := io.NewBinReaderFromBuf(b)
			c := transaction.DecodeBinaryCondition(r)
			if r.Err != nil {
				return c17Dec{Err: r.Err.Error(), Size: -1}
			}
			w := io.NewBufBinWriter()
			c.EncodeBinary(w.BinWriter)
			re := w.Bytes()
			out := c17Dec{OK: true, Size: -1, Reenc: hx(re)}
			r2 := io.NewBinReaderFromBuf(re)
			c2 := transaction.DecodeBinaryCondition(r2)
			if r2.Err != nil {
				out.Note = "re-encoding is rejected by the decoder: " + r2.Err.Error()
				return out
			}
			w2 := io.NewBufBinWriter()
			c2.EncodeBinary(w2.BinWriter)
			if !bytes.Equal(re, w2.Bytes()) {
				out.Note = "re-encoding is not a fixpoint of decode;encode"
			}
			return out
		}},
		bin("attr", func(r *rng) io.Serializable { a, _ := c17GenAttr(r, map[byte]bool{}); v := a.build(); return &v }, func() io.Serializable { return &transaction.Attribute{} }, nil),
		bin("header", func(r *rng) io.Serializable { return c17GenHeader(r, false) }, func() io.Serializable { return &block.Header{} },
			func(v io.Serializable) (string, int) { return hx(v.(*block.Header).Hash().BytesBE()), -1 }),
		bin("header/sr", func(r *rng) io.Serializable { return c17GenHeader(r, true) }, func() io.Serializable { return &block.Header{StateRootEnabled: true} },
			func(v io.Serializable) (string, int) { return hx(v.(*block.Header).Hash().BytesBE()), -1 }),
		bin("block", func(r *rng) io.Serializable { return c17GenBlock(r, false) }, func() io.Serializable { return block.New(false) },
			func(v io.Serializable) (string, int) {
				b := v.(*block.Block)
				return hx(b.Hash().BytesBE()), b.GetExpectedBlockSize()
			}),
		bin("block/sr", func(r *rng) io.Serializable { return c17GenBlock(r, true) }, func() io.Serializable { return block.New(true) },
			func(v io.Serializable) (string, int) {
				b := v.(*block.Block)
				return hx(b.Hash().BytesBE()), b.GetExpectedBlockSize()
			}),
		trimmed("block/trimmed", false), trimmed("block/trimmed/sr", true),
		bin("extensible", func(r *rng) io.Serializable {
			e := &payload.Extensible{Category: pick(r, []string{"dBFT", "StateService", "", strings.Repeat("c", 32)}), ValidBlockStart: uint32(r.next()), ValidBlockEnd: uint32(r.next()),
				Data: r.bytes(pick(r, []int{0, 1, 252, 253, 1000})), Witness: transaction.Witness{InvocationScript: r.bytes(66), VerificationScript: r.bytes(35)}}
			copy(e.Sender[:], r.bytes(20))
			return e
		}, func() io.Serializable { return payload.NewExtensible() },
			func(v io.Serializable) (string, int) { return hx(v.(*payload.Extensible).Hash().BytesBE()), -1 }),
		consType("consensus", false), consType("consensus/sr", true),
		bin("notaryrequest", func(r *rng) io.Serializable {
			main := c17TxFromDesc(r)
			if len(main.Signers) > 15 {
				main.Signers, main.Scripts = main.Signers[:2], main.Scripts[:2]
			}
			main.Attributes = append(main.Attributes[:0:0], transaction.Attribute{Type: transaction.NotaryAssistedT, Value: &transaction.NotaryAssisted{NKeys: 1 + byte(r.intn(3))}})
			fb := c17TxFromDesc(r)
			s0, s1 := c17GenSigner(r, 0).build(), c17GenSigner(r, 1).build()
			fb.Signers = []transaction.Signer{s0, s1}
			fb.Scripts = []transaction.Witness{{InvocationScript: append([]byte{0x0c, 64}, r.bytes(64)...), VerificationScript: []byte{}},
				{InvocationScript: r.bytes(66), VerificationScript: r.bytes(35)}}
			fb.ValidUntilBlock = main.ValidUntilBlock
			fb.Attributes = []transaction.Attribute{{Type: transaction.NotValidBeforeT, Value: &transaction.NotValidBefore{Height: uint32(r.intn(1000))}},
				{Type: transaction.ConflictsT, Value: &transaction.Conflicts{Hash: main.Hash()}},
				{Type: transaction.NotaryAssistedT, Value: &transaction.NotaryAssisted{NKeys: 0}}}
			return &payload.P2PNotaryRequest{MainTransaction: main, FallbackTransaction: fb,
				Witness: transaction.Witness{InvocationScript: r.bytes(66), VerificationScript: r.bytes(35)}}
		}, func() io.Serializable { return &payload.P2PNotaryRequest{} },
			func(v io.Serializable) (string, int) { return hx(v.(*payload.P2PNotaryRequest).Hash().BytesBE()), -1 }),
		bin("version", func(r *rng) io.Serializable {
			return payload.NewVersion(netmode.Magic(r.next()), uint32(r.next()), pick(r, []string{"", "/neo-go:0.1/", strings.Repeat("u", 1024)}), caps(r))
		},
			func() io.Serializable { return &payload.Version{} }, nil),
		bin("addr", func(r *rng) io.Serializable {
			return payload.NewAddressAndTime(tcp(r), time.Unix(int64(r.intn(1<<31)), 0), caps(r))
		},
			func() io.Serializable { return &payload.AddressAndTime{} }, nil),
		bin("addrlist", func(r *rng) io.Serializable {
			al := payload.NewAddressList(1 + r.intn(3))
			for i := range al.Addrs {
				al.Addrs[i] = payload.NewAddressAndTime(tcp(r), time.Unix(int64(r.intn(1<<31)), 0), caps(r))
			}
			return al
		}, func() io.Serializable { return &payload.AddressList{} }, nil),
		bin("getblockbyindex", func(r *rng) io.Serializable {
			return payload.NewGetBlockByIndex(uint32(r.next()), int16(pick(r, []int{-1, 1, 500})))
		},
			func() io.Serializable { return &payload.GetBlockByIndex{} }, nil),
		bin("getblocks", func(r *rng) io.Serializable {
			return payload.NewGetBlocks(c17Hashes(r, 1)[0], int16(pick(r, []int{-1, 1, 500})))
		},
			func() io.Serializable { return &payload.GetBlocks{} }, nil),
		bin("headers", func(r *rng) io.Serializable {
			h := &payload.Headers{}
			for i, n := 0, 1+r.intn(3); i < n; i++ {
				h.Hdrs = append(h.Hdrs, c17GenHeader(r, false))
			}
			return h
		}, func() io.Serializable { return &payload.Headers{} }, nil),
		bin("inventory", func(r *rng) io.Serializable {
			return payload.NewInventory(pick(r, []payload.InventoryType{payload.TXType, payload.BlockType, payload.ExtensibleType, payload.P2PNotaryRequestType}), c17Hashes(r, 1+r.intn(4)))
		}, func() io.Serializable { return &payload.Inventory{} }, nil),
		bin("merkleblock", func(r *rng) io.Serializable {
			n := r.intn(10)
			return &payload.MerkleBlock{Header: c17GenHeader(r, false), TxCount: n, Hashes: c17Hashes(r, n), Flags: r.bytes((n + 7) / 8)}
		}, func() io.Serializable { return &payload.MerkleBlock{} }, nil),
		bin("headers/sr", func(r *rng) io.Serializable {
			h := &payload.Headers{StateRootInHeader: true}
			for i, n := 0, 1+r.intn(3); i < n; i++ {
				h.Hdrs = append(h.Hdrs, c17GenHeader(r, true))
			}
			return h
		}, func() io.Serializable { return &payload.Headers{StateRootInHeader: true} }, nil),
		bin("merkleblock/sr", func(r *rng) io.Serializable {
			n := r.intn(10)
			return &payload.MerkleBlock{Header: c17GenHeader(r, true), TxCount: n, Hashes: c17Hashes(r, n), Flags: r.bytes((n + 7) / 8)}
		}, func() io.Serializable { return &payload.MerkleBlock{Header: &block.Header{StateRootEnabled: true}} }, nil),
		bin("mptdata", func(r *rng) io.Serializable {
			return &payload.MPTData{Nodes: [][]byte{r.bytes(1 + r.intn(50)), r.bytes(1)}}
		},
			func() io.Serializable { return &payload.MPTData{} }, nil),
		bin("mptinventory", func(r *rng) io.Serializable { return payload.NewMPTInventory(c17Hashes(r, 1+r.intn(32))) },
			func() io.Serializable { return &payload.MPTInventory{} }, nil),
		bin("ping", func(r *rng) io.Serializable { return payload.NewPing(uint32(r.next()), uint32(r.next())) }, func() io.Serializable { return &payload.Ping{} }, nil),
		p2p("p2pmessage", false, msg), p2p("p2pmessage/sr", true, msgSR),
		bin("mptroot", func(r *rng) io.Serializable {
			s := &state.MPTRoot{Version: byte(r.intn(2)), Index: uint32(r.next()), Root: c17Hashes(r, 1)[0]}
			if r.bool() {
				s.Witness = []transaction.Witness{{InvocationScript: r.bytes(66), VerificationScript: r.bytes(35)}}
			} else {
				s.Witness = []transaction.Witness{}
			}
			return s
		}, func() io.Serializable { return &state.MPTRoot{} },
			func(v io.Serializable) (string, int) { return hx(v.(*state.MPTRoot).Hash().BytesBE()), -1 }),
		bin("mptnode", mptNode, func() io.Serializable { return &mpt.NodeObject{} }, func(v io.Serializable) (string, int) {
			n := v.(*mpt.NodeObject).Node
			if n == nil || n.Type() == mpt.EmptyT || n.Type() == mpt.HashT {
				return "", -1
			}
			return hx(n.Hash().BytesBE()), n.Size() + 1 // Size() does not count the type byte
		}),
		bin("notification", func(r *rng) io.Serializable {
			budget := 12
			arr := stackitem.NewArray([]stackitem.Item{c17GenItem(r, 2, &budget).build(), stackitem.Make(r.intn(100))})
			ne := &state.NotificationEvent{Name: pick(r, []string{"Transfer", "", "e"}), Item: arr}
			copy(ne.ScriptHash[:], r.bytes(20))
			return ne
		}, func() io.Serializable { return &state.NotificationEvent{} }, nil),
		bin("appexec", func(r *rng) io.Serializable {
			budget := 12
			aer := &state.AppExecResult{Container: c17Hashes(r, 1)[0], Execution: state.Execution{Trigger: pick(r, []trigger.Type{trigger.Application, trigger.OnPersist, trigger.PostPersist, trigger.Verification}),
				VMState: pick(r, []vmstate.State{vmstate.Halt, vmstate.Fault}), GasConsumed: int64(r.next() >> 2),
				Stack: []stackitem.Item{c17GenItem(r, 2, &budget).build()}, Events: []state.NotificationEvent{}}}
			if aer.VMState == vmstate.Fault {
				aer.FaultException = "boom"
			}
			if r.bool() {
				ne := state.NotificationEvent{Name: "ev", Item: stackitem.NewArray([]stackitem.Item{stackitem.Make(1)})}
				aer.Events = append(aer.Events, ne)
			}
			return aer
		}, func() io.Serializable { return &state.AppExecResult{} }, nil),
		bin("nep17transfer", func(r *rng) io.Serializable {
			t := &state.NEP17Transfer{Asset: int32(r.next()), Amount: big.NewInt(int64(r.next()) >> uint(r.intn(63))), Block: uint32(r.next()), Timestamp: r.next(), Tx: c17Hashes(r, 1)[0]}
			copy(t.Counterparty[:], r.bytes(20))
			return t
		}, func() io.Serializable { return &state.NEP17Transfer{} }, nil),
		bin("nep11transfer", func(r *rng) io.Serializable {
			t := &state.NEP11Transfer{NEP17Transfer: state.NEP17Transfer{Asset: int32(r.next()), Amount: big.NewInt(int64(r.intn(100))), Block: uint32(r.next()), Timestamp: r.next(), Tx: c17Hashes(r, 1)[0]}, ID: r.bytes(r.intn(40))}
			return t
		}, func() io.Serializable { return &state.NEP11Transfer{} }, nil),
		{name: "nef", gen: func(r *rng) []byte {
			f, err := nef.NewFile(r.bytes(1 + r.intn(60)))
			if err != nil {
				panic(err)
			}
			if r.bool() {
				f.Tokens = []nef.MethodToken{{Hash: util.Uint160{1}, Method: "m", ParamCount: uint16(r.intn(4)), HasReturn: r.bool(), CallFlag: 15}}
			}
			if r.bool() {
				f.Source = "https://example.org/x"
			}
			f.Checksum = f.CalculateChecksum()
			b, err := f.Bytes()
			if err != nil {
				panic(err)
			}
			return b
		}, dec: func(b []byte) c17Dec {
			f, err := nef.FileFromBytes(b)
			if err != nil {
				return c17Dec{Err: err.Error(), Size: -1}
			}
			out := c17Dec{OK: true, Size: -1}
			re, err := f.Bytes()
			if err != nil {
				out.Note = "decoded NEF cannot be re-encoded: " + err.Error()
				return out
			}
			out.Reenc = hx(re)
			f2, err := nef.FileFromBytes(re)
			if err != nil {
				out.Note = "re-encoding is rejected by the decoder: " + err.Error()
				return out
			}
			if re2, err := f2.Bytes(); err != nil || !bytes.Equal(re, re2) {
				out.Note = "re-encoding is not a fixpoint of decode;encode"
			}
			return out
		}},
		bin("pubkey", func(r *rng) io.Serializable { k := *pick(r, c17Keys()); return &k }, func() io.Serializable { return &keys.PublicKey{} }, nil),
		bin("fixed8", func(r *rng) io.Serializable { f := fixedn.Fixed8(r.next()); return &f }, func() io.Serializable { return new(fixedn.Fixed8) }, nil),
		{name: "item", gen: func(r *rng) []byte {
			b, err := stackitem.Serialize(c17GenStackItem(r))
			if err != nil {
				panic(err)
			}
			return b
		}, dec: func(b []byte) c17Dec {
			it, err := stackitem.Deserialize(b)
			if err != nil {
				return c17Dec{Err: err.Error(), Size: -1}
			}
			out := c17Dec{OK: true, Size: -1}
			re, err := stackitem.Serialize(it)
			if err != nil {
				out.Err = "reserialize: " + err.Error() // legitimate when the input exceeded MaxSize; the model decides
				return out
			}
			out.Reenc = hx(re)
			it2, err := stackitem.Deserialize(re)
			if err != nil {
				out.Note = "re-encoding is rejected by the decoder: " + err.Error()
				return out
			}
			if re2, err := stackitem.Serialize(it2); err != nil || !bytes.Equal(re, re2) {
				out.Note = "re-encoding is not a fixpoint of decode;encode"
			} else if !it.Equals(it2) && !c17DeepItemEq(it, it2) {
				out.Note = "value decoded from the re-encoding differs"
			}
			return out
		}},
		{name: "item/protected", gen: func(r *rng) []byte {
			w := io.NewBufBinWriter()
			stackitem.EncodeBinaryProtected(c17GenStackItem(r), w.BinWriter)
			return w.Bytes()
		}, dec: func(b []byte) c17Dec {
			r := io.NewBinReaderFromBuf(b)
			it := stackitem.DecodeBinaryProtected(r)
			if r.Err != nil {
				return c17Dec{Err: r.Err.Error(), Size: -1}
			}
			w := io.NewBufBinWriter()
			stackitem.EncodeBinaryProtected(it, w.BinWriter)
			return c17Dec{OK: true, Size: -1, Reenc: hx(w.Bytes())}
		}},
	}
	t = append(t, c17TextTypes()...)
	c17TypeTable = t
	return t
}

func c17DeepItemEq(a, b stackitem.Item) bool {
	ja, e1 := stackitem.ToJSONWithTypes(a)
	jb, e2 := stackitem.ToJSONWithTypes(b)
	return e1 == nil && e2 == nil && bytes.Equal(ja, jb)
}

func c17TypeByName(name string) *c17Type {
	ts := c17Types()
	for i := range ts {
		if ts[i].name == name {
			return &ts[i]
		}
	}
	return nil
}

// JSON round trip of a value: marshal, unmarshal into a fresh target, marshal again: equal texts
func c17JSONRoundTrip(v any, fresh func() any) string {
	j1, err := json.Marshal(v)
	if err != nil {
		return "" // not every value has a JSON form (e.g. unserialisable items); not a violation
	}
	t := fresh()
	if err := json.Unmarshal(j1, t); err != nil {
		return "JSON form is rejected by UnmarshalJSON: " + err.Error()
	}
	j2, err := json.Marshal(t)
	if err != nil {
		return "value read from JSON cannot be marshalled: " + err.Error()
	}
	if !bytes.Equal(j1, j2) {
		return "JSON round trip changes the value"
	}
	// where the type is binary-serialisable too, the value read from JSON must have the same binary form
	if s1, ok := v.(io.Serializable); ok {
		if s2, ok := t.(io.Serializable); ok {
			b1, e1 := c17Enc(s1)
			b2, e2 := c17Enc(s2)
			if e1 == nil && e2 == nil && !bytes.Equal(b1, b2) {
				return "value read from JSON has a different binary encoding"
			}
		}
	}
	return ""
}

var _ = reflect.TypeOf
