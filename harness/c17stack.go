package main

// C17: the STORED (stack-item) form. Every type in scope with ToStackItem / FromStackItem: generated values including
// the edge shapes (the zero sweep of c17zero.go: nil / empty / wildcard lists, zero fields, one at a time and all at once)
// -> ToStackItem -> Serialize -> Deserialize -> FromStackItem -> ToStackItem -> Serialize: identical bytes (the stored
// form is injective, so this is equality of values), for manifests also the same JSON; FromStackItem on arbitrary and
// mutated items: an error or a value, never a panic, and what is accepted re-stores to a fixpoint.

import (
	"bytes"
	"encoding/json"
	"fmt"
	"math/big"
	"reflect"
	"strings"

	"github.com/nspcc-dev/neo-go/pkg/core/native"
	"github.com/nspcc-dev/neo-go/pkg/core/state"
	"github.com/nspcc-dev/neo-go/pkg/core/transaction"
	"github.com/nspcc-dev/neo-go/pkg/crypto/keys"
	"github.com/nspcc-dev/neo-go/pkg/smartcontract"
	"github.com/nspcc-dev/neo-go/pkg/smartcontract/manifest"
	"github.com/nspcc-dev/neo-go/pkg/smartcontract/nef"
	"github.com/nspcc-dev/neo-go/pkg/util"
	"github.com/nspcc-dev/neo-go/pkg/vm/stackitem"
)

type c17StackType struct {
	name  string
	gen   func(r *rng) any
	to    func(v any) (stackitem.Item, error)
	from  func(it stackitem.Item) (any, error)
	jsonv bool // the type has a JSON form that must survive the stored form
}

var c17ParamTypes = []smartcontract.ParamType{smartcontract.AnyType, smartcontract.BoolType, smartcontract.IntegerType, smartcontract.ByteArrayType, smartcontract.StringType,
	smartcontract.Hash160Type, smartcontract.Hash256Type, smartcontract.PublicKeyType, smartcontract.SignatureType, smartcontract.ArrayType, smartcontract.MapType,
	smartcontract.InteropInterfaceType, smartcontract.VoidType}

func c17GenDesc(r *rng) manifest.PermissionDesc {
	switch r.intn(3) {
	case 0:
		return manifest.PermissionDesc{Type: manifest.PermissionWildcard}
	case 1:
		return manifest.PermissionDesc{Type: manifest.PermissionHash, Value: util.Uint160{byte(r.intn(4)), 2, 3}}
	default:
		return manifest.PermissionDesc{Type: manifest.PermissionGroup, Value: pick(r, c17Keys())}
	}
}
func c17GenParams(r *rng) []manifest.Parameter {
	ps := []manifest.Parameter{}
	for i, n := 0, r.intn(3); i < n; i++ {
		ps = append(ps, manifest.Parameter{Name: pick(r, []string{"a", "to", "amount", ""}), Type: pick(r, c17ParamTypes)})
	}
	return ps
}
func c17GenPermission(r *rng) manifest.Permission {
	p := manifest.Permission{Contract: c17GenDesc(r)}
	switch r.intn(3) {
	case 0: // wildcard: Value == nil
	case 1:
		p.Methods.Value = []string{} // explicit empty list: no method at all
	default:
		p.Methods.Value = []string{"a", "transfer"}[:1+r.intn(2)]
	}
	return p
}
func c17GenManifestFull(r *rng) *manifest.Manifest {
	m := manifest.NewManifest(pick(r, []string{"c", "Token", ""}))
	m.Groups = []manifest.Group{}
	for i, n := 0, r.intn(3); i < n; i++ {
		m.Groups = append(m.Groups, manifest.Group{PublicKey: pick(r, c17Keys()), Signature: r.bytes(64)})
	}
	m.SupportedStandards = [][]string{{}, {"NEP-17"}, {"NEP-11", "NEP-24"}}[r.intn(3)]
	m.ABI.Methods = []manifest.Method{}
	for i, n := 0, 1+r.intn(3); i < n; i++ {
		m.ABI.Methods = append(m.ABI.Methods, manifest.Method{Name: fmt.Sprintf("m%d", i), Offset: r.intn(1000), Parameters: c17GenParams(r), ReturnType: pick(r, c17ParamTypes), Safe: r.bool()})
	}
	m.ABI.Events = []manifest.Event{}
	for i, n := 0, r.intn(3); i < n; i++ {
		m.ABI.Events = append(m.ABI.Events, manifest.Event{Name: fmt.Sprintf("E%d", i), Parameters: c17GenParams(r)})
	}
	m.Permissions = []manifest.Permission{}
	for i, n := 0, r.intn(4); i < n; i++ {
		m.Permissions = append(m.Permissions, c17GenPermission(r))
	}
	switch r.intn(3) {
	case 0:
		m.Trusts = manifest.WildPermissionDescs{Wildcard: true}
	case 1:
		m.Trusts = manifest.WildPermissionDescs{Value: []manifest.PermissionDesc{}}
	default:
		m.Trusts = manifest.WildPermissionDescs{Value: []manifest.PermissionDesc{c17GenDesc(r), c17GenDesc(r)}[:1+r.intn(2)]}
	}
	m.Extra = pick(r, []json.RawMessage{nil, json.RawMessage("null"), json.RawMessage(`{"a":1}`), json.RawMessage(`"x"`)})
	return m
}

var c17StackTable []c17StackType

func c17StackTypes() []c17StackType {
	if c17StackTable != nil {
		return c17StackTable
	}
	noerr := func(f func(v any) stackitem.Item) func(v any) (stackitem.Item, error) {
		return func(v any) (stackitem.Item, error) { return f(v), nil }
	}
	c17StackTable = []c17StackType{
		{name: "manifest", jsonv: true, gen: func(r *rng) any { return c17GenManifestFull(r) },
			to:   func(v any) (stackitem.Item, error) { return v.(*manifest.Manifest).ToStackItem() },
			from: func(it stackitem.Item) (any, error) { m := new(manifest.Manifest); return m, m.FromStackItem(it) }},
		{name: "abi", gen: func(r *rng) any { a := c17GenManifestFull(r).ABI; return &a },
			to:   noerr(func(v any) stackitem.Item { return v.(*manifest.ABI).ToStackItem() }),
			from: func(it stackitem.Item) (any, error) { m := new(manifest.ABI); return m, m.FromStackItem(it) }},
		{name: "method", gen: func(r *rng) any {
			return &manifest.Method{Name: "m", Offset: r.intn(100), Parameters: c17GenParams(r), ReturnType: pick(r, c17ParamTypes), Safe: r.bool()}
		}, to: noerr(func(v any) stackitem.Item { return v.(*manifest.Method).ToStackItem() }),
			from: func(it stackitem.Item) (any, error) { m := new(manifest.Method); return m, m.FromStackItem(it) }},
		{name: "parameter", gen: func(r *rng) any { return &manifest.Parameter{Name: "p", Type: pick(r, c17ParamTypes)} },
			to:   noerr(func(v any) stackitem.Item { return v.(*manifest.Parameter).ToStackItem() }),
			from: func(it stackitem.Item) (any, error) { m := new(manifest.Parameter); return m, m.FromStackItem(it) }},
		{name: "event", gen: func(r *rng) any { return &manifest.Event{Name: "E", Parameters: c17GenParams(r)} },
			to:   noerr(func(v any) stackitem.Item { return v.(*manifest.Event).ToStackItem() }),
			from: func(it stackitem.Item) (any, error) { m := new(manifest.Event); return m, m.FromStackItem(it) }},
		{name: "group", gen: func(r *rng) any { return &manifest.Group{PublicKey: pick(r, c17Keys()), Signature: r.bytes(64)} },
			to:   noerr(func(v any) stackitem.Item { return v.(*manifest.Group).ToStackItem() }),
			from: func(it stackitem.Item) (any, error) { m := new(manifest.Group); return m, m.FromStackItem(it) }},
		{name: "permission", gen: func(r *rng) any { p := c17GenPermission(r); return &p },
			to:   noerr(func(v any) stackitem.Item { return v.(*manifest.Permission).ToStackItem() }),
			from: func(it stackitem.Item) (any, error) { m := new(manifest.Permission); return m, m.FromStackItem(it) }},
		{name: "permdesc", gen: func(r *rng) any { d := c17GenDesc(r); return &d },
			to:   noerr(func(v any) stackitem.Item { return v.(*manifest.PermissionDesc).ToStackItem() }),
			from: func(it stackitem.Item) (any, error) { m := new(manifest.PermissionDesc); return m, m.FromStackItem(it) }},
		{name: "contract", gen: func(r *rng) any {
			f, _ := nef.NewFile([]byte{0x11, byte(r.intn(200)), 0x40})
			c := &state.Contract{ContractBase: state.ContractBase{ID: int32(r.intn(100) - 10), Hash: util.Uint160{byte(r.intn(9))}, NEF: *f, Manifest: *c17GenManifestFull(r)}, UpdateCounter: uint16(r.intn(70000))}
			return c
		}, to: func(v any) (stackitem.Item, error) { return v.(*state.Contract).ToStackItem() },
			from: func(it stackitem.Item) (any, error) { m := new(state.Contract); return m, m.FromStackItem(it) }},
		{name: "deposit", gen: func(r *rng) any {
			return &state.Deposit{Amount: big.NewInt(int64(r.next() >> uint(1+r.intn(62)))), Till: uint32(r.next())}
		},
			to:   func(v any) (stackitem.Item, error) { return v.(*state.Deposit).ToStackItem() },
			from: func(it stackitem.Item) (any, error) { m := new(state.Deposit); return m, m.FromStackItem(it) }},
		{name: "nep17balance", gen: func(r *rng) any {
			return &state.NEP17Balance{Balance: *big.NewInt(int64(r.next() >> uint(1+r.intn(62))))}
		},
			to:   func(v any) (stackitem.Item, error) { return v.(*state.NEP17Balance).ToStackItem() },
			from: func(it stackitem.Item) (any, error) { m := new(state.NEP17Balance); return m, m.FromStackItem(it) }},
		{name: "neobalance", gen: func(r *rng) any {
			b := &state.NEOBalance{NEP17Balance: state.NEP17Balance{Balance: *big.NewInt(int64(r.intn(1000)))}, BalanceHeight: uint32(r.next()), LastGasPerVote: *big.NewInt(int64(r.next() >> 3))}
			if r.bool() {
				b.VoteTo = pick(r, c17Keys())
			}
			return b
		}, to: func(v any) (stackitem.Item, error) { return v.(*state.NEOBalance).ToStackItem() },
			from: func(it stackitem.Item) (any, error) { m := new(state.NEOBalance); return m, m.FromStackItem(it) }},
		{name: "oraclerequest", gen: func(r *rng) any {
			o := &state.OracleRequest{OriginalTxID: util.Uint256{byte(r.intn(9))}, GasForResponse: r.next(), URL: "https://x", CallbackContract: util.Uint160{1}, CallbackMethod: "cb", UserData: r.bytes(r.intn(5))}
			if r.bool() {
				f := pick(r, []string{"", "$.a"})
				o.Filter = &f
			}
			return o
		}, to: func(v any) (stackitem.Item, error) { return v.(*state.OracleRequest).ToStackItem() },
			from: func(it stackitem.Item) (any, error) { m := new(state.OracleRequest); return m, m.FromStackItem(it) }},
		{name: "whitelistfee", gen: func(r *rng) any {
			return &state.WhitelistFeeContract{Hash: util.Uint160{3}, Method: "m", ArgCnt: r.intn(5), Fee: int64(r.intn(1000))}
		},
			to: func(v any) (stackitem.Item, error) { return v.(*state.WhitelistFeeContract).ToStackItem() },
			from: func(it stackitem.Item) (any, error) {
				m := new(state.WhitelistFeeContract)
				return m, m.FromStackItem(it)
			}},
		{name: "signer", gen: func(r *rng) any { s := c17GenSigner(r, 0).build(); return &s },
			to:   func(v any) (stackitem.Item, error) { return v.(*transaction.Signer).ToStackItem() },
			from: func(it stackitem.Item) (any, error) { m := new(transaction.Signer); return m, m.FromStackItem(it) }},
		{name: "witnessrule", gen: func(r *rng) any {
			return &transaction.WitnessRule{Action: transaction.WitnessAction(r.intn(2)), Condition: c17GenCond(r, 3).build()}
		}, to: noerr(func(v any) stackitem.Item { return v.(*transaction.WitnessRule).ToStackItem() }),
			from: func(it stackitem.Item) (any, error) { m := new(transaction.WitnessRule); return m, m.FromStackItem(it) }},
		{name: "idlist", gen: func(r *rng) any {
			l := native.IDList{}
			for i, n := 0, r.intn(4); i < n; i++ {
				l = append(l, r.next()>>uint(r.intn(64)))
			}
			return &l
		},
			to:   func(v any) (stackitem.Item, error) { return v.(*native.IDList).ToStackItem() },
			from: func(it stackitem.Item) (any, error) { m := new(native.IDList); return m, m.FromStackItem(it) }},
		{name: "nodelist", gen: func(r *rng) any {
			l := native.NodeList{}
			for i, n := 0, r.intn(4); i < n; i++ {
				l = append(l, pick(r, c17Keys()))
			}
			return &l
		},
			to:   func(v any) (stackitem.Item, error) { return v.(*native.NodeList).ToStackItem() },
			from: func(it stackitem.Item) (any, error) { m := new(native.NodeList); return m, m.FromStackItem(it) }},
	}
	return c17StackTable
}

func c17StackTypeByName(n string) *c17StackType {
	ts := c17StackTypes()
	for i := range ts {
		if ts[i].name == n {
			return &ts[i]
		}
	}
	return nil
}

// ---- Coq printers: the item as the shape the manifest model inspects, and the manifest as a model value ----

func c17BigN(b []byte) string { return new(big.Int).SetBytes(b).String() }
func c17CoqS(s string) string { return "(str " + coqBytes([]byte(s)) + ")" }

func c17XItem(it stackitem.Item) string {
	switch t := it.(type) {
	case stackitem.Null:
		return "XNull"
	case *stackitem.ByteArray:
		b := []byte(*t)
		if len(b) == 20 || len(b) == 33 || len(b) == 64 { // hashes, keys, signatures: the generator's strings never have these lengths
			return fmt.Sprintf("(XBytes %d %s)", len(b), c17BigN(b))
		}
		return "(XStr " + c17CoqS(string(b)) + ")"
	case *stackitem.BigInteger:
		return "(XInt " + coqZ(t.Big()) + ")"
	case stackitem.Bool:
		return "(XBool " + coqBool(bool(t)) + ")"
	case *stackitem.Map:
		if t.Len() == 0 {
			return "XEmptyMap"
		}
		return "(XStr (str [1]))"
	case *stackitem.Array, *stackitem.Struct:
		var l []string
		for _, x := range it.Value().([]stackitem.Item) {
			l = append(l, c17XItem(x))
		}
		if _, ok := it.(*stackitem.Array); ok {
			return "(XArray " + coqList(l) + ")"
		}
		return "(XStruct " + coqList(l) + ")"
	}
	return "(XStr (str [2]))"
}

func c17CoqDesc(d manifest.PermissionDesc) string {
	switch d.Type {
	case manifest.PermissionHash:
		return "(DHash " + c17BigN(d.Hash().BytesBE()) + "%N)"
	case manifest.PermissionGroup:
		return "(DGroup " + c17BigN(d.Group().Bytes()) + "%N)"
	}
	return "DWild"
}
func c17CoqStrs(ss []string) string {
	var l []string
	for _, s := range ss {
		l = append(l, c17CoqS(s))
	}
	return coqList(l)
}
func c17CoqParams(ps []manifest.Parameter) string {
	var l []string
	for _, p := range ps {
		l = append(l, fmt.Sprintf("(MParam %s %d)", c17CoqS(p.Name), int(p.Type)))
	}
	return coqList(l)
}
func c17CoqManifest(m *manifest.Manifest) string {
	var gs, ms, es, ps []string
	for _, g := range m.Groups {
		gs = append(gs, fmt.Sprintf("(MGroup %s%%N %s%%N)", c17BigN(g.PublicKey.Bytes()), c17BigN(g.Signature)))
	}
	for _, x := range m.ABI.Methods {
		ms = append(ms, fmt.Sprintf("(MMethod %s %s %d %d %s)", c17CoqS(x.Name), c17CoqParams(x.Parameters), int(x.ReturnType), x.Offset, coqBool(x.Safe)))
	}
	for _, e := range m.ABI.Events {
		es = append(es, fmt.Sprintf("(MEvent %s %s)", c17CoqS(e.Name), c17CoqParams(e.Parameters)))
	}
	for _, p := range m.Permissions {
		meth := "MWild"
		if !p.Methods.IsWildcard() {
			meth = "(MList " + c17CoqStrs(p.Methods.Value) + ")"
		}
		ps = append(ps, fmt.Sprintf("(mk_perm %s %s)", c17CoqDesc(p.Contract), meth))
	}
	tr := "None"
	if !m.Trusts.IsWildcard() {
		var l []string
		for _, d := range m.Trusts.Value {
			l = append(l, c17CoqDesc(d))
		}
		tr = "(Some " + coqList(l) + ")"
	}
	extra := "null"
	if len(m.Extra) != 0 && string(m.Extra) != "null" { // (an empty raw message is not JSON: the writer stores "null" for it)
		extra = string(m.Extra)
	}
	return fmt.Sprintf("(MManifest %s %s %s %s %s %s %s %s)", c17CoqS(m.Name), coqList(gs), c17CoqStrs(m.SupportedStandards), coqList(ms), coqList(es), coqList(ps), tr, c17CoqS(extra))
}

// equality of values for the stored-form round trip: exported data fields only; a nil and an empty slice are the same
// list EXCEPT where nil-ness carries meaning (WildStrings.Value: nil = wildcard, handled by IsWildcard below); big
// integers by value, public keys by their encoding; raw JSON (Extra) is normalised by the writer and compared through
// the JSON check instead
func c17SameValue(a, b reflect.Value, path string) string {
	for a.Kind() == reflect.Pointer || a.Kind() == reflect.Interface {
		if a.IsNil() != (b.Kind() == reflect.Pointer || b.Kind() == reflect.Interface) && false {
			return path + ": nil-ness"
		}
		if a.IsNil() || !b.IsValid() || ((b.Kind() == reflect.Pointer || b.Kind() == reflect.Interface) && b.IsNil()) {
			an := a.IsNil()
			bn := !b.IsValid() || ((b.Kind() == reflect.Pointer || b.Kind() == reflect.Interface) && b.IsNil())
			if an != bn {
				return path + ": one side is nil"
			}
			return ""
		}
		if k, ok := a.Interface().(*keys.PublicKey); ok {
			k2, ok2 := b.Interface().(*keys.PublicKey)
			if !ok2 || !k.Equal(k2) {
				return path + ": public key"
			}
			return ""
		}
		if z, ok := a.Interface().(*big.Int); ok {
			z2, ok2 := b.Interface().(*big.Int)
			if !ok2 || z.Cmp(z2) != 0 {
				return path + ": integer"
			}
			return ""
		}
		a = a.Elem()
		if b.Kind() == reflect.Pointer || b.Kind() == reflect.Interface {
			b = b.Elem()
		}
	}
	for b.Kind() == reflect.Pointer || b.Kind() == reflect.Interface {
		if b.IsNil() {
			return path + ": one side is nil"
		}
		b = b.Elem()
	}
	if a.Type() != b.Type() {
		return path + ": type " + a.Type().String() + " / " + b.Type().String()
	}
	switch a.Kind() {
	case reflect.Struct:
		if z, ok := a.Interface().(big.Int); ok {
			z2 := b.Interface().(big.Int)
			if z.Cmp(&z2) != 0 {
				return path + ": integer"
			}
			return ""
		}
		if d, ok := a.Interface().(manifest.PermissionDesc); ok && d.Type == manifest.PermissionWildcard {
			if b.Interface().(manifest.PermissionDesc).Type != manifest.PermissionWildcard {
				return path + ": wildcard / not wildcard"
			}
			return "" // a wildcard descriptor has no value (the zero sweep may leave a stale one in place)
		}
		if ws, ok := a.Interface().(manifest.WildStrings); ok {
			ws2 := b.Interface().(manifest.WildStrings)
			if ws.IsWildcard() != ws2.IsWildcard() {
				return path + ": wildcard / explicit list"
			}
		}
		for i := 0; i < a.NumField(); i++ {
			f := a.Type().Field(i)
			if !f.IsExported() || c17NotData[f.Name] || f.Name == "Extra" {
				continue
			}
			if why := c17SameValue(a.Field(i), b.Field(i), path+"."+f.Name); why != "" {
				return why
			}
		}
	case reflect.Slice, reflect.Array:
		if a.Len() != b.Len() {
			return fmt.Sprintf("%s: %d / %d elements", path, a.Len(), b.Len())
		}
		for i := 0; i < a.Len(); i++ {
			if why := c17SameValue(a.Index(i), b.Index(i), fmt.Sprintf("%s[%d]", path, i)); why != "" {
				return why
			}
		}
	default:
		if !reflect.DeepEqual(a.Interface(), b.Interface()) {
			return fmt.Sprintf("%s: %v / %v", path, a.Interface(), b.Interface())
		}
	}
	return ""
}

// ---- the case ----

func c17SerItem(it stackitem.Item) ([]byte, error) {
	b, err := stackitem.Serialize(it)
	return bytes.Clone(b), err
}

// kind "stackform": input {type, seed, idx, v = "" | field path | "*" (zero sweep), n = 1 for empty slices}
func c17StackCase(x *c17Runner, in c17Input) {
	co := x.co
	t := c17StackTypeByName(in.Type)
	if t == nil {
		panic("unknown stack-form type " + in.Type)
	}
	v := t.gen(newRng(in.Seed*1000003 + uint64(in.Idx)))
	if in.V != "" && !c17ApplyZero(v, in.V, in.N == 1) {
		co.hist["stackform/"+in.Type+"/no-such-field"]++
		return
	}
	bad := func(note string, impl any) { co.violation("stackform", in.Type+": "+note, in, impl) }
	var it stackitem.Item
	var err error
	if p := catch(func() { it, err = t.to(v) }); p != "" || err != nil || it == nil {
		co.hist["stackform/"+in.Type+"/not-storable"]++ // e.g. a nil key after the zero sweep: not a value of the type
		return
	}
	b1, err := c17SerItem(it)
	if err != nil {
		co.hist["stackform/"+in.Type+"/not-serialisable"]++
		return
	}
	tag := "accepted"
	p := catch(func() {
		back, err := stackitem.Deserialize(b1)
		if err != nil {
			bad("the stored bytes do not deserialise: "+err.Error(), hx(b1))
			return
		}
		v2, err := t.from(back)
		if err != nil {
			tag = "refused" // the zeroed value breaks a rule of FromStackItem (e.g. a 0-byte signature)
			if in.V == "" {
				bad("FromStackItem refuses the stored form of a generated value: "+err.Error(), hx(b1))
			}
			return
		}
		it2, err := t.to(v2)
		if err != nil {
			bad("the value read from the stored form cannot be stored again: "+err.Error(), nil)
			return
		}
		b2, err := c17SerItem(it2)
		if err != nil || !bytes.Equal(b1, b2) {
			bad("ToStackItem;Serialize;Deserialize;FromStackItem;ToStackItem;Serialize changes the bytes (the value read back differs)",
				map[string]string{"stored": hx(b1), "restored": hx(b2)})
			return
		}
		if why := c17SameValue(reflect.ValueOf(v), reflect.ValueOf(v2), ""); why != "" {
			bad("the value read from the stored form differs from the value stored (the stored form itself is self-consistent): "+why, nil)
			return
		}
		if t.jsonv {
			j1, e1 := json.Marshal(v)
			j2, e2 := json.Marshal(v2)
			// (a nil list and an empty list are the same list; only their JSON spelling differs: null / [])
			norm := func(j []byte) []byte { return bytes.ReplaceAll(j, []byte(":null"), []byte(":[]")) }
			if e1 == nil && (e2 != nil || !bytes.Equal(norm(j1), norm(j2))) {
				bad("the JSON form of the value read from the stored form differs from the original JSON", map[string]string{"original": string(j1), "restored": string(j2)})
			}
		}
		if m, ok := v.(*manifest.Manifest); ok && x.mode == "c17" {
			co.add("stackform", "manifest/"+in.V, true, in, hx(b1), fmt.Sprintf("CManifestItem %s %s", c17CoqManifest(m), c17XItem(it)))
		}
	})
	if p != "" {
		bad("panic: "+p, nil)
		return
	}
	if x.mode != "c17" {
		co.add("stackform", in.Type+"/"+tag, true, in, hx(b1), fmt.Sprintf("direct stackform %s %q %d %d %d", in.Type, in.V, in.Seed, in.Idx, in.N))
	} else {
		co.hist["stackform/"+in.Type+"/"+tag]++
	}
}

// kind "stackfrom": FromStackItem on an arbitrary or mutated item (given by its serialisation): no panic; accepted => fixpoint
func c17StackFromCase(x *c17Runner, in c17Input) {
	co := x.co
	t := c17StackTypeByName(in.Type)
	b := unhx(in.Bytes)
	it, err := stackitem.Deserialize(b)
	if err != nil {
		return
	}
	p := catch(func() {
		v, err := t.from(it)
		if err != nil {
			co.hist["stackfrom/"+in.Type+"/refused"]++
			return
		}
		co.hist["stackfrom/"+in.Type+"/accepted"]++
		it2, err := t.to(v)
		if err != nil {
			return // e.g. a contract whose NEF exceeds the size limit: storing is allowed to fail
		}
		b2, err := c17SerItem(it2)
		if err != nil {
			return
		}
		back, err := stackitem.Deserialize(b2)
		if err != nil {
			co.violation("stackfrom", in.Type+": the re-stored form of an accepted item does not deserialise", in, hx(b2))
			return
		}
		v3, err := t.from(back)
		if err != nil {
			co.violation("stackfrom", in.Type+": the re-stored form of an accepted item is refused: "+err.Error(), in, hx(b2))
			return
		}
		it3, _ := t.to(v3)
		if b3, err := c17SerItem(it3); err != nil || !bytes.Equal(b2, b3) {
			co.violation("stackfrom", in.Type+": the re-stored form is not a fixpoint", in, map[string]string{"second": hx(b2), "third": hx(b3)})
		}
	})
	if p != "" {
		msg := p
		if len(msg) > 50 {
			msg = msg[:50]
		}
		co.violation("stackfrom", in.Type+": FromStackItem panics: "+c17PanicNorm.ReplaceAllString(msg, "N"), in, p)
	}
	if x.mode != "c17" {
		co.add("stackfrom", in.Type, true, in, nil, "direct stackfrom "+in.Type+" "+in.Bytes)
	}
}

// structural mutation of an item: wrong arity, wrong type, swapped elements, at a random position of the tree
func c17MutateItem(r *rng, it stackitem.Item, depth int) stackitem.Item {
	repl := func() stackitem.Item {
		return pick(r, []stackitem.Item{stackitem.Null{}, stackitem.Make(r.intn(300) - 5), stackitem.Make(true), stackitem.Make([]byte{}), stackitem.Make(r.bytes(pick(r, []int{1, 20, 33, 64, 65}))),
			stackitem.Make("s"), stackitem.NewArray(nil), stackitem.NewStruct(nil), stackitem.NewMap(), stackitem.NewBuffer([]byte{1}), stackitem.NewBigInteger(new(big.Int).Lsh(big.NewInt(1), 200)),
			stackitem.NewArray([]stackitem.Item{stackitem.Null{}}), stackitem.Make([]byte{0xff, 0xfe})})
	}
	arr, ok := it.Value().([]stackitem.Item)
	_, isMap := it.(*stackitem.Map)
	if !ok || isMap || len(arr) == 0 || depth > 4 || r.chance(25) {
		return repl()
	}
	l := append([]stackitem.Item{}, arr...)
	switch r.intn(5) {
	case 0:
		l = l[:len(l)-1]
	case 1:
		l = append(l, repl())
	case 2:
		i, j := r.intn(len(l)), r.intn(len(l))
		l[i], l[j] = l[j], l[i]
	default:
		i := r.intn(len(l))
		l[i] = c17MutateItem(r, l[i], depth+1)
	}
	if _, isArr := it.(*stackitem.Array); isArr != r.chance(10) {
		return stackitem.NewArray(l)
	}
	return stackitem.NewStruct(l)
}

func c17RunStackForms(x *c17Runner, r *rng, seed uint64, n int) {
	for _, t := range c17StackTypes() {
		nidx := 3
		if t.name == "manifest" {
			nidx = 6
		}
		if x.mode == "c17" {
			if t.name != "manifest" { // the model carries the manifest; everything else is checked directly in c17x
				continue
			}
			nidx = 4
		}
		for idx := 0; idx < nidx; idx++ {
			x.runCase("stackform", c17Input{Type: t.name, Seed: seed, Idx: idx})
			if idx >= 2 && t.name != "manifest" {
				continue
			}
			v := t.gen(newRng(seed*1000003 + uint64(idx)))
			var paths []string
			c17ZeroPaths(reflect.ValueOf(v), "", 0, &paths)
			paths = append(paths, "*")
			for _, p := range paths {
				x.runCase("stackform", c17Input{Type: t.name, Seed: seed, Idx: idx, V: p})
				f, ok := c17FieldAt(reflect.ValueOf(v), p)
				if p == "*" || (ok && f.Kind() == reflect.Slice) {
					x.runCase("stackform", c17Input{Type: t.name, Seed: seed, Idx: idx, V: p, N: 1})
				}
			}
		}
		if x.mode == "c17" {
			continue
		}
		// robustness of FromStackItem: mutated stored forms and arbitrary items
		for i := 0; i < max(8, n/10); i++ {
			v := t.gen(r)
			it, err := t.to(v)
			if err != nil {
				continue
			}
			if i%4 == 3 {
				budget := 12
				it = c17GenItem(r, 3, &budget).build()
			} else {
				it = c17MutateItem(r, it, 0)
			}
			if b, err := stackitem.Serialize(it); err == nil {
				x.runCase("stackfrom", c17Input{Type: t.name, Bytes: hx(b)})
			}
		}
	}
}

var _ = keys.SignatureLen
var _ = strings.TrimSpace
