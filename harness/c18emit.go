package main

// C18, seventh round: EVERY encoder of VM integers, not only bigint.ToBytes.
//
//   emitint    emit.BigInt / Int / Any (every Go integer type) / StackItem / Array with integers of the boundary lattice:
//              the script bytes against the Coq model of the emitter (Codec/EmitInt.v: width choice + sign extension) and
//              of PUSHINT* decoding (VM/Decode.v, VM/Data.v); the script RUN on the real VM must leave the integer;
//              the opcode must be the narrowest that fits and the operand the sign extension of the minimal form (both
//              recomputed here with plain big.Int arithmetic); outside [-2^255, 2^255) the emitter must refuse.
//   intenc     the other integer encoders: bigint.ToPreallocatedBytes (dirty, short, exact buffers), stack-item
//              serialisation, stackitem.CheckIntegerSize / NewBigInteger, smartcontract.Parameter Integer <-> JSON /
//              stack item / "int:..." text.
//   compconst  integer literals of every width through the real compiler, run on the VM.

import (
	"bytes"
	"encoding/json"
	"fmt"
	"math/big"
	"os"
	"path/filepath"
	"strings"

	"github.com/nspcc-dev/neo-go/pkg/compiler"
	"github.com/nspcc-dev/neo-go/pkg/encoding/bigint"
	"github.com/nspcc-dev/neo-go/pkg/io"
	"github.com/nspcc-dev/neo-go/pkg/smartcontract"
	"github.com/nspcc-dev/neo-go/pkg/smartcontract/callflag"
	"github.com/nspcc-dev/neo-go/pkg/vm"
	"github.com/nspcc-dev/neo-go/pkg/vm/emit"
	"github.com/nspcc-dev/neo-go/pkg/vm/opcode"
	"github.com/nspcc-dev/neo-go/pkg/vm/stackitem"
)

var (
	c18Two255    = new(big.Int).Lsh(big.NewInt(1), 255)
	c18NegTwo255 = new(big.Int).Neg(c18Two255)
)

func c18InVMRange(n *big.Int) bool { return n.Cmp(c18NegTwo255) >= 0 && n.Cmp(c18Two255) < 0 }

// length of the minimal two's-complement form: the least L >= 1 with -2^(8L-1) <= n < 2^(8L-1) (0 for n = 0, as ToBytes)
func c18MinLen(n *big.Int) int {
	if n.Sign() == 0 {
		return 0
	}
	for l := 1; ; l++ {
		half := new(big.Int).Lsh(big.NewInt(1), uint(8*l-1))
		if n.Cmp(new(big.Int).Neg(half)) >= 0 && n.Cmp(half) < 0 {
			return l
		}
	}
}

// two's complement, little endian, of exactly w bytes
func c18TwosLE(n *big.Int, w int) []byte {
	m := new(big.Int).Set(n)
	if m.Sign() < 0 {
		m.Add(m, new(big.Int).Lsh(big.NewInt(1), uint(8*w)))
	}
	be := m.FillBytes(make([]byte, w))
	return c18Rev(be)
}

// the single instruction an integer must be emitted as (nil outside the VM range)
func c18ExpectedPush(n *big.Int) []byte {
	if !c18InVMRange(n) {
		return nil
	}
	if n.IsInt64() {
		if v := n.Int64(); v == -1 {
			return []byte{byte(opcode.PUSHM1)}
		} else if v >= 0 && v <= 15 {
			return []byte{byte(opcode.PUSH0) + byte(v)}
		}
	}
	l := c18MinLen(n)
	k, w := 0, 1
	for w < l {
		k, w = k+1, w*2
	}
	return append([]byte{byte(opcode.PUSHINT8) + byte(k)}, c18TwosLE(n, w)...)
}

// runs a script on a bare VM; the integers left on the stack (top first), flattened through arrays / structs / maps
func c18RunInts(script []byte) (out []*big.Int, fault string) {
	defer func() {
		if r := recover(); r != nil {
			fault = fmt.Sprintf("GO PANIC: %v", r)
		}
	}()
	v := vm.New()
	v.SetGasLimit(-1)
	v.LoadScriptWithFlags(script, callflag.All)
	if err := v.Run(); err != nil {
		return nil, err.Error()
	}
	var flat func(it stackitem.Item)
	flat = func(it stackitem.Item) {
		switch t := it.(type) {
		case *stackitem.BigInteger:
			out = append(out, t.Big())
		case *stackitem.Array:
			for _, e := range t.Value().([]stackitem.Item) {
				flat(e)
			}
		case *stackitem.Struct:
			for _, e := range t.Value().([]stackitem.Item) {
				flat(e)
			}
		case *stackitem.Map:
			for _, e := range t.Value().([]stackitem.MapElement) {
				flat(e.Key)
				flat(e.Value)
			}
		default:
			out = append(out, nil)
		}
	}
	for i := 0; i < v.Estack().Len(); i++ {
		flat(v.Estack().Peek(i).Item())
	}
	return out, ""
}

func c18CoqOptScript(b []byte, ok bool) string {
	if !ok {
		return "None"
	}
	return "(Some " + coqBytes(b) + ")"
}

// the Go value of a given static integer type holding n, if it fits (for emit.Any)
func c18Native(n *big.Int, typ int) (any, bool) {
	if n.IsInt64() {
		v := n.Int64()
		switch typ {
		case 0:
			return v, true
		case 1:
			return int(v), true
		case 2:
			if v >= -1<<31 && v < 1<<31 {
				return int32(v), true
			}
		case 3:
			if v >= -1<<15 && v < 1<<15 {
				return int16(v), true
			}
		case 4:
			if v >= -128 && v < 128 {
				return int8(v), true
			}
		case 5:
			if v >= 0 && v < 1<<32 {
				return uint32(v), true
			}
		case 6:
			if v >= 0 && v < 1<<16 {
				return uint16(v), true
			}
		case 7:
			if v >= 0 && v < 256 {
				return uint8(v), true
			}
		}
	}
	if n.IsUint64() {
		switch typ {
		case 8:
			return n.Uint64(), true
		case 9:
			return uint(n.Uint64()), true
		}
	}
	return nil, false
}

func c18EmitInt(co *caseOut, in c18xInput) {
	n, ok := new(big.Int).SetString(in.Z, 10)
	if !ok {
		panic("harness: bad integer " + in.Z)
	}
	bad := func(note string, impl any) { co.violation("emitint", note, in, impl) }
	want := c18ExpectedPush(n)
	orig := new(big.Int).Set(n)
	emitOne := func(f func(w *io.BinWriter)) ([]byte, error) {
		w := io.NewBufBinWriter()
		f(w.BinWriter)
		if w.Err != nil {
			return nil, w.Err
		}
		return w.Bytes(), nil
	}
	checkPush := func(what string, script []byte, err error) {
		if want == nil {
			if err == nil {
				bad(what+" emits an integer outside the VM range [-2^255, 2^255) instead of refusing it", hx(script))
			}
			return
		}
		if err != nil {
			bad(what+" refuses an integer of the VM range: "+err.Error(), nil)
			return
		}
		if !bytes.Equal(script, want) {
			note := what + ": emitted instruction differs from the narrowest PUSHINT* with the sign-extended minimal form"
			if len(script) > 0 && len(want) > 0 && script[0] != want[0] {
				note = what + ": opcode is not the narrowest that fits"
			}
			bad(note, map[string]string{"emitted": hx(script), "expected": hx(want)})
		}
		got, fault := c18RunInts(script)
		if fault != "" || len(got) != 1 || got[0] == nil || got[0].Cmp(orig) != 0 {
			bad(what+": the emitted script does not leave the integer on the VM's stack", map[string]any{"script": hx(script), "fault": fault, "stack": fmt.Sprint(got)})
		}
	}
	var script []byte
	var err error
	switch in.Mode {
	case 0:
		script, err = emitOne(func(w *io.BinWriter) { emit.BigInt(w, n) })
		checkPush("emit.BigInt", script, err)
	case 1:
		if !n.IsInt64() {
			return
		}
		script, err = emitOne(func(w *io.BinWriter) { emit.Int(w, n.Int64()) })
		checkPush("emit.Int", script, err)
	case 2:
		script, err = emitOne(func(w *io.BinWriter) { emit.Any(w, n) })
		checkPush("emit.Any(*big.Int)", script, err)
	case 3:
		v, fits := c18Native(n, in.N)
		if !fits {
			return
		}
		script, err = emitOne(func(w *io.BinWriter) { emit.Any(w, v) })
		checkPush(fmt.Sprintf("emit.Any(%T)", v), script, err)
	case 4:
		if !c18InVMRange(n) {
			return
		}
		script, err = emitOne(func(w *io.BinWriter) { emit.StackItem(w, stackitem.NewBigInteger(n)) })
		checkPush("emit.StackItem(Integer)", script, err)
	default: // compounds: Array / Struct / Map holding n and its neighbours; every integer is emitted as alone, in reverse order
		m1, p1 := new(big.Int).Sub(n, big.NewInt(1)), new(big.Int).Add(n, big.NewInt(1))
		if !c18InVMRange(m1) || !c18InVMRange(p1) {
			return
		}
		var exp []byte
		var expInts []*big.Int
		switch in.Mode {
		case 5:
			script, err = emitOne(func(w *io.BinWriter) { emit.Array(w, n, []any{m1, int64(7)}, p1) })
			exp = bytes.Join([][]byte{c18ExpectedPush(p1), c18ExpectedPush(big.NewInt(7)), c18ExpectedPush(m1), c18ExpectedPush(big.NewInt(2)), {byte(opcode.PACK)},
				c18ExpectedPush(n), c18ExpectedPush(big.NewInt(3)), {byte(opcode.PACK)}}, nil)
			expInts = []*big.Int{n, m1, big.NewInt(7), p1}
		case 6:
			it := stackitem.NewStruct([]stackitem.Item{stackitem.NewBigInteger(n), stackitem.NewArray([]stackitem.Item{stackitem.NewBigInteger(m1)}), stackitem.NewBigInteger(p1)})
			script, err = emitOne(func(w *io.BinWriter) { emit.StackItem(w, it) })
			exp = bytes.Join([][]byte{c18ExpectedPush(p1), c18ExpectedPush(m1), c18ExpectedPush(big.NewInt(1)), {byte(opcode.PACK)},
				c18ExpectedPush(n), c18ExpectedPush(big.NewInt(3)), {byte(opcode.PACKSTRUCT)}}, nil)
			expInts = []*big.Int{n, m1, p1}
		default:
			if c18MinLen(n) > 32 || len(bigint.ToBytes(n)) > 64 {
				return
			}
			mp := stackitem.NewMap()
			mp.Add(stackitem.NewBigInteger(n), stackitem.NewBigInteger(m1))
			script, err = emitOne(func(w *io.BinWriter) { emit.Any(w, mp) })
			exp = bytes.Join([][]byte{c18ExpectedPush(m1), c18ExpectedPush(n), c18ExpectedPush(big.NewInt(1)), {byte(opcode.PACKMAP)}}, nil)
			expInts = []*big.Int{n, m1}
		}
		if err != nil {
			bad("a compound of integers of the VM range is refused: "+err.Error(), nil)
			return
		}
		if !bytes.Equal(script, exp) {
			bad("a compound is not emitted as its integers (each as it is emitted alone), the count and the pack instruction", map[string]string{"emitted": hx(script), "expected": hx(exp)})
		}
		got, fault := c18RunInts(script)
		okInts := fault == "" && len(got) == len(expInts)
		for i := 0; okInts && i < len(got); i++ {
			okInts = got[i] != nil && got[i].Cmp(expInts[i]) == 0
		}
		if !okInts {
			bad("the emitted compound does not rebuild its integers on the VM", map[string]any{"fault": fault, "stack": fmt.Sprint(got), "expected": fmt.Sprint(expInts)})
		}
		co.hist[fmt.Sprintf("emitint/compound%d", in.Mode)]++
		return
	}
	if n.Cmp(orig) != 0 {
		bad("the emitter changed its argument", n.String())
	}
	tag := "refused"
	if err == nil && len(script) > 0 {
		tag = fmt.Sprintf("op%02x", script[0])
		if script[0] > 5 {
			tag = "small"
		}
	}
	if in.Mode <= 1 {
		co.add("emitint", fmt.Sprintf("m%d/%s", in.Mode, tag), c18MinLen(n) > 1, in, hx(script), fmt.Sprintf("CEmitInt %s %s", coqZ(orig), c18CoqOptScript(script, err == nil)))
	} else {
		co.hist[fmt.Sprintf("emitint/m%d/%s", in.Mode, tag)]++
	}
}

// ---- the other integer encoders ----

func c18IntEnc(co *caseOut, in c18xInput) {
	n, ok := new(big.Int).SetString(in.Z, 10)
	if !ok {
		panic("harness: bad integer " + in.Z)
	}
	bad := func(note string, impl any) { co.violation("intenc", note, in, impl) }
	orig := new(big.Int).Set(n)
	ref := bigint.ToBytes(new(big.Int).Set(n)) // compared with the model by kind bigint_enc
	if l := c18MinLen(n); len(ref) != l || (l > 0 && !bytes.Equal(ref, c18TwosLE(n, l))) {
		bad("bigint.ToBytes is not the minimal two's complement form", hx(ref))
	}
	// ToPreallocatedBytes: nil, empty with capacity, too small, exact, large; DIRTY backing arrays (the caller's buffer is
	// reused: emit.bigInt extends the result over the capacity and expects zeroes there only for its own fresh buffer)
	for _, c := range []int{-1, 0, 1, len(ref), len(ref) + 1, 32, 40} {
		var buf []byte
		if c >= 0 {
			buf = bytes.Repeat([]byte{0xa5}, c)[:0]
		}
		got := bigint.ToPreallocatedBytes(n, buf)
		if !bytes.Equal(got, ref) {
			bad(fmt.Sprintf("bigint.ToPreallocatedBytes with a dirty buffer of capacity %d differs from ToBytes", c), map[string]string{"got": hx(got), "ToBytes": hx(ref)})
		}
		if n.Cmp(orig) != 0 {
			bad("bigint.ToPreallocatedBytes changed its argument", n.String())
			n.Set(orig)
		}
	}
	if back := bigint.FromBytes(ref); back.Cmp(orig) != 0 {
		bad("bigint.FromBytes(ToBytes(n)) differs from n", back.String())
	}
	inRange := c18InVMRange(n)
	if (stackitem.CheckIntegerSize(n) == nil) != inRange {
		bad("stackitem.CheckIntegerSize: accepted exactly when -2^255 <= n < 2^255", fmt.Sprint(stackitem.CheckIntegerSize(n)))
	}
	if p := catch(func() { stackitem.NewBigInteger(n) }); (p == "") != inRange {
		bad("stackitem.NewBigInteger: accepts exactly the VM range", p)
	}
	// stack-item serialisation (C17's form, cross-checked here): 0x21, var-length, the minimal form
	if inRange {
		ser, err := stackitem.Serialize(stackitem.NewBigInteger(n))
		if err != nil || !bytes.Equal(ser, append([]byte{0x21, byte(len(ref))}, ref...)) {
			bad("stack-item serialisation of an Integer is not 0x21, length, minimal two's complement", hx(ser))
		} else if it, err := stackitem.Deserialize(ser); err != nil || it.Type() != stackitem.IntegerT || it.Value().(*big.Int).Cmp(orig) != 0 {
			bad("stack-item deserialisation does not give the Integer back", fmt.Sprint(err))
		}
	}
	// smartcontract.Parameter
	p := smartcontract.Parameter{Type: smartcontract.IntegerType, Value: new(big.Int).Set(n)}
	j, err := json.Marshal(p)
	if err != nil {
		bad("Parameter (Integer) does not marshal", err.Error())
	} else {
		var q smartcontract.Parameter
		err := json.Unmarshal(j, &q)
		switch {
		case inRange && (err != nil || q.Type != smartcontract.IntegerType || q.Value.(*big.Int).Cmp(orig) != 0):
			bad("Parameter (Integer) JSON round trip does not give the integer back", map[string]string{"json": string(j), "err": fmt.Sprint(err)})
		case !inRange && err == nil && q.Value != nil:
			bad("Parameter (Integer) JSON: an integer outside the VM range is accepted", string(j))
		}
	}
	if inRange {
		if it, err := p.ToStackItem(); err != nil || it.Type() != stackitem.IntegerT || it.Value().(*big.Int).Cmp(orig) != 0 {
			bad("Parameter.ToStackItem does not give the Integer", fmt.Sprint(err))
		}
		w := io.NewBufBinWriter()
		emit.Any(w.BinWriter, p.Value)
		if w.Err != nil || !bytes.Equal(w.Bytes(), c18ExpectedPush(orig)) {
			bad("a Parameter's integer is not emitted as the integer alone", nil)
		}
	}
	ps, err := smartcontract.NewParameterFromString("int:" + orig.String())
	switch {
	case inRange && (err != nil || ps.Type != smartcontract.IntegerType || ps.Value.(*big.Int).Cmp(orig) != 0):
		bad("NewParameterFromString(int:n) does not give the integer", fmt.Sprint(err))
	case !inRange && err == nil:
		bad("NewParameterFromString(int:n) accepts an integer outside the VM range", nil)
	}
	co.hist["intenc/direct"]++
}

// ---- integer literals through the compiler ----

func c18CompConsts(r *rng) []*big.Int {
	var out []*big.Int
	add := func(z *big.Int) {
		if z.IsInt64() || z.IsUint64() {
			out = append(out, z)
		}
	}
	for _, k := range []uint{0, 1, 3, 4, 6, 7, 8, 14, 15, 16, 23, 24, 30, 31, 32, 39, 40, 47, 48, 55, 56, 62, 63, 64} {
		p := new(big.Int).Lsh(big.NewInt(1), k)
		for _, d := range []int64{-1, 0, 1} {
			v := new(big.Int).Add(p, big.NewInt(d))
			add(v)
			add(new(big.Int).Neg(v))
		}
	}
	for i := 0; i < 8; i++ {
		add(new(big.Int).SetInt64(int64(r.next()) >> uint(r.intn(64))))
		add(new(big.Int).SetUint64(r.next() >> uint(r.intn(8))))
	}
	return out
}

func c18CompConst(co *caseOut, in c18xInput) {
	bad := func(note string, impl any) { co.violation("compconst", note, in, impl) }
	consts := c18CompConsts(newRng(in.Seed))
	var sb strings.Builder
	sb.WriteString("package main\n\nfunc Main() []any {\n\treturn []any{\n")
	for _, c := range consts {
		if c.IsInt64() {
			if c.Int64() == -1<<63 {
				sb.WriteString("\t\tint64(-9223372036854775807 - 1),\n")
			} else {
				fmt.Fprintf(&sb, "\t\tint64(%s),\n", c.String())
			}
		} else {
			fmt.Fprintf(&sb, "\t\tuint64(%s),\n", c.String())
		}
	}
	sb.WriteString("\t}\n}\n")
	dir, err := os.MkdirTemp("", "c18const")
	if err != nil {
		panic("harness: " + err.Error())
	}
	pkg := filepath.Join(dir, "p")
	os.MkdirAll(pkg, 0o755)
	defer os.RemoveAll(dir)
	os.WriteFile(filepath.Join(dir, "go.mod"), []byte("module c18const\n\ngo 1.22\n"), 0o644)
	os.WriteFile(filepath.Join(pkg, "main.go"), []byte(sb.String()), 0o644)
	var script []byte
	off := -1
	if p := catch(func() {
		nf, di, err := compiler.CompileWithOptions(pkg, nil, nil)
		if err != nil {
			panic("compile: " + err.Error())
		}
		script = nf.Script
		for i := range di.Methods {
			if di.Methods[i].Name.Name == "Main" || di.Methods[i].ID == "Main" {
				off = int(di.Methods[i].Range.Start)
			}
		}
	}); p != "" {
		bad("the compiler fails on a program of integer literals: "+p[:min(len(p), 200)], nil)
		return
	}
	if off < 0 {
		panic("harness: Main not found in the debug info")
	}
	var got []*big.Int
	var fault string
	func() {
		defer func() {
			if r := recover(); r != nil {
				fault = fmt.Sprintf("GO PANIC: %v", r)
			}
		}()
		v := vm.New()
		v.SetGasLimit(-1)
		v.LoadScriptWithFlags(script, callflag.All)
		v.Context().Jump(off)
		if err := v.Run(); err != nil {
			fault = err.Error()
			return
		}
		if v.Estack().Len() != 1 {
			fault = fmt.Sprintf("%d items on the stack", v.Estack().Len())
			return
		}
		arr, ok := v.Estack().Peek(0).Item().Value().([]stackitem.Item)
		if !ok {
			fault = "result is not an array"
			return
		}
		for _, e := range arr {
			if bi, ok := e.(*stackitem.BigInteger); ok {
				got = append(got, bi.Big())
			} else {
				got = append(got, nil)
			}
		}
	}()
	if fault != "" || len(got) != len(consts) {
		bad("the compiled program of integer literals does not return its literals: "+fault, fmt.Sprint(len(got), len(consts)))
		return
	}
	for i := range consts {
		if got[i] == nil || got[i].Cmp(consts[i]) != 0 {
			bad(fmt.Sprintf("integer literal %s comes out of the compiled program as %v", consts[i], got[i]), nil)
		}
	}
	// every literal must be in the script in the emitter's form (a negative literal may be its magnitude and a NEGATE:
	// the compiler evaluates the unary minus at run time)
	for _, c := range consts {
		e := c18ExpectedPush(c)
		if len(e) <= 1 || bytes.Contains(script, e) {
			continue
		}
		if c.Sign() < 0 {
			if m := c18ExpectedPush(new(big.Int).Neg(c)); m != nil && bytes.Contains(script, append(m, byte(opcode.NEGATE))) {
				continue
			}
		}
		bad(fmt.Sprintf("integer literal %s is not in the compiled script as the narrowest PUSHINT*", c), nil)
	}
	co.hist["compconst/programs"]++
	co.hist["compconst/literals"] += len(consts)
}

// ---- generation ----

func c18EmitGenerate(co *caseOut, r *rng, cf *commonFlags, ints []*big.Int) {
	// the lattice: every value through BigInt (model + VM + narrowest width), Int where it fits; a third through the
	// other entry points; out-of-range values (the lattice goes to 2^264)
	quick := cf.tier == "quick"
	for i, z := range ints {
		zs := z.String()
		byteEdge := z.BitLen()%8 == 0 || z.BitLen()%8 == 7 || z.BitLen() < 18
		if !quick || byteEdge || i%7 == 0 {
			c18xRun(co, "emitint", c18xInput{Z: zs, Mode: 0})
		}
		if z.IsInt64() && (!quick || byteEdge || i%4 == 0) {
			c18xRun(co, "emitint", c18xInput{Z: zs, Mode: 1})
		}
		if !quick || i%3 == int(cf.seed%3) {
			c18xRun(co, "emitint", c18xInput{Z: zs, Mode: 2 + (i/3)%2*2}) // Any(*big.Int) / StackItem
			c18xRun(co, "emitint", c18xInput{Z: zs, Mode: 5 + (i/3)%3})   // Array / Struct / Map
			c18xRun(co, "intenc", c18xInput{Z: zs})
		}
		if z.IsInt64() || z.IsUint64() {
			c18xRun(co, "emitint", c18xInput{Z: zs, Mode: 3, N: i % 10})
		}
	}
	// the window the sign extension has to fill beyond 8 bytes, densely: 17..31-byte negatives
	for k := 127; k <= 250; k += pick(r, []int{1, 2, 3}) {
		z := new(big.Int).Neg(new(big.Int).Lsh(big.NewInt(1), uint(k)))
		z.Sub(z, new(big.Int).SetUint64(r.next()))
		c18xRun(co, "emitint", c18xInput{Z: z.String(), Mode: pick(r, []int{0, 0, 2, 4, 5})})
	}
	c18xRun(co, "compconst", c18xInput{Seed: cf.seed*31 + 5})
}
