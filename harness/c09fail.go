package main

// C09, failing flushes (kinds "failseek" / "failget"): the ERROR branch of MemCachedStore.persist.
// Stack: 1..3 shared layers above the layer L0 that is flushed, over a gated base store. The gate parks L0.Persist at the
// entry of the base store's PutChangeSet (first region done: maps in tempstore, fresh maps installed); while it is parked
// batches are written into L0 and into the layers above; then the flush is either let through (lwrite, unswap) or FAILED:
// the gate returns an error without writing anything and persist runs its error branch. After every action the store is
// observed through the top layer (Get of every key, Seek of ranges in both directions, any SearchDepth): before, during and
// after the failed flush, and after the next successful one. Model: Store/PersistFail.v.
//
// input: {backend, nups, ops:[{t:"w",batch}|{t:"wtop",i,batch}|{t:"swap"}|{t:"lwrite"}|{t:"unswap"}|{t:"fail"}], q}

import (
	"bytes"
	"errors"
	"fmt"
	"time"

	"github.com/nspcc-dev/neo-go/pkg/core/storage"
)

type c09FInput struct {
	Backend string   `json:"backend"`
	NUps    int      `json:"nups"`
	Ops     []c09SOp `json:"ops"`
	Q       c09Query `json:"q"`
}

type c09FailSys struct {
	base0   *c09Stack
	g       *c09Gate
	layers  []*storage.MemCachedStore // layers[0] = L0 (flushed), then the layers above, top last
	pstate  int                       // 0 idle, 1 swapped (parked before the write below), 2 written (parked before unswap)
	done    chan error
	coqActs []string
}

func c09NewFailSys(backend string, nups int, dir string, seq int) (*c09FailSys, error) {
	base0, err := c09NewStack(backend, dir, seq)
	if err != nil {
		return nil, err
	}
	g := &c09Gate{Store: base0.base,
		seekArrive: make(chan struct{}), seekGo: make(chan struct{}),
		putArrive: make(chan struct{}), putGo: make(chan struct{}),
		putWritten: make(chan struct{}), putGoExit: make(chan struct{})}
	g.settle = base0.settle
	f := &c09FailSys{base0: base0, g: g, done: make(chan error, 1)}
	f.layers = []*storage.MemCachedStore{storage.NewMemCachedStore(g)}
	for i := 0; i < nups; i++ {
		f.layers = append(f.layers, storage.NewMemCachedStore(f.layers[i]))
	}
	return f, nil
}

func (f *c09FailSys) top() *storage.MemCachedStore { return f.layers[len(f.layers)-1] }

func c09BatchMaps(o c09SOp) (mem, stor map[string][]byte, coq string) {
	mem, stor = map[string][]byte{}, map[string][]byte{}
	var ents []string
	for _, e := range o.Batch {
		if e[0] == nil {
			continue
		}
		k := unhx(*e[0])
		if len(k) == 0 {
			continue
		}
		var v []byte
		if e[1] != nil {
			v = unhx(*e[1])
			if v == nil {
				v = []byte{}
			}
		}
		if k[0] == byte(storage.STStorage) || k[0] == byte(storage.STTempStorage) {
			stor[string(k)] = v
		} else {
			mem[string(k)] = v
		}
		ents = append(ents, fmt.Sprintf("(%s,%s)", coqBytes(k), coqOpt(coqBytes(v), v != nil)))
	}
	return mem, stor, coqList(ents)
}

func (f *c09FailSys) apply(o c09SOp) error {
	g := f.g
	switch o.T {
	case "w":
		mem, stor, c := c09BatchMaps(o)
		if err := f.layers[0].PutChangeSet(mem, stor); err != nil {
			return err
		}
		f.coqActs = append(f.coqActs, "FB "+c)
	case "wtop":
		i := o.I
		if i < 0 || i >= len(f.layers)-1 {
			return nil // no such layer above: no-op (and not part of the Coq term)
		}
		mem, stor, c := c09BatchMaps(o)
		if err := f.layers[len(f.layers)-1-i].PutChangeSet(mem, stor); err != nil {
			return err
		}
		f.coqActs = append(f.coqActs, fmt.Sprintf("FT %d %s", i, c))
	case "swap":
		f.coqActs = append(f.coqActs, "FS")
		if f.pstate != 0 {
			return nil
		}
		g.putArmed = true
		go func() { _, err := f.layers[0].Persist(); f.done <- err }()
		select {
		case <-g.putArrive:
			f.pstate = 1
		case err := <-f.done: // nothing to flush
			g.putArmed = false
			if err != nil {
				return err
			}
		case <-time.After(c09StepTimeout):
			return c09Stuck("c09fail:swap")
		}
	case "lwrite":
		f.coqActs = append(f.coqActs, "FL")
		if f.pstate != 1 {
			return nil
		}
		g.putGo <- struct{}{}
		if err := c09Wait(g.putWritten, "c09fail:lwrite"); err != nil {
			return err
		}
		f.pstate = 2
	case "unswap":
		f.coqActs = append(f.coqActs, "FU")
		if f.pstate != 2 {
			return nil
		}
		g.putGoExit <- struct{}{}
		select {
		case err := <-f.done:
			if err != nil {
				return err
			}
		case <-time.After(c09StepTimeout):
			return c09Stuck("c09fail:unswap")
		}
		g.putArmed = false
		f.pstate = 0
	case "fail":
		f.coqActs = append(f.coqActs, "FX")
		if f.pstate != 1 {
			return nil
		}
		g.failNext = true
		g.putGo <- struct{}{}
		select {
		case err := <-f.done:
			if !errors.Is(err, errC09Injected) {
				return fmt.Errorf("Persist over a failing lower store returned %v, not the lower store's error", err)
			}
		case <-time.After(c09StepTimeout):
			return c09Stuck("c09fail:fail")
		}
		g.putArmed = false
		f.pstate = 0
	default:
		return fmt.Errorf("unknown failing-flush op %q", o.T)
	}
	return nil
}

// finish lets a Persist that is still parked complete (after the last observation)
func (f *c09FailSys) finish() {
	switch f.pstate {
	case 1:
		f.g.putGo <- struct{}{}
		<-f.g.putWritten
		fallthrough
	case 2:
		f.g.putGoExit <- struct{}{}
		<-f.done
	}
	f.pstate = 0
}

func (f *c09FailSys) observe(co *caseOut, in c09FInput, kind string, tag string) {
	bk := c09BackendNo[in.Backend]
	acts := coqList(f.coqActs)
	c09PerBackend[in.Backend]++
	switch kind {
	case "failget":
		k := unhx(in.Q.Key)
		var (
			v   []byte
			err error
		)
		if p := catch(func() { v, err = f.top().Get(k) }); p != "" {
			co.violation(kind, "panic: "+p, in, nil)
			return
		}
		found := err == nil
		co.add(kind, tag, true, in, map[string]any{"found": found, "value": hx(v)},
			fmt.Sprintf("CFailGet %d %d %s %s %s", bk, in.NUps, acts, coqBytes(k), coqOpt(coqBytes(v), found)))
	case "failseek":
		var res []c09KV
		rng := storage.SeekRange{Prefix: unhx(in.Q.Prefix), Start: unhx(in.Q.Start), Backwards: in.Q.Bw, SearchDepth: in.Q.Depth}
		if p := catch(func() {
			f.top().Seek(rng, func(k, v []byte) bool {
				res = append(res, c09KV{bytes.Clone(k), bytes.Clone(v)})
				return true
			})
		}); p != "" {
			co.violation(kind, "panic: "+p, in, nil)
			return
		}
		co.add(kind, tag, len(res) > 0, in, map[string]any{"res": c09JSONKVs(res)},
			fmt.Sprintf("CFailSeek %d %d %s (R %s %s %s %d) %s", bk, in.NUps, acts,
				coqBytes(rng.Prefix), coqBytes(rng.Start), coqBool(in.Q.Bw), in.Q.Depth, c09CoqKVs(res)))
	default:
		panic("unknown kind " + kind)
	}
}

// replay of one case: the ops, then the one observation
func c09RunFailCase(co *caseOut, in c09FInput, kind string, dir string, seq int) error {
	f, err := c09NewFailSys(in.Backend, in.NUps, dir, seq)
	if err != nil {
		return err
	}
	defer f.base0.close(dir, in.Backend, seq)
	for _, o := range in.Ops {
		if err := f.apply(o); err != nil {
			f.finish()
			return err
		}
	}
	f.observe(co, in, kind, "replay")
	f.finish()
	return nil
}

var c09FailKeys = [][]byte{{0x70, 0x01}, {0x70, 0x01, 0x00}, {0x70, 0x02}, {0x70, 0xff}, {0x03, 0x01}, {0x03, 0x01, 0xff}, {0x71, 0x00}}

// one generated run: flush an initial batch successfully, then a flush that fails with writes of every overlap pattern while
// it is blocked, then the next flush succeeds; everything is observed after every action
func c09GenFailRun(co *caseOut, r *rng, backend string, dir string, seq int) error {
	nups := 1 + r.intn(3)
	f, err := c09NewFailSys(backend, nups, dir, seq)
	if err != nil {
		return err
	}
	defer f.base0.close(dir, backend, seq)
	vseq := 0
	batch := func(n, delPct int) [][2]*string {
		var b [][2]*string
		used := map[int]bool{}
		for j := 0; j < n; j++ {
			ki := r.intn(len(c09FailKeys))
			if used[ki] {
				continue
			}
			used[ki] = true
			k := hx(c09FailKeys[ki])
			if r.chance(delPct) {
				b = append(b, [2]*string{&k, nil})
			} else {
				vseq++
				v := hx([]byte{byte(vseq)})
				b = append(b, [2]*string{&k, &v})
			}
		}
		return b
	}
	var plan []c09SOp
	if r.chance(70) { // something already in the base store, so that tombstones in flight hide lower keys
		plan = append(plan, c09SOp{T: "w", Batch: batch(1+r.intn(4), 0)}, c09SOp{T: "swap"}, c09SOp{T: "lwrite"}, c09SOp{T: "unswap"})
	}
	if r.chance(50) {
		plan = append(plan, c09SOp{T: "wtop", I: r.intn(nups), Batch: batch(1+r.intn(2), 30)})
	}
	plan = append(plan, c09SOp{T: "w", Batch: batch(1+r.intn(5), 35)}) // the batch whose flush will fail: values and tombstones
	plan = append(plan, c09SOp{T: "swap"})
	for i := r.intn(4); i > 0; i-- { // written while the flush is blocked: smaller or bigger than the batch, overlapping it both ways
		if r.chance(75) {
			plan = append(plan, c09SOp{T: "w", Batch: batch(1+r.intn(6), 40)})
		} else {
			plan = append(plan, c09SOp{T: "wtop", I: r.intn(nups), Batch: batch(1+r.intn(2), 30)})
		}
	}
	if r.chance(85) {
		plan = append(plan, c09SOp{T: "fail"})
	} else {
		plan = append(plan, c09SOp{T: "lwrite"}, c09SOp{T: "unswap"})
	}
	if r.chance(60) {
		plan = append(plan, c09SOp{T: "w", Batch: batch(1+r.intn(3), 30)})
	}
	plan = append(plan, c09SOp{T: "swap"}, c09SOp{T: "lwrite"}, c09SOp{T: "unswap"}) // the next flush succeeds
	if r.chance(30) {
		plan = append(plan, c09SOp{T: "w", Batch: batch(2, 30)}, c09SOp{T: "swap"}, c09SOp{T: "fail"}) // and another one fails
	}
	for i, o := range plan {
		if err := f.apply(o); err != nil {
			f.finish()
			return err
		}
		if o.T == "wtop" && i+1 < len(plan) && r.chance(50) {
			continue
		}
		pre := append([]c09SOp{}, plan[:i+1]...)
		tag := o.T
		if f.pstate != 0 {
			tag += "-inflight"
		}
		for g := 0; g < 2; g++ {
			f.observe(co, c09FInput{Backend: backend, NUps: nups, Ops: pre, Q: c09Query{Key: hx(pick(r, c09FailKeys))}}, "failget", tag)
		}
		for g := 0; g < 2; g++ {
			q := c09Query{Prefix: hx(pick(r, [][]byte{{0x70}, {0x70, 0x01}, {0x03}, {0x71}})), Bw: r.chance(50)}
			if r.chance(25) {
				q.Start = pick(r, []string{"01", "02", "00"})
			}
			if r.chance(25) {
				q.Depth = 1 + r.intn(nups+3)
			}
			f.observe(co, c09FInput{Backend: backend, NUps: nups, Ops: pre, Q: q}, "failseek", tag)
		}
	}
	f.finish()
	return nil
}
