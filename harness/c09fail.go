package main

// C09, failing flushes (kinds "failseek" / "failget"): the ERROR branch of MemCachedStore.persist.
// Stack: 1..3 shared layers above the layer L0 that is flushed, over a gated base store. The gate parks L0.Persist at the
// entry of the base store's PutChangeSet (first region done: maps in tempstore, fresh maps installed); while it is parked
// batches are written into L0 and into the layers above; then the flush is either let through (lwrite, unswap) or FAILED:
// the gate returns an error without writing anything and persist runs its error branch. After every action the store is
// observed through the top layer (Get of every key, Seek of ranges in both directions, any SearchDepth): before, during and
// after the failed flush, and after the next successful one. Model: Store/PersistFail.v.
//
// Seventh round: the same in SYNC mode (PersistSync: no parking, nothing interleaves), for a PRIVATE flushed layer (its
// Persist has no error branch of its own: on an error it returns with its maps untouched), with layers BELOW the flushed
// one (its lower store is then a gate around another MemCachedStore whose own PutChangeSet cannot fail), and with failures
// that come from the REAL backends (BoltDB/LevelDB reopened read-only: the write transaction is refused), repeated
// failures, failure then success.
//
// input: {backend, nups, nlow, priv, ops:[{t:"w",batch}|{t:"wtop",i,batch}|{t:"wlow",i,batch}|{t:"swap"}|{t:"lwrite"}|{t:"unswap"}|
//         {t:"fail"}|{t:"realfail"}|{t:"sync"}|{t:"syncfail"}|{t:"syncrealfail"}|{t:"ro"}|{t:"rw"}], q}

import (
	"bytes"
	"errors"
	"fmt"
	"path/filepath"
	"time"

	"github.com/nspcc-dev/neo-go/pkg/core/storage"
	"github.com/nspcc-dev/neo-go/pkg/core/storage/dbconfig"
)

type c09FInput struct {
	Backend string   `json:"backend"`
	NUps    int      `json:"nups"`
	NLow    int      `json:"nlow,omitempty"` // shared layers between the flushed layer and the base store
	Priv    bool     `json:"priv,omitempty"` // the flushed layer is private (sync-style flushes only)
	Ops     []c09SOp `json:"ops"`
	Q       c09Query `json:"q"`
}

type c09FailSys struct {
	base0   *c09Stack
	g       *c09Gate
	bfwd    *c09Fwd                   // the replaceable handle of a BoltDB backend (LevelDB has base0.fwd)
	path    string                    // the backend's file / directory
	backend string
	ro      bool                      // the backend is currently opened read-only
	lows    []*storage.MemCachedStore // shared layers below the flushed one, bottom first
	priv    bool
	closed  bool // private flushed layer after its successful Persist
	layers  []*storage.MemCachedStore // layers[0] = L0 (flushed), then the layers above, top last
	pstate  int                       // 0 idle, 1 swapped (parked before the write below), 2 written (parked before unswap)
	done    chan error
	coqActs []string
}

func c09NewFailSys(in c09FInput, dir string, seq int) (*c09FailSys, error) {
	base0, err := c09NewStack(in.Backend, dir, seq)
	if err != nil {
		return nil, err
	}
	f := &c09FailSys{base0: base0, done: make(chan error, 1), backend: in.Backend, priv: in.Priv}
	var lower storage.Store = base0.base
	switch in.Backend {
	case "bolt":
		f.bfwd = &c09Fwd{Store: base0.base}
		lower = f.bfwd
		f.path = filepath.Join(dir, fmt.Sprintf("b%d.bolt", seq))
	case "level":
		f.path = base0.ldbPath
	}
	for i := 0; i < in.NLow; i++ {
		l := storage.NewMemCachedStore(lower)
		f.lows = append(f.lows, l)
		lower = l
	}
	g := &c09Gate{Store: lower,
		seekArrive: make(chan struct{}), seekGo: make(chan struct{}),
		putArrive: make(chan struct{}), putGo: make(chan struct{}),
		putWritten: make(chan struct{}), putGoExit: make(chan struct{})}
	if in.NLow == 0 {
		g.settle = base0.settle
	}
	f.g = g
	if in.Priv {
		f.layers = []*storage.MemCachedStore{storage.NewPrivateMemCachedStore(g)}
	} else {
		f.layers = []*storage.MemCachedStore{storage.NewMemCachedStore(g)}
	}
	for i := 0; i < in.NUps; i++ {
		f.layers = append(f.layers, storage.NewMemCachedStore(f.layers[i]))
	}
	return f, nil
}

// reopen closes the disk backend and opens the same file again, read-only or read-write
func (f *c09FailSys) reopen(ro bool) error {
	switch f.backend {
	case "bolt":
		if err := f.bfwd.Store.Close(); err != nil {
			return err
		}
		b, err := storage.NewBoltDBStore(dbconfig.BoltDBOptions{FilePath: f.path, ReadOnly: ro})
		if err != nil {
			return err
		}
		f.bfwd.Store, f.base0.base = b, b
	case "level":
		if err := f.base0.ldb.Close(); err != nil {
			return err
		}
		l, err := storage.NewLevelDBStore(dbconfig.LevelDBOptions{DataDirectoryPath: f.path, ReadOnly: ro})
		if err != nil {
			return err
		}
		f.base0.ldb, f.base0.fwd.Store = l, l
	default:
		return nil
	}
	f.ro = ro
	return nil
}

func (f *c09FailSys) top() *storage.MemCachedStore { return f.layers[len(f.layers)-1] }

func c09BatchMaps(o c09SOp) (mem, stor map[string][]byte, coq string) {
	mem, stor = map[string][]byte{}, map[string][]byte{}
	var ents []string
	for _, e := range o.Batch {
		if e[0] == nil {
			continue
		}
		k := unhx(*e[0])
		if len(k) == 0 {
			continue
		}
		var v []byte
		if e[1] != nil {
			v = unhx(*e[1])
			if v == nil {
				v = []byte{}
			}
		}
		if k[0] == byte(storage.STStorage) || k[0] == byte(storage.STTempStorage) {
			stor[string(k)] = v
		} else {
			mem[string(k)] = v
		}
		ents = append(ents, fmt.Sprintf("(%s,%s)", coqBytes(k), coqOpt(coqBytes(v), v != nil)))
	}
	return mem, stor, coqList(ents)
}

func (f *c09FailSys) apply(o c09SOp) error {
	g := f.g
	switch o.T {
	case "w":
		if f.closed {
			return nil // a private layer is closed by its successful Persist
		}
		mem, stor, c := c09BatchMaps(o)
		if err := f.layers[0].PutChangeSet(mem, stor); err != nil {
			return err
		}
		f.coqActs = append(f.coqActs, "FB "+c)
	case "wtop":
		i := o.I
		if i < 0 || i >= len(f.layers)-1 {
			return nil // no such layer above: no-op (and not part of the Coq term)
		}
		mem, stor, c := c09BatchMaps(o)
		if err := f.layers[len(f.layers)-1-i].PutChangeSet(mem, stor); err != nil {
			return err
		}
		f.coqActs = append(f.coqActs, fmt.Sprintf("FT %d %s", i, c))
	case "swap":
		if f.priv {
			return nil // a private layer takes no lock: nothing may be written into it while its Persist is parked
		}
		f.coqActs = append(f.coqActs, "FS")
		if f.pstate != 0 {
			return nil
		}
		g.putArmed = true
		go func() { _, err := f.layers[0].Persist(); f.done <- err }()
		select {
		case <-g.putArrive:
			f.pstate = 1
		case err := <-f.done: // nothing to flush
			g.putArmed = false
			if err != nil {
				return err
			}
		case <-time.After(c09StepTimeout):
			return c09Stuck("c09fail:swap")
		}
	case "lwrite":
		if f.ro {
			return nil
		}
		f.coqActs = append(f.coqActs, "FL")
		if f.pstate != 1 {
			return nil
		}
		g.putGo <- struct{}{}
		if err := c09Wait(g.putWritten, "c09fail:lwrite"); err != nil {
			return err
		}
		f.pstate = 2
	case "unswap":
		f.coqActs = append(f.coqActs, "FU")
		if f.pstate != 2 {
			return nil
		}
		g.putGoExit <- struct{}{}
		select {
		case err := <-f.done:
			if err != nil {
				return err
			}
		case <-time.After(c09StepTimeout):
			return c09Stuck("c09fail:unswap")
		}
		g.putArmed = false
		f.pstate = 0
	case "fail":
		f.coqActs = append(f.coqActs, "FX")
		if f.pstate != 1 {
			return nil
		}
		g.failNext = true
		g.putGo <- struct{}{}
		select {
		case err := <-f.done:
			if !errors.Is(err, errC09Injected) {
				return fmt.Errorf("Persist over a failing lower store returned %v, not the lower store's error", err)
			}
		case <-time.After(c09StepTimeout):
			return c09Stuck("c09fail:fail")
		}
		g.putArmed = false
		f.pstate = 0
	case "wlow":
		if f.pstate != 0 || len(f.lows) == 0 {
			return nil // only between two flushes; no layer below: no-op (and not part of the Coq term)
		}
		// always the layer directly below the flushed one: the model sees what lies below through its flattened content,
		// and a batch put into the topmost of those layers is that batch applied to the content
		mem, stor, c := c09BatchMaps(o)
		if err := f.lows[len(f.lows)-1].PutChangeSet(mem, stor); err != nil {
			return err
		}
		f.coqActs = append(f.coqActs, "FD "+c)
	case "realfail": // the parked flush is let through to a backend that refuses the write
		if f.pstate != 1 || !f.ro {
			return nil
		}
		f.coqActs = append(f.coqActs, "FX")
		g.putGo <- struct{}{}
		if err := c09Wait(g.putWritten, "c09fail:realfail"); err != nil {
			return err
		}
		g.putGoExit <- struct{}{}
		select {
		case err := <-f.done:
			if err == nil {
				return errors.New("Persist over a read-only backend returned no error")
			}
		case <-time.After(c09StepTimeout):
			return c09Stuck("c09fail:realfail-done")
		}
		g.putArmed = false
		f.pstate = 0
	case "sync", "syncfail", "syncrealfail": // PersistSync, or Persist of a private layer: one step, nothing interleaves
		if f.pstate != 0 {
			return nil
		}
		wantErr := o.T != "sync"
		if o.T == "syncrealfail" && !f.ro {
			return nil
		}
		if o.T == "sync" && f.ro {
			return nil
		}
		g.failNext = o.T == "syncfail"
		var err error
		if f.priv {
			_, err = f.layers[0].Persist()
		} else {
			_, err = f.layers[0].PersistSync()
		}
		g.failNext = false
		if wantErr && err == nil {
			// nothing to flush: Persist returns before calling the lower store; the model's step is a no-op as well
			wantErr = false
		}
		if (err != nil) != wantErr {
			return fmt.Errorf("%s returned %v", o.T, err)
		}
		if o.T == "sync" {
			f.closed = f.priv
			f.coqActs = append(f.coqActs, "FY")
		} else {
			f.coqActs = append(f.coqActs, "FZ")
		}
	case "ro", "rw":
		if f.pstate != 0 || len(f.lows) != 0 || f.backend == "mem" {
			return nil
		}
		return f.reopen(o.T == "ro")
	default:
		return fmt.Errorf("unknown failing-flush op %q", o.T)
	}
	return nil
}

// finish lets a Persist that is still parked complete (after the last observation)
func (f *c09FailSys) finish() {
	if f.ro && f.pstate != 0 {
		_ = f.reopen(false)
	}
	switch f.pstate {
	case 1:
		f.g.putGo <- struct{}{}
		<-f.g.putWritten
		fallthrough
	case 2:
		f.g.putGoExit <- struct{}{}
		<-f.done
	}
	f.pstate = 0
}

func (f *c09FailSys) observe(co *caseOut, in c09FInput, kind string, tag string) {
	bk := c09BackendNo[in.Backend]
	acts := coqList(f.coqActs)
	c09PerBackend[in.Backend]++
	switch kind {
	case "failget":
		k := unhx(in.Q.Key)
		var (
			v   []byte
			err error
		)
		if p := catch(func() { v, err = f.top().Get(k) }); p != "" {
			co.violation(kind, "panic: "+p, in, nil)
			return
		}
		found := err == nil
		co.add(kind, tag, true, in, map[string]any{"found": found, "value": hx(v)},
			fmt.Sprintf("CFailGet %d %d %s %s %s", bk, in.NUps, acts, coqBytes(k), coqOpt(coqBytes(v), found)))
	case "failseek":
		var res []c09KV
		rng := storage.SeekRange{Prefix: unhx(in.Q.Prefix), Start: unhx(in.Q.Start), Backwards: in.Q.Bw, SearchDepth: in.Q.Depth}
		if p := catch(func() {
			f.top().Seek(rng, func(k, v []byte) bool {
				res = append(res, c09KV{bytes.Clone(k), bytes.Clone(v)})
				return true
			})
		}); p != "" {
			co.violation(kind, "panic: "+p, in, nil)
			return
		}
		co.add(kind, tag, len(res) > 0, in, map[string]any{"res": c09JSONKVs(res)},
			fmt.Sprintf("CFailSeek %d %d %s (R %s %s %s %d) %s", bk, in.NUps, acts,
				coqBytes(rng.Prefix), coqBytes(rng.Start), coqBool(in.Q.Bw), in.Q.Depth, c09CoqKVs(res)))
	default:
		panic("unknown kind " + kind)
	}
}

// replay of one case: the ops, then the one observation
func c09RunFailCase(co *caseOut, in c09FInput, kind string, dir string, seq int) error {
	f, err := c09NewFailSys(in, dir, seq)
	if err != nil {
		return err
	}
	defer f.base0.close(dir, in.Backend, seq)
	for _, o := range in.Ops {
		if err := f.apply(o); err != nil {
			f.finish()
			return err
		}
	}
	f.observe(co, in, kind, "replay")
	f.finish()
	return nil
}

var c09FailKeys = [][]byte{{0x70, 0x01}, {0x70, 0x01, 0x00}, {0x70, 0x02}, {0x70, 0xff}, {0x03, 0x01}, {0x03, 0x01, 0xff}, {0x71, 0x00}}

// one generated run. Shape: nups shared layers above the flushed layer (0..3), nlow shared layers below it (0..2), the
// flushed layer shared or private. Plan: optional successful first flush (so that tombstones in flight hide lower keys),
// then 1..3 flush attempts, each asynchronous (Persist parked, batches of every overlap pattern written meanwhile) or
// synchronous (PersistSync / private Persist), each succeeding or failing — the failure injected by the gate or, on a
// disk backend directly below, coming from the backend itself reopened read-only —, then a flush that succeeds.
// Everything is observed after every action.
func c09GenFailRun(co *caseOut, r *rng, backend string, dir string, seq int) error {
	in := c09FInput{Backend: backend, NUps: r.intn(4), Priv: r.chance(20)}
	if r.chance(35) {
		in.NLow = 1 + r.intn(2)
	}
	f, err := c09NewFailSys(in, dir, seq)
	if err != nil {
		return err
	}
	defer func() {
		if f.ro {
			_ = f.reopen(false)
		}
		f.base0.close(dir, backend, seq)
	}()
	vseq := 0
	batch := func(n, delPct int) [][2]*string {
		var b [][2]*string
		used := map[int]bool{}
		for j := 0; j < n; j++ {
			ki := r.intn(len(c09FailKeys))
			if used[ki] {
				continue
			}
			used[ki] = true
			k := hx(c09FailKeys[ki])
			if r.chance(delPct) {
				b = append(b, [2]*string{&k, nil})
			} else {
				vseq++
				v := hx([]byte{byte(vseq)})
				b = append(b, [2]*string{&k, &v})
			}
		}
		return b
	}
	realOK := in.NLow == 0 && backend != "mem"
	var plan []c09SOp
	other := func() { // a write somewhere else in the stack
		switch {
		case in.NUps > 0 && r.chance(60):
			plan = append(plan, c09SOp{T: "wtop", I: r.intn(in.NUps), Batch: batch(1+r.intn(2), 30)})
		case in.NLow > 0:
			plan = append(plan, c09SOp{T: "wlow", I: r.intn(in.NLow), Batch: batch(1+r.intn(3), 30)})
		}
	}
	if r.chance(60) && !in.Priv { // something already below
		plan = append(plan, c09SOp{T: "w", Batch: batch(1+r.intn(4), 0)}, c09SOp{T: "sync"})
	}
	if r.chance(50) {
		other()
	}
	attempts := 1 + r.intn(3)
	for a := 0; a < attempts; a++ {
		plan = append(plan, c09SOp{T: "w", Batch: batch(1+r.intn(5), 35)}) // the batch to flush: values and tombstones, mem and stor keys
		fails := r.chance(75)
		real := fails && realOK && r.chance(40)
		if real {
			plan = append(plan, c09SOp{T: "ro"})
		}
		if in.Priv || r.chance(50) { // synchronous
			switch {
			case real:
				plan = append(plan, c09SOp{T: "syncrealfail"})
			case fails:
				plan = append(plan, c09SOp{T: "syncfail"})
			default:
				plan = append(plan, c09SOp{T: "sync"})
			}
		} else {
			plan = append(plan, c09SOp{T: "swap"})
			for i := r.intn(4); i > 0; i-- { // written while the flush is blocked: smaller or bigger than the batch, overlapping both ways
				if r.chance(75) || in.NUps == 0 {
					plan = append(plan, c09SOp{T: "w", Batch: batch(1+r.intn(6), 40)})
				} else {
					plan = append(plan, c09SOp{T: "wtop", I: r.intn(in.NUps), Batch: batch(1+r.intn(2), 30)})
				}
			}
			switch {
			case real:
				plan = append(plan, c09SOp{T: "realfail"})
			case fails:
				plan = append(plan, c09SOp{T: "fail"})
			default:
				plan = append(plan, c09SOp{T: "lwrite"}, c09SOp{T: "unswap"})
			}
		}
		if real {
			plan = append(plan, c09SOp{T: "rw"})
		}
		if in.Priv && !fails {
			break // the private layer is closed now
		}
		if r.chance(40) {
			other()
		}
	}
	if r.chance(50) {
		plan = append(plan, c09SOp{T: "w", Batch: batch(1+r.intn(3), 30)})
	}
	plan = append(plan, c09SOp{T: "sync"}) // and a flush that succeeds
	for i, o := range plan {
		if err := f.apply(o); err != nil {
			f.finish()
			return err
		}
		if (o.T == "wtop" || o.T == "wlow" || o.T == "rw") && i+1 < len(plan) && r.chance(50) {
			continue
		}
		pre := append([]c09SOp{}, plan[:i+1]...)
		tag := o.T
		if f.pstate != 0 {
			tag += "-inflight"
		}
		if in.Priv {
			tag += "-priv"
		}
		if in.NLow > 0 {
			tag += "-overlayer"
		}
		obs := in
		obs.Ops = pre
		for g := 0; g < 2; g++ {
			obs.Q = c09Query{Key: hx(pick(r, c09FailKeys))}
			f.observe(co, obs, "failget", tag)
		}
		for g := 0; g < 2; g++ {
			q := c09Query{Prefix: hx(pick(r, [][]byte{{0x70}, {0x70, 0x01}, {0x03}, {0x71}})), Bw: r.chance(50)}
			if r.chance(25) {
				q.Start = pick(r, []string{"01", "02", "00"})
			}
			if r.chance(25) && in.NLow == 0 { // (with layers below, the model sees them through their content: full depth only)
				q.Depth = 1 + r.intn(in.NUps+3)
			}
			obs.Q = q
			f.observe(co, obs, "failseek", tag)
		}
	}
	f.finish()
	return nil
}
