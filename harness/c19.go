package main

// C19: in-process networks of the REAL consensus.Service (4 and 7 validators), each on its own real ledger, connected by a
// scripted scheduler that delays, reorders, duplicates and drops consensus payloads, keeps up to f validators silent for
// changing periods, and gives the validators differing mempools.  dBFT runs on its real timers, so a schedule is reproduced
// only statistically; the checks are safety properties (any schedule) plus progress under full delivery (generous deadline).

import (
	"bytes"
	"crypto/sha256"
	"encoding/hex"
	"encoding/json"
	"fmt"
	"os"
	"path/filepath"
	"sort"
	"strings"
	"sync"
	"time"

	"github.com/nspcc-dev/neo-go/pkg/config"
	"github.com/nspcc-dev/neo-go/pkg/consensus"
	"github.com/nspcc-dev/neo-go/pkg/core"
	"github.com/nspcc-dev/neo-go/pkg/core/block"
	"github.com/nspcc-dev/neo-go/pkg/core/transaction"
	"github.com/nspcc-dev/neo-go/pkg/crypto/keys"
	"github.com/nspcc-dev/neo-go/pkg/io"
	"github.com/nspcc-dev/neo-go/pkg/neotest"
	"github.com/nspcc-dev/neo-go/pkg/neotest/chain"
	npayload "github.com/nspcc-dev/neo-go/pkg/network/payload"
	"github.com/nspcc-dev/neo-go/pkg/smartcontract"
	"github.com/nspcc-dev/neo-go/pkg/util"
	"github.com/nspcc-dev/neo-go/pkg/vm/opcode"
	"github.com/nspcc-dev/neo-go/pkg/wallet"
)

type c19Input struct {
	Seed     uint64 `json:"seed"`
	N        int    `json:"n"`          // validators
	Mode     string `json:"mode"`       // sync (all honest, full delivery) | lossy (delay/reorder/duplicate/drop) | silent (lossy + up to f silent)
	Blocks   int    `json:"blocks"`     // heights to watch
	TPBms    int    `json:"tpb_ms"`     // TimePerBlock
	Txs      int    `json:"txs"`        // transactions spread over the mempools
	StateRt  bool   `json:"state_root"` // StateRootInHeader
	DropPct  int    `json:"drop_pct"`
	DupPct   int    `json:"dup_pct"`
	DelayMs  int    `json:"delay_ms"`
	BudgetMs int    `json:"budget_ms"` // wall-clock budget of a lossy/silent case
}

type c19Ev struct { // trace event
	K   string // send | deliver | accept
	I   int    // validator
	H   uint32
	T   int // message type code: 0 PrepareRequest 1 PrepareResponse 2 Commit 3 ChangeView 4 RecoveryRequest 5 RecoveryMessage
	V   int
	B   int // proposal / block id
	Ref int // deliver: index of the send event
}

type c19Node struct {
	i     int
	bc    *core.Blockchain
	srv   consensus.Service
	tb    *c20TB
	net   *c19Net
	acct  *wallet.Account
	added []string // block hashes added through the own service, by height
}

type c19Msg struct {
	at   time.Time
	to   int
	ext  []byte // serialized Extensible
	blk  *block.Block
	txs  []*transaction.Transaction
	ref  int
	from int
}

type c19Net struct {
	in     c19Input
	mu     sync.Mutex
	r      *rng
	nodes  []*c19Node
	queue  []c19Msg
	trace  []c19Ev
	ids    map[util.Uint256]int // proposal (PrepareRequest payload hash) and block hash ids
	viol   []string
	silent []time.Time // node is cut off until
	txs    map[util.Uint256]*transaction.Transaction
	blocks map[uint32]*block.Block // first block seen at a height (from any service)
	stop   chan struct{}
	wg     sync.WaitGroup
	start  time.Time
}

func (n *c19Net) violate(f string, a ...any) {
	n.viol = append(n.viol, fmt.Sprintf(f, a...))
}

func (n *c19Net) idOf(h util.Uint256) int {
	if id, ok := n.ids[h]; ok {
		return id
	}
	id := len(n.ids) + 1
	n.ids[h] = id
	return id
}

func c19Keys(n int) []*keys.PrivateKey {
	var ks []*keys.PrivateKey
	for i := 0; i < n; i++ {
		h := sha256.Sum256([]byte(fmt.Sprintf("c19 validator %d of %d", i, n)))
		k, err := keys.NewPrivateKeyFromBytes(h[:])
		if err != nil {
			panic(err)
		}
		ks = append(ks, k)
	}
	sort.Slice(ks, func(a, b int) bool { return ks[a].PublicKey().Cmp(ks[b].PublicKey()) < 0 })
	return ks
}

type c19BQ struct{ nd *c19Node }

// Put is what consensus.processBlock calls with the block it assembled from M commits.
func (q c19BQ) Put(b *block.Block) error {
	nd := q.nd
	err := nd.bc.AddBlock(b)
	net := nd.net
	net.mu.Lock()
	view := (int(b.Index)%net.in.N - int(b.PrimaryIndex) + net.in.N) % net.in.N
	net.trace = append(net.trace, c19Ev{K: "accept", I: nd.i, H: b.Index, V: view, B: net.idOf(b.Hash())})
	if err != nil {
		if have, e2 := nd.bc.GetBlock(b.Hash()); e2 != nil || have == nil {
			net.violate("own ledger rejects the block the consensus service committed (validator %d, height %d): %v", nd.i, b.Index, err)
		}
	}
	if old, ok := net.blocks[b.Index]; ok {
		if old.Hash() != b.Hash() {
			net.violate("two different blocks committed at height %d: %s (validator %d) and %s", b.Index, b.Hash().StringLE(), nd.i, old.Hash().StringLE())
		}
	} else {
		net.blocks[b.Index] = b
	}
	// relay to the others (the server relays every block it adds)
	for j := range net.nodes {
		if j != nd.i {
			net.enqueue(c19Msg{to: j, blk: b, from: nd.i}, true)
		}
	}
	net.mu.Unlock()
	return err
}

// enqueue decides the fate of one delivery (caller holds n.mu)
func (n *c19Net) enqueue(m c19Msg, reliable bool) {
	now := time.Now()
	delay := time.Duration(0)
	if n.in.Mode != "sync" {
		if !reliable && n.r.chance(n.in.DropPct) {
			return
		}
		delay = time.Duration(n.r.intn(n.in.DelayMs+1)) * time.Millisecond
		if !reliable && n.r.chance(n.in.DupPct) {
			d := m
			d.at = now.Add(time.Duration(n.r.intn(3*n.in.DelayMs+1)) * time.Millisecond)
			n.queue = append(n.queue, d)
		}
	}
	m.at = now.Add(delay)
	n.queue = append(n.queue, m)
}

func c19Decode(data []byte) (typ int, h uint32, vi int, view int, ok bool) {
	if len(data) < 7 {
		return
	}
	switch data[0] {
	case 0x20:
		typ = 0
	case 0x21:
		typ = 1
	case 0x30:
		typ = 2
	case 0x00:
		typ = 3
	case 0x40:
		typ = 4
	case 0x41:
		typ = 5
	default:
		return
	}
	h = uint32(data[1]) | uint32(data[2])<<8 | uint32(data[3])<<16 | uint32(data[4])<<24
	return typ, h, int(data[5]), int(data[6]), true
}

func (n *c19Net) broadcast(from int, p *npayload.Extensible) {
	w := io.NewBufBinWriter()
	p.EncodeBinary(w.BinWriter)
	raw := bytes.Clone(w.Bytes())
	n.mu.Lock()
	defer n.mu.Unlock()
	typ, h, vi, view, ok := c19Decode(p.Data)
	if !ok {
		n.violate("validator %d broadcasts an undecodable consensus message", from)
		return
	}
	if vi != from {
		n.violate("validator %d broadcasts a message under index %d", from, vi)
	}
	ev := c19Ev{K: "send", I: from, H: h, T: typ, V: view}
	switch typ {
	case 0:
		ev.B = n.idOf(p.Hash())
	case 1:
		if len(p.Data) >= 39 {
			var ph util.Uint256
			copy(ph[:], p.Data[7:39])
			ev.B = n.idOf(ph)
		}
	case 3:
		ev.V = view + 1 // the view asked for
	}
	n.trace = append(n.trace, ev)
	ref := len(n.trace) - 1
	if time.Now().Before(n.silent[from]) {
		return
	}
	for j := range n.nodes {
		if j != from {
			n.enqueue(c19Msg{to: j, ext: raw, ref: ref, from: from}, false)
		}
	}
}

func (n *c19Net) requestTx(node int, hs []util.Uint256) {
	n.mu.Lock()
	defer n.mu.Unlock()
	var txs []*transaction.Transaction
	for _, h := range hs {
		if tx, ok := n.txs[h]; ok {
			txs = append(txs, tx)
		}
	}
	if len(txs) > 0 {
		n.enqueue(c19Msg{to: node, txs: txs, from: -1}, true)
	}
}

func (n *c19Net) dispatcher() {
	defer n.wg.Done()
	tick := time.NewTicker(2 * time.Millisecond)
	defer tick.Stop()
	for {
		select {
		case <-n.stop:
			return
		case <-tick.C:
		}
		now := time.Now()
		n.mu.Lock()
		var due []c19Msg
		rest := n.queue[:0]
		for _, m := range n.queue {
			if !m.at.After(now) {
				due = append(due, m)
			} else {
				rest = append(rest, m)
			}
		}
		n.queue = rest
		sort.SliceStable(due, func(a, b int) bool { return due[a].at.Before(due[b].at) })
		var keep []c19Msg
		for _, m := range due {
			if m.ext != nil && now.Before(n.silent[m.to]) {
				continue // cut off: consensus payloads to a silent validator are lost
			}
			if m.ext != nil {
				n.trace = append(n.trace, c19Ev{K: "deliver", I: m.to, Ref: m.ref})
			}
			keep = append(keep, m)
		}
		n.mu.Unlock()
		for _, m := range keep {
			nd := n.nodes[m.to]
			switch {
			case m.ext != nil:
				var e npayload.Extensible
				r := io.NewBinReaderFromBuf(m.ext)
				e.DecodeBinary(r)
				if r.Err != nil {
					panic(r.Err)
				}
				_ = nd.srv.OnPayload(&e)
			case m.blk != nil:
				n.feedBlock(nd, m.blk)
			case m.txs != nil:
				for _, tx := range m.txs {
					_ = nd.bc.PoolTx(tx)
					nd.srv.OnTransaction(tx)
				}
			}
		}
	}
}

// a relayed block: the node catches up through the committed blocks in order
func (n *c19Net) feedBlock(nd *c19Node, b *block.Block) {
	for h := nd.bc.BlockHeight() + 1; h <= b.Index; h++ {
		n.mu.Lock()
		x := n.blocks[h]
		n.mu.Unlock()
		if x == nil {
			return
		}
		if err := nd.bc.AddBlock(x); err != nil && nd.bc.BlockHeight() < h {
			n.mu.Lock()
			n.violate("ledger rejects a block committed by another validator (validator %d, height %d): %v", nd.i, h, err)
			n.mu.Unlock()
			return
		}
	}
}

func c19Run(in c19Input) (*c19Net, string) {
	if in.N != 4 && in.N != 7 {
		in.N = 4
	}
	net := &c19Net{in: in, r: newRng(in.Seed), ids: map[util.Uint256]int{}, txs: map[util.Uint256]*transaction.Transaction{},
		blocks: map[uint32]*block.Block{}, stop: make(chan struct{}), silent: make([]time.Time, in.N)}
	ks := c19Keys(in.N)
	var pubs keys.PublicKeys
	var committee []string
	for _, k := range ks {
		pubs = append(pubs, k.PublicKey())
		committee = append(committee, hex.EncodeToString(k.PublicKey().Bytes()))
	}
	tpb := time.Duration(in.TPBms) * time.Millisecond
	hook := func(c *config.Blockchain) {
		c.StandbyCommittee = committee
		c.ValidatorsCount = uint32(in.N)
		c.TimePerBlock = tpb
		c.Genesis.TimePerBlock = tpb
		c.StateRootInHeader = in.StateRt
		c.MaxValidUntilBlockIncrement = 100
		c.Hardforks = map[string]uint32{}
		for _, hf := range config.Hardforks {
			c.Hardforks[hf.String()] = 0
		}
	}
	dir, err := os.MkdirTemp("", "c19-")
	if err != nil {
		panic(err)
	}
	defer os.RemoveAll(dir)
	m := smartcontract.GetDefaultHonestNodeCount(in.N)
	var msAccs []*wallet.Account
	for i, k := range ks {
		tb := &c20TB{}
		bc, _ := chain.NewSingleWithOptions(tb, &chain.Options{Logger: c20Logger(), BlockchainConfigHook: hook})
		nd := &c19Node{i: i, bc: bc, tb: tb, net: net, added: nil}
		path := filepath.Join(dir, fmt.Sprintf("w%d.json", i))
		w, err := wallet.NewWallet(path)
		if err != nil {
			panic(err)
		}
		w.Scrypt = keys.ScryptParams{N: 2, R: 1, P: 1}
		acc := wallet.NewAccountFromPrivateKey(k)
		if err := acc.Encrypt("pass", w.Scrypt); err != nil {
			panic(err)
		}
		w.AddAccount(acc)
		if err := w.Save(); err != nil {
			panic(err)
		}
		i := i
		srv, err := consensus.NewService(consensus.Config{
			Logger:                c20Logger(),
			Broadcast:             func(p *npayload.Extensible) { net.broadcast(i, p) },
			Chain:                 bc,
			BlockQueue:            c19BQ{nd},
			ProtocolConfiguration: bc.GetConfig().ProtocolConfiguration,
			RequestTx:             func(h ...util.Uint256) { net.requestTx(i, h) },
			StopTxFlow:            func() {},
			Wallet:                config.Wallet{Path: path, Password: "pass"},
		})
		if err != nil {
			panic(err)
		}
		nd.srv = srv
		net.nodes = append(net.nodes, nd)
		ma := wallet.NewAccountFromPrivateKey(k)
		if err := ma.ConvertMultisig(m, pubs); err != nil {
			panic(err)
		}
		msAccs = append(msAccs, ma)
	}
	defer func() {
		for _, nd := range net.nodes {
			nd.srv.Shutdown()
		}
		for _, nd := range net.nodes {
			nd.tb.done()
		}
	}()
	// transactions from the validators' multisignature account (holds the initial GAS), spread over the mempools
	signer := neotest.NewMultiSigner(msAccs...)
	var allTx []*transaction.Transaction
	for k := 0; k < in.Txs; k++ {
		tx := transaction.New([]byte{byte(opcode.PUSH1 + opcode.Opcode(k%8)), byte(opcode.RET)}, 1_0000000)
		tx.Nonce = uint32(1000 + k)
		tx.ValidUntilBlock = 90
		tx.Signers = []transaction.Signer{{Account: signer.ScriptHash(), Scopes: transaction.CalledByEntry}}
		neotest.AddNetworkFee(net.nodes[0].tb, net.nodes[0].bc, tx, signer)
		if err := signer.SignTx(net.nodes[0].bc.GetConfig().Magic, tx); err != nil {
			panic(err)
		}
		net.txs[tx.Hash()] = tx
		allTx = append(allTx, tx)
		holders := 0
		for _, nd := range net.nodes {
			if net.r.chance(45) {
				if err := nd.bc.PoolTx(tx); err != nil {
					panic(fmt.Sprintf("valid transaction refused by the pool: %v (tx %s magic %d fee %d/%d scripts %d)", err, tx.Hash().StringLE(), nd.bc.GetConfig().Magic, tx.SystemFee, tx.NetworkFee, len(tx.Scripts)))
				}
				holders++
			}
		}
		if holders == 0 {
			nd := net.nodes[net.r.intn(in.N)]
			if err := nd.bc.PoolTx(tx); err != nil {
				panic(err)
			}
		}
	}
	f := (in.N - 1) / 3
	net.start = time.Now()
	net.wg.Add(1)
	go net.dispatcher()
	for _, nd := range net.nodes {
		i := nd.i
		// a validator that panics under an admissible schedule violates the liveness clause like one that stops answering:
		// reported with the schedule (this case's input) as the replay, not as a crash of the harness
		consensus.VerifStart(nd.srv, func(v any, st []byte) {
			where := ""
			for _, l := range strings.Split(string(st), "\n") {
				if strings.Contains(l, "dbft.(") || strings.Contains(l, "consensus.(*service).") {
					where = strings.TrimSpace(l)
					if k := strings.Index(where, "("); k > 0 && strings.HasSuffix(where, ")") && strings.LastIndex(where, "(") > k {
						where = where[:strings.LastIndex(where, "(")]
					}
					break
				}
			}
			net.mu.Lock()
			net.violate("node panics under an admissible schedule: consensus service of validator %d: %v (in %s)", i, v, where)
			net.mu.Unlock()
		})
	}
	target := uint32(in.Blocks)
	deadline := net.start.Add(time.Duration(in.BudgetMs) * time.Millisecond)
	if in.Mode == "sync" {
		deadline = net.start.Add(180 * time.Second)
	}
	nextSilence := net.start.Add(time.Duration(in.TPBms) * time.Millisecond)
	minHeight := func() uint32 {
		h := ^uint32(0)
		for _, nd := range net.nodes {
			h = min(h, nd.bc.BlockHeight())
		}
		return h
	}
	allIncluded := func() bool {
		for _, tx := range allTx {
			if _, h, err := net.nodes[0].bc.GetTransaction(tx.Hash()); err != nil || h == 0 || h > net.nodes[0].bc.BlockHeight() {
				return false // not on the chain (GetTransaction also answers from the mempool)
			}
		}
		return true
	}
	for {
		time.Sleep(5 * time.Millisecond)
		now := time.Now()
		if in.Mode == "sync" {
			if mh := minHeight(); mh >= target && (allIncluded() || mh >= target+uint32(in.N)+2) {
				break // every validator has been primary since: whatever is still pending was left out
			}
		} else if minHeight() >= target {
			break
		}
		if now.After(deadline) {
			break
		}
		net.mu.Lock()
		nv := len(net.viol)
		net.mu.Unlock()
		if nv > 0 {
			break // something is already wrong: no point in waiting for progress
		}
		if in.Mode == "silent" && now.After(nextSilence) {
			net.mu.Lock()
			// a new set of at most f validators goes quiet for a while (their payloads are lost both ways)
			for i := range net.silent {
				net.silent[i] = time.Time{}
			}
			k := net.r.intn(f + 1)
			for j := 0; j < k; j++ {
				net.silent[net.r.intn(in.N)] = now.Add(time.Duration(in.TPBms*(1+net.r.intn(6))) * time.Millisecond)
			}
			nextSilence = now.Add(time.Duration(in.TPBms*(1+net.r.intn(5))) * time.Millisecond)
			net.mu.Unlock()
		}
	}
	reached := minHeight()
	close(net.stop)
	net.wg.Wait()
	for _, nd := range net.nodes {
		nd.srv.Shutdown()
	}
	net.mu.Lock()
	defer net.mu.Unlock()
	if in.Mode == "sync" && len(net.viol) == 0 {
		if reached < target {
			net.violate("all validators honest and every message delivered, but only height %d of %d was reached in 180 s", reached, target)
		} else if !allIncluded() {
			net.violate("all validators honest and every message delivered: %d blocks were produced but pending valid transactions were left out", reached)
		}
	}
	// agreement on every ledger, and every committed block is acceptable to everybody
	top := uint32(0)
	for _, nd := range net.nodes {
		top = max(top, nd.bc.BlockHeight())
	}
	for h := uint32(1); h <= top; h++ {
		var ref util.Uint256
		var have bool
		for _, nd := range net.nodes {
			if nd.bc.BlockHeight() < h {
				continue
			}
			hh := nd.bc.GetHeaderHash(h)
			if !have {
				ref, have = hh, true
			} else if hh != ref {
				net.violate("validators hold different blocks at height %d: %s and %s", h, ref.StringLE(), hh.StringLE())
			}
		}
	}
	for _, nd := range net.nodes {
		for h := nd.bc.BlockHeight() + 1; h <= top; h++ {
			b := net.blocks[h]
			if b == nil {
				for _, o := range net.nodes {
					if o.bc.BlockHeight() >= h {
						b, _ = o.bc.GetBlock(o.bc.GetHeaderHash(h))
						break
					}
				}
			}
			if b == nil {
				break
			}
			if err := nd.bc.AddBlock(b); err != nil {
				net.violate("ledger rejects a committed block after the run (validator %d, height %d): %v", nd.i, h, err)
				break
			}
		}
	}
	return net, fmt.Sprintf("h%d", min(reached, 9))
}

func c19Coq(net *c19Net) string {
	var evs []string
	for _, e := range net.trace {
		switch e.K {
		case "send":
			evs = append(evs, fmt.Sprintf("ESend %d %d %d %d %d", e.I, e.H, e.T, e.V, e.B))
		case "deliver":
			evs = append(evs, fmt.Sprintf("EDeliver %d %d", e.I, e.Ref))
		case "accept":
			evs = append(evs, fmt.Sprintf("EAccept %d %d %d %d", e.I, e.H, e.V, e.B))
		}
	}
	return fmt.Sprintf("CRun %d %s", net.in.N, coqList(evs))
}

func c19RunCase(co *caseOut, raw json.RawMessage) error {
	var in c19Input
	if err := json.Unmarshal(raw, &in); err != nil {
		return err
	}
	var net *c19Net
	var tag string
	if p := catch(func() { net, tag = c19Run(in) }); p != "" {
		return fmt.Errorf("harness failure in consensus case %s: %s", string(raw), p)
	}
	for _, v := range net.viol {
		co.violation("net", v, in, map[string]any{"events": len(net.trace)})
	}
	sends, accepts, cvs := 0, 0, 0
	for _, e := range net.trace {
		if e.K == "send" {
			sends++
			if e.T == 3 {
				cvs++
			}
		}
		if e.K == "accept" {
			accepts++
		}
	}
	t := fmt.Sprintf("n%d/%s/%s", in.N, in.Mode, tag)
	if cvs > 0 {
		t += "+viewchange"
	}
	co.add("net", t, accepts >= in.N, in, map[string]any{"events": len(net.trace), "sends": sends, "accepts": accepts, "changeviews": cvs}, c19Coq(net))
	return nil
}

func init() { register("c19", runC19) }

const c19Rule = "net: 4- and 7-validator in-process networks of consensus.Service on real ledgers; modes sync (all honest, full delivery: progress and " +
	"inclusion of pending transactions required), lossy (seeded delay/reorder/duplication/drop), silent (lossy + up to f validators cut off for changing " +
	"periods); transactions spread over differing mempools; state root in header on/off; a case is non-trivial when at least n block acceptances by " +
	"consensus services were observed"

func c19Gen(r *rng, i int, thorough bool) c19Input {
	in := c19Input{Seed: r.next() % 1000000, N: 4, Blocks: 3 + r.intn(3), TPBms: 150 + 50*r.intn(3), Txs: 2 + r.intn(8), StateRt: r.bool()}
	if i%5 == 4 {
		in.N = 7
	}
	switch i % 3 {
	case 0:
		in.Mode = "sync"
	case 1:
		in.Mode = "lossy"
	default:
		in.Mode = "silent"
	}
	in.DropPct = 5 + r.intn(25)
	in.DupPct = r.intn(30)
	in.DelayMs = 5 + r.intn(in.TPBms)
	in.BudgetMs = 6000 + 1000*r.intn(4)
	if thorough {
		in.Blocks += r.intn(6)
		in.BudgetMs += 4000
	}
	return in
}

func runC19(args []string) error {
	cf, fs := parseCommon("c19", args)
	fs.Parse(args)
	co := newCaseOut(cf.out, "Harness.C19", "N", c19Rule)
	co.shard = 8
	if cf.replay != "" {
		cases, err := readReplay(cf.replay)
		if err != nil {
			return err
		}
		for _, c := range cases {
			var x c20QCase
			if err := json.Unmarshal(c, &x); err != nil {
				return err
			}
			if err := c19RunCase(co, x.Input); err != nil {
				return err
			}
		}
		return co.finish()
	}
	r := newRng(cf.seed)
	var ins []c19Input
	for i := 0; i < cf.n; i++ {
		ins = append(ins, c19Gen(r, i, cf.tier == "thorough"))
	}
	// networks run side by side (they mostly wait for timers); results are recorded in generation order
	type res struct {
		co  *caseOut
		err error
	}
	outs := make([]res, len(ins))
	sem := make(chan struct{}, 6)
	var wg sync.WaitGroup
	for i := range ins {
		wg.Add(1)
		go func(i int) {
			defer wg.Done()
			sem <- struct{}{}
			defer func() { <-sem }()
			sub := newCaseOut(cf.out, "Harness.C19", "N", c19Rule)
			raw, _ := json.Marshal(ins[i])
			outs[i] = res{sub, c19RunCase(sub, raw)}
		}(i)
	}
	wg.Wait()
	for _, o := range outs {
		if o.err != nil {
			return o.err
		}
		for _, rec := range o.co.recs {
			co.add(rec.Kind, rec.Tag, o.co.nontriv[rec.Coq], rec.Input, rec.Impl, rec.Coq)
		}
		co.direct = append(co.direct, o.co.direct...)
	}
	return co.finish()
}
