package main

// C02, a flush INSIDE a block addition (kind "inblock").
//
// storeBlock assembles a block in two private layers (contract storage + trie nodes + state root; block, transactions,
// execution results, transfer logs, tip pointer) and merges both into the shared write cache by ONE call
// (dao.PersistPrivate) inside its critical section. The timer of Run flushes the write cache (bc.persist: an atomic
// snapshot of the cache, no block-level lock) whenever it fires - also in the middle of a block addition. So a database
// batch carries nothing or everything of a block only because the block reaches the write cache in one step.
// The ordinary scenarios flush between blocks (VerifPersist takes addLock). Here the flush is placed, deterministically,
// at the three points inside storeBlock where the adding goroutine can be made to stop or calls out:
//
//   P  at bc.lock.Lock(): the harness holds the lock for reading (hook VerifRLock, as a long-running VerifyTx does),
//      the adding goroutine parks there after everything it does before the lock; flush; release.
//   W  in the back-pressure wait (persistCond.Wait() inside the critical section, lock released meanwhile): the
//      persist velocity is set to 1 (hook VerifSetKeysPerPersist), so storeBlock waits for a flush whenever the write
//      cache holds more than 4 keys; the flush it waits for is the one the harness performs.
//   M  inside the critical section after the merge: a post-block callback (Blockchain.RegisterPostBlock, the public
//      extension point the Notary service uses) performs the flush on the adding goroutine itself.
//
// The flush is bc.persist() as the timer calls it (hook VerifPersistAsTimer). Where the adding goroutine is parked is
// read off runtime.Stack (quiescence as in c02gate.go: two identical observations of all node goroutines parked; no
// sleep as synchronisation; bound c02GateWait, then an infrastructure error).
// Every recorded batch must be block-aligned (tip pointer N <=> block record N <=> state root N in the same batch),
// every prefix of the batch sequence is re-opened and checked like in kind "persist", and the batches are compared
// with the model's (Node/Crash.v: the flush falls before or after the block's single cache transaction).

import (
	"fmt"
	"regexp"
	"runtime"
	"strconv"
	"strings"
	"sync/atomic"
	"time"

	"github.com/nspcc-dev/neo-go/pkg/core"
	"github.com/nspcc-dev/neo-go/pkg/core/block"
	"github.com/nspcc-dev/neo-go/pkg/core/mempool"
	"github.com/nspcc-dev/neo-go/pkg/core/storage"
	"github.com/nspcc-dev/neo-go/pkg/core/transaction"
)

// c02CacheSnap: what a flush starting at this instant would write (the whole content of the shared write cache)
type c02CacheSnap struct {
	Mem, Stor map[string][]byte
	NB        int     // database batches recorded before it
	Height    uint32  // the node's block height (RAM) at that instant
	Ops       []c02Op // the model's operations completed by then
	At        string  // "b<index>/w<k>": before the k-th write to the shared cache during the addition of that block; "b<index>/end"
}

type c02InBlock struct {
	Snaps     []c02CacheSnap
	nb        func() int
	bc        *core.Blockchain
	postFlush atomic.Bool // the post-block callback flushes when set
	postErr   error
	Hits      map[string]int // P / W / M flushes that wrote something
}

func c02NewInBlock(bc *core.Blockchain) *c02InBlock {
	ib := &c02InBlock{bc: bc, Hits: map[string]int{}}
	bc.RegisterPostBlock(func(func(*transaction.Transaction, *mempool.Pool, bool) bool, *mempool.Pool, *block.Block) {
		if ib.postFlush.Load() {
			n, err := bc.VerifPersistAsTimer()
			if err != nil {
				ib.postErr = err
			}
			if n > 0 {
				ib.Hits["M"]++
			}
		}
	})
	return ib
}

// add adds block b with flushes at the places named in where; it returns the equivalent operations of the model
func (ib *c02InBlock) add(b *block.Block, where string) (done []c02Op, err error) {
	bc := ib.bc
	hdrKnown := bc.HeaderHeight() >= b.Index
	hdrOp := func() {
		if !hdrKnown {
			done = append(done, c02Op{K: "hdr", N: 1}) // AddBlock has recorded the header (its own cache transaction) by now
			hdrKnown = true
		}
	}
	holdR := strings.Contains(where, "P")
	if holdR {
		bc.VerifRLock()
	}
	release := func() {
		if holdR {
			bc.VerifRUnlock()
			holdR = false
		}
	}
	defer release()
	if strings.Contains(where, "W") {
		old := bc.VerifSetKeysPerPersist(1)
		defer bc.VerifSetKeysPerPersist(old)
	}
	ib.postFlush.Store(strings.Contains(where, "M"))
	defer ib.postFlush.Store(false)
	res := make(chan error, 1)
	go func() { res <- bc.AddBlock(b) }()
	deadline := time.Now().Add(c02GateWait)
	last, stable := "", 0
	for {
		select {
		case err = <-res:
			if err == nil && ib.postErr != nil {
				err = ib.postErr
			}
			if err != nil {
				return done, err
			}
			hdrOp()
			done = append(done, c02Op{K: "blk", N: 1})
			if strings.Contains(where, "M") {
				done = append(done, c02Op{K: "flush"})
			}
			return done, nil
		default:
		}
		sig, all, at := c02Settled(0)
		if all && at != "" && sig == last {
			stable++
		} else if all && at != "" {
			stable = 1
		} else {
			stable = 0
		}
		last = sig
		if stable >= 2 {
			// the adding goroutine is parked inside storeBlock and nothing else moves
			n, perr := bc.VerifPersistAsTimer()
			if perr != nil {
				return done, perr
			}
			switch {
			case strings.HasPrefix(at, "sync.Cond"):
				hdrOp()
				done = append(done, c02Op{K: "flush"})
				if n > 0 {
					ib.Hits["W"]++
				}
			case holdR:
				hdrOp()
				done = append(done, c02Op{K: "flush"})
				if n > 0 {
					ib.Hits["P"]++
				}
				release()
			default:
				return done, fmt.Errorf("block %d: the adding goroutine is parked inside storeBlock at %q and a flush does not release it", b.Index, at)
			}
			stable, last = 0, ""
			continue
		}
		if time.Now().After(deadline) {
			return done, fmt.Errorf("block %d: the adding goroutine neither finished nor parked within %s", b.Index, c02GateWait)
		}
		runtime.Gosched()
		time.Sleep(50 * time.Microsecond) // polling interval only; the observed states decide
	}
}

// ---- block alignment of the recorded batches ----

var c02KeyNum = regexp.MustCompile(`^\((KExec|KRoot|KTxs) (\d+)\)$`)

// c02Aligned: tip pointer N <=> block record N <=> state root N, for the blocks a batch carries
func c02Aligned(ix *c02Index, b c02Batch) string {
	if b.Kind != "put" {
		return ""
	}
	ws, _ := c02Abstract(ix, b)
	blocks, roots := map[int]bool{}, map[int]bool{}
	tip, state, mpt := -1, false, false
	for _, w := range ws {
		if m := c02KeyNum.FindStringSubmatch(w.Key); m != nil {
			i, _ := strconv.Atoi(m[2])
			switch {
			case m[1] == "KExec" && w.Val == "(Some ABlk)":
				blocks[i] = true
			case m[1] == "KRoot" && w.Val != "None":
				roots[i] = true
			}
			continue
		}
		switch {
		case w.Key == "KCurBlock" && strings.HasPrefix(w.Val, "(Some (ANum "):
			tip, _ = strconv.Atoi(strings.TrimSuffix(strings.TrimPrefix(w.Val, "(Some (ANum "), "))"))
		case strings.HasPrefix(w.Key, "(KState") && w.Val != "None":
			state = true
		case w.Key == "(KMpt 0)" && w.Val != "None":
			mpt = true
		}
	}
	mx := -1
	for i := range blocks {
		mx = max(mx, i)
		if !roots[i] {
			return fmt.Sprintf("the batch carries the record of block %d without the state root of height %d", i, i)
		}
	}
	for i := range roots {
		if !blocks[i] {
			return fmt.Sprintf("the batch carries the state root of height %d without the record of block %d", i, i)
		}
	}
	if tip != mx {
		if tip >= 0 && mx < 0 {
			return fmt.Sprintf("the batch moves the tip pointer to %d and carries neither that block nor its state root", tip)
		}
		return fmt.Sprintf("the batch carries blocks up to %d and the tip pointer %d", mx, tip)
	}
	if (state || mpt) && mx < 0 {
		return "the batch carries contract storage / trie nodes of a block without the block"
	}
	return ""
}

// ---- stepping the shared write cache (placement "S") ----
//
// The flush of Run's timer is an atomic snapshot of the shared write cache (MemCachedStore.Persist swaps the maps
// under the store's write lock) and needs no other lock, so it can fall between ANY two writes to that cache. Here
// every such instant is visited: the harness holds the cache's READ lock (hook VerifRLock of package storage); the adding
// goroutine parks at its next write (a queued writer - observed with VerifWriterPending and runtime.Stack); the
// harness copies the cache content (VerifPendingChanges: exactly what a Persist starting now would write - a "virtual
// flush"), queues a second reader BEHIND the writer and drops its own lock: the one write goes through and, by the
// semantics of sync.RWMutex, the queued reader owns the lock the moment the writer unlocks - the adding goroutine
// parks again at its next write. No timing is involved anywhere.

//go:noinline
func c02StepReader(L *storage.MemCachedStore, got, rel chan struct{}) {
	L.VerifRLock()
	close(got)
	<-rel
	L.VerifRUnlock()
}

func c02ReaderQueued() bool {
	n := runtime.Stack(c02StackBuf, true)
	for _, gr := range strings.Split(string(c02StackBuf[:n]), "\n\n") {
		hdr, body, _ := strings.Cut(gr, "\n")
		if strings.Contains(body, "main.c02StepReader") && strings.Contains(hdr, "[sync.RWMutex.RLock") {
			return true
		}
	}
	return false
}

// c02StepCache runs f on its own goroutine and stops it before every single write to bc's shared write cache;
// snap(k, at) is called at each stop (k-th write pending; the harness holds the cache's read lock) and once after f
// has returned (at = "end").
func c02StepCache(bc *core.Blockchain, what string, f func() error, snap func(k int, at string)) error {
	L := bc.VerifWriteCache()
	L.VerifRLock()
	release := func() { L.VerifRUnlock() }
	defer func() { release() }()
	res := make(chan error, 1)
	go func() { res <- f() }()
	deadline := time.Now().Add(c02GateWait)
	poll := func(cond func() bool, step string) error {
		for !cond() {
			if time.Now().After(deadline) {
				return fmt.Errorf("%s: %s did not happen within %s", what, step, c02GateWait)
			}
			runtime.Gosched()
			time.Sleep(50 * time.Microsecond) // polling interval only; the observed states decide
		}
		return nil
	}
	for k := 0; ; k++ {
		finished := false
		var ferr error
		last, stable := "", 0
		if err := poll(func() bool {
			select {
			case ferr = <-res:
				finished = true
				return true
			default:
			}
			sig, all, _ := c02Settled(0)
			if all && L.VerifWriterPending() && sig == last {
				stable++
			} else if all && L.VerifWriterPending() {
				stable = 1
			} else {
				stable = 0
			}
			last = sig
			return stable >= 2
		}, "the next write to the shared cache (or the end of the operation)"); err != nil {
			return err
		}
		if finished {
			if ferr != nil {
				return ferr
			}
			snap(k, "end")
			return nil
		}
		snap(k, fmt.Sprintf("w%d", k))
		got, rel := make(chan struct{}), make(chan struct{})
		go c02StepReader(L, got, rel)
		if err := poll(c02ReaderQueued, "queueing the next reader behind the writer"); err != nil {
			return err
		}
		release()
		select {
		case <-got:
		case <-time.After(c02GateWait):
			return fmt.Errorf("%s: the queued reader did not get the lock", what)
		}
		release = func() { close(rel) }
	}
}

func (ib *c02InBlock) addStepping(b *block.Block, before []c02Op) (done []c02Op, err error) {
	bc := ib.bc
	L := bc.VerifWriteCache()
	hdrKnown := bc.HeaderHeight() >= b.Index
	label := func(k int, end bool) []c02Op { // the model's operations behind the cache content before write k
		ops := append([]c02Op{}, before...)
		if !hdrKnown && (k >= 1 || end) {
			ops = append(ops, c02Op{K: "hdr", N: 1})
		}
		if (hdrKnown && k >= 1) || k >= 2 || end {
			ops = append(ops, c02Op{K: "blk", N: 1})
		}
		return ops
	}
	err = c02StepCache(bc, fmt.Sprintf("block %d", b.Index), func() error { return bc.AddBlock(b) }, func(k int, at string) {
		mem, stor := L.VerifPendingChanges()
		ib.Snaps = append(ib.Snaps, c02CacheSnap{Mem: mem, Stor: stor, NB: ib.nb(), Height: bc.BlockHeight(), Ops: label(k, at == "end"), At: fmt.Sprintf("b%d/%s", b.Index, at)})
	})
	if err != nil {
		return nil, err
	}
	if !hdrKnown {
		done = append(done, c02Op{K: "hdr", N: 1})
	}
	return append(done, c02Op{K: "blk", N: 1}), nil
}
