package main

// C20 (ii): the real statesync.Module of a fresh node on LevelDB, fed from a source chain: headers, MPT nodes in
// arbitrary order/batching/duplication, wrong data, restarts (Close + reopen + Init) at arbitrary points, blocks;
// then: state root, full contract storage, the node's own trie, and lock-step continuation against the source.

import (
	"bytes"
	"encoding/binary"
	"encoding/json"
	"fmt"
	"os"
	"sort"
	"strings"

	"github.com/nspcc-dev/neo-go/pkg/core/block"
	"github.com/nspcc-dev/neo-go/pkg/core/mpt"
	"github.com/nspcc-dev/neo-go/pkg/core/statesync"
	"github.com/nspcc-dev/neo-go/pkg/core/storage"
	"github.com/nspcc-dev/neo-go/pkg/core/transaction"
	"github.com/nspcc-dev/neo-go/pkg/crypto/hash"
	"github.com/nspcc-dev/neo-go/pkg/io"
	"github.com/nspcc-dev/neo-go/pkg/util"
)

type c20SrcParams struct {
	Seed     uint64 `json:"seed"`
	Height   int    `json:"height"`
	PerBlock int    `json:"per_block"`
}

type c20SOp struct {
	Op  string `json:"op"`            // hdr | nodes | req | restart | bad | blk | badblk | twin
	To  uint32 `json:"to,omitempty"`  // hdr: deliver headers up to this index
	IDs []int  `json:"ids,omitempty"` // nodes: node ids (first-visit pre-order of the source trie)
	Max int    `json:"max,omitempty"` // req: at most this many of the requested nodes (0 = all) ...
	Sel int    `json:"sel,omitempty"` // ... starting at this offset (mod count) of the sorted request
	Bad string `json:"bad,omitempty"` // bad: foreign | inline | trunc | flip | trail | empty; badblk: strip | drop | reorder | replace | hdr | genuine
	ID  int    `json:"id,omitempty"`  // bad: node the data is derived from
	X   int    `json:"x,omitempty"`   // bad: position / which child
	I   uint32 `json:"i,omitempty"`   // blk: block index
}

type c20SInput struct {
	Src    c20SrcParams `json:"src"`
	Remote uint32       `json:"remote"` // height announced by the peers: selects the sync point
	Ops    []c20SOp     `json:"ops"`
}

// what was executed against the MPT stage, in model terms
type c20SExec struct {
	Coq     string `json:"coq"`
	Err     bool   `json:"err"`
	Panic   string `json:"panic,omitempty"`
	Unknown []int  `json:"unknown"`
}

type c20SImpl struct {
	SyncPoint uint32     `json:"sync_point"`
	Nodes     int        `json:"nodes"`
	Exec      []c20SExec `json:"exec"`
	Restarts  int        `json:"restarts"`
	Finished  bool       `json:"finished"`
	Inline    int        `json:"inline_accepted"`
	Mixed     int        `json:"mixed_messages,omitempty"`
}

var c20Sources = map[c20SrcParams]*c20Source{}

func c20GetSource(p c20SrcParams) *c20Source {
	if s, ok := c20Sources[p]; ok {
		return s
	}
	s := c20NewSource(newRng(p.Seed), p.Height, p.PerBlock)
	c20Sources[p] = s
	return s
}

type c20Sync struct {
	src           *c20Source
	in            c20SInput
	P             uint32
	root          util.Uint256
	nodes         []c20Node
	idOf          map[util.Uint256]int
	bolt          *c20Bolt
	mod           *statesync.Module
	impl          c20SImpl
	viol          []string // direct violations (note)
	dead          bool
	inline        bool // an inline-child node was accepted
	twinsStored   int
	countsChecked bool
	badq          []c20SOp // wrong blocks to offer in the blocks stage, one per block of the window, before the genuine one
	blkObs        []string // what happened to them, in model terms
}

func (c *c20Sync) violate(f string, a ...any) {
	m := fmt.Sprintf(f, a...)
	if c.inline {
		m = "inline-child node accepted earlier (non-canonical encoding); afterwards: " + m
	}
	c.viol = append(c.viol, m)
}

func (c *c20Sync) unknown() []int {
	var ids []int
	for _, h := range c.mod.GetUnknownMPTNodesBatch(1 << 20) {
		id, ok := c.idOf[h]
		if !ok {
			c.violate("module requests a hash that is not a node of the source trie: %s", h.StringLE())
			id = len(c.nodes) + 999
		}
		ids = append(ids, id)
	}
	sort.Ints(ids)
	return ids
}

func c20Ints(a []int) string {
	var sb strings.Builder
	sb.WriteByte('[')
	for i, x := range a {
		if i > 0 {
			sb.WriteByte(';')
		}
		fmt.Fprintf(&sb, "%d", x)
	}
	sb.WriteByte(']')
	return sb.String()
}

func c20EqInts(a, b []int) bool {
	if len(a) != len(b) {
		return false
	}
	for i := range a {
		if a[i] != b[i] {
			return false
		}
	}
	return true
}

func (c *c20Sync) headersUpTo(to uint32) {
	if c.dead || !c.mod.NeedHeaders() {
		return
	}
	from := c.bolt.bc.HeaderHeight() + 1
	to = min(to, c.src.height)
	var hs []*block.Header
	for i := from; i <= to; i++ {
		hs = append(hs, c.src.header(i))
	}
	if len(hs) == 0 {
		return
	}
	if p := catch(func() {
		if err := c.mod.AddHeaders(hs...); err != nil {
			c.violate("AddHeaders(%d..%d) of the source chain: %v", from, to, err)
		}
	}); p != "" {
		c.violate("AddHeaders panics: %s", p)
		c.dead = true
	}
}

// one AddMPTNodes call; items are (bytes, model term)
func (c *c20Sync) addNodes(data [][]byte, terms []string, expectNoChange bool, what string) {
	if c.dead {
		return
	}
	mptStage := c.mod.NeedStorageData()
	var before []int
	if mptStage {
		before = c.unknown()
	}
	var err error
	p := catch(func() { err = c.mod.AddMPTNodes(data) })
	ex := c20SExec{Coq: "SNodes " + coqList(terms), Err: err != nil, Panic: p}
	if p != "" {
		c.violate("AddMPTNodes panics (%s): %s", what, p)
		c.dead = true
		if mptStage {
			c.impl.Exec = append(c.impl.Exec, ex)
		}
		return
	}
	if !mptStage {
		if err == nil && len(data) > 0 {
			c.violate("AddMPTNodes outside the MPT stage returns no error (%s)", what)
		}
		if c.mod.NeedHeaders() || !c.mod.IsActive() {
			return // the model starts with the headers in place and ends with the jump
		}
	}
	ex.Unknown = c.unknown()
	c.impl.Exec = append(c.impl.Exec, ex)
	if expectNoChange && mptStage && !c20EqInts(before, ex.Unknown) {
		c.violate("data that was not requested or does not decode changed the set of requested nodes (%s): %v -> %v", what, before, ex.Unknown)
	}
}

func (c *c20Sync) nodeItem(id int) ([]byte, string) {
	return c.nodes[id].bytes, fmt.Sprintf("SI %d []", id)
}

func (c *c20Sync) restart() {
	if c.dead {
		return
	}
	c.impl.Restarts++
	mptStage := c.mod.NeedStorageData()
	var perr error
	p := catch(func() {
		if err := c.bolt.reopen(); err != nil {
			perr = err
			return
		}
		c.mod = c.bolt.bc.GetStateSyncModule()
		perr = c.mod.Init(c.in.Remote)
	})
	if p != "" || perr != nil {
		if mptStage {
			c.impl.Exec = append(c.impl.Exec, c20SExec{Coq: "SRestart", Panic: p + fmt.Sprint(perr)})
		}
		if p != "" {
			c.violate("restart of the syncing node panics: %s", p)
		} else {
			c.violate("restart of the syncing node fails: %v", perr)
		}
		c.dead = true
		return
	}
	if mptStage {
		c.impl.Exec = append(c.impl.Exec, c20SExec{Coq: "SRestart", Unknown: c.unknown()})
	}
}

func (c *c20Sync) bad(op c20SOp) {
	n := len(c.nodes)
	id := ((op.ID % n) + n) % n
	nd := c.nodes[id]
	switch op.Bad {
	case "trail": // canonical bytes followed by one more byte: decodes to the same node
		b := append(bytes.Clone(nd.bytes), byte(op.X))
		c.addNodes([][]byte{b}, []string{fmt.Sprintf("SI %d []", id)}, false, "trailing byte")
	case "trunc":
		k := 1 + op.X%max(1, len(nd.bytes)-1)
		c.addNodes([][]byte{bytes.Clone(nd.bytes[:k])}, []string{"SBad"}, true, "truncated node")
	case "flip":
		b := bytes.Clone(nd.bytes)
		b[op.X%len(b)] ^= byte(1 << (op.X % 7))
		var no mpt.NodeObject
		r := io.NewBinReaderFromBuf(b)
		no.DecodeBinary(r)
		term := "SBad"
		if r.Err == nil && no.Type() == mpt.EmptyT {
			// decodes to an EmptyNode: not a node anybody can have requested; must be refused like undecodable bytes
			c.addNodes([][]byte{b}, []string{"SBad"}, true, "empty node")
			return
		}
		if r.Err == nil {
			h := hash.DoubleSha256(no.Bytes())
			if k, ok := c.idOf[h]; ok {
				term = fmt.Sprintf("SI %d []", k) // flipped a byte the canonical form does not depend on
				if !bytes.HasPrefix(b, no.Bytes()) {
					return // another non-canonical encoding of a trie node: the model has no term for it
				}
				c.addNodes([][]byte{b}, []string{term}, false, "flipped byte")
				return
			}
			term = fmt.Sprintf("SForeign %d", n+1+op.X%7)
			if !bytes.HasPrefix(b, no.Bytes()) {
				term = fmt.Sprintf("SForeignNC %d", n+1+op.X%7) // decodes, but not to what a canonical encoder writes
			}
		}
		c.addNodes([][]byte{b}, []string{term}, true, "flipped byte")
	case "empty":
		c.addNodes([][]byte{{byte(mpt.EmptyT)}}, []string{"SBad"}, true, "empty node")
	case "foreign":
		// a well-formed leaf nobody asked for
		w := io.NewBufBinWriter()
		w.WriteB(byte(mpt.LeafT))
		w.WriteVarBytes([]byte(fmt.Sprintf("foreign-%d", op.X)))
		c.addNodes([][]byte{w.Bytes()}, []string{fmt.Sprintf("SForeign %d", n+1+op.X%7)}, true, "foreign leaf")
	case "inline":
		// a node whose child number X is sent inline instead of by hash (F8)
		if len(nd.kids) == 0 {
			c.addNodes([][]byte{nd.bytes}, []string{fmt.Sprintf("SI %d []", id)}, false, "plain node")
			return
		}
		kid := nd.kids[op.X%len(nd.kids)]
		kb := c.nodes[c.idOf[kid]].bytes
		needle := append([]byte{byte(mpt.HashT)}, kid.BytesBE()...)
		i := bytes.Index(nd.bytes, needle)
		if i < 0 {
			panic("child reference not found in the parent's encoding")
		}
		crafted := append(append(bytes.Clone(nd.bytes[:i]), kb...), nd.bytes[i+len(needle):]...)
		// all references to this child become inline in the model (the encoding replaces the first one; a node
		// with the same child twice keeps a hash reference, so only use children that occur once)
		if bytes.Count(nd.bytes, needle) != 1 {
			c.addNodes([][]byte{nd.bytes}, []string{fmt.Sprintf("SI %d []", id)}, false, "plain node")
			return
		}
		requested := false
		if c.mod.NeedStorageData() {
			for _, u := range c.unknown() {
				requested = requested || u == id
			}
		}
		c.addNodes([][]byte{crafted}, []string{fmt.Sprintf("SI %d [%d]", id, c.idOf[kid])}, false, "inline child")
		if requested && !c.dead && len(c.impl.Exec) > 0 && !c.impl.Exec[len(c.impl.Exec)-1].Err {
			c.inline = true
			c.impl.Inline++
		}
	}
}

func (c *c20Sync) run() {
	defer func() {
		if c.bolt != nil {
			catch(func() { c.bolt.close() })
			os.RemoveAll(c.bolt.dir)
		}
	}()
	c.src = c20GetSource(c.in.Src)
	c.P = (c.in.Remote / c20Interval) * c20Interval
	c.impl.SyncPoint = c.P
	c.root = c.src.root(c.P)
	c.nodes = c.src.nodes(c.root)
	c.impl.Nodes = len(c.nodes)
	c.idOf = map[util.Uint256]int{}
	for i, n := range c.nodes {
		c.idOf[n.h] = i
	}
	dir, err := os.MkdirTemp("", "c20bolt-")
	if err != nil {
		panic(err)
	}
	c.bolt, err = c20OpenBolt(dir)
	if err != nil {
		panic(err)
	}
	c.mod = c.bolt.bc.GetStateSyncModule()
	if err := c.mod.Init(c.in.Remote); err != nil {
		panic(fmt.Sprintf("Init(%d): %v", c.in.Remote, err))
	}
	if !c.mod.IsActive() || c.mod.GetStateSyncPoint() != c.P {
		panic(fmt.Sprintf("state sync not started: active=%v point=%d expected %d", c.mod.IsActive(), c.mod.GetStateSyncPoint(), c.P))
	}
	for _, op := range c.in.Ops {
		if c.dead {
			break
		}
		switch op.Op {
		case "hdr":
			c.headersUpTo(op.To)
		case "nodes":
			var data [][]byte
			var terms []string
			for _, id := range op.IDs {
				b, t := c.nodeItem(((id % len(c.nodes)) + len(c.nodes)) % len(c.nodes))
				data = append(data, b)
				terms = append(terms, t)
			}
			c.addNodes(data, terms, false, "nodes of the trie")
		case "req":
			if !c.mod.NeedStorageData() {
				continue
			}
			u := c.unknown()
			if len(u) == 0 {
				continue
			}
			k := len(u)
			if op.Max > 0 && op.Max < k {
				k = op.Max
			}
			var data [][]byte
			var terms []string
			for j := 0; j < k; j++ {
				id := u[(op.Sel+j)%len(u)]
				if id >= len(c.nodes) {
					continue
				}
				b, t := c.nodeItem(id)
				data = append(data, b)
				terms = append(terms, t)
			}
			c.addNodes(data, terms, false, "requested nodes")
		case "restart":
			c.restart()
		case "bad":
			c.bad(op)
		case "twin":
			c.twin(op)
		case "mixed":
			c.mixed(op)
		case "badblk":
			c.badq = append(c.badq, op)
		case "blk":
			if op.I == 0 || op.I > c.src.height {
				continue
			}
			needed := c.mod.NeedBlocks()
			var before uint32
			if needed {
				before = c.mod.BlockHeight()
			}
			var err error
			if p := catch(func() { err = c.mod.AddBlock(c.src.block(op.I)) }); p != "" {
				c.violate("AddBlock panics: %s", p)
				c.dead = true
				continue
			}
			if needed && c.mod.IsActive() {
				after := c.mod.BlockHeight()
				if op.I != before+1 && after != before {
					c.violate("block %d accepted at height %d", op.I, before)
				}
				if op.I == before+1 && (err != nil || after != before+1) {
					c.violate("next block %d not accepted: %v", op.I, err)
				}
			}
		}
	}
	c.finish()
}

// complete the synchronisation the plain way and compare with the source
func (c *c20Sync) finish() {
	if c.dead {
		return
	}
	c.headersUpTo(c.src.height)
	if c.dead {
		return
	}
	if c.mod.NeedHeaders() {
		c.violate("headers are complete but the module still asks for headers")
		return
	}
	for round := 0; c.mod.NeedStorageData(); round++ {
		if round > len(c.nodes)+3 {
			c.violate("state sync does not complete: still %d unknown nodes after %d rounds of delivering everything requested", len(c.unknown()), round)
			return
		}
		u := c.unknown()
		var data [][]byte
		var terms []string
		for _, id := range u {
			if id < len(c.nodes) {
				b, t := c.nodeItem(id)
				data = append(data, b)
				terms = append(terms, t)
			}
		}
		c.addNodes(data, terms, false, "requested nodes")
		if c.dead {
			return
		}
		if n := len(c.impl.Exec); n > 0 && c.impl.Exec[n-1].Err {
			c.violate("AddMPTNodes refuses requested canonical nodes of the source trie")
			return
		}
	}
	if c.mod.IsActive() && !c.inline && !c.countsChecked {
		c.countsChecked = true
		c.checkCounts()
	}
	if c.mod.IsActive() {
		if !c.mod.NeedBlocks() {
			c.violate("MPT is synchronised but the module neither needs blocks nor is finished")
			return
		}
		for i := c.mod.BlockHeight() + 1; i <= c.P; i++ {
			if len(c.badq) > 0 {
				op := c.badq[0]
				c.badq = c.badq[1:]
				if !c.badBlock(i, op) {
					return
				}
				if !c.mod.IsActive() || c.mod.BlockHeight() >= i {
					continue // it was the genuine block (control): accepted
				}
			}
			var err error
			if p := catch(func() { err = c.mod.AddBlock(c.src.block(i)) }); p != "" {
				c.violate("AddBlock(%d) panics%s: %s", i, c.inlineNote(), p)
				c.dead = true
				return
			}
			if err != nil {
				c.violate("AddBlock(%d): %v", i, err)
				return
			}
		}
	}
	if c.mod.IsActive() || c.bolt.bc.BlockHeight() != c.P {
		c.violate("state sync not finished after headers, nodes and blocks: active=%v height=%d sync point=%d", c.mod.IsActive(), c.bolt.bc.BlockHeight(), c.P)
		return
	}
	c.impl.Finished = true
	bc := c.bolt.bc
	if got := bc.GetStateModule().CurrentLocalStateRoot(); got != c.root {
		c.violate("state root after sync %s, source has %s", got.StringLE(), c.root.StringLE())
	}
	want := c.src.content(c.root)
	if p := catch(func() {
		if ok, why := c20KVEqual(want, c20Dump(bc)); !ok {
			c.violate("contract storage after sync differs from the source at the sync point%s: %s", c.inlineNote(), why)
		}
	}); p != "" {
		c.violate("reading contract storage after sync panics%s: %s", c.inlineNote(), p)
	}
	// the node's own trie must be complete
	if p := catch(func() {
		var got []c20KV
		bc.GetStateModule().SeekStates(c.root, nil, func(k, v []byte) bool {
			got = append(got, c20KV{bytes.Clone(k), bytes.Clone(v)})
			return true
		})
		if ok, why := c20KVEqual(want, got); !ok {
			c.violate("trie of the synchronised node is incomplete%s: %s", c.inlineNote(), why)
		}
		for _, kv := range want[:min(len(want), 40)] {
			if v, err := bc.GetStateModule().GetState(c.root, kv.k); err != nil || !bytes.Equal(v, kv.v) {
				c.violate("trie of the synchronised node is incomplete%s: key %x: %v", c.inlineNote(), kv.k, err)
				break
			}
		}
	}); p != "" {
		c.violate("walking the synchronised trie panics%s: %s", c.inlineNote(), p)
	}
	// the blocks of the traceable window, as stored by the blocks stage, with their transactions
	lo := uint32(1)
	if c.P > c20Traceable {
		lo = c.P - c20Traceable + 1
	}
	for i := lo; i <= c.P; i++ {
		want := c.src.block(i)
		got, err := bc.GetBlock(bc.GetHeaderHash(i))
		if err != nil || got.Hash() != want.Hash() || len(got.Transactions) != len(want.Transactions) {
			n := -1
			if got != nil {
				n = len(got.Transactions)
			}
			c.violate("block %d of the synchronised window is not the source's block with its %d transactions (stored: %d transactions, error %v)", i, len(want.Transactions), n, err)
			break
		}
		for k := range want.Transactions {
			if got.Transactions[k].Hash() != want.Transactions[k].Hash() {
				c.violate("block %d of the synchronised window holds another transaction at position %d than the source's block", i, k)
				break
			}
			if tx, hh, err := bc.GetTransaction(want.Transactions[k].Hash()); err != nil || hh != i || tx.Hash() != want.Transactions[k].Hash() {
				c.violate("transaction %d of block %d of the synchronised window cannot be looked up (height %d, error %v)", k, i, hh, err)
				break
			}
		}
	}
	// lock step with the source from here on
	for i := c.P + 1; i <= c.src.height; i++ {
		var err error
		if p := catch(func() { err = bc.AddBlock(c.src.block(i)) }); p != "" {
			c.violate("block %d after the sync point panics%s: %s", i, c.inlineNote(), p)
			return
		}
		if err != nil {
			c.violate("block %d after the sync point is rejected%s: %v", i, c.inlineNote(), err)
			return
		}
		r, err := bc.GetStateModule().GetStateRoot(i)
		if err != nil || r.Root != c.src.root(i) {
			c.violate("state root at height %d differs from the source%s", i, c.inlineNote())
			return
		}
	}
}

func (c *c20Sync) inlineNote() string { return "" }

func (c *c20Sync) coq() string {
	var tree []string
	for i, n := range c.nodes {
		var kids []string
		for j, k := range n.kids {
			kids = append(kids, fmt.Sprintf("(%s,%d)", coqBytes(n.labels[j]), c.idOf[k]))
		}
		lv := "None"
		if n.leaf {
			lv = "(Some 0)"
		}
		tree = append(tree, fmt.Sprintf("(%d, mkNode %s %s)", i, coqList(kids), lv))
	}
	var ops, obs []string
	for _, e := range c.impl.Exec {
		ops = append(ops, e.Coq)
		obs = append(obs, fmt.Sprintf("(%s,%s,%s)", coqBool(e.Err), coqBool(e.Panic != ""), c20Ints(e.Unknown)))
	}
	return fmt.Sprintf("CSync 0 %s %s %s %s", coqList(tree), coqList(ops), coqList(obs), coqList(c.blkObs))
}

func c20GenSync(r *rng, src c20SrcParams, thorough bool) c20SInput {
	maxP := uint32((src.Height - 1) / c20Interval * c20Interval)
	nP := int(maxP/c20Interval) - 1 // sync points 8, 12, ..., maxP
	P := uint32(2+r.intn(nP)) * c20Interval
	remote := P + uint32(r.intn(c20Interval))
	if int(remote) > src.Height {
		remote = uint32(src.Height)
	}
	in := c20SInput{Src: src, Remote: remote}
	add := func(o c20SOp) { in.Ops = append(in.Ops, o) }
	// headers
	if r.chance(30) {
		add(c20SOp{Op: "nodes", IDs: []int{0}}) // too early
	}
	if r.chance(50) {
		add(c20SOp{Op: "hdr", To: uint32(1 + r.intn(int(P)))})
		if r.chance(40) {
			add(c20SOp{Op: "restart"})
		}
	}
	add(c20SOp{Op: "hdr", To: uint32(src.Height)})
	// a node that sits at several paths, stored before its children, then a restart
	if r.chance(45) {
		add(c20SOp{Op: "twin", ID: r.intn(64), X: pick(r, []int{0, 0, 1, 0, 2, 3})})
		if r.chance(40) {
			add(c20SOp{Op: "twin", ID: r.intn(64), X: r.intn(2)})
		}
	}
	// MPT stage
	n := 4 + r.intn(16)
	if thorough {
		n = 10 + r.intn(60)
	}
	for i := 0; i < n; i++ {
		switch x := r.intn(100); {
		case x < 52:
			o := c20SOp{Op: "req", Sel: r.intn(64)}
			if r.chance(75) {
				o.Max = 1 + r.intn(9)
			}
			add(o)
		case x < 62:
			var ids []int
			for j := 0; j < 1+r.intn(6); j++ {
				ids = append(ids, r.intn(400))
			}
			if r.chance(30) {
				ids = append(ids, ids[0]) // the same node twice in one batch
			}
			add(c20SOp{Op: "nodes", IDs: ids})
		case x < 74:
			add(c20SOp{Op: "restart"})
		case x < 96:
			add(c20SOp{Op: "bad", Bad: pick(r, []string{"foreign", "inline", "inline", "trunc", "flip", "flip", "trail", "empty"}), ID: r.intn(400), X: r.intn(1000)})
		default:
			add(c20SOp{Op: "blk", I: uint32(1 + r.intn(src.Height))})
		}
	}
	// blocks stage: wrong transaction lists under the genuine header, offered before the genuine block
	for j := r.intn(5); j > 0; j-- {
		add(c20SOp{Op: "badblk", Bad: pick(r, []string{"strip", "strip", "drop", "reorder", "replace", "hdr", "genuine"}), X: r.intn(100)})
	}
	// blocks stage: sometimes out of order / duplicated / interrupted
	if r.chance(50) {
		for j := 0; j < 1+r.intn(5); j++ {
			add(c20SOp{Op: "blk", I: P - uint32(r.intn(c20Traceable+2))})
			if r.chance(15) {
				add(c20SOp{Op: "restart"})
			}
		}
	}
	return in
}

// ---- one MESSAGE with requested nodes, then a node that is refused, then more requested nodes (eighth round) ----

// the bad item of a mixed message: bytes, model term, whether AddMPTNodes has to return an error for it
func (c *c20Sync) badItem(op c20SOp) ([]byte, string, bool) {
	n := len(c.nodes)
	id := ((op.ID % n) + n) % n
	switch op.Bad {
	case "trunc":
		nd := c.nodes[id]
		if len(nd.bytes) >= 3 {
			return bytes.Clone(nd.bytes[:1+op.X%(len(nd.bytes)-2)]), "SBad", true
		}
	case "empty":
		return []byte{byte(mpt.EmptyT)}, "SBad", true
	case "foreign": // a well-formed leaf nobody asked for: skipped without an error, the message goes on
		w := io.NewBufBinWriter()
		w.WriteB(byte(mpt.LeafT))
		w.WriteVarBytes([]byte(fmt.Sprintf("foreign-%d", op.X)))
		return w.Bytes(), fmt.Sprintf("SForeign %d", n+1+op.X%7), false
	case "inline": // non-canonical: one child sent inline instead of by hash
		for j := 0; j < n; j++ {
			nd := c.nodes[(id+j)%n]
			if len(nd.kids) == 0 {
				continue
			}
			kid := nd.kids[op.X%len(nd.kids)]
			needle := append([]byte{byte(mpt.HashT)}, kid.BytesBE()...)
			if bytes.Count(nd.bytes, needle) != 1 {
				continue
			}
			i := bytes.Index(nd.bytes, needle)
			kb := c.nodes[c.idOf[kid]].bytes
			crafted := append(append(bytes.Clone(nd.bytes[:i]), kb...), nd.bytes[i+len(needle):]...)
			return crafted, fmt.Sprintf("SI %d [%d]", (id+j)%n, c.idOf[kid]), true
		}
	}
	// junk: a type byte no node has, then noise
	b := []byte{0xf0 | byte(op.X%16)}
	for j := 0; j < 1+op.X%9; j++ {
		b = append(b, byte(op.X*31+j*7))
	}
	return b, "SBad", true
}

func (c *c20Sync) storedInDB(id int) bool {
	_, err := c.bolt.st.Get(append([]byte{byte(storage.DataMPT)}, c.nodes[id].h[:]...))
	return err == nil
}

// pool and database together: walking the source trie from the root, below every node that is in the database every child is
// in the database or requested ("unrequested => stored"); false + the offending node otherwise
func (c *c20Sync) frontier(requested []int) (bool, int, int) {
	if _, err := c.bolt.bc.VerifPersist(); err != nil {
		panic(err)
	}
	req := map[int]bool{}
	for _, u := range requested {
		req[u] = true
	}
	rootID := c.idOf[c.root]
	if !c.storedInDB(rootID) {
		return req[rootID], rootID, -1
	}
	seen := map[int]bool{rootID: true}
	queue := []int{rootID}
	for len(queue) > 0 {
		id := queue[0]
		queue = queue[1:]
		for _, k := range c.nodes[id].kids {
			kid := c.idOf[k]
			if seen[kid] {
				continue
			}
			seen[kid] = true
			if c.storedInDB(kid) {
				queue = append(queue, kid)
			} else if !req[kid] {
				return false, kid, id
			}
		}
	}
	return true, 0, 0
}

// Max = number of requested nodes before the bad one, Sel = number after it
func (c *c20Sync) mixed(op c20SOp) {
	if c.dead || !c.mod.NeedStorageData() {
		return
	}
	u := c.unknown()
	if len(u) == 0 || u[len(u)-1] >= len(c.nodes) {
		return
	}
	off := op.X % len(u)
	u = append(append([]int{}, u[off:]...), u[:off]...)
	k := min(max(op.Max, 1), len(u))
	before, after := u[:k], u[k:min(len(u), k+op.Sel)]
	var data [][]byte
	var terms []string
	for _, id := range before {
		b, t := c.nodeItem(id)
		data, terms = append(data, b), append(terms, t)
	}
	bb, bt, wantErr := c.badItem(op)
	data, terms = append(data, bb), append(terms, bt)
	for _, id := range after {
		b, t := c.nodeItem(id)
		data, terms = append(data, b), append(terms, t)
	}
	nx := len(c.impl.Exec)
	c.addNodes(data, terms, false, "requested nodes, a refused node, requested nodes in one message")
	if c.dead || len(c.impl.Exec) == nx {
		return
	}
	c.impl.Mixed++
	ex := c.impl.Exec[len(c.impl.Exec)-1]
	what := fmt.Sprintf("%d requested node(s), then a %s node, then %d requested node(s)", len(before), op.Bad, len(after))
	if ex.Err != wantErr {
		c.violate("one message with requested nodes and a node to be refused: error returned = %v, expected %v (%s)", ex.Err, wantErr, what)
		return
	}
	now := map[int]bool{}
	for _, x := range ex.Unknown {
		now[x] = true
	}
	if ok, kid, parent := c.frontier(ex.Unknown); !ok {
		c.violate("after a refused message a node is neither requested nor in the database although its parent is stored (pool and database disagree: the accepted part of the message was dropped): node %d below %d; %s", kid, parent, what)
		return
	}
	for _, id := range before {
		if now[id] || !c.storedInDB(id) {
			c.violate("a requested node delivered BEFORE the refused node of the same message is not restored: node %d requested again = %v, in the database = %v; %s", id, now[id], c.storedInDB(id), what)
			return
		}
	}
	for _, id := range after {
		if wantErr && (!now[id] || c.storedInDB(id)) {
			c.violate("a node delivered AFTER the refused node of the same message was processed although the error was returned: node %d still requested = %v, in the database = %v; %s", id, now[id], c.storedInDB(id), what)
			return
		}
		if !wantErr && (now[id] || !c.storedInDB(id)) {
			c.violate("a requested node delivered after a skipped foreign node of the same message is not restored: node %d; %s", id, what)
			return
		}
	}
}

// a synchronisation whose MPT stage is made of mixed messages; no restart before the end unless [control]
func c20GenMixed(r *rng, src c20SrcParams, control bool) c20SInput {
	maxP := uint32((src.Height - 1) / c20Interval * c20Interval)
	nP := int(maxP/c20Interval) - 1
	P := uint32(2+r.intn(nP)) * c20Interval
	in := c20SInput{Src: src, Remote: P + uint32(r.intn(2))}
	add := func(o c20SOp) { in.Ops = append(in.Ops, o) }
	add(c20SOp{Op: "hdr", To: uint32(src.Height)})
	add(c20SOp{Op: "req", Max: 1}) // the root
	kinds := []string{"junk", "inline", "empty", "foreign", "trunc"}
	for i, k := range []int{1, 2, 5, 1, 2, 5, 2, 5} {
		if r.chance(60) {
			add(c20SOp{Op: "req", Max: 1 + r.intn(3), Sel: r.intn(16)})
		}
		add(c20SOp{Op: "mixed", Max: k, Sel: 1 + r.intn(3), Bad: kinds[(i+r.intn(2)*3)%len(kinds)], ID: r.intn(400), X: r.intn(1000)})
		if control {
			add(c20SOp{Op: "restart"})
		}
	}
	return in
}

func c20RunSyncCase(co *caseOut, raw json.RawMessage) error {
	var in c20SInput
	if err := json.Unmarshal(raw, &in); err != nil {
		return err
	}
	c := &c20Sync{in: in}
	if p := catch(func() { c.run() }); p != "" {
		return fmt.Errorf("harness failure in sync case %s: %s", string(raw), p)
	}
	for _, v := range c.viol {
		co.violation("sync", v, in, c.impl)
	}
	tag := fmt.Sprintf("n%d", min(c.impl.Nodes/50*50, 300))
	if c.impl.Restarts > 0 {
		tag += "+restart"
	}
	if c.twinsStored > 0 {
		tag += "+twin"
	}
	if c.impl.Inline > 0 {
		tag += "+inline"
	}
	if c.impl.Mixed > 0 {
		tag += fmt.Sprintf("+mixed%d", min(c.impl.Mixed/3*3, 6))
	}
	if !c.impl.Finished {
		tag += "+unfinished"
	}
	for _, o := range c.blkObs {
		if !strings.HasPrefix(o, "(0,") {
			tag += "+badblk"
			break
		}
	}
	co.add("sync", tag, len(c.impl.Exec) >= 3, in, c.impl, c.coq())
	return nil
}

func init() { register("c20sync", runC20Sync) }

const c20SyncRule = "sync: source chains built with neotest (storage contract with clustered keys and repeated values, puts and deletes), " +
	"every admissible sync point, headers in one or several batches, MPT nodes by request subsets / arbitrary ids / duplicates, wrong data " +
	"(foreign leaf, node with an inline child, truncated, bit-flipped, trailing byte, EmptyNode), restarts (Close + reopen on LevelDB + Init) in every " +
	"stage, blocks in and out of order, blocks of the window with a stripped / shortened / reordered / foreign transaction list under the genuine header; a case is non-trivial when at least three operations reached the MPT stage"

func runC20Sync(args []string) error {
	cf, fs := parseCommon("c20sync", args)
	fs.Parse(args)
	co := newCaseOut(cf.out, "Harness.C20", "N", c20SyncRule)
	co.shard = 40
	defer func() {
		for _, s := range c20Sources {
			s.close()
		}
	}()
	if cf.replay != "" {
		cases, err := readReplay(cf.replay)
		if err != nil {
			return err
		}
		for _, c := range cases {
			var x c20QCase
			if err := json.Unmarshal(c, &x); err != nil {
				return err
			}
			if err := c20RunSyncCase(co, x.Input); err != nil {
				return err
			}
		}
		return co.finish()
	}
	r := newRng(cf.seed)
	nsrc := max(2, cf.n/40)
	var srcs []c20SrcParams
	for i := 0; i < nsrc; i++ {
		p := c20SrcParams{Seed: cf.seed*1000 + uint64(i), Height: 14 + 4*r.intn(3), PerBlock: 2 + r.intn(5)}
		if cf.tier == "thorough" && i%3 == 0 {
			p.PerBlock = 8 + r.intn(10)
		}
		srcs = append(srcs, p)
	}
	for i := 0; i < cf.n; i++ {
		in := c20GenSync(r, srcs[i%len(srcs)], cf.tier == "thorough")
		if i%5 == 4 { // every fifth case: mixed messages, alternately without any restart and with one after every message
			in = c20GenMixed(r, srcs[i%len(srcs)], i%10 == 9)
		}
		raw, _ := json.Marshal(in)
		if err := c20RunSyncCase(co, raw); err != nil {
			return err
		}
	}
	return co.finish()
}

// offer a wrong version of block i (genuine header, other transaction list) in the blocks stage; false = stop
func (c *c20Sync) badBlock(i uint32, op c20SOp) bool {
	src := c.src.block(i)
	b := *src
	txs := append([]*transaction.Transaction{}, src.Transactions...)
	variant := op.Bad
	switch op.Bad {
	case "strip":
		txs = nil
	case "drop":
		if len(txs) > 0 {
			k := op.X % len(txs)
			txs = append(txs[:k:k], txs[k+1:]...)
		}
	case "reorder":
		if len(txs) > 1 {
			k := op.X % (len(txs) - 1)
			txs[k], txs[k+1] = txs[k+1], txs[k]
		}
	case "replace":
		if len(txs) > 0 {
			var other *transaction.Transaction
			for j := uint32(1); j <= c.src.height && other == nil; j++ {
				if j != i && len(c.src.block(j).Transactions) > 0 {
					other = c.src.block(j).Transactions[0]
				}
			}
			if other != nil {
				txs[op.X%len(txs)] = other
			}
		}
	case "hdr": // the genuine transactions under a header that is not the synchronised one (fresh struct: no cached hash)
		h := src.Header
		b = block.Block{Header: block.Header{Version: h.Version, PrevHash: h.PrevHash, MerkleRoot: h.MerkleRoot, Timestamp: h.Timestamp + 1,
			Nonce: h.Nonce, Index: h.Index, NextConsensus: h.NextConsensus, Script: h.Script, StateRootEnabled: h.StateRootEnabled,
			PrevStateRoot: h.PrevStateRoot, PrimaryIndex: h.PrimaryIndex}}
		if b.Hash() == src.Hash() {
			panic("altered header has the hash of the genuine one")
		}
	default:
		variant = "genuine"
	}
	b.Transactions = txs
	same := len(txs) == len(src.Transactions)
	for k := 0; same && k < len(txs); k++ {
		same = txs[k].Hash() == src.Transactions[k].Hash()
	}
	if same && op.Bad != "hdr" {
		variant = "genuine" // nothing to change in this block (e.g. it has no transactions): the control case
	}
	before := c.mod.BlockHeight()
	var err error
	if p := catch(func() { err = c.mod.AddBlock(&b) }); p != "" {
		c.violate("AddBlock panics on a block with a wrong transaction list (%s): %s", variant, p)
		c.dead = true
		return false
	}
	after := before
	if c.mod.IsActive() {
		after = c.mod.BlockHeight()
	} else {
		after = c.bolt.bc.BlockHeight()
	}
	accepted := err == nil && after == before+1
	c.blkObs = append(c.blkObs, fmt.Sprintf("(%d,%d,%d,%s)", map[string]int{"genuine": 0, "strip": 1, "drop": 2, "reorder": 3, "replace": 4, "hdr": 5}[variant],
		len(src.Transactions), len(txs), coqBool(accepted)))
	if variant != "genuine" {
		if accepted {
			c.violate("blocks stage accepts a block that is not the source chain's block of that index (%s: block %d, %d of %d transactions delivered)", variant, i, len(txs), len(src.Transactions))
			return false
		}
		if after != before {
			c.violate("a refused block changed the height of the blocks stage (%d -> %d)", before, after)
			return false
		}
		// (a header-only record of an empty block is indistinguishable from the block through GetBlock, so "nothing was
		// stored" is observed through the stage's height and, after the jump, through the window comparison)
	} else if !accepted {
		c.violate("blocks stage refuses the genuine block %d: %v", i, err)
		return false
	}
	return true
}

// number of occurrences (paths) of every node of the source trie
func (c *c20Sync) occurrences() []int {
	occ := make([]int, len(c.nodes))
	indeg := make([]int, len(c.nodes))
	for _, n := range c.nodes {
		for _, k := range n.kids {
			indeg[c.idOf[k]]++
		}
	}
	occ[0] = 1
	var queue []int
	for i := range c.nodes {
		if indeg[i] == 0 {
			queue = append(queue, i)
		}
	}
	for len(queue) > 0 {
		i := queue[0]
		queue = queue[1:]
		for _, k := range c.nodes[i].kids {
			j := c.idOf[k]
			occ[j] += occ[i]
			if indeg[j]--; indeg[j] == 0 {
				queue = append(queue, j)
			}
		}
	}
	return occ
}

// "twin": store a node that sits at several paths and has children, one node per AddMPTNodes call, top-down, its children
// last; restart right after it is stored (X&1: every delivery duplicated; X&2: a restart after EVERY single node)
func (c *c20Sync) twin(op c20SOp) {
	if c.dead || !c.mod.NeedStorageData() {
		return
	}
	occ := c.occurrences()
	var twins []int
	for i, n := range c.nodes {
		if occ[i] >= 2 && len(n.kids) > 0 {
			twins = append(twins, i)
		}
	}
	if len(twins) == 0 {
		return
	}
	t := twins[op.ID%len(twins)]
	anc := map[int]bool{}
	parents := map[int][]int{}
	for i, n := range c.nodes {
		for _, k := range n.kids {
			parents[c.idOf[k]] = append(parents[c.idOf[k]], i)
		}
	}
	var up func(i int)
	up = func(i int) {
		for _, p := range parents[i] {
			if !anc[p] {
				anc[p] = true
				up(p)
			}
		}
	}
	up(t)
	deliver := func(id int) {
		b, term := c.nodeItem(id)
		c.addNodes([][]byte{b}, []string{term}, false, "single node")
		if op.X&1 != 0 {
			c.addNodes([][]byte{b}, []string{term}, false, "single node again")
		}
		if op.X&2 != 0 {
			c.restart()
		}
	}
	for guard := 0; guard < len(c.nodes)+2 && !c.dead && c.mod.NeedStorageData(); guard++ {
		progress := false
		for _, u := range c.unknown() {
			if u < len(c.nodes) && anc[u] {
				deliver(u)
				progress = true
				break
			}
		}
		if !progress {
			break
		}
	}
	if c.dead || !c.mod.NeedStorageData() {
		return
	}
	for _, u := range c.unknown() {
		if u == t {
			deliver(t)
			c.twinsStored++
			if !c.dead {
				c.restart() // the twin is stored at all its paths, none of its children is
			}
			return
		}
	}
}

// reference counts in the database right after the MPT stage completes = occurrences in the trie
func (c *c20Sync) checkCounts() {
	occ := c.occurrences()
	for i, n := range c.nodes {
		v, err := c.bolt.st.Get(append([]byte{byte(storage.DataMPT)}, n.h[:]...))
		cnt := -1
		if err == nil && len(v) >= 4 {
			cnt = int(binary.LittleEndian.Uint32(v[len(v)-4:]))
		}
		if cnt != occ[i] {
			c.violate("reference count of a restored trie node differs from the number of paths it occurs at (node %d: %d paths at the sync point, stored count %d)", i, occ[i], cnt)
			return
		}
	}
}
